(* The file a first Put writes on a missing config, read back from its BYTES. *)
From Coq Require Import Lia.
From Oras Require Import Base.Prelude Generated.GC18 Model.Utf8 Model.Json Model.Base64 Model.CredFile
  Model.JsonDoc Model.JsonRead Base.FlatFS Model.CredSave Proofs.Json Proofs.Base64 Proofs.CredFile Proofs.CredJson Proofs.JsonRead Proofs.CredSave.

(* json.Indent copies a string token unchanged *)
Lemma indent_ascii_unit c R need d :
  c < 128 -> indent_from true need d (quote_ascii c ++ R) = quote_ascii c ++ indent_from true need d R.
Proof.
  intro H. apply ascii_in in H. unfold ascii_codes in H. cbn [seq map N.of_nat] in H.
  repeat (destruct H as [<-|H]; [reflexivity|]). destruct H.
Qed.

Lemma indent_high u : forall R need d,
  Forall (fun x => 128 <= x) u -> indent_from true need d (u ++ R) = u ++ indent_from true need d R.
Proof.
  induction u as [|x u IH]; intros R need d F; [reflexivity|].
  inversion F as [|? ? X F']; subst. cbn [app indent_from].
  assert (E1 : (x =? dq) = false) by (apply N.eqb_neq; unfold dq; lia).
  assert (E2 : (x =? bs) = false) by (apply N.eqb_neq; unfold bs; lia).
  rewrite E1, E2, (IH R need d F'). reflexivity.
Qed.

Lemma indent_quote_fuel n : forall s R need d,
  indent_from true need d (quote_fuel n s ++ dq :: R) = quote_fuel n s ++ dq :: indent_from false need d R.
Proof.
  induction n as [|n IH]; intros [|c r] R need d; try reflexivity.
  cbn [quote_fuel].
  destruct (rune_len (c :: r)) as [[|[|k]]|] eqn:RL.
  - destruct (rune_len_length _ _ RL). lia.
  - assert (C : c < 128).
    { unfold rune_len in RL. destruct (c <? 128) eqn:E; [now apply N.ltb_lt|].
      repeat match type of RL with
             | (if ?b then _ else _) = _ => destruct b; try discriminate
             | match ?l with _ => _ end = _ => destruct l; try discriminate
             end. }
    rewrite <- !app_assoc, indent_ascii_unit by exact C. now rewrite IH.
  - destruct (ls_ps (c :: r)) as [x|] eqn:LP.
    + rewrite <- !app_assoc.
      assert (D : x = 56 \/ x = 57).
      { unfold ls_ps in LP. destruct r as [|x1 [|y r']]; try discriminate.
        destruct ((c =? 226) && (x1 =? 128)); [|discriminate].
        destruct (y =? 168); [injection LP as <-; now left|].
        destruct (y =? 169); [injection LP as <-; now right|discriminate]. }
      destruct D as [-> | ->]; cbn [app indent_from N.eqb Pos.eqb dq bs]; rewrite IH; reflexivity.
    + rewrite <- !app_assoc, indent_high by (apply (rune_high _ _ RL); lia). now rewrite IH.
  - rewrite <- !app_assoc. unfold esc_fffd. cbn [app indent_from N.eqb Pos.eqb dq bs]. rewrite IH. reflexivity.
Qed.

Lemma indent_json_quote x R need d :
  indent_from true need d (json_quote x ++ dq :: R) = json_quote x ++ dq :: indent_from false need d R.
Proof. apply indent_quote_fuel. Qed.

(* ---------- the document with one Put-written entry: written, indented, read back ---------- *)
Lemma quote_auths : json_quote configFieldAuths = configFieldAuths.
Proof. vm_compute. reflexivity. Qed.
Lemma unq_auths : json_unquote [97; 117; 116; 104; 115] = Some [97; 117; 116; 104; 115].
Proof. vm_compute. reflexivity. Qed.
Lemma unq_auth : json_unquote [97; 117; 116; 104] = Some [97; 117; 116; 104].
Proof. vm_compute. reflexivity. Qed.
Lemma unq_idtok : json_unquote [105; 100; 101; 110; 116; 105; 116; 121; 116; 111; 107; 101; 110]
                  = Some [105; 100; 101; 110; 116; 105; 116; 121; 116; 111; 107; 101; 110].
Proof. vm_compute. reflexivity. Qed.
Lemma unq_regtok : json_unquote [114; 101; 103; 105; 115; 116; 114; 121; 116; 111; 107; 101; 110]
                   = Some [114; 101; 103; 105; 115; 116; 114; 121; 116; 111; 107; 101; 110].
Proof. vm_compute. reflexivity. Qed.
Lemma pvalue_string' n v rest :
  valid_utf8 v = true -> pvalue (S n) (34 :: json_quote v ++ 34 :: rest) = Some (JStr v, rest).
Proof. exact (pvalue_string n v rest). Qed.
Lemma scan_json_quote' x Q : scan_string (json_quote x ++ 34 :: Q) = Some (json_quote x, Q).
Proof. exact (scan_json_quote x Q). Qed.

Definition one_entry_doc (a A I R : str) : fdoc := [(configFieldAuths, TAuths [(a, Fresh A I R)])].

Opaque json_quote.

Ltac indent_all :=
  repeat (repeat rewrite <- app_assoc; cbn [app]; rewrite indent_json_quote; cbn -[json_quote]).
Ltac read_step :=
  first [ rewrite pmembers_step | rewrite pvalue_obj_step | rewrite scan_json_quote'
        | rewrite pvalue_string' by assumption | rewrite json_string_roundtrip by assumption
        | rewrite unq_auths | rewrite unq_auth | rewrite unq_idtok | rewrite unq_regtok
        | progress cbn -[json_quote json_unquote pvalue pmembers src_between valid_utf8] ].
Ltac read_back :=
  unfold one_entry_doc, render_file, render_object, sort_keys, render_top, render_entry, render_fresh, member;
  cbn [fold_right insert_key map fst snd lookup join_comma app]; rewrite quote_auths;
  unfold indent_json; cbn -[json_quote]; indent_all; unfold dq;
  unfold read_config, parse_first; repeat read_step.

Lemma one_entry_reads_back a A I R :
  valid_utf8 a = true -> valid_utf8 A = true -> valid_utf8 I = true -> valid_utf8 R = true ->
  exists l src, read_config (render_file [] [] (one_entry_doc a A I R)) = Some l /\
                l_doc l = [(configFieldAuths, TAuths [(a, Old src (VFields A I R [] []))])] /\
                l_helpers l = [].
Proof.
  intros Va VA VI VR.
  destruct A as [|x A]; destruct I as [|y I]; destruct R as [|z R];
    eexists; eexists; (split; [read_back; reflexivity|split; reflexivity]).
Qed.

Transparent json_quote.

Definition fresh_store : state := {| st_mem := empty_mem; st_file := None |}.

Lemma first_put_doc a c :
  put_accepts a c = true ->
  st_file (fst (step b64_encode b64_decode fresh_store (Put a c))) =
    Some (one_entry_doc a (encode_auth b64_encode (c_user c) (c_pass c)) (c_refresh c) (c_access c)).
Proof. intro ACC. cbn [step fresh_store st_mem]. rewrite ACC. reflexivity. Qed.

(* the first Put on a missing config file, then NewFileStore on the BYTES that were
   written: Get answers the stored credential (every candidate) *)
Lemma first_put_reopen a c :
  put_accepts a c = true -> bytes (c_user c ++ colon :: c_pass c) ->
  exists d, st_file (fst (step b64_encode b64_decode fresh_store (Put a c))) = Some d /\
  exists st2 tops ents,
    open_bytes (Some (render_file [] [] d)) = Some (st2, tops, ents) /\
    get_candidates b64_decode (cache_of st2) a = [RCred c].
Proof.
  intros ACC B. destruct (put_accepts_valid a c ACC) as (VA & VR & VT).
  eexists. split; [apply first_put_doc; exact ACC|].
  destruct (one_entry_reads_back a (encode_auth b64_encode (c_user c) (c_pass c)) (c_refresh c) (c_access c)
              VA (encode_auth_valid _ _ B) VR VT) as (l & src & RC & LD & _).
  set (e := Old src (VFields (encode_auth b64_encode (c_user c) (c_pass c)) (c_refresh c) (c_access c) [] [])) in *.
  unfold open_bytes. rewrite RC. cbv beta iota. rewrite LD.
  match goal with |- context [open_store ?x] =>
    assert (OS : open_store x =
               Some {| st_mem := {| m_content := [(configFieldAuths, TAuths [(a, e)])]; m_cache := [(a, e)]; m_cs := [] |};
                       st_file := Some [(configFieldAuths, TAuths [(a, e)])] |}) by reflexivity;
    rewrite OS
  end.
  eexists. eexists. eexists. split; [reflexivity|].
  unfold cache_of. cbn [st_mem m_cache].
  assert (LK : lookup a [(a, e)] = Some e) by (cbn [lookup]; now rewrite str_eqb_refl).
  rewrite (candidates_exact b64_decode _ a e LK). subst e. cbn [cred_of_entry].
  f_equal.
  exact (codec_roundtrip b64_encode b64_decode bytes b64_roundtrip b64_encode_nonempty c (put_accepts_colon a c ACC) B).
Qed.

(* ---------- the JSON premise of C18_atomic_op, discharged for the first Put with the
   model's REAL writer and reader ---------- *)
Definition entry_view (e : entry) : view :=
  match e with Fresh a i r => VFields a i r [] [] | Old _ v => v end.
Definition tview (kv : str * tval) : str * option (list (str * view)) :=
  (fst kv, match snd kv with
           | TAuths l => Some (map (fun ae => (fst ae, entry_view (snd ae))) l)
           | _ => None
           end).
(* same keys, and the same AuthConfig view of every auths entry *)
Definition views_eq (d' d : fdoc) : Prop := map tview d' = map tview d.

Definition file_writer (d : fdoc) : str := render_file [] [] d.
Definition file_reader (text : str) : option fdoc :=
  match read_config text with Some l => Some (l_doc l) | None => None end.

Lemma first_put_reads_back a c :
  put_accepts a c = true -> bytes (c_user c ++ colon :: c_pass c) ->
  reads_back b64_encode b64_decode file_writer file_reader views_eq fresh_store (Put a c).
Proof.
  intros ACC B d E. rewrite (first_put_doc a c ACC) in E. injection E as <-.
  destruct (put_accepts_valid a c ACC) as (VA & VR & VT).
  destruct (one_entry_reads_back a (encode_auth b64_encode (c_user c) (c_pass c)) (c_refresh c) (c_access c)
              VA (encode_auth_valid _ _ B) VR VT) as (l & src & RC & LD & _).
  exists (l_doc l). unfold file_reader, file_writer. rewrite RC. split; [reflexivity|].
  rewrite LD. reflexivity.
Qed.

(* the first Put on a machine without a config file, crash at any point (between two
   system calls or inside a write): the config path is still absent, or it holds
   bytes that the reader reads as the document with the stored entry, mode 0600 *)
Lemma first_put_crash_bytes a c (chunking : str -> list str) (dir : list path) (p t : path) s pre :
  (forall x, concat (chunking x) = x) ->
  put_accepts a c = true -> bytes (c_user c ++ colon :: c_pass c) ->
  t <> p -> fget t s = None -> fget p s = None ->
  crash_cut (op_steps b64_encode b64_decode file_writer chunking dir p t fresh_store (Put a c)) pre ->
  let d := one_entry_doc a (encode_auth b64_encode (c_user c) (c_pass c)) (c_refresh c) (c_access c) in
  let s' := exec_all s pre in
  (fget p s' = None \/
   disk_is file_reader views_eq p s' (Some d) /\ exists f, fget p s' = Some f /\ f_mode f = mode_file) /\
  (pre = op_steps b64_encode b64_decode file_writer chunking dir p t fresh_store (Put a c) ->
   disk_is file_reader views_eq p s' (Some d)).
Proof.
  intros CH ACC B NE FT FP C d s'.
  pose proof (atomic_op b64_encode b64_decode file_writer file_reader views_eq chunking CH dir p t
                        fresh_store (Put a c) s pre NE FT (first_put_reads_back a c ACC B) FP C) as (X & Y & _).
  rewrite (first_put_doc a c ACC) in X, Y. fold d in X, Y. fold s' in X, Y.
  split; [|exact Y].
  destruct X as [X|[X1 X2]]; [left; exact X|right].
  split; [exact X1|]. apply X2. cbn [saves]. exact ACC.
Qed.

(* ---------- lifted to histories: any number of Puts for ONE address on a missing config
   (login, token refresh, re-login ...): the file always reopens to the last credential ---------- *)
Definition one_entry_mem (a : str) (e : entry) : mem :=
  {| m_content := [(configFieldAuths, TAuths [(a, e)])]; m_cache := [(a, e)]; m_cs := [] |}.

Definition one_addr_shape (a : str) (st : state) : Prop :=
  st = fresh_store \/ exists e, st_mem st = one_entry_mem a e.

Lemma one_addr_put a c st :
  one_addr_shape a st -> put_accepts a c = true ->
  let st' := fst (step b64_encode b64_decode st (Put a c)) in
  st_file st' = Some (one_entry_doc a (encode_auth b64_encode (c_user c) (c_pass c)) (c_refresh c) (c_access c)) /\
  one_addr_shape a st'.
Proof.
  intros SH ACC. cbn [step]. rewrite ACC. cbn [negb fst].
  destruct SH as [->|[e M]].
  - split; [reflexivity|]. right. eexists. reflexivity.
  - rewrite M. unfold one_entry_mem. cbn [m_content m_cache m_cs save saved_doc st_file st_mem].
    assert (D1 : del a [(a, e)] = []).
    { unfold del. cbn [filter fst]. rewrite str_eqb_refl. reflexivity. }
    unfold saved_doc, set. cbn [m_content m_cache m_cs]. rewrite D1.
    split; [reflexivity|]. right. eexists. unfold one_entry_mem. reflexivity.
Qed.

Lemma repeated_put_reopen a : forall (cs : list cred) c st,
  one_addr_shape a st ->
  Forall (fun c => put_accepts a c = true /\ bytes (c_user c ++ colon :: c_pass c)) (cs ++ [c]) ->
  let stf := run b64_encode b64_decode st (map (Put a) (cs ++ [c])) in
  exists d, st_file stf = Some d /\
  exists st2 tops ents,
    open_bytes (Some (render_file [] [] d)) = Some (st2, tops, ents) /\
    get_candidates b64_decode (cache_of st2) a = [RCred c].
Proof.
  induction cs as [|c0 cs IH]; intros c st SH F.
  - inversion F as [|? ? [ACC B] _]; subst. cbn [app map run].
    destruct (one_addr_put a c st SH ACC) as [FD _].
    eexists. split; [exact FD|].
    destruct (put_accepts_valid a c ACC) as (VA & VR & VT).
    destruct (one_entry_reads_back a (encode_auth b64_encode (c_user c) (c_pass c)) (c_refresh c) (c_access c)
                VA (encode_auth_valid _ _ B) VR VT) as (l & src & RC & LD & _).
    set (e := Old src (VFields (encode_auth b64_encode (c_user c) (c_pass c)) (c_refresh c) (c_access c) [] [])) in *.
    unfold open_bytes. rewrite RC. cbv beta iota. rewrite LD.
    match goal with |- context [open_store ?x] =>
      assert (OS : open_store x =
                 Some {| st_mem := {| m_content := [(configFieldAuths, TAuths [(a, e)])]; m_cache := [(a, e)]; m_cs := [] |};
                         st_file := Some [(configFieldAuths, TAuths [(a, e)])] |}) by reflexivity;
      rewrite OS
    end.
    eexists. eexists. eexists. split; [reflexivity|].
    unfold cache_of. cbn [st_mem m_cache].
    assert (LK : lookup a [(a, e)] = Some e) by (cbn [lookup]; now rewrite str_eqb_refl).
    rewrite (candidates_exact b64_decode _ a e LK). subst e. cbn [cred_of_entry].
    f_equal.
    exact (codec_roundtrip b64_encode b64_decode bytes b64_roundtrip b64_encode_nonempty c (put_accepts_colon a c ACC) B).
  - inversion F as [|? ? [ACC B] F']; subst. cbn [app map run].
    destruct (one_addr_put a c0 st SH ACC) as [_ SH'].
    exact (IH c _ SH' F').
Qed.
