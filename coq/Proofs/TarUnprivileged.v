(* C12: an unprivileged user unpacks exactly what root unpacks.  With restoreDirModes every
   directory exists with owner write+search permission while entries are created (mode | 0700
   under a umask without owner write/search bits), so the kernel's check on creating an entry
   never fails -- for EVERY archive, not only those written by Add.  The code before the fix
   fails on a read-only directory. *)
From Oras Require Import Base.Prelude Generated.GC12 Model.TarRoundTrip Proofs.TarRoundTrip Proofs.TarModeSweep.

Definition all_dirs_wx (f : fs) : Prop :=
  forall p m, fs_lookup f p = Some (NDir m) -> has_wx m = true.

Definition umask_keeps_wx (umask : N) : Prop := N.land umask owner_wx = 0.

Lemma umask_bits umask : umask_keeps_wx umask -> N.testbit umask 6 = false /\ N.testbit umask 7 = false.
Proof.
  intro Hu. unfold umask_keeps_wx, owner_wx in Hu.
  assert (H6 : N.testbit (N.land umask 192) 6 = false) by (rewrite Hu; apply N.bits_0).
  assert (H7 : N.testbit (N.land umask 192) 7 = false) by (rewrite Hu; apply N.bits_0).
  rewrite N.land_spec in H6, H7.
  change (N.testbit 192 6) with true in H6. change (N.testbit 192 7) with true in H7.
  rewrite andb_true_r in H6, H7. now split.
Qed.

(* a directory created with (m | 0700) under such a umask is writable and searchable *)
Lemma has_wx_created umask m :
  umask_keeps_wx umask -> has_wx (create_mode dir_create_bits umask (N.lor m owner_rwx)) = true.
Proof.
  intro Hu. destruct (umask_bits umask Hu) as [H6 H7].
  unfold has_wx. apply N.eqb_eq. apply N.bits_inj. intro i.
  unfold create_mode, dir_create_bits, owner_rwx, c12_dir_owner_bits, owner_wx. bit_specs.
  destruct (N.eq_dec i 6) as [->|N6]; [const_bits; rewrite H6; var_bits; reflexivity|].
  destruct (N.eq_dec i 7) as [->|N7]; [const_bits; rewrite H7; var_bits; reflexivity|].
  assert (N.testbit 192 i = false) as ->.
  { destruct (N.lt_ge_cases i 8) as [Hi|Hi].
    - assert (Hc : i = 0 \/ i = 1 \/ i = 2 \/ i = 3 \/ i = 4 \/ i = 5) by lia.
      repeat (destruct Hc as [->|Hc]; [reflexivity|]). subst i. reflexivity.
    - apply (testbit_small 192 8); [reflexivity|exact Hi]. }
  now rewrite andb_false_r.
Qed.

Lemma has_wx_lor a c : has_wx a = true -> has_wx (N.lor a c) = true.
Proof.
  unfold has_wx. intro Ha. apply N.eqb_eq in Ha. apply N.eqb_eq.
  rewrite N.land_lor_distr_l, Ha. apply N.bits_inj. intro i.
  rewrite N.lor_spec, N.land_spec. destruct (N.testbit owner_wx i), (N.testbit c i); reflexivity.
Qed.

Lemma has_wx_base umask : umask_keeps_wx umask -> has_wx (create_mode dir_create_bits umask 511) = true.
Proof.
  intro Hu.
  change (create_mode dir_create_bits umask 511) with (create_mode dir_create_bits umask (N.lor 511 owner_rwx)).
  now apply has_wx_created.
Qed.

Lemma all_dirs_wx_init umask : umask_keeps_wx umask -> all_dirs_wx (fs_init umask).
Proof.
  intros Hu p m E. unfold fs_init in E. destruct p; simpl in E; [|discriminate].
  injection E as <-. now apply has_wx_base.
Qed.

Lemma set_wx f p n :
  all_dirs_wx f -> (forall m, n = NDir m -> has_wx m = true) -> all_dirs_wx (fs_set f p n).
Proof.
  intros Hf Hn q m. rewrite lookup_set. destruct (path_eqb p q).
  - intro E. injection E as ->. now apply Hn.
  - apply Hf.
Qed.

Lemma mkdir_all_wx umask m : umask_keeps_wx umask -> forall rp f f',
  all_dirs_wx f -> mkdir_all umask (N.lor m owner_rwx) f rp = Ok f' -> all_dirs_wx f'.
Proof.
  intro Hu. induction rp as [|x rp IH]; intros f f' Hf E; simpl in E.
  - destruct (fs_lookup f []) as [[| |]|]; try discriminate; injection E as <-; [exact Hf|].
    apply set_wx; [exact Hf|]. intros m0 E0. injection E0 as <-. now apply has_wx_created.
  - destruct (fs_lookup f (rev rp ++ [x])) as [[| |]|]; try discriminate; [injection E as <-; exact Hf|].
    destruct (mkdir_all umask (N.lor m owner_rwx) f rp) as [f1|] eqn:E1; [|discriminate].
    injection E as <-. apply set_wx; [eapply IH; eauto|].
    intros m0 E0. injection E0 as <-. apply has_wx_lor. now apply has_wx_created.
Qed.

Ltac split_ok :=
  repeat match goal with
  | H : Ok _ = Ok _ |- _ => injection H as <-
  | H : Err _ = Ok _ |- _ => discriminate H
  | H : (if ?c then _ else _) = Ok _ |- _ => destruct c eqn:?
  | H : match ?x with _ => _ end = Ok _ |- _ => destruct x eqn:?
  end.

Lemma not_dir_file c m0 : forall m, NFile c m0 = NDir m -> has_wx m = true.
Proof. discriminate. Qed.
Lemma not_dir_link g : forall m, NLink g = NDir m -> has_wx m = true.
Proof. discriminate. Qed.

Lemma step_wx pre umask preserve f e f' :
  umask_keeps_wx umask -> all_dirs_wx f ->
  extract_entry pre umask preserve f e = Ok f' -> all_dirs_wx f'.
Proof.
  intros Hu Hf E. unfold extract_entry in E. destruct preserve; split_ok;
    repeat (apply set_wx; [|first [apply not_dir_file | apply not_dir_link]]);
    try exact Hf.
  all: try (eapply mkdir_all_wx; eauto).

Qed.

Lemma ancestor_wx_true f : all_dirs_wx f -> forall rp, ancestor_wx f rp = true.
Proof.
  intros Hf. induction rp as [|x rp IH]; simpl.
  - destruct (fs_lookup f []) as [[| m |]|] eqn:E; try reflexivity. exact (Hf _ _ E).
  - destruct (fs_lookup f (rev rp ++ [x])) as [[| m |]|] eqn:E; try reflexivity; [exact (Hf _ _ E)|exact IH].
Qed.

Lemma perm_ok_true priv pre f e : all_dirs_wx f -> perm_ok priv pre f e = true.
Proof.
  intro Hf. unfold perm_ok. destruct priv; [reflexivity|]. simpl.
  destruct (strip_prefix pre (e_name e)) as [rel|]; [|reflexivity].
  destruct (e_kind e), (fs_lookup f rel) as [[| |]|]; try reflexivity; now apply ancestor_wx_true.
Qed.

Lemma extract_list_p_eq priv pre umask preserve : umask_keeps_wx umask -> forall es f,
  all_dirs_wx f ->
  extract_list_p priv pre umask preserve f es = extract_list pre umask preserve f es.
Proof.
  intro Hu. induction es as [|e es IH]; intros f Hf; simpl; [reflexivity|].
  unfold extract_entry_p. rewrite (perm_ok_true priv pre f e Hf).
  destruct (extract_entry pre umask preserve f e) as [f'|] eqn:E; [|reflexivity].
  apply IH. eapply step_wx; eauto.
Qed.

(* whatever the archive: the unprivileged run is the privileged one *)
Theorem unprivileged_same_as_root priv pre umask preserve es :
  umask_keeps_wx umask ->
  extract_p priv pre umask preserve es = extract pre umask preserve es.
Proof.
  intro Hu. unfold extract_p, extract.
  now rewrite (extract_list_p_eq priv pre umask preserve Hu es (fs_init umask) (all_dirs_wx_init umask Hu)).
Qed.

(* root passes every check, whatever the umask *)
Lemma extract_list_p_root pre umask preserve : forall es f,
  extract_list_p true pre umask preserve f es = extract_list pre umask preserve f es.
Proof.
  induction es as [|e es IH]; intro f; simpl; [reflexivity|].
  unfold extract_entry_p. simpl.
  destruct (extract_entry pre umask preserve f e); [apply IH|reflexivity].
Qed.

Lemma unprivileged_same_as_root_any es pre umask preserve :
  extract_p true pre umask preserve es = extract pre umask preserve es.
Proof. unfold extract_p, extract. now rewrite extract_list_p_root. Qed.

(* the code before restoreDirModes: a read-only directory cannot be filled by its owner *)
Definition readonly_dir_witness : tree :=
  Dir 493 0 [(b "ro", Dir 365 0 [(b "f", File (b "x") 292 0)])].

Theorem readonly_dir_prefix_refuted :
  extract_prefix_p false [b "d"] 18 false (tar_entries [b "d"] true readonly_dir_witness) = Err XPerm /\
  extract_prefix_p false [b "d"] 18 true (tar_entries [b "d"] true readonly_dir_witness) = Err XPerm /\
  (exists f, extract_prefix_p true [b "d"] 18 false (tar_entries [b "d"] true readonly_dir_witness) = Ok f) /\
  exists f', extract_p false [b "d"] 18 false (tar_entries [b "d"] true readonly_dir_witness) = Ok f' /\
    fs_lookup f' [b "ro"] = Some (NDir 365) /\ fs_lookup f' [b "ro"; b "f"] = Some (NFile (b "x") 292).
Proof.
  split; [vm_compute; reflexivity|]. split; [vm_compute; reflexivity|].
  split; [eexists; vm_compute; reflexivity|].
  eexists. split; [vm_compute; reflexivity|]. split; vm_compute; reflexivity.
Qed.

(* the round trip for an unprivileged user *)
From Oras Require Import Proofs.TarWalkOrder Proofs.TarRootMode.
Theorem roundtrip_unprivileged pre umask preserve repro T :
  umask_keeps_wx umask -> (preserve = false -> umask <= 511) ->
  is_dir T = true -> wf_treeb T = true -> modes_okb T = true -> benign_tree pre T = true ->
  exists f', extract_p false pre umask preserve (tar_entries pre repro T) = Ok f' /\
    forall p, fs_lookup f' p = expected umask preserve T p.
Proof.
  intros Hw Hu Hd Hwf Hmo Hbe. rewrite (unprivileged_same_as_root false pre umask preserve _ Hw).
  now apply roundtrip_walk_full.
Qed.

(* ---------- what is on disk when Push returns ---------- *)
Lemma extract_list_partial_spec priv pre umask preserve : forall es f,
  extract_list_p priv pre umask preserve f es =
  match extract_list_partial priv pre umask preserve f es with
  | (f', None) => Ok f'
  | (_, Some x) => Err x
  end.
Proof.
  induction es as [|e es IH]; intro f; simpl; [reflexivity|].
  destruct (extract_entry_p priv pre umask preserve f e); [apply IH|reflexivity].
Qed.

(* the partial-state function agrees with the extraction: same verdict, and on success the same
   file system *)
Theorem extract_partial_spec priv pre umask preserve es :
  extract_p priv pre umask preserve es =
  match extract_partial priv pre umask preserve es with
  | (f, None) => Ok f
  | (_, Some x) => Err x
  end.
Proof.
  unfold extract_p, extract_partial. rewrite extract_list_partial_spec.
  destruct (extract_list_partial priv pre umask preserve (fs_init umask) es) as [f [x|]]; reflexivity.
Qed.

(* whatever happens, what is on disk extends the pre-created directory: bindings are only added *)
Lemma extract_list_partial_root priv pre umask preserve : forall es f x f',
  extract_list_partial priv pre umask preserve f es = (f', Some x) ->
  exists done rest e, es = done ++ e :: rest /\
    extract_list_p priv pre umask preserve f done = Ok f' /\
    extract_entry_p priv pre umask preserve f' e = Err x.
Proof.
  induction es as [|e es IH]; intros f x f' E; simpl in E; [discriminate|].
  destruct (extract_entry_p priv pre umask preserve f e) as [f1|x1] eqn:E1.
  - destruct (IH f1 x f' E) as (done & rest & e0 & -> & Hd & He).
    exists (e :: done), rest, e0. split; [reflexivity|]. split; [|exact He]. simpl. now rewrite E1.
  - injection E as <- <-. exists [], es, e. split; [reflexivity|]. split; [reflexivity|exact E1].
Qed.

Section Residue.
  Variable digest : Type.
  Variable H : str -> digest.
  Variable digest_eqb : digest -> digest -> bool.
  Variable enc : list entry -> str.
  Variable dec : str -> option (list entry).
  Variable gz : str -> str.
  Variable gunz : str -> option str.
  Hypothesis digest_eqb_spec : forall a b, digest_eqb a b = true <-> a = b.
  Hypothesis dec_enc : forall es, dec (enc es) = Some es.
  Hypothesis gunz_gz : forall s, gunz (gz s) = Some s.

  (* a successful Push leaves exactly what it returns *)
  Theorem residue_of_success umask preserve d blob f :
    unpack digest H digest_eqb dec gunz umask preserve d blob = Ok f ->
    unpack_residue digest H digest_eqb dec gunz umask preserve d blob = f.
  Proof.
    unfold unpack, unpack_residue.
    destruct (negb _); [discriminate|]. destruct (gunz blob) as [tarb|]; [|discriminate].
    destruct (dec tarb) as [es|]; [|discriminate].
    rewrite <- (unprivileged_same_as_root_any es (d_title digest d) umask preserve).
    rewrite (extract_partial_spec true).
    destruct (extract_partial true (d_title digest d) umask preserve es) as [f0 [x|]]; [discriminate|].
    simpl. destruct (d_checksum digest d) as [c|]; [destruct (digest_eqb (H tarb) c)|]; congruence.
  Qed.

  (* "verified on unpack" does not protect the directory: with a wrong recorded tar digest Push
     fails, and the whole tree of the archive is on disk nevertheless *)
  Theorem wrong_checksum_residue pre umask preserve repro T c :
    (preserve = false -> umask <= 511) ->
    is_dir T = true -> wf_treeb T = true -> modes_okb T = true -> benign_tree pre T = true ->
    c <> H (enc (tar_entries pre repro T)) ->
    let d0 := dir_descriptor digest H enc gz pre repro T in
    let d := mkDesc digest (d_digest digest d0) (d_size digest d0) pre true (Some c) in
    let blob := dir_blob enc gz pre repro T in
    unpack digest H digest_eqb dec gunz umask preserve d blob = Err XDigest /\
    forall p, fs_lookup (unpack_residue digest H digest_eqb dec gunz umask preserve d blob) p
              = expected umask preserve T p.
  Proof.
    intros Hu Hd Hwf Hmo Hbe Hc. simpl.
    destruct (roundtrip_walk_full pre umask preserve repro T Hu Hd Hwf Hmo Hbe) as (f' & E & L).
    unfold unpack, unpack_residue, dir_blob. simpl.
    rewrite (proj2 (digest_eqb_spec _ _) eq_refl), N.eqb_refl. simpl.
    rewrite gunz_gz, dec_enc, E. split.
    - destruct (digest_eqb (H (enc (tar_entries pre repro T))) c) eqn:Ec; [|reflexivity].
      apply digest_eqb_spec in Ec. congruence.
    - rewrite <- (unprivileged_same_as_root_any (tar_entries pre repro T) pre umask preserve) in E.
      rewrite (extract_partial_spec true) in E.
      destruct (extract_partial true pre umask preserve (tar_entries pre repro T)) as [f0 [x|]]; [discriminate|].
      injection E as ->. exact L.
  Qed.

  (* a blob that is not the descriptor's is not extracted at all: only the directory exists *)
  Theorem wrong_blob_residue umask preserve d blob :
    H blob <> d_digest digest d \/ N.of_nat (length blob) <> d_size digest d ->
    unpack_residue digest H digest_eqb dec gunz umask preserve d blob = fs_init umask.
  Proof.
    intro Hne. unfold unpack_residue.
    destruct (digest_eqb (H blob) (d_digest digest d)) eqn:E1; simpl; [|reflexivity].
    destruct (N.of_nat (length blob) =? d_size digest d) eqn:E2; simpl; [|reflexivity].
    apply digest_eqb_spec in E1. apply N.eqb_eq in E2. destruct Hne; contradiction.
  Qed.
End Residue.

(* ---------- refuted witnesses of the remaining known findings ---------- *)
(* link-through-file-rejected (fixed): a dangling relative link whose target passes through a
   regular file of the tree used to be refused when the file had been extracted before it:
   resolveRelToBase returned the ENOTDIR of its Lstat walk ([check_dirs_prefix]); it now
   restores whatever the order *)
Definition through_file_tree (file : string) : tree :=
  Dir 493 0 [ (b file, File (b "x") 420 0); (b "l", Link (b file ++ b "/x/y") 0) ].

Theorem through_file_prefix_refuted :
  (let f := [([b "a"], NFile (b "x") 420)] in
   check_dirs_prefix f [] [b "a"; b "x"; b "y"] = false /\ check_dirs f [] [b "a"; b "x"; b "y"] = true) /\
  benign_tree [b "d"] (through_file_tree "a") = true /\
  (exists f', extract [b "d"] 18 false (tar_entries [b "d"] true (through_file_tree "a")) = Ok f' /\
     fs_lookup f' [b "l"] = Some (NLink (b "a/x/y")) /\ fs_lookup f' [b "a"] = Some (NFile (b "x") 420)) /\
  exists f', extract [b "d"] 18 false (tar_entries [b "d"] true (through_file_tree "z")) = Ok f' /\
    fs_lookup f' [b "l"] = Some (NLink (b "z/x/y")) /\ fs_lookup f' [b "z"] = Some (NFile (b "x") 420).
Proof.
  split; [vm_compute; split; reflexivity|]. split; [vm_compute; reflexivity|].
  split; eexists; (split; [vm_compute; reflexivity|]); split; vm_compute; reflexivity.
Qed.

(* the user's own umask can take the owner's permissions away: under umask 0300 the pre-created
   directory is 0477 and its owner cannot create anything in it (not a defect of the store) *)
Example owner_bit_umask_refuses :
  extract_p false [b "d"] 192 false (tar_entries [b "d"] true readonly_dir_witness) = Err XPerm /\
  exists f, extract_p true [b "d"] 192 false (tar_entries [b "d"] true readonly_dir_witness) = Ok f.
Proof. split; [vm_compute; reflexivity|eexists; vm_compute; reflexivity]. Qed.
