(* C14 — InvF preserved by FEAssign *)
From Oras Require Import Base.Prelude Model.Referrers Proofs.Referrers Model.Merge Proofs.Merge Model.MergeFine Proofs.MergeFine.
From Coq Require Import Lia.

Lemma stepF_assign sg s t s' : InvF s -> fstep sg s (FEAssign t) = Some s' -> InvF s'.
Proof.
  intros I H. simpl in H.
  destruct (f_pcs s t) as [|c|g| |old|nw o|oi ap|r k|r|r|r] eqn:Hpc; try discriminate.
  assert (Hnm : fmain (f_pcs s t) = false) by (now rewrite Hpc).
  assert (Hnw : fwindow (f_pcs s t) = false) by (now rewrite Hpc).
  assert (Hnr : fres (f_pcs s t) = None) by (now rewrite Hpc).
  assert (Hnb : In t (fbatch s) -> False).
  { intro Hin. unfold fbatch in Hin. apply in_map_iff in Hin as ((t', c0) & E & Hin). simpl in E. subst t'.
    destruct (f_it s I t c0 Hin) as [H1|[H1|[_ (r & [H1|H1])]]]; rewrite Hpc in H1; discriminate. }
  assert (Hnp : In t (map fst (f_pending s)) -> False).
  { intro Hin. apply in_map_iff in Hin as ((t', c0) & E & Hin). simpl in E. subst t'.
    destruct (f_pe s I t c0 Hin) as [H1 _]. rewrite Hpc in H1. discriminate. }
  assert (Hne_it : forall t0 c0, In (t0, c0) (f_items s) -> t0 <> t) by (intros t0 c0 Hin ->; apply Hnb; eapply in_fst; eauto).
  assert (Hne_pe : forall t0 c0, In (t0, c0) (f_pending s) -> t0 <> t) by (intros t0 c0 Hin ->; apply Hnp; eapply in_fst; eauto).
  destruct (f_committed s) eqn:Hc; injection H as <-.
  - dI I. constructor; simpl.
    all: try solve [fsolve].
    all: try solve [apply it_keep; auto; intro; tauto].
    all: try solve [intro Hx; destruct (f_tok0 Hx) as (A & B & C); congruence].
    all: try solve [intro Hx; destruct (f_tom0 Hx) as [A|A]; auto; right; apply ex_keep; auto].
    all: try solve [intros r Hx; apply ex_res_keep; auto].
    all: try solve [poolF t].
    intros t0 g Hx. rewrite in_map_fst_snoc. tcase t0 t.
    + injection Hx as <-. repeat split; auto. intro E. exfalso. lia.
    + destruct (f_wt0 t0 g Hx) as (A & B & C). repeat split; auto.
  - assert (Hnopost : forall t0, fpost (f_pcs s t0) = false).
    { intro t0. destruct (fpost (f_pcs s t0)) eqn:E; auto. apply (f_com s I) in E. congruence. }
    assert (Hit' : forall t0 c0, In (t0, c0) (f_items s ++ [(t, c)]) ->
              upd (f_pcs s) t (FWait (f_gen s)) t0 = FWait (f_gen s) \/
              fmain (upd (f_pcs s) t (FWait (f_gen s)) t0) = true \/
              ((exists tm, fwindow (upd (f_pcs s) t (FWait (f_gen s)) tm) = true) /\
               exists r, upd (f_pcs s) t (FWait (f_gen s)) t0 = FRet r \/ upd (f_pcs s) t (FWait (f_gen s)) t0 = FDone r)).
    { intros t0 c0 Hin. apply in_snoc in Hin. destruct Hin as [Hin|Hin].
      - apply (it_keep s t (FWait (f_gen s)) (f_it s I)) with (c0 := c0); auto; try (intro; tauto).
      - injection Hin as -> ->. left. now rewrite upd_eq. }
    assert (Hnd' : NoDup (map fst (f_items s ++ [(t, c)]))).
    { apply NoDup_map_fst_snoc; [apply (f_it_nd s I)|exact Hnb]. }
    assert (Hpe' : forall t0 c0, In (t0, c0) (f_pending s) ->
              upd (f_pcs s) t (FWait (f_gen s)) t0 = FWait (S (f_gen s)) /\ ~ In t0 (map fst (f_items s ++ [(t, c)]))).
    { intros t0 c0 Hin. rewrite upd_neq by eauto. destruct (f_pe s I t0 c0 Hin) as [A B]. split; auto.
      rewrite in_map_fst_snoc. intros [Hx|Hx]; [auto|]. subst. eapply Hne_pe; eauto. }
    assert (Hmn' : forall t0, fmain (upd (f_pcs s) t (FWait (f_gen s)) t0) = true -> In t0 (map fst (f_items s ++ [(t, c)]))).
    { intros t0 Hx. tcase t0 t; [discriminate|]. rewrite in_map_fst_snoc. left. now apply (f_mn s I). }
    assert (Hwt' : forall t0 g, upd (f_pcs s) t (FWait (f_gen s)) t0 = FWait g ->
              (g <= S (f_gen s))%nat /\ (g = f_gen s -> In t0 (map fst (f_items s ++ [(t, c)]))) /\
              (g = S (f_gen s) -> In t0 (map fst (f_pending s)))).
    { intros t0 g Hx. rewrite in_map_fst_snoc. tcase t0 t.
      - injection Hx as <-. repeat split; auto. intro E. exfalso. lia.
      - destruct (f_wt s I t0 g Hx) as (A & B & C). repeat split; auto. }
    destruct (is_nil (f_items s)) eqn:En.
    + (* m.status == nil: a new status channel with the main status *)
      assert (Ei : f_items s = []) by (destruct (f_items s); [reflexivity|discriminate]).
      assert (Hnomain : forall t0, fmain (f_pcs s t0) = false).
      { intro t0. destruct (fmain (f_pcs s t0)) eqn:E; auto. apply (f_mn s I) in E. unfold fbatch in E. rewrite Ei in E. destruct E. }
      dI I. constructor; simpl; auto.
      all: try solve [fsolve].
      all: try solve [intros r Hx; apply ex_res_keep; auto].
      all: try solve [poolF t].
      all: try solve [intros _; repeat split; auto using snoc_not_nil; intro t0; tcase t0 t; auto].
      all: try solve [intros _; left; now rewrite upd_eq].
      all: try solve [intro Hx; exfalso; eapply snoc_not_nil; eauto].
      all: try solve [intros t0 Hx; tcase t0 t; [discriminate|]; try apply fpre_main in Hx; try apply fpost_main in Hx; rewrite Hnomain in Hx; discriminate].
      all: try solve [intros g Hx; rewrite upd_neq by lia; auto].
      all: try solve [intros g r Hx; tcase g (f_gen s); [discriminate|eauto]].
      all: try solve [intros g Hx; tcase g (f_gen s); [discriminate|eauto]].
      all: try solve [intros g Hx; tcase g (f_gen s); eauto].
    + assert (Hni : f_items s <> []) by (destruct (f_items s); [discriminate|discriminate]).
      dI I. constructor; simpl; auto.
      all: try solve [fsolve].
      all: try solve [intros r Hx; apply ex_res_keep; auto].
      all: try solve [poolF t].
      all: try solve [intro Hx; destruct (f_tok0 Hx) as (A & B & C); repeat split; auto using snoc_not_nil; intro t0; tcase t0 t; auto].
      all: try solve [intros _; destruct (f_tom0 Hni) as [A|A]; auto; right; apply ex_keep; auto].
      all: try solve [intro Hx; exfalso; eapply snoc_not_nil; eauto].
Qed.

(* facts about the current status channel *)
