(* C20: the repository regular expression (re-translated from registry/reference.go on every
   run) is exactly the documented repository-name rule of the distribution specification, stated
   as an inductive grammar that does not mention regular expressions:
     name      ::= component ( '/' component )*
     component ::= alnum+ ( separator alnum+ )*
     separator ::= '.' | '_' | '__' | '-'+
     alnum     ::= [a-z0-9]                                                            *)
From Oras Require Import Base.Prelude Base.Regex Generated.GC20 Model.Reference Proofs.Reference.

(* ---------- the documented rule ---------- *)

Definition lalnum (c : N) : bool := ((48 <=? c) && (c <=? 57)) || ((97 <=? c) && (c <=? 122)).
Definition alnum1 (s : str) : Prop := s <> [] /\ Forall (fun c => lalnum c = true) s.

Inductive Separator : str -> Prop :=
| SepDot : Separator [46]
| SepUnderscore : Separator [95]
| SepUnderscore2 : Separator [95; 95]
| SepDashes n : Separator (repeat 45 (S n)).

Inductive Component : str -> Prop :=
| CompOne a : alnum1 a -> Component a
| CompMore a sep c : alnum1 a -> Separator sep -> Component c -> Component (a ++ sep ++ c).

Inductive RepoName : str -> Prop :=
| RepoOne c : Component c -> RepoName c
| RepoMore c r : Component c -> RepoName r -> RepoName (c ++ [c_slash] ++ r).

(* ---------- regular-expression side ---------- *)

Lemma Lang_Star_induction a (P : str -> Prop) :
  P [] -> (forall s t, Lang a s -> Lang (Star a) t -> P t -> P (s ++ t)) ->
  forall s, Lang (Star a) s -> P s.
Proof.
  intros H0 HS s H. remember (Star a) as r eqn:E.
  induction H; try discriminate; injection E as ->; auto.
Qed.

Definition RA : list (N * N) := [(48, 57); (97, 122)].
Definition SEP : re := Alt (Cls [(46, 46); (95, 95)]) (Alt (Lit [95; 95]) (Star (Lit [45]))).
Definition COMP : re := Cat (Plus (Cls RA)) (Star (Cat SEP (Plus (Cls RA)))).

Lemma in_ranges_RA c : in_ranges RA c = lalnum c.
Proof. unfold in_ranges, RA, lalnum. cbn [existsb fst snd]. now rewrite orb_false_r. Qed.

Lemma Lang_PlusA s : Lang (Plus (Cls RA)) s <-> alnum1 s.
Proof.
  unfold Plus, alnum1. rewrite Lang_Cat. split.
  - intros (s1 & s2 & -> & H1 & H2). apply Lang_Cls in H1 as (c & -> & H1).
    apply Lang_star_cls in H2. split; [discriminate|]. simpl. constructor.
    + now rewrite <- in_ranges_RA.
    + eapply Forall_impl; [|exact H2]. intros x Hx. now rewrite <- in_ranges_RA.
  - intros [Hne F]. destruct s as [|c s]; [contradiction|]. inversion F; subst.
    exists [c], s. split; [reflexivity|]. split.
    + apply Lang_Cls. exists c. split; auto. now rewrite in_ranges_RA.
    + apply Lang_star_cls. eapply Forall_impl; [|eassumption]. intros x Hx. cbv beta. now rewrite in_ranges_RA.
Qed.

Lemma Lang_dashes s : Lang (Star (Lit [45])) s <-> exists n, s = repeat 45 n.
Proof.
  split.
  - intro H. pattern s. eapply Lang_Star_induction; [| |exact H].
    + now exists 0%nat.
    + intros s1 t H1 _ [n ->]. apply Lang_Lit in H1. subst s1. now exists (S n).
  - intros [n ->]. induction n as [|n IH]; simpl; [constructor|].
    change (45 :: repeat 45 n) with ([45] ++ repeat 45 n). constructor; [now apply (Lang_Lit [45]) | exact IH].
Qed.

(* what the separator expression accepts: a documented separator, or nothing at all (the
   expression's "-*" also matches the empty string: two alnum runs then simply merge) *)
Lemma Lang_SEP s : Lang SEP s <-> Separator s \/ s = [].
Proof.
  unfold SEP. rewrite !Lang_Alt, Lang_Lit, Lang_dashes, Lang_Cls. split.
  - intros [(c & -> & H)|[->|[n ->]]].
    + left. unfold in_ranges in H. cbn [existsb fst snd] in H. rewrite orb_false_r in H.
      apply orb_true_iff in H as [H|H]; apply andb_true_iff in H as [A B]; apply N.leb_le in A, B.
      * assert (c = 46) by lia. subst. constructor.
      * assert (c = 95) by lia. subst. constructor.
    + left. constructor.
    + destruct n; [now right | left; constructor].
  - intros [H| ->].
    + destruct H.
      * left. now exists 46.
      * left. now exists 95.
      * right. now left.
      * right. right. now exists (S n).
    + right. right. now exists 0%nat.
Qed.

Lemma alnum1_app a c : alnum1 a -> alnum1 c -> alnum1 (a ++ c).
Proof.
  intros [Ha Fa] [_ Fc]. split; [destruct a; [contradiction | discriminate]|]. now apply Forall_app.
Qed.

Lemma comp_prepend a c : alnum1 a -> Component c -> Component (a ++ c).
Proof.
  intros Ha Hc. destruct Hc as [a' Ha' | a' sep c' Ha' Hs Hc'].
  - constructor. now apply alnum1_app.
  - rewrite app_assoc. apply CompMore; auto. now apply alnum1_app.
Qed.

Lemma Lang_COMP s : Lang COMP s <-> Component s.
Proof.
  unfold COMP. rewrite Lang_Cat. split.
  - intros (a & t & -> & Ha & Ht). apply Lang_PlusA in Ha. revert a Ha.
    pattern t. eapply Lang_Star_induction; [| |exact Ht].
    + intros a Ha. rewrite app_nil_r. now constructor.
    + intros s1 t' H1 _ IH a Ha.
      apply Lang_Cat in H1 as (sep & a' & -> & Hsep & Ha'). apply Lang_PlusA in Ha'.
      apply Lang_SEP in Hsep as [Hsep| ->].
      * rewrite <- !app_assoc. apply CompMore; auto.
      * simpl. rewrite app_assoc. apply IH. now apply alnum1_app.
  - induction 1 as [a Ha | a sep c Ha Hs Hc IH].
    + exists a, []. rewrite app_nil_r. repeat split; [now apply Lang_PlusA | constructor].
    + destruct IH as (a' & t' & -> & Ha' & Ht').
      exists a, ((sep ++ a') ++ t'). split; [now rewrite <- !app_assoc|].
      split; [now apply Lang_PlusA|].
      constructor; [|exact Ht']. constructor; [|exact Ha']. apply Lang_SEP. now left.
Qed.

Lemma repositoryRegexp_shape :
  repositoryRegexp
  = Cat (Plus (Cls RA)) (Cat (Star (Cat SEP (Plus (Cls RA)))) (Star (Cat (Lit [47]) COMP))).
Proof. reflexivity. Qed.

Lemma Lang_repository s :
  Lang repositoryRegexp s <-> exists c t, s = c ++ t /\ Lang COMP c /\ Lang (Star (Cat (Lit [47]) COMP)) t.
Proof.
  rewrite repositoryRegexp_shape. unfold COMP at 2. rewrite Lang_Cat. split.
  - intros (a & u & -> & Ha & Hu). apply Lang_Cat in Hu as (x & t & -> & Hx & Ht).
    exists (a ++ x), t. split; [now rewrite app_assoc|]. split; [|exact Ht]. now constructor.
  - intros (c & t & -> & Hc & Ht). apply Lang_Cat in Hc as (a & x & -> & Ha & Hx).
    exists a, (x ++ t). split; [now rewrite app_assoc|]. split; [exact Ha|]. now constructor.
Qed.

Theorem repository_grammar s : valid_repository s = true <-> RepoName s.
Proof.
  unfold valid_repository. rewrite matches_spec, Lang_repository. split.
  - intros (c & t & -> & Hc & Ht). apply Lang_COMP in Hc. revert c Hc.
    pattern t. eapply Lang_Star_induction; [| |exact Ht].
    + intros c Hc. rewrite app_nil_r. now constructor.
    + intros s1 t' H1 _ IH c Hc.
      apply Lang_Cat in H1 as (sl & c' & -> & Hsl & Hc'). apply Lang_Lit in Hsl. subst sl.
      apply Lang_COMP in Hc'. rewrite <- app_assoc. apply RepoMore; auto.
  - induction 1 as [c Hc | c r Hc Hr IH].
    + exists c, []. rewrite app_nil_r. repeat split; [now apply Lang_COMP | constructor].
    + destruct IH as (c' & t' & -> & Hc' & Ht').
      exists c, (([c_slash] ++ c') ++ t'). split; [now rewrite <- !app_assoc|].
      split; [now apply Lang_COMP|].
      constructor; [|exact Ht']. constructor; [now apply (Lang_Lit [47]) | exact Hc'].
Qed.

(* consequences used to read the URL theorem: every '/'-separated segment of a valid repository
   is a component, in particular non-empty and starting with an alphanumeric (never "." / "..") *)
Lemma component_head c : Component c -> exists x t, c = x :: t /\ lalnum x = true.
Proof.
  destruct 1 as [a [Hne F] | a sep c' [Hne F] _ _]; destruct a as [|x a]; try contradiction;
    inversion F; subst.
  - exists x, a. auto.
  - exists x, (a ++ sep ++ c'). auto.
Qed.

Lemma repository_grammar_examples :
  RepoName (b "a__b/c--d.e") /\ ~ RepoName (b "a___b") /\ ~ RepoName (b "a-_b") /\ ~ RepoName (b "a//b") /\ ~ RepoName (b "Org/app").
Proof.
  repeat split; try (rewrite <- repository_grammar; vm_compute; (reflexivity || discriminate)).
Qed.

(* ---------- digest rule (go-digest v1.0.0), stated without the parser's helper functions ----------
   <algorithm> ':' <encoded>, the algorithm one of the table AND linked into the binary, the
   encoded part lower-case hex of exactly the algorithm's length *)
Theorem digest_grammar avail s :
  valid_digest avail s = true <->
  exists alg n enc, In (alg, n) alg_table /\ avail alg = true /\ s = alg ++ [c_colon] ++ enc /\
                    length enc = n /\ Forall (fun c => hexlower c = true) enc.
Proof.
  unfold valid_digest. split.
  - destruct (split_first c_colon s) as [[alg enc]|] eqn:E; [|discriminate].
    apply split_first_Some in E as [-> _].
    destruct (find _ alg_table) as [[a' n]|] eqn:F; [|discriminate].
    apply find_some in F as [Fin Feq]. simpl in Feq. apply str_eqb_spec in Feq. subst a'.
    intro H. apply andb_true_iff in H as [H H3]. apply andb_true_iff in H as [H1 H2].
    exists alg, n, enc. repeat split; auto.
    + now apply Nat.eqb_eq.
    + now apply forallb_forall_Forall || (apply Forall_forall; now apply forallb_forall).
  - intros (alg & n & enc & Hin & Ha & -> & Hl & Hf).
    assert (Hx : forallb hexlower enc = true) by (apply forallb_forall; now apply Forall_forall).
    change (alg ++ [c_colon] ++ enc) with (alg ++ c_colon :: enc).
    simpl in Hin. destruct Hin as [Hin|[Hin|[Hin|[]]]]; injection Hin as <- <-;
      (rewrite split_first_app by reflexivity); vm_compute (find _ _);
      rewrite Ha, Hx, <- Hl, Nat.eqb_refl; reflexivity.
Qed.

(* ---------- go-digest's table, read off its source, is the table of the model ---------- *)

Definition hexr : list (N * N) := [(48, 57); (97, 102)].

Lemma in_ranges_hexr c : in_ranges hexr c = hexlower c.
Proof. unfold in_ranges, hexr, hexlower. cbn [existsb fst snd]. now rewrite orb_false_r. Qed.

(* ^[a-f0-9]{n}$ : exactly n lower-case hex characters *)
Lemma rep_hex n s : matches (Rep (Cls hexr) n n) s = Nat.eqb (length s) n && forallb hexlower s.
Proof.
  apply Bool.eq_true_iff_eq. rewrite matches_spec. unfold Rep. rewrite Nat.sub_diag, Lang_Cat.
  rewrite andb_true_iff, Nat.eqb_eq, forallb_forall. split.
  - intros (s1 & s2 & -> & H1 & H2). apply Lang_rep_exact_cls in H1 as [L1 A1].
    apply Lang_rep_upto_cls in H2 as [L2 _]. destruct s2; [|simpl in L2; lia].
    rewrite app_nil_r. split; [exact L1|]. intros c Hc. unfold all_in in A1. rewrite Forall_forall in A1.
    rewrite <- in_ranges_hexr. now apply A1.
  - intros [L A]. exists s, []. rewrite app_nil_r. split; [reflexivity|]. split.
    + apply Lang_rep_exact_cls. split; [exact L|]. apply Forall_forall. intros c Hc. rewrite in_ranges_hexr. now apply A.
    + apply Lang_rep_upto_cls. split; [simpl; lia | constructor].
Qed.

Lemma go_digest_table_is_alg_table :
  map (fun p => (fst (fst p), snd (fst p))) go_digest_algorithms = alg_table.
Proof. reflexivity. Qed.

Lemma go_digest_regexes_ok :
  Forall (fun p => forall enc, matches (snd p) enc = Nat.eqb (length enc) (snd (fst p)) && forallb hexlower enc)
         go_digest_algorithms.
Proof. repeat constructor; intro enc; apply rep_hex. Qed.

Lemma find_proj (l : list (str * nat * re)) alg :
  find (fun p => str_eqb (fst p) alg) (map (fun p => (fst (fst p), snd (fst p))) l)
  = option_map (fun p => (fst (fst p), snd (fst p))) (find (fun p => str_eqb (fst (fst p)) alg) l).
Proof.
  induction l as [|[[nm n] r] l IH]; [reflexivity|]. simpl. destruct (str_eqb nm alg); [reflexivity | exact IH].
Qed.

(* Digest.Validate assembled from go-digest's source = the closed form of the theorems *)
Theorem valid_digest_gen_eq avail s : valid_digest_gen avail s = valid_digest avail s.
Proof.
  unfold valid_digest_gen, valid_digest. destruct (split_first c_colon s) as [[alg enc]|]; [|reflexivity].
  rewrite <- go_digest_table_is_alg_table, find_proj.
  destruct (find (fun p => str_eqb (fst (fst p)) alg) go_digest_algorithms) as [[[nm n] r]|] eqn:F; [|reflexivity].
  simpl. apply find_some in F as [Hin _].
  pose proof go_digest_regexes_ok as G. rewrite Forall_forall in G. specialize (G _ Hin enc). simpl in G.
  rewrite G. destruct (avail alg), (Nat.eqb (length enc) n); reflexivity.
Qed.
