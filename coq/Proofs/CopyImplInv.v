(* CopyImplInv: preservation of the permit invariant Inv1 and of the structural invariants (part 1). *)
From Coq Require Import List Arith Bool Lia.
From Oras Require Import Model.CopyImpl.
Import ListNotations.
From Oras Require Import Proofs.CopyImplBase.

Section Proofs.
Variable succ : nat -> list nat.
Variable K : nat.
Variable ext : bool.
Variable roots : list nat.
Hypothesis succ_dec : forall n m, In m (succ n) -> m < n.
Local Notation Reachable := (Reachable succ K ext roots).
Local Notation Inv1 := (Inv1 K).
Local Notation Inv2 := (Inv2 succ).
Local Notation I_wait := (I_wait succ).

Lemma inv1_init : Inv1 (init K ext roots).
Proof. constructor; simpl; intros; auto; try discriminate. Qed.

Lemma inv1_step s l s' : Inv1 s -> step succ s l = Some s' -> Inv1 s'.
Proof.
  intros [Hwf Hperm Hmust Hmay] Hs.
  destruct l; inv_step Hs.
  all: try (live t).
  all: try match goal with H : t_pc (tasks _ ?p) = TInGo _ |- _ => live p end.
  all: holds_from_pc.
  all: constructor; unfold finish, with_tasks; cbn [tasks ntasks free frames nframes tracker]; intros.
  (* wf *)
  all: try solve [ upd_cases; try lia; apply Hwf; lia ].
  (* perm *)
  all: try solve [ assumption | perm_tac ].
  (* must / may *)
  all: try solve [ upd_cases; unfold wait_pc in *; cbn in *; auto; try congruence;
                   repeat match goal with
                          | H : t_holds (tasks ?s ?t) = true, Hm : forall t, t_holds (tasks ?s t) = true -> _ |- _ => apply Hm in H
                          end;
                   repeat match goal with
                          | H : t_pc (tasks _ ?t) = _ |- _ => first [rewrite H in * | clear H]
                          end;
                   repeat match goal with
                          | H : context [match ?x with _ => _ end] |- _ => destruct x
                          | |- context [match ?x with _ => _ end] => destruct x
                          end;
                   cbn in *; auto; try congruence ].
  unfold holders. cbn [tasks ntasks]. simpl count_upto. rewrite upd_same. cbn [t_holds].
  rewrite (count_upto_upd_ge t_holds) by lia. lia.
Qed.

Lemma inv1_reach s : Reachable s -> Inv1 s.
Proof. induction 1; eauto using inv1_init, inv1_step. Qed.

Lemma permits_conserved s : Reachable s ->
  free s + holders s = K /\ holders s <= K /\
  (forall t, is_fin (t_pc (tasks s t)) = true -> t_holds (tasks s t) = false).
Proof.
  intros H. destruct (inv1_reach s H) as [Hwf Hperm Hmust Hmay]. repeat split; auto; try lia.
  intros t Hf. destruct (t_holds (tasks s t)) eqn:Hh; auto. apply Hmay in Hh.
  destruct (t_pc (tasks s t)); discriminate.
Qed.

(* End / Start are idempotent: a task that does not hold a permit releases nothing when it ends its
   region or finishes; a task that holds one does not acquire a second one *)
Lemma end_idempotent s t s' : step succ s (LEnd t) = Some s' ->
  t_holds (tasks s' t) = false /\ free s' = (if t_holds (tasks s t) then S (free s) else free s).
Proof.
  intros Hs. inv_step Hs; cbn; rewrite upd_same; auto.
Qed.
Lemma finish_releases_once s t e m :
  free (finish s t e m) = (if t_holds (tasks s t) then S (free s) else free s) /\
  t_holds (tasks (finish s t e m) t) = false.
Proof. unfold finish. cbn. rewrite upd_same. auto. Qed.
Lemma start_idempotent s t s' : step succ s (LStart t) = Some s' -> t_holds (tasks s t) = true ->
  t_kind (tasks s t) = KFn -> free s' = free s /\ t_holds (tasks s' t) = true.
Proof.
  intros Hs Hh Hk. inv_step Hs; try congruence; cbn; rewrite upd_same; auto.
Qed.

Lemma inflight_bounded s : Reachable s -> inflight s <= holders s /\ inflight s <= K.
Proof.
  intros H. destruct (inv1_reach s H) as [Hwf Hperm Hmust Hmay].
  assert (inflight s <= holders s).
  { unfold inflight, holders. apply count_upto_le. intros i Hi. apply Hmust.
    destruct (t_pc (tasks s i)); try discriminate; reflexivity. }
  split; auto. lia.
Qed.



Lemma inv2_init : Inv2 (init K ext roots).
Proof.
  constructor; red; cbn; intros; unfold upd in *;
    repeat match goal with
           | H : context [Nat.eqb ?a ?b] |- _ => destruct (Nat.eqb_spec a b); subst; cbn in *
           | |- context [Nat.eqb ?a ?b] => destruct (Nat.eqb_spec a b); subst; cbn in *
           end; auto; try lia; try discriminate; try congruence.
Qed.


Lemma inv2_wff s l s' : Inv1 s -> Inv2 s -> step succ s l = Some s' -> I_wff s' /\ I_nfpos s' /\ I_tframe s'.
Proof.
  intros [Hwf Hperm Hmust Hmay] [Hwff Hnf Htf Hunf Hingo Hpar Htop Hself Hanc Hrank Hwait] Hs.
  red in Hnf.
  step_cases l Hs.
  all: flive_all.
  all: (split; [|split]); red; intros; cbn [tasks ntasks free frames nframes tracker failed top_cancelled] in *.
  all: try solve [ upd_cases; try (apply cf_dframe); upd_cases; try lia; try (apply Hwff; lia); try (specialize (Htf t); lia);
                   cbn; try lia; match goal with |- context [t_frame (tasks _ ?x)] => specialize (Htf x); lia end ].
Qed.


Lemma inv2_struct s l s' : Inv1 s -> Inv2 s -> step succ s l = Some s' ->
  I_unfin s' /\ I_ingo s' /\ I_parent s' /\ I_top s'.
Proof.
  intros [Hwf Hperm Hmust Hmay] [Hwff Hnf Htf Hunf Hingo Hpar Htop Hself Hanc Hrank Hwait] Hs.
  red in Hnf.
  step_cases l Hs.
  all: flive_all.
  all: try (live t).
  all: (split; [|split; [|split]]); red; intros; cbn [tasks ntasks free frames nframes tracker failed top_cancelled] in *.
  all: fsimp.
  all: pose proof Hunf as Hunf'; pose proof Htop as Htop'; red in Hunf', Htop'.
  all: pre.
  all: try (timeout 10 solve [ upd_cases; cbn in *; fsimp; sat; fpc_rw; extra; cbn in *;
       try match goal with H : t_pc (tasks _ ?t) = TInGo ?f |- _ /\ _ => destruct (Hingo t f H) end;
       try match goal with H : f_parent (frames _ ?f) = Some ?p |- _ /\ _ => destruct (Hpar f p H) end;
       try match goal with H : f_parent (frames _ ?f) = None |- _ \/ _ => destruct (Htop f H) end;
       unfold wait_pc in *; repeat match goal with H : context [match ?x with _ => _ end] |- _ => destruct x eqn:? end;
       intuition (try congruence; try lia; eauto) ]).
Qed.



End Proofs.
