(* Top-level statements of Properties/C05.v that need more than one proof step, and
   concrete witnesses. *)
From Oras Require Import Base.Prelude Generated.GC05 Model.Verify Proofs.Verify Proofs.VerifyComplete
  Proofs.VerifyProxy Proofs.VerifyFuel Proofs.VerifyConc.

(* a toy digest function: 64 hex characters derived from the byte sum *)
Definition toyH (alg data : str) : str := repeat (48 + (fold_left N.add data 0) mod 10) 64.
Definition toy_dg (data : str) : str := digest_of toyH (b "sha256") data.

Lemma file_alias_refuted :
  exists (H : str -> str -> str) dX dY s1 s2 s2' e,
    file_push H false true 20 (mkFs [] [] [] []) (b "a") (b "a") dX [Data [1;2;3]] = (None, s1) /\
    file_push H false true 20 s1 (b "./a") (b "a") dY [Data [7;7]] = (None, s2) /\
    file_fetch s1 (b "a") dX = Some [1;2;3] /\ file_fetch s2 (b "a") dX = Some [7;7] /\
    d_dg dX <> digest_of H (alg_of (d_dg dX)) [7;7] /\
    file_push H false true 20 s1 (b "./a") (b "a") dY [Data [9]] = (Some e, s2') /\
    file_exists s2' (b "a") dX = true /\ file_fetch s2' (b "a") dX = None.
Proof.
  exists toyH, (mkDesc [] (toy_dg [1;2;3]) 3), (mkDesc [] (toy_dg [7;7]) 2).
  do 3 eexists. exists EUnexpEof.
  split; [vm_compute; reflexivity|]. split; [vm_compute; reflexivity|].
  split; [vm_compute; reflexivity|]. split; [vm_compute; reflexivity|].
  split; [vm_compute; discriminate|]. split; [vm_compute; reflexivity|].
  split; vm_compute; reflexivity.
Qed.

Lemma C05_fetchall_l :
  forall (H : str -> str -> str) comb fixed fuel served dg sz buf v,
    read_all H comb fixed fuel (mkBase [Data served] None) dg sz = ((None, buf), v) ->
    buf = served /\ matches_desc H dg sz served.
Proof.
  intros H comb fixed fuel served dg sz buf v E.
  destruct (read_all_sound H comb fixed fuel _ dg sz buf v E) as (A & _ & C).
  specialize (C eq_refl eq_refl). simpl in C. rewrite app_nil_r in C. subst buf. split; [reflexivity|exact A].
Qed.

Lemma C05_trailing_short_malformed_rejected_l :
  forall (H : str -> str -> str) comb fuel src bufsz dg sz,
    (valid_digest dg = false \/ (sz < 0)%Z \/
     (Z.of_nat (length (stream (b_evs src))) < sz)%Z \/
     dg <> digest_of H (alg_of dg) (firstn (Z.to_nat sz) (stream (b_evs src))) \/
     (b_lim src = None /\ neof (b_evs src) = 0%nat /\ (sz < Z.of_nat (length (stream (b_evs src))))%Z)) ->
    (forall fixed buf v, read_all H comb fixed fuel src dg sz <> ((None, buf), v)) /\
    (forall out v, copy_buffer H comb true fuel src bufsz dg sz <> ((None, out), v)).
Proof.
  intros H comb fuel src bufsz dg sz B. split.
  - intros fixed buf v. exact (read_all_rejects H comb fixed fuel src dg sz buf v B).
  - intros out v. exact (copy_buffer_rejects H comb fuel src bufsz dg sz out v B).
Qed.

Lemma C05_push_file_partial_l :
  forall (H : str -> str -> str) comb fuel s name path d evs e s',
    file_reach H s -> path_free s path ->
    file_push H comb true fuel s name path d evs = (e, s') ->
    (e = None ->
       exists bs, file_fetch s' name d = Some bs /\ file_exists s' name d = true /\
                  d_dg d = digest_of H (alg_of (d_dg d)) bs /\ valid_digest (d_dg d) = true /\
                  ((name <> [] \/ assoc_get (f_d2p s) (d_dg d) = None) ->
                   matches_desc H (d_dg d) (d_sz d) bs /\ exists rest, stream evs = bs ++ rest)) /\
    (e <> None -> forall name' d', file_exists s' name' d' = file_exists s name' d' /\
                                   file_fetch s' name' d' = file_fetch s name' d').
Proof.
  intros H comb fuel s name path d evs e s' R Pf E.
  exact (proj2 (file_push_spec H comb fuel s name path d evs e s' (file_reach_ok H s R) (fun _ => Pf) E)).
Qed.

Lemma C05_push_bad_rejected_l :
  forall (H : str -> str -> str) comb fuel d evs,
    (forall fixed m e m',
       bad_input H (mkBase evs None) (d_dg d) (d_sz d) ->
       mem_push H comb fixed fuel m d (mkBase evs None) = (e, m') -> e <> None /\ m' = m) /\
    (forall fixed limit m e m',
       bad_input H (mkBase evs (Some (d_sz d))) (d_dg d) (d_sz d) ->
       limited_push (mem_push H comb fixed fuel) limit m d evs = (e, m') -> e <> None /\ m' = m) /\
    (forall s e s',
       bad_input H (mkBase evs None) (d_dg d) (d_sz d) ->
       oci_push H comb true fuel s d (mkBase evs None) = (e, s') -> e <> None /\ s' = s) /\
    (forall s name path e s',
       bad_input H (mkBase evs (match name with [] => Some (d_sz d) | _ => None end)) (d_dg d) (d_sz d) ->
       file_push H comb true fuel s name path d evs = (e, s') -> e <> None).
Proof.
  intros H comb fuel d evs. split; [|split; [|split]].
  - intros fixed m e m' B E. exact (mem_push_rejects H comb fixed fuel m d _ e m' B E).
  - intros fixed limit m e m' B E. exact (limited_mem_push_rejects H comb fixed fuel limit m d evs e m' B E).
  - intros s e s' B E. exact (oci_push_rejects H comb fuel s d _ e s' B E).
  - intros s name path e s' B E. exact (file_push_rejects H comb fuel s name path d evs e s' B E).
Qed.

Lemma C05_visible_matches_l :
  forall (H : str -> str -> str),
    (forall m d bs, mem_reach H m -> mem_get m d = Some bs -> matches_desc H (d_dg d) (d_sz d) bs) /\
    (forall s dg bs, oci_reach H s -> oci_get s dg = Some bs ->
                     dg = digest_of H (alg_of dg) bs /\ valid_digest dg = true) /\
    (forall s name d bs, file_reach H s -> file_fetch s name d = Some bs ->
                         d_dg d = digest_of H (alg_of (d_dg d)) bs /\ valid_digest (d_dg d) = true).
Proof.
  intro H. split; [|split].
  - intros m d bs R. exact (mem_reach_ok H m R d bs).
  - intros s dg bs R. exact (oci_reach_ok H s R dg bs).
  - intros s name d bs R. exact (file_fetch_ok H s name d bs (file_reach_ok H s R)).
Qed.

Lemma C05_fuel_sufficient_l :
  forall (H : str -> str -> str) comb fixed fuel src bufsz dg sz,
    (ev_weight (b_evs src) < fuel)%nat ->
    fst (fst (read_all H comb fixed fuel src dg sz)) <> Some EFuel /\
    (forall fuel', (ev_weight (b_evs src) < fuel')%nat ->
       read_all H comb fixed fuel' src dg sz = read_all H comb fixed fuel src dg sz) /\
    ((1 <= bufsz)%nat ->
       fst (fst (copy_buffer H comb fixed fuel src bufsz dg sz)) <> Some EFuel /\
       forall fuel', (ev_weight (b_evs src) < fuel')%nat ->
         copy_buffer H comb fixed fuel' src bufsz dg sz = copy_buffer H comb fixed fuel src bufsz dg sz).
Proof.
  intros H comb fixed fuel src bufsz dg sz Fu. split; [|split].
  - exact (read_all_no_fuel H comb fixed fuel src dg sz Fu).
  - intros fuel' Fu'. exact (read_all_fuel_indep H comb fixed fuel' fuel src dg sz Fu' Fu).
  - intro B1. split.
    + exact (copy_buffer_no_fuel H comb fixed fuel src bufsz dg sz B1 Fu).
    + intros fuel' Fu'. exact (copy_buffer_fuel_indep H comb fixed fuel' fuel src bufsz dg sz B1 Fu' Fu).
Qed.

Lemma C05_concurrent_same_digest_l :
  forall (H : str -> str -> str) blobs ts sched st,
    oci_reach H blobs -> Forall (fun t => t_pc t = PStart) ts ->
    crun H (mkC blobs ts) sched = Some st ->
    (forall dg bs, oci_get (c_blobs st) dg = Some bs ->
                   dg = digest_of H (alg_of dg) bs /\ valid_digest dg = true) /\
    (forall i n st' t w, cstep H st i n = Some st' -> nth_error (c_thr st) i = Some t ->
                         t_pc t = PIngest w [] None ->
       exists w', oci_get (c_blobs st') (d_dg (t_d t)) = Some w' /\
                  matches_desc H (d_dg (t_d t)) (d_sz (t_d t)) w' /\ (neof (t_evs t) = 0%nat -> stream (t_evs t) = w')).
Proof.
  intros H blobs ts sched st R F E.
  pose proof (crun_inv H sched _ _ (cinv_start H blobs ts (oci_reach_ok H blobs R) F) E) as Iv.
  split.
  - exact (proj1 Iv).
  - intros i n st' t w Es Ei Ep. exact (cstep_success H st i n st' t Iv Es Ei (ex_intro _ w Ep)).
Qed.

Lemma C05_concurrent_explored_l :
  forall (H : str -> str -> str) fuel big blobs ts st',
    oci_reach H blobs -> Forall (fun t => t_pc t = PStart) ts ->
    In st' (explore H fuel big (mkC blobs ts)) ->
    (exists sched, crun H (mkC blobs ts) sched = Some st') /\
    (forall dg bs, oci_get (c_blobs st') dg = Some bs ->
                   dg = digest_of H (alg_of dg) bs /\ valid_digest dg = true).
Proof.
  intros H fuel big blobs ts st' R F I1. split.
  - exact (explore_reachable H fuel big _ _ I1).
  - exact (explore_invariant H fuel big blobs ts st' R F I1).
Qed.

Lemma C05_push_sound_refuted_negative_size_l :
  forall (H : str -> str -> str) comb (mt : str),
    valid_digest (empty_digest H) = true ->
    exists d, (d_sz d < 0)%Z /\
      oci_push H comb false 1 [] d (mkBase [] None) = (None, [(d_dg d, [])]).
Proof.
  intros H comb mt V. exists (mkDesc mt (empty_digest H) (-1)). split; [reflexivity|].
  exact (oci_push_prefix_negative_size H comb mt V).
Qed.

(* ------------------------------------------------------------------ FetchAll on the stores *)
Lemma stream_serve_script c : stream (serve_script c) = c.
Proof. destruct c; simpl; auto. rewrite app_nil_r. reflexivity. Qed.

Lemma fetch_all_sound (H : str -> str -> str) fetched d b :
  fetch_all H fetched d = (None, b) ->
  fetched = Some b /\ matches_desc H (d_dg d) (d_sz d) b.
Proof.
  unfold fetch_all. destruct fetched as [c|]; [|discriminate].
  destruct (read_all H false true (S (S (S (ev_weight (serve_script c))))) (mkBase (serve_script c) None) (d_dg d) (d_sz d))
    as [[e buf] v] eqn:Er.
  simpl. intro X; inversion X; subst.
  apply read_all_sound in Er as (A & _ & C). specialize (C eq_refl).
  assert (Z0 : neof (serve_script c) = 0%nat) by (destruct c; reflexivity). specialize (C Z0). simpl in C.
  rewrite stream_serve_script in C. subst. auto.
Qed.

(* FetchAll on every store returns data only when the store serves exactly the bytes the
   descriptor names -- whatever the store holds (no reachability needed: FetchAll
   verifies again) *)
Lemma fetch_all_stores (H : str -> str -> str) :
  (forall m d b, mem_fetch_all H m d = (None, b) -> mem_get m d = Some b /\ matches_desc H (d_dg d) (d_sz d) b) /\
  (forall s d b, oci_fetch_all H s d = (None, b) -> oci_get s (d_dg d) = Some b /\ matches_desc H (d_dg d) (d_sz d) b) /\
  (forall s name d b, file_fetch_all H s name d = (None, b) ->
                      file_fetch s name d = Some b /\ matches_desc H (d_dg d) (d_sz d) b).
Proof.
  split; [|split].
  - intros m d b E. exact (fetch_all_sound H _ d b E).
  - intros s d b. unfold oci_fetch_all. destruct (negb (valid_digest (d_dg d))); [discriminate|].
    intro E. exact (fetch_all_sound H _ d b E).
  - intros s name d b E. exact (fetch_all_sound H _ d b E).
Qed.

Lemma proxy_histories (H : str -> str -> str) :
    (forall m, proxy_reach H m ->
       forall d bs, mem_get m d = Some bs -> matches_desc H (d_dg d) (d_sz d) bs) /\
    (forall limit stop m d comb evs ks rs ce m' bs,
       proxy_reach H m -> mem_get m d = Some bs ->
       proxy_fetch H limit stop m d comb evs ks = ((rs, ce), m') ->
       matches_desc H (d_dg d) (d_sz d) bs /\ m' = m /\ ce = None /\
       exists rest, bs = concat (map fst rs) ++ rest).
Proof.
  split.
  - intros m R. exact (proxy_reach_ok H m R).
  - intros limit stop m d comb evs ks rs ce m' bs R G E.
    exact (proxy_history_hit H limit stop m d comb evs ks rs ce m' bs R G E).
Qed.

Lemma explorers_complete (H : str -> str -> str) :
  (forall big sched fuel st st',
     crun H st (map (fun i => (i, big)) sched) = Some st' -> (forall i, cstep H st' i big = None) ->
     (length sched < fuel)%nat -> In st' (explore H fuel big st)) /\
  (forall sched fuel st st',
     mrun H st sched = Some st' -> (forall i, mstep H st' i = None) ->
     (length sched < fuel)%nat -> In st' (explore_m H fuel st)) /\
  (forall sched fuel st st',
     frun H st sched = Some st' -> (forall i, fstep H st' i = None) ->
     (length sched < fuel)%nat -> In st' (explore_f H fuel st)) /\
  (forall st, Forall (fun t => exists r, t_pc t = PDone r) (c_thr st) -> ingest_files st = []).
Proof.
  split; [|split; [|split]].
  - intros big sched fuel st st'. apply explore_complete.
  - intros sched fuel st st'. apply explore_m_complete.
  - intros sched fuel st st'. apply explore_f_complete.
  - apply ingest_empty_when_done.
Qed.

(* ------------------------------------------------------------------ Exists agrees with Fetch *)
Lemma file_exists_iff_fetch (H : str -> str -> str) s name d :
  file_ok H s -> (file_exists s name d = true <-> exists bs, file_fetch s name d = Some bs).
Proof.
  intros [Ok1 _]. unfold file_exists, file_fetch.
  assert (Core : (match assoc_get (f_d2p s) (d_dg d) with
                  | Some _ => true
                  | None => match mem_get (f_fb s) d with Some _ => true | None => false end
                  end = true) <->
                 exists bs, match assoc_get (f_d2p s) (d_dg d) with
                            | Some p => assoc_get (f_files s) p
                            | None => mem_get (f_fb s) d
                            end = Some bs).
  { destruct (assoc_get (f_d2p s) (d_dg d)) as [p|] eqn:G.
    - destruct (Ok1 _ _ G) as (bs & Fb & _). split; [intros _; exists bs; exact Fb|reflexivity].
    - destruct (mem_get (f_fb s) d) as [c|]; split; try discriminate; eauto. intros [bs X]; discriminate. }
  destruct name as [|c n0]; [exact Core|].
  destruct (name_in (c :: n0) (f_names s)); cbn [negb]; [exact Core|].
  split; [discriminate|intros [bs X]; discriminate].
Qed.

Lemma exists_iff_fetch (H : str -> str -> str) :
  (forall s d, valid_digest (d_dg d) = true ->
     (oci_exists s d = (None, true) <-> exists bs, oci_get s (d_dg d) = Some bs)) /\
  (forall s name d, file_reach H s ->
     (file_exists s name d = true <-> exists bs, file_fetch s name d = Some bs)).
Proof.
  split.
  - intros s d V. unfold oci_exists. rewrite V. cbn [negb].
    destruct (oci_get s (d_dg d)) as [c|]; split; try discriminate; eauto.
    + intros [bs X]; discriminate.
  - intros s name d R. apply (file_exists_iff_fetch H). apply file_reach_ok. exact R.
Qed.

(* every finished race on an OCI layout, with the Writes split in any way, is an explored outcome *)
Lemma split_writes (H : str -> str -> str) big blobs ts sched st' :
  Forall (fun t => t_pc t = PStart /\ (length (stream (t_evs t)) <= S big)%nat) ts ->
  crun H (mkC blobs ts) sched = Some st' ->
  Forall (fun t => exists r, t_pc t = PDone r) (c_thr st') ->
  exists is, crun H (mkC blobs ts) (map (fun i => (i, big)) is) = Some st' /\
             forall fuel, (length is < fuel)%nat -> In st' (explore H fuel big (mkC blobs ts)).
Proof.
  intros F E Fd. apply (split_writes_explored H big (mkC blobs ts) sched st'); auto; simpl.
  - eapply Forall_impl; [|exact F]. intros t [A _]. exact A.
  - eapply Forall_impl; [|exact F]. intros t [A B]. apply fits_started; auto.
Qed.

(* ... with the fuel the correspondence gives the explorer *)
Lemma split_writes_fuel (H : str -> str -> str) big blobs ts sched st' :
  Forall (fun t => t_pc t = PStart /\ (length (stream (t_evs t)) <= S big)%nat) ts ->
  crun H (mkC blobs ts) sched = Some st' ->
  Forall (fun t => exists r, t_pc t = PDone r) (c_thr st') ->
  In st' (explore H (4 * length ts + 2) big (mkC blobs ts)).
Proof.
  intros F E Fd. apply (split_writes_explored_fuel H big (mkC blobs ts) sched st'); auto; simpl.
  - eapply Forall_impl; [|exact F]. intros t [A _]. exact A.
  - eapply Forall_impl; [|exact F]. intros t [A B]. apply fits_started; auto.
Qed.
