(* ExtendedCopy (Model/CopyExt.v): success => the graph of every root above the node is in the
   destination and the destination reference is the node. *)
From Oras Require Import Base.Prelude Model.CopySpec Model.CopyExt Proofs.CopySpec Proofs.CopyLinks Model.CopyBytes Proofs.CopyBytes Model.CopyOpt Model.CopyCancel Proofs.CopyOpt Proofs.CopyCancel.
Local Open Scope nat_scope.

Ltac simp_st := cbn [set_ph ph dst cached tag returned] in *.

Lemma step_keeps_returned g c st e st' : step g c st e = Some st' ->
  (forall ok, e <> Ret ok) -> returned st' = returned st.
Proof.
  intros H Hne. step_inv H; simp_st; try congruence; exfalso; eapply Hne; reflexivity.
Qed.

Lemma xrun_after_ret g c tgt tr : forall st st' b, returned st = Some b ->
  xrun g c tgt st tr = Some st' -> st' = st.
Proof.
  destruct tr as [|e r]; intros st st' b Hb H.
  - simpl in H. now injection H as <-.
  - exfalso.
    assert (S0 : forall x, step g c st x = None) by (intro x; exact (step_after_ret g c st x b Hb)).
    simpl in H.
    destruct e; try (rewrite S0 in H; discriminate H); try discriminate H.
    + (* TagB *) destruct r as [|e2 r2]; [discriminate H|].
      destruct e2; try discriminate H.
      destruct r2 as [|e3 r3]; [discriminate H|].
      destruct e3; try discriminate H. destruct ok; [|discriminate H].
      destruct r3; [|discriminate H].
      destruct (Nat.eqb n tgt && Nat.eqb n0 tgt); [|discriminate H].
      rewrite S0 in H. discriminate H.
    + (* Ret *) destruct ok; [discriminate H|]. rewrite S0 in H. discriminate H.
Qed.

(* a successful ExtendedCopy run = a successful walk, then the tag *)
Lemma xrun_success g c tgt tr : forall st st', returned st = None ->
  xrun g c tgt st tr = Some st' -> returned st' = Some true ->
  exists walk st1, run g c st (walk ++ [Ret true]) = Some st1 /\ st' = with_tag st1 tgt /\
                   tr = walk ++ [TagB tgt; TagE tgt; Ret true].
Proof.
  induction tr as [|e r IH]; intros st st' Hn H Hr.
  - simpl in H. injection H as <-. congruence.
  - assert (Gen : (forall ok, e <> Ret ok) -> (forall n, e <> TagB n) -> (forall n, e <> TagE n) ->
                  match step g c st e with Some s0 => xrun g c tgt s0 r | None => None end = Some st' ->
                  exists walk st1, run g c st (walk ++ [Ret true]) = Some st1 /\ st' = with_tag st1 tgt /\
                                   e :: r = walk ++ [TagB tgt; TagE tgt; Ret true]).
    { intros N1 N2 N3 H0. destruct (step g c st e) as [s0|] eqn:E; [|discriminate H0].
      assert (Hn0 : returned s0 = None) by (rewrite (step_keeps_returned g c st e s0 E N1); exact Hn).
      destruct (IH s0 st' Hn0 H0 Hr) as [w [s1 [R [-> ->]]]].
      exists (e :: w), s1. simpl. rewrite E. auto. }
    destruct e; try (apply Gen; [intros; discriminate | intros; discriminate | intros; discriminate | exact H]).
    + (* TagB n *)
      simpl in H. destruct r as [|e2 r2]; [discriminate H|].
      destruct e2; try discriminate H.
      destruct r2 as [|e3 r3]; [discriminate H|].
      destruct e3; try discriminate H. destruct ok; [|discriminate H].
      destruct r3; [|discriminate H].
      destruct (Nat.eqb n tgt && Nat.eqb n0 tgt) eqn:En; [|discriminate H].
      apply andb_true_iff in En as [E1 E2]. apply Nat.eqb_eq in E1, E2. subst n n0.
      destruct (step g c st (Ret true)) as [s1|] eqn:E; [|discriminate H].
      injection H as <-. exists [], s1. simpl. rewrite E. auto.
    + (* TagE *) simpl in H. discriminate H.
    + (* Ret ok *)
      destruct ok; simpl in H; [discriminate H|].
      destruct (step g c st (Ret false)) as [s0|] eqn:E; [|discriminate H].
      assert (Hb : returned s0 = Some false).
      { clear H. unfold step in E. rewrite Hn in E.
        destruct (existsb (fun n => is_dead (ph st n)) (seq 0 (g_n g))); [|discriminate E].
        now injection E as <-. }
      rewrite (xrun_after_ret g c tgt r s0 st' false Hb H) in Hr. congruence.
Qed.

Lemma extended_copy_lemma g c tgt d0 tr st :
  closed_nodes g d0 -> mt_consistent g ->
  xaccepts g c tgt d0 tr = Some st -> returned st = Some true ->
  tag st = Some tgt /\
  forall r n, In r (c_root c :: c_xroots c) -> reach g r n -> has g (dst st) n = true.
Proof.
  intros Hc Hm Ha Hr. unfold xaccepts in Ha.
  destruct (xrun_success g c tgt tr (init c d0) st eq_refl Ha Hr) as [w [s1 [R [-> _]]]].
  split; [reflexivity|]. intros r n Hin Hn. simpl.
  simpl in Hr. exact (closure_all_roots g c d0 (w ++ [Ret true]) s1 Hc Hm R Hr r n Hin Hn).
Qed.

(* the node's own graph: it lies under every root that reaches it *)
Lemma reach_trans g a b x : reach g a b -> reach g b x -> reach g a x.
Proof. induction 1; auto. intro H1. econstructor; eauto. Qed.

Lemma extended_copy_node_graph g c tgt d0 tr st r :
  closed_nodes g d0 -> mt_consistent g ->
  xaccepts g c tgt d0 tr = Some st -> returned st = Some true ->
  In r (c_root c :: c_xroots c) -> reach g r tgt ->
  forall n, reach g tgt n -> has g (dst st) n = true.
Proof.
  intros Hc Hm Ha Hr Hin Hrt n Hn.
  destruct (extended_copy_lemma g c tgt d0 tr st Hc Hm Ha Hr) as [_ H].
  apply (H r n Hin). eapply reach_trans; eauto.
Qed.

(* a run that does not end in success never touches the reference *)
Lemma step_keeps_tag g c st e st' : c_mode c = MGraph -> step g c st e = Some st' ->
  (forall n, e <> TagE n) -> tag st' = tag st.
Proof.
  intros Hm H Hne. step_inv H; simp_st; try congruence; try reflexivity;
    try (exfalso; eapply Hne; reflexivity);
    unfold root_refpush in *; rewrite Hm in *; simpl in *; rewrite ?andb_false_r in *; simpl in *; discriminate.
Qed.

Lemma xrun_failure_untagged g c tgt tr : c_mode c = MGraph -> forall st st', returned st = None -> tag st = None ->
  xrun g c tgt st tr = Some st' -> returned st' <> Some true -> tag st' = None.
Proof.
  intro Hm. induction tr as [|e r IH]; intros st st' Hn Ht H Hr.
  - simpl in H. now injection H as <-.
  - assert (Gen : (forall ok, e <> Ret ok) -> (forall n, e <> TagB n) -> (forall n, e <> TagE n) ->
                  match step g c st e with Some s0 => xrun g c tgt s0 r | None => None end = Some st' ->
                  tag st' = None).
    { intros N1 N2 N3 H0. destruct (step g c st e) as [s0|] eqn:E; [|discriminate H0].
      apply (IH s0 st'); auto.
      - rewrite (step_keeps_returned g c st e s0 E N1); exact Hn.
      - rewrite (step_keeps_tag g c st e s0 Hm E N3); exact Ht. }
    destruct e; try (apply Gen; [intros; discriminate | intros; discriminate | intros; discriminate | exact H]).
    + simpl in H. destruct r as [|e2 r2]; [discriminate H|].
      destruct e2; try discriminate H.
      destruct r2 as [|e3 r3]; [discriminate H|].
      destruct e3; try discriminate H. destruct ok; [|discriminate H].
      destruct r3; [|discriminate H].
      destruct (Nat.eqb n tgt && Nat.eqb n0 tgt) eqn:En; [|discriminate H].
      destruct (step g c st (Ret true)) as [s1|] eqn:E; [|discriminate H].
      injection H as <-. exfalso. apply Hr. simpl.
      unfold step in E. rewrite Hn in E.
      repeat match type of E with (if ?b then _ else _) = _ => destruct b; [|try discriminate E] end;
        try discriminate E; now injection E as <-.
    + simpl in H. discriminate H.
    + destruct ok; simpl in H; [discriminate H|].
      destruct (step g c st (Ret false)) as [s0|] eqn:E; [|discriminate H].
      assert (Hb : returned s0 = Some false /\ tag s0 = tag st).
      { clear H. unfold step in E. rewrite Hn in E.
        destruct (existsb (fun n => is_dead (ph st n)) (seq 0 (g_n g))); [|discriminate E].
        now injection E as <-. }
      destruct Hb as [Hb Hb2].
      rewrite (xrun_after_ret g c tgt r s0 st' false Hb H). congruence.
Qed.

Lemma extended_copy_failure_untagged g c tgt d0 tr st : c_mode c = MGraph ->
  xaccepts g c tgt d0 tr = Some st -> returned st <> Some true -> tag st = None.
Proof. intros Hm H Hr. exact (xrun_failure_untagged g c tgt tr Hm (init c d0) st eq_refl eq_refl H Hr). Qed.

(* the reference is written once, last, and only after every root's walk has returned success *)
Lemma extended_copy_tag_last g c tgt d0 tr st :
  xaccepts g c tgt d0 tr = Some st -> returned st = Some true ->
  exists walk st1, accepts g c d0 (walk ++ [Ret true]) = Some st1 /\ returned st1 = Some true /\
                   dst st = dst st1 /\ tr = walk ++ [TagB tgt; TagE tgt; Ret true].
Proof.
  intros H Hr. destruct (xrun_success g c tgt tr (init c d0) st eq_refl H Hr) as [w [s1 [R [-> ->]]]].
  exists w, s1. repeat split; auto.
Qed.

(* ---- bytes: from every root, and for ExtendedCopy ---- *)
Lemma stored_nodes_app a : forall b acc, stored_nodes (a ++ b) acc = stored_nodes b (stored_nodes a acc).
Proof. induction a as [|e a IH]; simpl; intros; [reflexivity|apply IH]. Qed.

Section BytesExt.
Variable digest : str -> nat.
Variable src_bytes : node -> str.

(* whatever CopySpec says is present is there with the source's bytes *)
Lemma bytes_of_present g tr served bs0 bs d0 n :
  collision_free digest src_bytes -> key_respects_bytes src_bytes g ->
  (forall n b, In (n, b) bs0 -> verify digest src_bytes n b = true) -> map fst bs0 = d0 ->
  brun digest src_bytes tr served bs0 = Some bs ->
  has g (stored_nodes tr d0) n = true ->
  exists m b, In (m, b) bs /\ g_dkey g m = g_dkey g n /\ b = src_bytes n.
Proof.
  intros Hcf Hk Hv0 Hd0 Hb Hp.
  destruct (brun_sound digest src_bytes tr served bs0 bs Hb Hv0) as [Hv Hnodes].
  rewrite Hd0 in Hnodes.
  apply has_spec in Hp as [m [Hin Hkey]].
  rewrite <- Hnodes in Hin. apply in_map_iff in Hin as [[m' b] [Hfst Hin]]. simpl in Hfst. subst m'.
  exists m, b. split; [exact Hin|]. split; [exact Hkey|].
  rewrite (Hcf m b (Hv m b Hin)). now apply Hk.
Qed.

Lemma bytes_identical_all_roots g c d0 tr st served bs0 bs :
  closed_nodes g d0 -> mt_consistent g ->
  collision_free digest src_bytes -> key_respects_bytes src_bytes g ->
  (forall n b, In (n, b) bs0 -> verify digest src_bytes n b = true) -> map fst bs0 = d0 ->
  accepts g c d0 tr = Some st -> returned st = Some true ->
  brun digest src_bytes tr served bs0 = Some bs ->
  forall r n, In r (c_root c :: c_xroots c) -> reach g r n ->
    exists m b, In (m, b) bs /\ g_dkey g m = g_dkey g n /\ b = src_bytes n.
Proof.
  intros Hc Hm Hcf Hk Hv0 Hd0 Ha Hr Hb r n Hin Hn.
  pose proof (closure_all_roots g c d0 tr st Hc Hm Ha Hr r n Hin Hn) as Hp.
  unfold accepts in Ha. pose proof (run_dst_stores g c tr _ _ Ha) as Hdst. simpl in Hdst.
  rewrite Hdst in Hp.
  exact (bytes_of_present g tr served bs0 bs d0 n Hcf Hk Hv0 Hd0 Hb Hp).
Qed.

(* ExtendedCopy: success => the reference is on the node and every node under every root is in the
   destination with the source's bytes *)
Lemma extended_copy_bytes g c tgt d0 tr st served bs0 bs :
  closed_nodes g d0 -> mt_consistent g ->
  collision_free digest src_bytes -> key_respects_bytes src_bytes g ->
  (forall n b, In (n, b) bs0 -> verify digest src_bytes n b = true) -> map fst bs0 = d0 ->
  xaccepts g c tgt d0 tr = Some st -> returned st = Some true ->
  brun digest src_bytes tr served bs0 = Some bs ->
  tag st = Some tgt /\
  forall r n, In r (c_root c :: c_xroots c) -> reach g r n ->
    exists m b, In (m, b) bs /\ g_dkey g m = g_dkey g n /\ b = src_bytes n.
Proof.
  intros Hc Hm Hcf Hk Hv0 Hd0 Ha Hr Hb.
  destruct (extended_copy_lemma g c tgt d0 tr st Hc Hm Ha Hr) as [Ht Hall].
  split; [exact Ht|]. intros r n Hin Hn. pose proof (Hall r n Hin Hn) as Hp.
  destruct (extended_copy_tag_last g c tgt d0 tr st Ha Hr) as [w [s1 [A1 [_ [Hd ->]]]]].
  unfold accepts in A1. pose proof (run_dst_stores g c _ _ _ A1) as Hdst. simpl in Hdst.
  rewrite Hd, Hdst in Hp.
  assert (E : stored_nodes (w ++ [TagB tgt; TagE tgt; Ret true]) d0 = stored_nodes (w ++ [Ret true]) d0)
    by (rewrite !stored_nodes_app; reflexivity).
  rewrite <- E in Hp.
  exact (bytes_of_present g _ served bs0 bs d0 n Hcf Hk Hv0 Hd0 Hb Hp).
Qed.
End BytesExt.

(* ---- every option set, with cancellation: xcaccepts_opt is sound for xaccepts ---- *)
Lemma step_no_tag_in_graph_mode g c d0 st e st' : c_mode c = MGraph -> Inv g c d0 st ->
  step g c st e = Some st' -> (forall n, e <> TagB n) /\ (forall n, e <> TagE n).
Proof.
  intros Hm I H.
  assert (NT : forall n, tagging_ph (ph st n) = true -> False).
  { intros n Ht. apply (i_tagging g c d0 st I) in Ht. apply root_tagger_root in Ht as [_ Ht]. congruence. }
  split; intros n Heq; subst e; unfold step in H; destruct (returned st); try discriminate H;
    destruct (ph st n) eqn:P; try discriminate H; apply (NT n); rewrite P; reflexivity.
Qed.

Lemma run_to_xrun g c d0 tgt full : c_mode c = MGraph -> forall st s0, Inv g c d0 st -> returned st = None ->
  run g c st full = Some s0 -> returned s0 = Some true ->
  exists w, full = w ++ [Ret true] /\
            xrun g c tgt st (w ++ [TagB tgt; TagE tgt; Ret true]) = Some (with_tag s0 tgt).
Proof.
  intro Hm. induction full as [|a r IH]; intros st s0 I Hn R Hr.
  - simpl in R. injection R as <-. congruence.
  - simpl in R. destruct (step g c st a) as [s1|] eqn:E; [|discriminate R].
    destruct (step_no_tag_in_graph_mode g c d0 st a s1 Hm I E) as [NB NE].
    pose proof (step_preserves_inv g c d0 st a s1 I E) as I1.
    destruct a;
      try solve [ exfalso; eapply NB; reflexivity | exfalso; eapply NE; reflexivity
                | assert (Hn1 : returned s1 = None)
                    by (rewrite (step_keeps_returned g c st _ s1 E); [exact Hn | intros; discriminate]);
                  destruct (IH s1 s0 I1 Hn1 R Hr) as [w [-> X]];
                  eexists (_ :: w); split; [reflexivity|]; cbn [app xrun]; rewrite E; exact X ].
    (* Ret ok *)
    assert (Hb : returned s1 = Some ok).
    { clear R. unfold step in E. rewrite Hn in E.
      destruct ok;
        repeat match type of E with (if ?b then _ else _) = _ => destruct b; [|try discriminate E] end;
        try discriminate E; now injection E as <-. }
    destruct r as [|e2 r2].
    + simpl in R. injection R as <-. assert (ok = true) by congruence. subst ok.
      exists []. split; [reflexivity|]. cbn [app xrun]. rewrite !Nat.eqb_refl. cbn [andb]. now rewrite E.
    + simpl in R. rewrite (step_after_ret g c s1 e2 ok Hb) in R. discriminate R.
Qed.

Lemma xcaccepts_sound cs g c tgt d0 tr s full : c_mode c = MGraph ->
  xcaccepts_opt cs g c tgt d0 tr = Some (s, full) -> returned (cs_st s) = Some true ->
  exists w, full = w ++ [Ret true] /\
            xaccepts g c tgt d0 (w ++ [TagB tgt; TagE tgt; Ret true]) = Some (cs_st s).
Proof.
  intros Hm H Hr. unfold xcaccepts_opt in H. destruct (xstrip tgt tr) as [tr'|].
  - destruct (caccepts_opt cs g c d0 tr') as [[s0 f]|] eqn:A; [|discriminate H].
    destruct (returned (cs_st s0)) as [[|]|] eqn:R0; try discriminate H. injection H as <- <-. simpl.
    apply (run_to_xrun g c d0 tgt f Hm (init c d0) (cs_st s0) (init_inv g c d0) eq_refl); [|exact R0].
    exact (crun_sound cs g c tr' _ _ _ A R0).
  - destruct (caccepts_opt cs g c d0 tr) as [[s0 f]|]; [|discriminate H].
    destruct (returned (cs_st s0)) as [[|]|] eqn:R0; try discriminate H; injection H as <- <-; congruence.
Qed.

(* ExtendedCopy under any option set and cancellation: success => reference on the node, all roots' graphs present *)
Lemma extended_copy_any_options cs g c tgt d0 tr s full :
  closed_nodes g d0 -> mt_consistent g -> c_mode c = MGraph ->
  xcaccepts_opt cs g c tgt d0 tr = Some (s, full) -> returned (cs_st s) = Some true ->
  tag (cs_st s) = Some tgt /\
  forall r n, In r (c_root c :: c_xroots c) -> reach g r n -> has g (dst (cs_st s)) n = true.
Proof.
  intros Hc Hmt Hm H Hr. destruct (xcaccepts_sound cs g c tgt d0 tr s full Hm H Hr) as [w [_ X]].
  exact (extended_copy_lemma g c tgt d0 _ (cs_st s) Hc Hmt X Hr).
Qed.

(* and no success without the tag: a recorded trace that returns success ends TagB node, TagE node, Ret true *)
Lemma xstrip_shape tgt tr : forall tr', xstrip tgt tr = Some tr' ->
  exists w, tr = w ++ [Ev (TagB tgt); Ev (TagE tgt); Ev (Ret true)] /\ tr' = w ++ [Ev (Ret true)].
Proof.
  induction tr as [|ce r IH]; intros tr' H; [discriminate H|].
  assert (Gen : match xstrip tgt r with Some r' => Some (ce :: r') | None => None end = Some tr' ->
                exists w, ce :: r = w ++ [Ev (TagB tgt); Ev (TagE tgt); Ev (Ret true)] /\ tr' = w ++ [Ev (Ret true)]).
  { intro H0. destruct (xstrip tgt r) as [r'|]; [|discriminate H0]. injection H0 as <-.
    destruct (IH r' eq_refl) as [w [-> ->]]. exists (ce :: w). split; reflexivity. }
  destruct ce as [e|]; [|apply Gen; exact H].
  destruct e; try (apply Gen; exact H).
  destruct r as [|[e2|] r2]; try (apply Gen; exact H).
  destruct e2; try (apply Gen; exact H).
  destruct r2 as [|[e3|] r3]; try (apply Gen; exact H).
  destruct e3; try (apply Gen; exact H).
  destruct ok; try (apply Gen; exact H).
  destruct r3; try (apply Gen; exact H).
  simpl in H. destruct (Nat.eqb n tgt && Nat.eqb n0 tgt) eqn:En; [|discriminate H].
  apply andb_true_iff in En as [E1 E2]. apply Nat.eqb_eq in E1, E2. subst. injection H as <-.
  exists []. split; reflexivity.
Qed.

Lemma extended_copy_success_is_tagged cs g c tgt d0 tr s full :
  xcaccepts_opt cs g c tgt d0 tr = Some (s, full) -> returned (cs_st s) = Some true ->
  exists w, tr = w ++ [Ev (TagB tgt); Ev (TagE tgt); Ev (Ret true)].
Proof.
  intros H Hr. unfold xcaccepts_opt in H. destruct (xstrip tgt tr) as [tr'|] eqn:X.
  - destruct (xstrip_shape tgt tr tr' X) as [w [-> _]]. now exists w.
  - destruct (caccepts_opt cs g c d0 tr) as [[s0 f]|]; [|discriminate H].
    destruct (returned (cs_st s0)) as [[|]|] eqn:R0; try discriminate H; injection H as <- <-; congruence.
Qed.
