(* C04: free-permit readings of the real semaphore (Model/CopyPermit.v). *)
From Oras Require Import Base.Prelude Model.CopySpec Model.CopyTop Model.CopyOpt Model.CopyCancel
  Model.CopyHold Model.CopyPermit Proofs.CopySpec Proofs.CopyAcct Proofs.CopyOpt Proofs.CopyHold.
From Oras Require Model.CopyImpl Proofs.CopyImplBase Proofs.CopyImplInv.
Local Open Scope nat_scope.

(* ------------------------------------------------------------------ a run with readings is a run *)

(* dropping the readings leaves a run of the overlay with the same final state and elaboration *)
Lemma prun_opt_events cs g c tr : forall st st' full,
  prun_opt cs g c st tr = Some (st', full) -> run_opt_h cs g c st (events_of tr) = Some (st', full).
Proof.
  induction tr as [|pe tr IH]; simpl; intros st st' full H; [exact H|].
  destruct pe as [e|f]; simpl in *.
  - destruct (step_opt_h cs g c st e) as [[s1 f1]|]; [|discriminate].
    destruct (prun_opt cs g c s1 tr) as [[s2 f2]|] eqn:E; [|discriminate].
    rewrite (IH _ _ _ E). exact H.
  - destruct (reading_ok g c st f); [|discriminate].
    destruct (prun_opt cs g c st tr) as [[s2 f2]|] eqn:E; [|discriminate].
    simpl in H. injection H as <- <-. apply IH. exact E.
Qed.

Lemma paccepts_opt_events cs g c d0 tr st full :
  paccepts_opt cs g c d0 tr = Some (st, full) -> accepts_opt_h cs g c d0 (events_of tr) = Some (st, full).
Proof. apply prun_opt_events. Qed.

Lemma prun_opt_app cs g c tr1 : forall tr2 st st' full,
  prun_opt cs g c st (tr1 ++ tr2) = Some (st', full) ->
  exists st1 f1 f2, prun_opt cs g c st tr1 = Some (st1, f1) /\ prun_opt cs g c st1 tr2 = Some (st', f2).
Proof.
  induction tr1 as [|pe tr1 IH]; simpl; intros tr2 st st' full H.
  - exists st, [], full. split; [reflexivity|exact H].
  - destruct (pstep_opt cs g c st pe) as [[s1 f1]|]; [|discriminate].
    destruct (prun_opt cs g c s1 (tr1 ++ tr2)) as [[s2 f2]|] eqn:E; [|discriminate].
    destruct (IH _ _ _ _ E) as [st1 [g1 [g2 [A B]]]]. rewrite A.
    injection H as <- <-. exists st1, (f1 ++ g1), g2. split; [reflexivity|exact B].
Qed.

(* every reading of an accepted run taken while the call runs: the permits the overlay knows to be held
   at that instant and the free ones fit into K -- and the overlay's own bound holds there too;
   a reading taken after the call returned shows all K permits free *)
Lemma readings_bounded cs g c d0 tr1 f tr2 st full :
  paccepts_opt cs g c d0 (tr1 ++ PFree f :: tr2) = Some (st, full) ->
  exists st1 f1, paccepts_opt cs g c d0 tr1 = Some (st1, f1) /\
    (returned st1 = None ->
       holders g st1 + f <= c_K c /\ holders g st1 <= c_K c /\
       inflight_src g st1 + f <= c_K c /\ inflight_dst g st1 + f <= c_K c) /\
    (returned st1 <> None -> f = c_K c).
Proof.
  unfold paccepts_opt. intro H. apply prun_opt_app in H as [st1 [f1 [f2 [H1 H2]]]].
  exists st1, f1. split; [exact H1|].
  simpl in H2. unfold reading_ok in H2.
  destruct (returned st1) as [b|] eqn:R.
  - split; [discriminate|]. intros _.
    destruct (Nat.eqb f (c_K c)) eqn:E; [|discriminate]. now apply Nat.eqb_eq in E.
  - split; [|congruence]. intros _.
    destruct (Nat.leb (holders g st1 + f) (c_K c)) eqn:E; [|discriminate].
    apply Nat.leb_le in E.
    destruct (inflight_le_holders g st1) as [_ [A B]]. lia.
Qed.

(* ------------------------------------------------------------------ the transport encoding *)

Lemma run_opt_p_prun_opt cs g c tr : forall st,
  run_opt_p cs g c st tr = prun_opt cs g c st (map (decode c) tr).
Proof.
  induction tr as [|e tr IH]; simpl; intro st; [reflexivity|].
  unfold step_opt_p. destruct (pstep_opt cs g c st (decode c e)) as [[s1 f1]|]; [|reflexivity].
  rewrite IH. reflexivity.
Qed.

(* outside CopyGraph nothing is decoded: the runner's step is the overlay's *)
Lemma step_opt_p_other_modes cs g c st e : c_mode c <> MGraph ->
  step_opt_p cs g c st e = step_opt_h cs g c st e.
Proof.
  intro Hm. unfold step_opt_p, decode. destruct (c_mode c); try contradiction; reflexivity.
Qed.

Lemma cstep_opt_p_other_modes cs g c s ce : c_mode c <> MGraph ->
  cstep_opt_p cs g c s ce = cstep_opt_h cs g c s ce.
Proof.
  intro Hm. unfold cstep_opt_p, decode. destruct ce as [e|]; [|reflexivity].
  destruct (c_mode c); try contradiction; reflexivity.
Qed.

(* an event that is not a reading goes through the cancellation layer over the overlay, unchanged *)
Lemma cstep_opt_p_event cs g c s e : (forall f, e <> TagB f) ->
  cstep_opt_p cs g c s (Ev e) = cstep_opt_h cs g c s (Ev e).
Proof.
  intro Hn. unfold cstep_opt_p, decode. destruct (c_mode c); try reflexivity.
  destruct e; try reflexivity. exfalso. eapply Hn. reflexivity.
Qed.

(* the token used for readings is free: CopyGraph never calls dst.Tag -- no trace of mode MGraph that
   the transition system accepts contains a TagB event *)
Lemma no_tag_in_copygraph g c d0 tr st n :
  accepts g c d0 tr = Some st -> c_mode c = MGraph -> ~ In (TagB n) tr.
Proof.
  intros Ha Hm Hin. unfold accepts in Ha.
  apply in_split in Hin as [t1 [t2 ->]].
  apply run_app in Ha as [s1 [H1 H2]].
  pose proof (run_inv g c d0 t1 _ _ (init_inv g c d0) H1) as I1.
  simpl in H2. destruct (step g c s1 (TagB n)) as [s2|] eqn:E; [|discriminate].
  unfold step in E. destruct (returned s1); [discriminate|].
  destruct (ph s1 n) eqn:Hp; try discriminate.
  pose proof (i_tagging g c d0 s1 I1 n) as T. rewrite Hp in T. specialize (T eq_refl).
  apply (root_tagger_root c) in T as [_ T]. congruence.
Qed.

Lemma no_tag_in_copygraph_opt cs g c d0 tr st full n :
  accepts_opt cs g c d0 tr = Some (st, full) -> c_mode c = MGraph -> ~ In (TagB n) tr.
Proof.
  intros Ha Hm Hin.
  pose proof (run_opt_sound cs g c tr _ _ _ Ha) as Hs.
  pose proof (run_opt_erase cs g c tr _ _ _ Ha) as He.
  apply (no_tag_in_copygraph g c d0 full st n Hs Hm).
  apply (erase_In cs). rewrite He. exact Hin.
Qed.

(* ------------------------------------------------------------------ the protocol model says the same *)

Section Proto.
Variable succ : nat -> list nat.
Variable K : nat.
Variable ext : bool.
Variable roots : list nat.

Definition must_holders (s : CopyImpl.state) : nat :=
  CopyImpl.count_upto (fun t => CopyImplBase.must_hold (CopyImpl.t_pc (CopyImpl.tasks s t))) (CopyImpl.ntasks s).

(* in every reachable state of syncutil.Go / LimitedRegion / semaphore: the free permits and the tasks
   that are in a counter where they must hold one fit into K *)
Lemma free_permits_cover_must_hold s : CopyImplBase.Reachable succ K ext roots s ->
  CopyImpl.free s + must_holders s <= K.
Proof.
  intro Hr. destruct (CopyImplInv.inv1_reach succ K ext roots s Hr) as [_ Hperm Hmust _].
  assert (must_holders s <= CopyImpl.holders s).
  { unfold must_holders, CopyImpl.holders. apply CopyImplBase.count_upto_le. intros i Hi. apply Hmust. exact Hi. }
  lia.
Qed.
End Proto.

(* ------------------------------------------------------------------ witness *)

(* K = 2, manifest 2 -> blobs 0, 1 (the graph of the overlay's example), with readings: 1 free while the
   manifest is probed, 0 free while both blobs are in their copy; a reading of 1 there is rejected *)
Definition ptr_ok : list pev :=
  [PEv (ExB 2); PFree 1; PEv (ExE 2 false); PEv (SFB 2); PEv (SFE 2); PEv (SFC 2); PFree 2;
   PEv (ExB 0); PFree 1; PEv (ExB 1); PFree 0; PEv (ExE 0 false); PEv (ExE 1 false); PFree 0;
   PEv (Cb CPre 0); PEv (SFB 0); PEv (SFE 0); PEv (PuB 0 false); PEv (PuE 0 false POk); PEv (SFC 0);
   PEv (Cb CPost 0); PFree 1;
   PEv (Cb CPre 1); PEv (SFB 1); PEv (SFE 1); PEv (PuB 1 false); PEv (PuE 1 false POk); PEv (SFC 1);
   PEv (Cb CPost 1); PEv (Cb CPre 2); PEv (PuB 2 false); PEv (PuE 2 false POk); PEv (Cb CPost 2);
   PEv (Ret true); PFree 2].
(* the same run, but one permit is missing after the return *)
Definition ptr_leak : list pev := removelast ptr_ok ++ [PFree 1].
Definition ptr_bad : list pev :=
  [PEv (ExB 2); PFree 1; PEv (ExE 2 false); PEv (SFB 2); PEv (SFE 2); PEv (SFC 2);
   PEv (ExB 0); PEv (ExB 1); PFree 1].
Definition c_perm : cfg := mkCfg 2 MGraph 2 false true [] [].

Lemma readings_example :
  (exists r, paccepts_opt all_set g_leaf c_perm [] ptr_ok = Some r) /\
  paccepts_opt all_set g_leaf c_perm [] ptr_bad = None /\
  (exists r, accepts_opt_h all_set g_leaf c_perm [] (events_of ptr_bad) = Some r) /\
  paccepts_opt all_set g_leaf c_perm [] ptr_leak = None.
Proof.
  split; [eexists; vm_compute; reflexivity|].
  split; [vm_compute; reflexivity|].
  split; [eexists; vm_compute; reflexivity|].
  vm_compute; reflexivity.
Qed.
