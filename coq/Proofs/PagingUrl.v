(* C15 -- lemmas about Model/PagingUrl.v (the string level of the listing requests) *)
From Oras Require Import Base.Prelude Generated.GC15 Model.Paging Model.PagingUrl Proofs.Paging.

(* ---------- split / join / cut ---------- *)

Lemma split_on_nonnil c s : split_on c s <> [].
Proof.
  induction s as [|d s IH]; simpl; [discriminate|].
  destruct (d =? c); [discriminate|]. destruct (split_on c s); [discriminate|discriminate].
Qed.

Lemma split_on_app c x rest :
  contains c x = false -> split_on c (x ++ c :: rest) = x :: split_on c rest.
Proof.
  induction x as [|d x IH]; simpl; intro H.
  - now rewrite N.eqb_refl.
  - apply orb_false_iff in H as [H1 H2]. rewrite H1. rewrite (IH H2). reflexivity.
Qed.

Lemma split_on_plain c x : contains c x = false -> split_on c x = [x].
Proof.
  induction x as [|d x IH]; simpl; intro H; [reflexivity|].
  apply orb_false_iff in H as [H1 H2]. rewrite H1. now rewrite (IH H2).
Qed.

Lemma split_on_join c l :
  l <> [] -> Forall (fun x => contains c x = false) l -> split_on c (join [c] l) = l.
Proof.
  induction l as [|x l IH]; intros Hne HF; [contradiction|].
  inversion HF as [|? ? Hx HF']; subst.
  destruct l as [|y l].
  - simpl. now apply split_on_plain.
  - change (join [c] (x :: y :: l)) with (x ++ [c] ++ join [c] (y :: l)).
    simpl app. rewrite split_on_app by exact Hx. f_equal. apply IH; [discriminate|exact HF'].
Qed.

Lemma split_on_no_sep c s : Forall (fun x => contains c x = false) (split_on c s).
Proof.
  induction s as [|d s IH]; simpl; [repeat constructor|].
  destruct (d =? c) eqn:E; [constructor; [reflexivity|exact IH]|].
  destruct (split_on c s) as [|w ws]; [repeat constructor; simpl; now rewrite E|].
  inversion IH; subst. constructor; [simpl; rewrite E; assumption|assumption].
Qed.

Lemma cut_app c x r : contains c x = false -> cut c (x ++ c :: r) = (x, Some r).
Proof.
  induction x as [|d x IH]; simpl; intro H.
  - now rewrite N.eqb_refl.
  - apply orb_false_iff in H as [H1 H2]. rewrite H1. now rewrite (IH H2).
Qed.

Lemma cut_plain c x : contains c x = false -> cut c x = (x, None).
Proof.
  induction x as [|d x IH]; simpl; intro H; [reflexivity|].
  apply orb_false_iff in H as [H1 H2]. rewrite H1. now rewrite (IH H2).
Qed.

Lemma contains_forallb c (P : N -> bool) s :
  P c = false -> forallb P s = true -> contains c s = false.
Proof.
  intros Hc. induction s as [|d s IH]; simpl; intro H; [reflexivity|].
  apply andb_true_iff in H as [H1 H2]. rewrite (IH H2), orb_false_r.
  destruct (N.eqb_spec d c); [subst; congruence|reflexivity].
Qed.

(* ---------- QueryEscape / QueryUnescape ---------- *)

Definition byte_ok (c : N) : Prop := c < 256.

Lemma small_cases (P : N -> bool) (n : nat) :
  forallb P (map N.of_nat (seq 0 n)) = true -> forall v, v < N.of_nat n -> P v = true.
Proof.
  intros H v Hv. rewrite forallb_forall in H. apply H.
  apply in_map_iff. exists (N.to_nat v). split; [apply N2Nat.id|]. apply in_seq. lia.
Qed.

Lemma hexval_hexdig v : v < 16 -> hexval (hexdig v) = Some v.
Proof.
  intro H.
  pose proof (small_cases (fun v => match hexval (hexdig v) with Some w => w =? v | None => false end) 16
                eq_refl v H) as X.
  cbv beta in X. destruct (hexval (hexdig v)); [|discriminate]. apply N.eqb_eq in X. now subst.
Qed.

(* the characters QueryEscape writes *)
Definition esc_char (c : N) : bool := unreserved c || (c =? c_plus) || (c =? c_pct).

Lemma hexdig_unreserved v : v < 16 -> unreserved (hexdig v) = true.
Proof. intro H. apply (small_cases (fun v => unreserved (hexdig v)) 16); [vm_compute; reflexivity|exact H]. Qed.

Lemma query_escape_chars s : Forall byte_ok s -> forallb esc_char (query_escape s) = true.
Proof.
  induction s as [|c s IH]; intro HF; simpl; [reflexivity|].
  inversion HF as [|? ? Hc HF']; subst. specialize (IH HF').
  destruct (unreserved c) eqn:U; simpl.
  - unfold esc_char at 1. now rewrite U, IH.
  - destruct (c =? 32); simpl; rewrite IH; unfold esc_char; simpl; [reflexivity|].
    assert (c / 16 < 16) by (apply N.div_lt_upper_bound; [discriminate|exact Hc]).
    assert (c mod 16 < 16) by (apply N.mod_lt; discriminate).
    rewrite !hexdig_unreserved by assumption. reflexivity.
Qed.

Lemma unreserved_plain c : unreserved c = true -> (c =? c_pct) = false /\ (c =? c_plus) = false.
Proof.
  intro H. split.
  - destruct (N.eqb_spec c c_pct); [subst; vm_compute in H; discriminate|reflexivity].
  - destruct (N.eqb_spec c c_plus); [subst; vm_compute in H; discriminate|reflexivity].
Qed.

Theorem escape_roundtrip s : Forall byte_ok s -> query_unescape (query_escape s) = Some s.
Proof.
  induction s as [|c s IH]; intro HF; [reflexivity|].
  inversion HF as [|? ? Hc HF']; subst. specialize (IH HF').
  cbn [query_escape].
  destruct (unreserved c) eqn:U.
  - destruct (unreserved_plain c U) as [E1 E2]. cbn [query_unescape]. rewrite E1, IH, E2. reflexivity.
  - destruct (N.eqb_spec c 32).
    + subst. cbn [query_unescape]. change (c_plus =? c_pct) with false. cbv iota. rewrite IH.
      now rewrite N.eqb_refl.
    + cbn [query_unescape]. rewrite N.eqb_refl.
      assert (c / 16 < 16) by (apply N.div_lt_upper_bound; [discriminate|exact Hc]).
      assert (c mod 16 < 16) by (apply N.mod_lt; discriminate).
      rewrite !hexval_hexdig by assumption. rewrite IH.
      f_equal. f_equal. symmetry. apply N.div_mod. discriminate.
Qed.

Lemma esc_char_no c : (c =? c_amp) = true \/ (c =? c_eq) = true -> esc_char c = false.
Proof. intros [H|H]; apply N.eqb_eq in H; subst; reflexivity. Qed.

Lemma query_escape_no_amp s : Forall byte_ok s -> contains c_amp (query_escape s) = false.
Proof. intro H. apply (contains_forallb c_amp esc_char); [reflexivity|now apply query_escape_chars]. Qed.

Lemma query_escape_no_eq s : Forall byte_ok s -> contains c_eq (query_escape s) = false.
Proof. intro H. apply (contains_forallb c_eq esc_char); [reflexivity|now apply query_escape_chars]. Qed.

(* ---------- setQueryParams ---------- *)

Definition param_ok (p : str) : Prop := is_empty p = false /\ contains c_amp p = false.

Lemma raw_params_ok raw : Forall param_ok (raw_params raw).
Proof.
  unfold raw_params. pose proof (split_on_no_sep c_amp raw) as H.
  induction (split_on c_amp raw) as [|p l IH]; simpl; [constructor|].
  inversion H; subst. destruct (is_empty p) eqn:E; simpl; [now apply IH|].
  constructor; [split; assumption|now apply IH].
Qed.

Lemma raw_params_join l : Forall param_ok l -> raw_params (join [c_amp] l) = l.
Proof.
  intro H. unfold raw_params. destruct l as [|p l]; [reflexivity|].
  rewrite split_on_join; [|discriminate|].
  - induction H as [|x l' [E _] _ IH]; simpl; [reflexivity|]. rewrite E. simpl. now f_equal.
  - clear -H. induction H as [|x l' [_ A] _ IH]; constructor; assumption.
Qed.

Definition parse_param (p : str) : str * str :=
  let '(k, v) := cut c_eq p in
  (unescape_or_raw k, match v with Some v' => unescape_or_raw v' | None => [] end).

Lemma parse_query_lenient_eq raw : parse_query_lenient raw = map parse_param (raw_params raw).
Proof. reflexivity. Qed.

Lemma parse_param_key p : fst (parse_param p) = param_key p.
Proof. unfold parse_param, param_key. now destruct (cut c_eq p). Qed.

Definition kv_ok (kv : str * str) : Prop := Forall byte_ok (fst kv) /\ Forall byte_ok (snd kv).

Definition new_param (kv : str * str) : str := query_escape (fst kv) ++ c_eq :: query_escape (snd kv).

Lemma new_param_ok kv : kv_ok kv -> param_ok (new_param kv).
Proof.
  intros [Hk Hv]. unfold new_param. split.
  - destruct (query_escape (fst kv)); reflexivity.
  - rewrite contains_app. rewrite (query_escape_no_amp _ Hk). simpl.
    now rewrite (query_escape_no_amp _ Hv).
Qed.

Lemma parse_new_param kv : kv_ok kv -> parse_param (new_param kv) = kv.
Proof.
  intros [Hk Hv]. unfold parse_param, new_param.
  rewrite cut_app by (now apply query_escape_no_eq).
  unfold unescape_or_raw. rewrite !escape_roundtrip by assumption. now destruct kv.
Qed.

Definition not_set (kvs : list (str * str)) (k : str) : bool :=
  negb (existsb (fun kv => str_eqb k (fst kv)) kvs).

(* every parameter that is not set is forwarded byte for byte, in order; the set ones follow *)
Theorem set_query_params_verbatim raw kvs :
  Forall kv_ok kvs ->
  raw_params (set_query_params raw kvs) =
  filter (fun p => not_set kvs (param_key p)) (raw_params raw) ++ map new_param kvs.
Proof.
  intro H. unfold set_query_params. apply raw_params_join.
  apply Forall_app. split.
  - pose proof (raw_params_ok raw) as R. induction R as [|p l Hp _ IH]; simpl; [constructor|].
    destruct (not_set kvs (param_key p)); [constructor; assumption|assumption].
  - induction H as [|kv l Hkv _ IH]; simpl; constructor; [now apply new_param_ok|exact IH].
Qed.

(* what a registry reads afterwards: the other parameters as before, then the set ones *)
Theorem set_query_params_spec raw kvs :
  Forall kv_ok kvs ->
  parse_query_lenient (set_query_params raw kvs) =
  filter (fun kv' => not_set kvs (fst kv')) (parse_query_lenient raw) ++ kvs.
Proof.
  intro H. rewrite !parse_query_lenient_eq. rewrite (set_query_params_verbatim raw kvs H).
  rewrite map_app. f_equal.
  - induction (raw_params raw) as [|p l IH]; simpl; [reflexivity|].
    rewrite parse_param_key. destruct (not_set kvs (param_key p)); simpl; now rewrite IH.
  - rewrite map_map. induction H as [|kv l Hkv _ IH]; simpl; [reflexivity|].
    rewrite (parse_new_param kv Hkv). now f_equal.
Qed.

(* first-match lookup, as the registry model reads a query *)
Fixpoint lookup (k : str) (l : list (str * str)) : option str :=
  match l with
  | [] => None
  | (k', v) :: l' => if str_eqb k' k then Some v else lookup k l'
  end.

Lemma lookup_app k l1 l2 :
  lookup k (l1 ++ l2) = match lookup k l1 with Some v => Some v | None => lookup k l2 end.
Proof. induction l1 as [|[k' v] l1 IH]; simpl; [reflexivity|]. destruct (str_eqb k' k); [reflexivity|exact IH]. Qed.

Lemma lookup_filter_other k (f : str -> bool) l :
  f k = true -> lookup k (filter (fun kv => f (fst kv)) l) = lookup k l.
Proof.
  intro Hk. induction l as [|[k' v] l IH]; simpl; [reflexivity|].
  destruct (str_eqb k' k) eqn:E.
  - apply str_eqb_spec in E. subst k'. rewrite Hk. simpl. now rewrite str_eqb_refl.
  - destruct (f k'); simpl; [now rewrite E|exact IH].
Qed.

Lemma lookup_filter_removed k (f : str -> bool) l :
  f k = false -> lookup k (filter (fun kv => f (fst kv)) l) = None.
Proof.
  intro Hk. induction l as [|[k' v] l IH]; simpl; [reflexivity|].
  destruct (f k') eqn:F; simpl; [|exact IH].
  destruct (str_eqb k' k) eqn:E; [|exact IH]. apply str_eqb_spec in E. subst. congruence.
Qed.

(* setting one parameter = url.Values.Set as the registry model has it (Paging.qset):
   the key reads the new value, every other key reads what it read before *)
Theorem set_query_param_lookup raw k v k' :
  Forall byte_ok k -> Forall byte_ok v ->
  lookup k' (parse_query_lenient (set_query_params raw [(k, v)])) =
  if str_eqb k k' then Some v else lookup k' (parse_query_lenient raw).
Proof.
  intros Hk Hv. rewrite set_query_params_spec by (repeat constructor; assumption).
  rewrite lookup_app. unfold not_set. simpl existsb.
  destruct (str_eqb k k') eqn:E.
  - apply str_eqb_spec in E. subst k'.
    rewrite (lookup_filter_removed k (fun x => negb (str_eqb x k || false))) by (now rewrite str_eqb_refl).
    simpl. now rewrite str_eqb_refl.
  - assert (E' : str_eqb k' k = false).
    { destruct (str_eqb k' k) eqn:X; [|reflexivity]. apply str_eqb_spec in X. subst. now rewrite str_eqb_refl in E. }
    rewrite (lookup_filter_other k' (fun x => negb (str_eqb x k || false))) by (now rewrite E').
    simpl. rewrite E. now destruct (lookup k' (parse_query_lenient raw)).
Qed.

(* ---------- net/url reference resolution on the link forms registries use ---------- *)

Definition printable (c : N) : bool := (33 <=? c) && (c <=? 126).

Definition seg_ok (s : str) : Prop :=
  (exists ch t, s = ch :: t /\ (ch =? c_sl) = false) /\ contains c_sl s = false /\ s <> dot /\ s <> dotdot.

(* P = "/" ++ segments joined by "/": no empty, "." or ".." segment *)
Definition clean_path (P : str) (segs : list str) : Prop :=
  segs <> [] /\ Forall seg_ok segs /\ P = c_sl :: join [c_sl] segs.

Lemma seg_ok_not_dots s : seg_ok s -> str_eqb s dot = false /\ str_eqb s dotdot = false.
Proof. intros (_ & _ & A & B). split; apply str_eqb_neq; assumption. Qed.

Lemma fold_seg_plain segs acc :
  Forall seg_ok segs -> fold_left seg_step segs acc = acc ++ segs.
Proof.
  revert acc. induction segs as [|s l IH]; intros acc H; simpl; [now rewrite app_nil_r|].
  inversion H as [|? ? Hs Hl]; subst. destruct (seg_ok_not_dots s Hs) as [A B].
  unfold seg_step at 2. rewrite A, B. rewrite IH by exact Hl. now rewrite <- app_assoc.
Qed.

Lemma last_cons_ne {A} (x : A) l d : l <> [] -> last (x :: l) d = last l d.
Proof. destruct l; [contradiction|reflexivity]. Qed.

Lemma last_in {A} (l : list A) d : l <> [] -> In (last l d) l.
Proof.
  induction l as [|x l IH]; [contradiction|]. intros _. destruct l as [|y l]; [now left|].
  right. apply IH. discriminate.
Qed.

Lemma clean_path_split P segs : clean_path P segs -> split_on c_sl P = [] :: segs.
Proof.
  intros (Hne & HF & ->). cbn [split_on]. change (c_sl =? c_sl) with true. cbv iota. f_equal.
  apply split_on_join; [exact Hne|]. clear Hne. induction HF as [|s l (_ & A & _) _ IH]; constructor; assumption.
Qed.

Lemma clean_path_head P segs :
  clean_path P segs -> exists ch t, P = c_sl :: ch :: t /\ (ch =? c_sl) = false.
Proof.
  intros (Hne & HF & ->). destruct segs as [|s l]; [contradiction|].
  inversion HF as [|? ? ((ch & t & -> & Hc) & _) _]; subst.
  destruct l; simpl; eauto.
Qed.

(* a clean path is a fixed point of net/url's dot-segment removal *)
Lemma resolve_path_clean P segs : clean_path P segs -> resolve_path P [] = P.
Proof.
  intro C. pose proof (clean_path_split P segs C) as S. destruct C as (Hne & HF & EP).
  unfold resolve_path. cbv zeta iota. rewrite EP at 1. cbv iota. rewrite S.
  cbn [fold_left]. change (seg_step [] []) with [[] : str].
  rewrite fold_seg_plain by exact HF.
  rewrite last_cons_ne by exact Hne.
  assert (L : seg_ok (last segs [])).
  { rewrite Forall_forall in HF. apply HF. now apply last_in. }
  destruct (seg_ok_not_dots _ L) as [A B]. rewrite A, B. cbn [orb].
  destruct segs as [|s l]; [contradiction|].
  change ([[]] ++ s :: l) with (([] : str) :: s :: l).
  change (join [c_sl] ([] :: s :: l)) with ([] ++ [c_sl] ++ join [c_sl] (s :: l)).
  cbn [app]. rewrite N.eqb_refl. cbn [tl]. now rewrite EP.
Qed.

Lemma resolve_path_abs B P segs : clean_path P segs -> resolve_path B P = P.
Proof.
  intro C. pose proof (resolve_path_clean P segs C) as R.
  destruct (clean_path_head P segs C) as (ch & t & E & _).
  unfold resolve_path in *. rewrite E in *. cbv zeta iota in *.
  change (c_sl =? c_sl) with true. cbv iota. exact R.
Qed.

Definition link_ok (ref : str) : Prop := forallb printable ref = true.

Lemma no_qm_path P : forallb path_char P = true -> contains c_qm P = false.
Proof. apply contains_forallb. reflexivity. Qed.
Lemma no_hash_path P : forallb path_char P = true -> contains c_hash P = false.
Proof. apply contains_forallb. reflexivity. Qed.
Lemma no_hash_query Q : forallb query_char Q = true -> contains c_hash Q = false.
Proof. apply contains_forallb. reflexivity. Qed.

(* form 1: </path?query> *)
Theorem resolve_abs_path base P segs Q :
  clean_path P segs -> forallb path_char P = true -> forallb query_char Q = true ->
  link_ok (P ++ c_qm :: Q) ->
  resolve_ref base (P ++ c_qm :: Q) = ROk (mkS (s_scheme base) (s_host base) P Q).
Proof.
  intros C HP HQ HL. destruct (clean_path_head P segs C) as (ch & t & E & Hc).
  unfold resolve_ref, parse_ref. unfold link_ok in HL. fold printable.
  change (fun c => (33 <=? c) && (c <=? 126)) with printable. rewrite HL. cbn [negb orb].
  rewrite contains_app. rewrite (no_hash_path P HP). cbn [contains existsb orb].
  change (existsb (fun d => d =? c_hash) Q) with (contains c_hash Q). rewrite (no_hash_query Q HQ).
  change (c_qm =? c_hash) with false. cbn [orb].
  assert (G : get_scheme (P ++ c_qm :: Q) = SNone) by (rewrite E; reflexivity).
  rewrite G. rewrite cut_app by (now apply no_qm_path).
  rewrite E. cbn [has_prefix]. change (c_sl =? c_sl) with true. rewrite (N.eqb_sym c_sl ch), Hc. cbn [andb negb].
  rewrite <- E. rewrite HP, HQ. cbn [andb].
  cbn [p_scheme p_host p_path p_query]. rewrite (resolve_path_abs _ P segs C). now destruct P.
Qed.

(* form 2: <?query> -- the path of the request *)
Theorem resolve_query_only base segs Q :
  clean_path (s_path base) segs -> forallb query_char Q = true -> link_ok (c_qm :: Q) ->
  resolve_ref base (c_qm :: Q) = ROk (mkS (s_scheme base) (s_host base) (s_path base) Q).
Proof.
  intros C HQ HL. unfold resolve_ref, parse_ref. unfold link_ok in HL.
  change (fun c => (33 <=? c) && (c <=? 126)) with printable. rewrite HL. cbn [negb orb].
  cbn [contains existsb]. change (c_qm =? c_hash) with false. cbn [orb].
  change (existsb (fun d => d =? c_hash) Q) with (contains c_hash Q). rewrite (no_hash_query Q HQ).
  change (get_scheme (c_qm :: Q)) with SNone. cbn [cut]. rewrite N.eqb_refl.
  cbn [has_prefix negb andb contains existsb cut fst forallb]. rewrite HQ.
  cbn [p_scheme p_host p_path p_query].
  now rewrite (resolve_path_clean _ segs C).
Qed.
