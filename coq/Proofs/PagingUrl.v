(* C15 -- lemmas about Model/PagingUrl.v (the string level of the listing requests) *)
From Oras Require Import Base.Prelude Generated.GC15 Model.Paging Model.PagingUrl Proofs.Paging.

(* ---------- split / join / cut ---------- *)

Lemma split_on_nonnil c s : split_on c s <> [].
Proof.
  induction s as [|d s IH]; simpl; [discriminate|].
  destruct (d =? c); [discriminate|]. destruct (split_on c s); [discriminate|discriminate].
Qed.

Lemma split_on_app c x rest :
  contains c x = false -> split_on c (x ++ c :: rest) = x :: split_on c rest.
Proof.
  induction x as [|d x IH]; simpl; intro H.
  - now rewrite N.eqb_refl.
  - apply orb_false_iff in H as [H1 H2]. rewrite H1. rewrite (IH H2). reflexivity.
Qed.

Lemma split_on_plain c x : contains c x = false -> split_on c x = [x].
Proof.
  induction x as [|d x IH]; simpl; intro H; [reflexivity|].
  apply orb_false_iff in H as [H1 H2]. rewrite H1. now rewrite (IH H2).
Qed.

Lemma split_on_join c l :
  l <> [] -> Forall (fun x => contains c x = false) l -> split_on c (join [c] l) = l.
Proof.
  induction l as [|x l IH]; intros Hne HF; [contradiction|].
  inversion HF as [|? ? Hx HF']; subst.
  destruct l as [|y l].
  - simpl. now apply split_on_plain.
  - change (join [c] (x :: y :: l)) with (x ++ [c] ++ join [c] (y :: l)).
    simpl app. rewrite split_on_app by exact Hx. f_equal. apply IH; [discriminate|exact HF'].
Qed.

Lemma split_on_no_sep c s : Forall (fun x => contains c x = false) (split_on c s).
Proof.
  induction s as [|d s IH]; simpl; [repeat constructor|].
  destruct (d =? c) eqn:E; [constructor; [reflexivity|exact IH]|].
  destruct (split_on c s) as [|w ws]; [repeat constructor; simpl; now rewrite E|].
  inversion IH; subst. constructor; [simpl; rewrite E; assumption|assumption].
Qed.

Lemma cut_app c x r : contains c x = false -> cut c (x ++ c :: r) = (x, Some r).
Proof.
  induction x as [|d x IH]; simpl; intro H.
  - now rewrite N.eqb_refl.
  - apply orb_false_iff in H as [H1 H2]. rewrite H1. now rewrite (IH H2).
Qed.

Lemma cut_plain c x : contains c x = false -> cut c x = (x, None).
Proof.
  induction x as [|d x IH]; simpl; intro H; [reflexivity|].
  apply orb_false_iff in H as [H1 H2]. rewrite H1. now rewrite (IH H2).
Qed.

Lemma contains_forallb c (P : N -> bool) s :
  P c = false -> forallb P s = true -> contains c s = false.
Proof.
  intros Hc. induction s as [|d s IH]; simpl; intro H; [reflexivity|].
  apply andb_true_iff in H as [H1 H2]. rewrite (IH H2), orb_false_r.
  destruct (N.eqb_spec d c); [subst; congruence|reflexivity].
Qed.

(* ---------- QueryEscape / QueryUnescape ---------- *)

Definition byte_ok (c : N) : Prop := c < 256.

Lemma small_cases (P : N -> bool) (n : nat) :
  forallb P (map N.of_nat (seq 0 n)) = true -> forall v, v < N.of_nat n -> P v = true.
Proof.
  intros H v Hv. rewrite forallb_forall in H. apply H.
  apply in_map_iff. exists (N.to_nat v). split; [apply N2Nat.id|]. apply in_seq. lia.
Qed.

Lemma hexval_hexdig v : v < 16 -> hexval (hexdig v) = Some v.
Proof.
  intro H.
  pose proof (small_cases (fun v => match hexval (hexdig v) with Some w => w =? v | None => false end) 16
                eq_refl v H) as X.
  cbv beta in X. destruct (hexval (hexdig v)); [|discriminate]. apply N.eqb_eq in X. now subst.
Qed.

(* the characters QueryEscape writes *)
Definition esc_char (c : N) : bool := unreserved c || (c =? c_plus) || (c =? c_pct).

Lemma hexdig_unreserved v : v < 16 -> unreserved (hexdig v) = true.
Proof. intro H. apply (small_cases (fun v => unreserved (hexdig v)) 16); [vm_compute; reflexivity|exact H]. Qed.

Lemma query_escape_chars s : Forall byte_ok s -> forallb esc_char (query_escape s) = true.
Proof.
  induction s as [|c s IH]; intro HF; simpl; [reflexivity|].
  inversion HF as [|? ? Hc HF']; subst. specialize (IH HF').
  destruct (unreserved c) eqn:U; simpl.
  - unfold esc_char at 1. now rewrite U, IH.
  - destruct (c =? 32); simpl; rewrite IH; unfold esc_char; simpl; [reflexivity|].
    assert (c / 16 < 16) by (apply N.div_lt_upper_bound; [discriminate|exact Hc]).
    assert (c mod 16 < 16) by (apply N.mod_lt; discriminate).
    rewrite !hexdig_unreserved by assumption. reflexivity.
Qed.

Lemma unreserved_plain c : unreserved c = true -> (c =? c_pct) = false /\ (c =? c_plus) = false.
Proof.
  intro H. split.
  - destruct (N.eqb_spec c c_pct); [subst; vm_compute in H; discriminate|reflexivity].
  - destruct (N.eqb_spec c c_plus); [subst; vm_compute in H; discriminate|reflexivity].
Qed.

Theorem escape_roundtrip s : Forall byte_ok s -> query_unescape (query_escape s) = Some s.
Proof.
  induction s as [|c s IH]; intro HF; [reflexivity|].
  inversion HF as [|? ? Hc HF']; subst. specialize (IH HF').
  cbn [query_escape].
  destruct (unreserved c) eqn:U.
  - destruct (unreserved_plain c U) as [E1 E2]. cbn [query_unescape]. rewrite E1, IH, E2. reflexivity.
  - destruct (N.eqb_spec c 32).
    + subst. cbn [query_unescape]. change (c_plus =? c_pct) with false. cbv iota. rewrite IH.
      now rewrite N.eqb_refl.
    + cbn [query_unescape]. rewrite N.eqb_refl.
      assert (c / 16 < 16) by (apply N.div_lt_upper_bound; [discriminate|exact Hc]).
      assert (c mod 16 < 16) by (apply N.mod_lt; discriminate).
      rewrite !hexval_hexdig by assumption. rewrite IH.
      f_equal. f_equal. symmetry. apply N.div_mod. discriminate.
Qed.

Lemma esc_char_no c : (c =? c_amp) = true \/ (c =? c_eq) = true -> esc_char c = false.
Proof. intros [H|H]; apply N.eqb_eq in H; subst; reflexivity. Qed.

Lemma query_escape_no_amp s : Forall byte_ok s -> contains c_amp (query_escape s) = false.
Proof. intro H. apply (contains_forallb c_amp esc_char); [reflexivity|now apply query_escape_chars]. Qed.

Lemma query_escape_no_eq s : Forall byte_ok s -> contains c_eq (query_escape s) = false.
Proof. intro H. apply (contains_forallb c_eq esc_char); [reflexivity|now apply query_escape_chars]. Qed.

(* ---------- setQueryParams ---------- *)

Definition param_ok (p : str) : Prop := is_empty p = false /\ contains c_amp p = false.

Lemma raw_params_ok raw : Forall param_ok (raw_params raw).
Proof.
  unfold raw_params. pose proof (split_on_no_sep c_amp raw) as H.
  induction (split_on c_amp raw) as [|p l IH]; simpl; [constructor|].
  inversion H; subst. destruct (is_empty p) eqn:E; simpl; [now apply IH|].
  constructor; [split; assumption|now apply IH].
Qed.

Lemma raw_params_join l : Forall param_ok l -> raw_params (join [c_amp] l) = l.
Proof.
  intro H. unfold raw_params. destruct l as [|p l]; [reflexivity|].
  rewrite split_on_join; [|discriminate|].
  - induction H as [|x l' [E _] _ IH]; simpl; [reflexivity|]. rewrite E. simpl. now f_equal.
  - clear -H. induction H as [|x l' [_ A] _ IH]; constructor; assumption.
Qed.

Definition parse_param (p : str) : str * str :=
  let '(k, v) := cut c_eq p in
  (unescape_or_raw k, match v with Some v' => unescape_or_raw v' | None => [] end).

Lemma parse_query_lenient_eq raw : parse_query_lenient raw = map parse_param (raw_params raw).
Proof. reflexivity. Qed.

Lemma parse_param_key p : fst (parse_param p) = param_key p.
Proof. unfold parse_param, param_key. now destruct (cut c_eq p). Qed.

Definition kv_ok (kv : str * str) : Prop := Forall byte_ok (fst kv) /\ Forall byte_ok (snd kv).

Definition new_param (kv : str * str) : str := query_escape (fst kv) ++ c_eq :: query_escape (snd kv).

Lemma new_param_ok kv : kv_ok kv -> param_ok (new_param kv).
Proof.
  intros [Hk Hv]. unfold new_param. split.
  - destruct (query_escape (fst kv)); reflexivity.
  - rewrite contains_app. rewrite (query_escape_no_amp _ Hk). simpl.
    now rewrite (query_escape_no_amp _ Hv).
Qed.

Lemma parse_new_param kv : kv_ok kv -> parse_param (new_param kv) = kv.
Proof.
  intros [Hk Hv]. unfold parse_param, new_param.
  rewrite cut_app by (now apply query_escape_no_eq).
  unfold unescape_or_raw. rewrite !escape_roundtrip by assumption. now destruct kv.
Qed.

Definition not_set (kvs : list (str * str)) (k : str) : bool :=
  negb (existsb (fun kv => str_eqb k (fst kv)) kvs).

(* every parameter that is not set is forwarded byte for byte, in order; the set ones follow *)
Theorem set_query_params_verbatim raw kvs :
  Forall kv_ok kvs ->
  raw_params (set_query_params raw kvs) =
  filter (fun p => not_set kvs (param_key p)) (raw_params raw) ++ map new_param kvs.
Proof.
  intro H. unfold set_query_params. apply raw_params_join.
  apply Forall_app. split.
  - pose proof (raw_params_ok raw) as R. induction R as [|p l Hp _ IH]; simpl; [constructor|].
    destruct (not_set kvs (param_key p)); [constructor; assumption|assumption].
  - induction H as [|kv l Hkv _ IH]; simpl; constructor; [now apply new_param_ok|exact IH].
Qed.

(* what a registry reads afterwards: the other parameters as before, then the set ones *)
Theorem set_query_params_spec raw kvs :
  Forall kv_ok kvs ->
  parse_query_lenient (set_query_params raw kvs) =
  filter (fun kv' => not_set kvs (fst kv')) (parse_query_lenient raw) ++ kvs.
Proof.
  intro H. rewrite !parse_query_lenient_eq. rewrite (set_query_params_verbatim raw kvs H).
  rewrite map_app. f_equal.
  - induction (raw_params raw) as [|p l IH]; simpl; [reflexivity|].
    rewrite parse_param_key. destruct (not_set kvs (param_key p)); simpl; now rewrite IH.
  - rewrite map_map. induction H as [|kv l Hkv _ IH]; simpl; [reflexivity|].
    rewrite (parse_new_param kv Hkv). now f_equal.
Qed.

(* first-match lookup, as the registry model reads a query *)
Fixpoint lookup (k : str) (l : list (str * str)) : option str :=
  match l with
  | [] => None
  | (k', v) :: l' => if str_eqb k' k then Some v else lookup k l'
  end.

Lemma lookup_app k l1 l2 :
  lookup k (l1 ++ l2) = match lookup k l1 with Some v => Some v | None => lookup k l2 end.
Proof. induction l1 as [|[k' v] l1 IH]; simpl; [reflexivity|]. destruct (str_eqb k' k); [reflexivity|exact IH]. Qed.

Lemma lookup_filter_other k (f : str -> bool) l :
  f k = true -> lookup k (filter (fun kv => f (fst kv)) l) = lookup k l.
Proof.
  intro Hk. induction l as [|[k' v] l IH]; simpl; [reflexivity|].
  destruct (str_eqb k' k) eqn:E.
  - apply str_eqb_spec in E. subst k'. rewrite Hk. simpl. now rewrite str_eqb_refl.
  - destruct (f k'); simpl; [now rewrite E|exact IH].
Qed.

Lemma lookup_filter_removed k (f : str -> bool) l :
  f k = false -> lookup k (filter (fun kv => f (fst kv)) l) = None.
Proof.
  intro Hk. induction l as [|[k' v] l IH]; simpl; [reflexivity|].
  destruct (f k') eqn:F; simpl; [|exact IH].
  destruct (str_eqb k' k) eqn:E; [|exact IH]. apply str_eqb_spec in E. subst. congruence.
Qed.

(* setting one parameter = url.Values.Set as the registry model has it (Paging.qset):
   the key reads the new value, every other key reads what it read before *)
Theorem set_query_param_lookup raw k v k' :
  Forall byte_ok k -> Forall byte_ok v ->
  lookup k' (parse_query_lenient (set_query_params raw [(k, v)])) =
  if str_eqb k k' then Some v else lookup k' (parse_query_lenient raw).
Proof.
  intros Hk Hv. rewrite set_query_params_spec by (repeat constructor; assumption).
  rewrite lookup_app. unfold not_set. simpl existsb.
  destruct (str_eqb k k') eqn:E.
  - apply str_eqb_spec in E. subst k'.
    rewrite (lookup_filter_removed k (fun x => negb (str_eqb x k || false))) by (now rewrite str_eqb_refl).
    simpl. now rewrite str_eqb_refl.
  - assert (E' : str_eqb k' k = false).
    { destruct (str_eqb k' k) eqn:X; [|reflexivity]. apply str_eqb_spec in X. subst. now rewrite str_eqb_refl in E. }
    rewrite (lookup_filter_other k' (fun x => negb (str_eqb x k || false))) by (now rewrite E').
    simpl. rewrite E. now destruct (lookup k' (parse_query_lenient raw)).
Qed.

(* ---------- net/url reference resolution on the link forms registries use ---------- *)

Definition printable (c : N) : bool := (33 <=? c) && (c <=? 126).

Definition seg_ok (s : str) : Prop :=
  (exists ch t, s = ch :: t /\ (ch =? c_sl) = false) /\ contains c_sl s = false /\ s <> dot /\ s <> dotdot.

(* P = "/" ++ segments joined by "/": no empty, "." or ".." segment *)
Definition clean_path (P : str) (segs : list str) : Prop :=
  segs <> [] /\ Forall seg_ok segs /\ P = c_sl :: join [c_sl] segs.

Lemma seg_ok_not_dots s : seg_ok s -> str_eqb s dot = false /\ str_eqb s dotdot = false.
Proof. intros (_ & _ & A & B). split; apply str_eqb_neq; assumption. Qed.

Lemma fold_seg_plain segs acc :
  Forall seg_ok segs -> fold_left seg_step segs acc = acc ++ segs.
Proof.
  revert acc. induction segs as [|s l IH]; intros acc H; simpl; [now rewrite app_nil_r|].
  inversion H as [|? ? Hs Hl]; subst. destruct (seg_ok_not_dots s Hs) as [A B].
  unfold seg_step at 2. rewrite A, B. rewrite IH by exact Hl. now rewrite <- app_assoc.
Qed.

Lemma last_cons_ne {A} (x : A) l d : l <> [] -> last (x :: l) d = last l d.
Proof. destruct l; [contradiction|reflexivity]. Qed.

Lemma last_in {A} (l : list A) d : l <> [] -> In (last l d) l.
Proof.
  induction l as [|x l IH]; [contradiction|]. intros _. destruct l as [|y l]; [now left|].
  right. apply IH. discriminate.
Qed.

Lemma clean_path_split P segs : clean_path P segs -> split_on c_sl P = [] :: segs.
Proof.
  intros (Hne & HF & ->). cbn [split_on]. change (c_sl =? c_sl) with true. cbv iota. f_equal.
  apply split_on_join; [exact Hne|]. clear Hne. induction HF as [|s l (_ & A & _) _ IH]; constructor; assumption.
Qed.

Lemma clean_path_head P segs :
  clean_path P segs -> exists ch t, P = c_sl :: ch :: t /\ (ch =? c_sl) = false.
Proof.
  intros (Hne & HF & ->). destruct segs as [|s l]; [contradiction|].
  inversion HF as [|? ? ((ch & t & -> & Hc) & _) _]; subst.
  destruct l; simpl; eauto.
Qed.

(* a clean path is a fixed point of net/url's dot-segment removal *)
Lemma resolve_path_clean P segs : clean_path P segs -> resolve_path P [] = P.
Proof.
  intro C. pose proof (clean_path_split P segs C) as S. destruct C as (Hne & HF & EP).
  unfold resolve_path. cbv zeta iota. rewrite EP at 1. cbv iota. rewrite S.
  cbn [fold_left]. change (seg_step [] []) with [[] : str].
  rewrite fold_seg_plain by exact HF.
  rewrite last_cons_ne by exact Hne.
  assert (L : seg_ok (last segs [])).
  { rewrite Forall_forall in HF. apply HF. now apply last_in. }
  destruct (seg_ok_not_dots _ L) as [A B]. rewrite A, B. cbn [orb].
  destruct segs as [|s l]; [contradiction|].
  change ([[]] ++ s :: l) with (([] : str) :: s :: l).
  change (join [c_sl] ([] :: s :: l)) with ([] ++ [c_sl] ++ join [c_sl] (s :: l)).
  cbn [app]. rewrite N.eqb_refl. cbn [tl]. now rewrite EP.
Qed.

Lemma resolve_path_abs B P segs : clean_path P segs -> resolve_path B P = P.
Proof.
  intro C. pose proof (resolve_path_clean P segs C) as R.
  destruct (clean_path_head P segs C) as (ch & t & E & _).
  unfold resolve_path in *. rewrite E in *. cbv zeta iota in *.
  change (c_sl =? c_sl) with true. cbv iota. exact R.
Qed.

Lemma no_bad_pct P : forallb path_char P = true -> bad_pct P = false.
Proof.
  induction P as [|c P IH]; simpl; intro H; [reflexivity|].
  apply andb_true_iff in H as [A B0].
  destruct (N.eqb_spec c c_pct); [subst; vm_compute in A; discriminate|now apply IH].
Qed.

Definition link_ok (ref : str) : Prop := forallb printable ref = true.

Lemma no_qm_path P : forallb path_char P = true -> contains c_qm P = false.
Proof. apply contains_forallb. reflexivity. Qed.
Lemma no_hash_path P : forallb path_char P = true -> contains c_hash P = false.
Proof. apply contains_forallb. reflexivity. Qed.
Lemma no_hash_query Q : forallb query_char Q = true -> contains c_hash Q = false.
Proof. apply contains_forallb. reflexivity. Qed.

(* form 1: </path?query> *)
Theorem resolve_abs_path base P segs Q :
  clean_path P segs -> forallb path_char P = true -> forallb query_char Q = true ->
  link_ok (P ++ c_qm :: Q) ->
  resolve_ref base (P ++ c_qm :: Q) = ROk (mkS (s_scheme base) (s_host base) P Q).
Proof.
  intros C HP HQ HL. destruct (clean_path_head P segs C) as (ch & t & E & Hc).
  unfold resolve_ref, parse_ref. unfold link_ok in HL. fold printable.
  change (fun c => (33 <=? c) && (c <=? 126)) with printable. rewrite HL. cbn [negb orb].
  rewrite contains_app. rewrite (no_hash_path P HP). cbn [contains existsb orb].
  change (existsb (fun d => d =? c_hash) Q) with (contains c_hash Q). rewrite (no_hash_query Q HQ).
  change (c_qm =? c_hash) with false. cbn [orb].
  assert (G : get_scheme (P ++ c_qm :: Q) = SNone) by (rewrite E; reflexivity).
  rewrite G. unfold parse_rest. rewrite cut_app by (now apply no_qm_path).
  rewrite E. cbn [has_prefix]. change (c_sl =? c_sl) with true. rewrite (N.eqb_sym c_sl ch), Hc. cbn [andb negb].
  rewrite <- E. rewrite (no_bad_pct P HP), HP, HQ. cbn [andb].
  cbn [p_scheme p_host p_path p_query]. rewrite (resolve_path_abs _ P segs C). now destruct P.
Qed.

(* form 2: <?query> -- the path of the request *)
Theorem resolve_query_only base segs Q :
  clean_path (s_path base) segs -> forallb query_char Q = true -> link_ok (c_qm :: Q) ->
  resolve_ref base (c_qm :: Q) = ROk (mkS (s_scheme base) (s_host base) (s_path base) Q).
Proof.
  intros C HQ HL. unfold resolve_ref, parse_ref. unfold link_ok in HL.
  change (fun c => (33 <=? c) && (c <=? 126)) with printable. rewrite HL. cbn [negb orb].
  cbn [contains existsb]. change (c_qm =? c_hash) with false. cbn [orb].
  change (existsb (fun d => d =? c_hash) Q) with (contains c_hash Q). rewrite (no_hash_query Q HQ).
  change (get_scheme (c_qm :: Q)) with SNone. unfold parse_rest. cbn [cut]. rewrite N.eqb_refl.
  cbn [has_prefix negb andb contains existsb cut fst forallb bad_pct]. rewrite HQ.
  cbn [p_scheme p_host p_path p_query].
  now rewrite (resolve_path_clean _ segs C).
Qed.

Lemma no_sl_host h : forallb host_char h = true -> contains c_sl h = false.
Proof. apply contains_forallb. reflexivity. Qed.
Lemma no_qm_host h : forallb host_char h = true -> contains c_qm h = false.
Proof. apply contains_forallb. reflexivity. Qed.
Lemma no_hash_host h : forallb host_char h = true -> contains c_hash h = false.
Proof. apply contains_forallb. reflexivity. Qed.

(* the authority part "//host/path?query" (forms 3 and 4 share it) *)
Lemma parse_authority_rest sch h hc ht P segs Q :
  h = hc :: ht -> forallb host_char h = true -> host_ok h = true ->
  clean_path P segs -> forallb path_char P = true -> forallb query_char Q = true ->
  parse_rest sch (c_sl :: c_sl :: h ++ P ++ c_qm :: Q) = POk (mkP sch (Some h) P (Some Q)).
Proof.
  intros Eh Hh Hok C HP HQ. destruct (clean_path_head P segs C) as (ch & t & E & Hc).
  unfold parse_rest.
  replace (c_sl :: c_sl :: h ++ P ++ c_qm :: Q) with ((c_sl :: c_sl :: h ++ P) ++ c_qm :: Q)
    by (simpl; now rewrite <- app_assoc).
  rewrite cut_app.
  2:{ simpl. rewrite contains_app. rewrite (no_qm_host h Hh). now apply no_qm_path. }
  assert (Hhc : (c_sl =? hc) = false).
  { subst h. simpl in Hh. apply andb_true_iff in Hh as [A _].
    destruct (N.eqb_spec c_sl hc); [subst hc; vm_compute in A; discriminate|reflexivity]. }
  assert (T3 : has_prefix [c_sl; c_sl; c_sl] (c_sl :: c_sl :: h ++ P) = false).
  { rewrite Eh. cbn [has_prefix app]. change (c_sl =? c_sl) with true. now rewrite Hhc. }
  assert (T2 : has_prefix [c_sl; c_sl] (c_sl :: c_sl :: h ++ P) = true) by reflexivity.
  assert (T1 : has_prefix [c_sl] (c_sl :: c_sl :: h ++ P) = true) by reflexivity.
  rewrite T1, T3, T2. cbn [negb andb skipn].
  rewrite E. rewrite cut_app by (now apply no_sl_host). rewrite <- E. rewrite Hok, (no_bad_pct P HP), HP, HQ. cbn [andb].
  now destruct sch.
Qed.

(* form 3: <http://host/path?query> *)
Theorem resolve_absolute base h hc ht P segs Q :
  h = hc :: ht -> forallb host_char h = true -> host_ok h = true ->
  clean_path P segs -> forallb path_char P = true -> forallb query_char Q = true ->
  link_ok (b "http://" ++ h ++ P ++ c_qm :: Q) ->
  resolve_ref base (b "http://" ++ h ++ P ++ c_qm :: Q) = ROk (mkS (b "http") h P Q).
Proof.
  intros Eh Hh Hok C HP HQ HL.
  unfold resolve_ref, parse_ref. unfold link_ok in HL.
  change (fun c => (33 <=? c) && (c <=? 126)) with printable. rewrite HL. cbn [negb orb].
  assert (NH : contains c_hash (b "http://" ++ h ++ P ++ c_qm :: Q) = false).
  { rewrite !contains_app. rewrite (no_hash_host h Hh), (no_hash_path P HP). simpl.
    change (existsb (fun d => d =? c_hash) Q) with (contains c_hash Q). now rewrite (no_hash_query Q HQ). }
  rewrite NH.
  change (b "http://" ++ h ++ P ++ c_qm :: Q) with (b "http" ++ c_col :: c_sl :: c_sl :: h ++ P ++ c_qm :: Q).
  change (get_scheme (b "http" ++ c_col :: c_sl :: c_sl :: h ++ P ++ c_qm :: Q))
    with (SScheme (b "http") (c_sl :: c_sl :: h ++ P ++ c_qm :: Q)).
  cbv iota. change (map to_lower (b "http")) with (b "http").
  match goal with |- context [parse_rest ?x ?y] =>
    replace (parse_rest x y) with (POk (mkP x (Some h) P (Some Q)))
      by (symmetry; eapply parse_authority_rest; eassumption) end.
  cbn [p_scheme p_host p_path p_query]. now rewrite (resolve_path_clean P segs C).
Qed.

(* form 4: <//host/path?query> *)
Theorem resolve_scheme_relative base h hc ht P segs Q :
  h = hc :: ht -> forallb host_char h = true -> host_ok h = true ->
  clean_path P segs -> forallb path_char P = true -> forallb query_char Q = true ->
  link_ok (c_sl :: c_sl :: h ++ P ++ c_qm :: Q) ->
  resolve_ref base (c_sl :: c_sl :: h ++ P ++ c_qm :: Q) = ROk (mkS (s_scheme base) h P Q).
Proof.
  intros Eh Hh Hok C HP HQ HL.
  unfold resolve_ref, parse_ref. unfold link_ok in HL.
  change (fun c => (33 <=? c) && (c <=? 126)) with printable. rewrite HL. cbn [negb orb].
  assert (NH : contains c_hash (c_sl :: c_sl :: h ++ P ++ c_qm :: Q) = false).
  { simpl. rewrite !contains_app. rewrite (no_hash_host h Hh), (no_hash_path P HP). simpl.
    change (existsb (fun d => d =? c_hash) Q) with (contains c_hash Q). now rewrite (no_hash_query Q HQ). }
  rewrite NH.
  change (get_scheme (c_sl :: c_sl :: h ++ P ++ c_qm :: Q)) with SNone. cbv iota.
  match goal with |- context [parse_rest ?x ?y] =>
    replace (parse_rest x y) with (POk (mkP x (Some h) P (Some Q)))
      by (symmetry; eapply parse_authority_rest; eassumption) end.
  cbn [p_scheme p_host p_path p_query]. now rewrite (resolve_path_clean P segs C).
Qed.

(* ---------- one step of the listing: the Link forms give the intended next request ---------- *)

Lemma next_request_of_target c base t trailer u :
  contains c_gt t = false -> resolve_ref base t = ROk u -> s_path u <> [] ->
  next_request c base (c_lt :: t ++ c_gt :: trailer) = NNext (s_path u) (request_query c (s_query u) []).
Proof.
  intros Hgt Hr Hp. unfold next_request. rewrite parse_link_wellformed by exact Hgt. rewrite Hr.
  destruct (s_path u); [contradiction|reflexivity].
Qed.

(* the four absolute / host-relative / query-only forms of a link to (P, Q), whatever follows '>' *)
Inductive link_form (base : surl) (P Q : str) : str -> Prop :=
| LF_abs_path : link_form base P Q (P ++ c_qm :: Q)
| LF_query_only : P = s_path base -> link_form base P Q (c_qm :: Q)
| LF_absolute : s_scheme base = b "http" -> link_form base P Q (b "http://" ++ s_host base ++ P ++ c_qm :: Q)
| LF_scheme_rel : link_form base P Q (c_sl :: c_sl :: s_host base ++ P ++ c_qm :: Q).

Theorem next_request_link_forms c base P segs Q t trailer hc ht :
  link_form base P Q t ->
  clean_path P segs -> forallb path_char P = true -> forallb query_char Q = true ->
  s_host base = hc :: ht -> forallb host_char (s_host base) = true -> host_ok (s_host base) = true ->
  link_ok t -> contains c_gt t = false ->
  next_request c base (c_lt :: t ++ c_gt :: trailer) = NNext P (request_query c Q []).
Proof.
  intros F C HP HQ Eh Hh Hok HL Hgt.
  assert (Pne : P <> []) by (destruct (clean_path_head P segs C) as (? & ? & -> & _); discriminate).
  destruct F as [| EP | Es |].
  - rewrite (next_request_of_target c base _ trailer (mkS (s_scheme base) (s_host base) P Q)); auto.
    now apply (resolve_abs_path base P segs Q).
  - rewrite (next_request_of_target c base _ trailer (mkS (s_scheme base) (s_host base) P Q)); auto.
    rewrite EP. apply (resolve_query_only base segs Q); auto. now rewrite <- EP.
  - rewrite (next_request_of_target c base _ trailer (mkS (b "http") (s_host base) P Q)); auto.
    now apply (resolve_absolute base (s_host base) hc ht P segs Q).
  - rewrite (next_request_of_target c base _ trailer (mkS (s_scheme base) (s_host base) P Q)); auto.
    now apply (resolve_scheme_relative base (s_host base) hc ht P segs Q).
Qed.

(* ---------- the string level refines the association-list level ---------- *)

Definition show (v : qval) : str := match v with VS s => s | VN n => itoa n end.

(* raw represents q: a registry reading raw (lenient parse, first match) finds what qget finds in q *)
Definition repr (raw : str) (q : query) : Prop :=
  forall k, lookup k (parse_query_lenient raw) = option_map show (qget k q).

Lemma dec_digits_ok fuel n acc : Forall byte_ok acc -> Forall byte_ok (dec_digits fuel n acc).
Proof.
  revert n acc. induction fuel as [|f IH]; intros n acc H; simpl; [exact H|].
  assert (A : Forall byte_ok ((48 + n mod 10) :: acc)).
  { constructor; [|exact H]. unfold byte_ok. pose proof (N.mod_lt n 10 ltac:(discriminate)). lia. }
  destruct (n <? 10); [exact A|now apply IH].
Qed.

Lemma itoa_ok n : Forall byte_ok (itoa n).
Proof. apply dec_digits_ok. constructor. Qed.

Lemma k_n_ok : Forall byte_ok k_n. Proof. repeat constructor. Qed.
Lemma k_last_ok : Forall byte_ok k_last. Proof. repeat constructor. Qed.

Lemma qget_qset k k' v q : qget k' (qset k v q) = if str_eqb k k' then Some v else qget k' q.
Proof.
  destruct (str_eqb k k') eqn:E.
  - apply str_eqb_spec in E. subst. apply qget_qset_same.
  - apply qget_qset_other. intro H. subst. now rewrite str_eqb_refl in E.
Qed.

Lemma repr_set raw q k v sv :
  Forall byte_ok k -> Forall byte_ok sv -> show v = sv -> repr raw q ->
  repr (set_query_params raw [(k, sv)]) (qset k v q).
Proof.
  intros Hk Hv Es R k'. rewrite set_query_param_lookup by assumption. rewrite qget_qset.
  destruct (str_eqb k k'); [simpl; now rewrite Es|apply R].
Qed.

Lemma set_query_params_two raw k1 v1 k2 v2 k' :
  Forall byte_ok k1 -> Forall byte_ok v1 -> Forall byte_ok k2 -> Forall byte_ok v2 -> k1 <> k2 ->
  lookup k' (parse_query_lenient (set_query_params raw [(k1, v1); (k2, v2)])) =
  if str_eqb k2 k' then Some v2 else if str_eqb k1 k' then Some v1 else lookup k' (parse_query_lenient raw).
Proof.
  intros H1 H1v H2 H2v Hne.
  rewrite set_query_params_spec by (repeat constructor; assumption).
  rewrite lookup_app. unfold not_set. cbn [existsb fst].
  set (f := fun x : str => negb (str_eqb x k1 || (str_eqb x k2 || false))).
  assert (SYM : forall a c0, str_eqb a c0 = str_eqb c0 a).
  { intros a c0. destruct (str_eqb a c0) eqn:X; destruct (str_eqb c0 a) eqn:Y; try reflexivity.
    - apply str_eqb_spec in X. subst. now rewrite str_eqb_refl in Y.
    - apply str_eqb_spec in Y. subst. now rewrite str_eqb_refl in X. }
  destruct (str_eqb k2 k') eqn:E2.
  - apply str_eqb_spec in E2. subst k'.
    rewrite (lookup_filter_removed k2 f) by (unfold f; rewrite str_eqb_refl; now rewrite orb_true_r).
    cbn [lookup]. rewrite (str_eqb_neq k1 k2 Hne). now rewrite str_eqb_refl.
  - destruct (str_eqb k1 k') eqn:E1.
    + apply str_eqb_spec in E1. subst k'.
      rewrite (lookup_filter_removed k1 f) by (unfold f; now rewrite str_eqb_refl).
      cbn [lookup]. now rewrite str_eqb_refl.
    + rewrite (lookup_filter_other k' f) by (unfold f; rewrite (SYM k' k1), (SYM k' k2), E1, E2; reflexivity).
      cbn [lookup]. rewrite E1, E2. now destruct (lookup k' (parse_query_lenient raw)).
Qed.

(* the request the client really sends (setQueryParams on the raw query) is, for every key a
   registry may look up, the request of the association-list model (Paging.mk_request) *)
Theorem request_query_refines c p raw q last :
  Forall byte_ok last -> repr raw q ->
  repr (request_query c raw last) (u_query (mk_request c (mkUrl p q) last)).
Proof.
  intros Hl R. unfold request_query, page_params, mk_request. cbn [u_query u_path].
  destruct (0 <? c_n c)%Z; destruct (sends_last (c_kind c) && negb (is_empty last)); cbn [app].
  - intro k'. rewrite set_query_params_two; try assumption; try apply k_n_ok; try apply k_last_ok;
      try apply itoa_ok; try exact k_n_neq_last.
    rewrite !qget_qset. destruct (str_eqb k_last k'); [reflexivity|].
    destruct (str_eqb k_n k'); [reflexivity|apply R].
  - apply repr_set; auto; [apply k_n_ok|apply itoa_ok].
  - apply repr_set; auto. apply k_last_ok.
  - exact R.
Qed.

(* the empty query represents the empty association list; the referrers start query its model *)
Lemma repr_nil : repr [] [].
Proof. intro k. reflexivity. Qed.

Lemma repr_referrers_q0 a : Forall byte_ok a -> repr (referrers_q0 a) (referrers_query a).
Proof.
  intros Ha k. unfold referrers_q0, referrers_query. destruct (is_empty a); [reflexivity|].
  rewrite parse_query_lenient_eq.
  assert (RP : raw_params (k_at ++ c_eq :: query_escape a) = [k_at ++ c_eq :: query_escape a]).
  { unfold raw_params. rewrite split_on_plain.
    - reflexivity.
    - rewrite contains_app. simpl. now rewrite (query_escape_no_amp a Ha). }
  rewrite RP. cbn [map]. unfold parse_param.
  rewrite cut_app by reflexivity. unfold unescape_or_raw at 2. rewrite (escape_roundtrip a Ha).
  change (unescape_or_raw k_at) with k_at. cbn [lookup qget option_map show].
  now destruct (str_eqb k_at k).
Qed.

(* ---------- a registry that writes its link query by escaping ---------- *)

(* url.Values-style rendering of pairs: key=value joined by '&', both escaped *)
Definition enc_pairs (l : list (str * str)) : str := join [c_amp] (map new_param l).

Theorem parse_enc_pairs l : Forall kv_ok l -> parse_query_lenient (enc_pairs l) = l.
Proof.
  intro H. rewrite parse_query_lenient_eq. unfold enc_pairs.
  rewrite raw_params_join.
  - rewrite map_map. induction H as [|kv l' Hkv _ IH]; simpl; [reflexivity|].
    rewrite (parse_new_param kv Hkv). now f_equal.
  - induction H as [|kv l' Hkv _ IH]; simpl; constructor; [now apply new_param_ok|exact IH].
Qed.

Definition shown (q : query) : list (str * str) := map (fun kv => (fst kv, show (snd kv))) q.
Definition query_ok (q : query) : Prop := Forall (fun kv => Forall byte_ok (fst kv) /\ Forall byte_ok (show (snd kv))) q.

Lemma shown_ok q : query_ok q -> Forall kv_ok (shown q).
Proof. intro H. unfold shown. induction H as [|kv l Hkv _ IH]; simpl; constructor; [exact Hkv|exact IH]. Qed.

(* the escaped rendering of an association list represents it *)
Theorem repr_enc q : query_ok q -> repr (enc_pairs (shown q)) q.
Proof.
  intros H k. rewrite parse_enc_pairs.
  - induction q as [|[k' v] q IH]; simpl; [reflexivity|].
    inversion H; subst. destruct (str_eqb k' k); [reflexivity|now apply IH].
  - now apply shown_ok.
Qed.

Lemma esc_char_query_char c : esc_char c = true -> query_char c = true.
Proof.
  intro H. unfold esc_char, unreserved, is_alpha, is_digit, c_plus, c_pct in H.
  unfold query_char, c_hash.
  repeat (rewrite ?orb_true_iff, ?andb_true_iff, ?N.leb_le, ?N.eqb_eq in H).
  rewrite !andb_true_iff, !N.leb_le, negb_true_iff, N.eqb_neq. lia.
Qed.

Lemma forallb_join (P : N -> bool) sep l :
  forallb P sep = true -> Forall (fun x => forallb P x = true) l -> forallb P (join sep l) = true.
Proof.
  intros Hs H. induction H as [|x l Hx _ IH]; [reflexivity|].
  destruct l as [|y l]; [exact Hx|].
  change (join sep (x :: y :: l)) with (x ++ sep ++ join sep (y :: l)).
  rewrite !forallb_app. now rewrite Hx, Hs, IH.
Qed.

Lemma forallb_impl (P Q0 : N -> bool) s :
  (forall c, P c = true -> Q0 c = true) -> forallb P s = true -> forallb Q0 s = true.
Proof.
  intros I. induction s as [|c s IH]; simpl; [reflexivity|]. intro H.
  apply andb_true_iff in H as [A B0]. now rewrite (I c A), (IH B0).
Qed.

Lemma enc_pairs_query_char l : Forall kv_ok l -> forallb query_char (enc_pairs l) = true.
Proof.
  intro H. unfold enc_pairs. apply forallb_join; [reflexivity|].
  induction H as [|kv l' [Hk Hv] _ IH]; simpl; constructor; [|exact IH].
  unfold new_param. rewrite forallb_app. cbn [forallb].
  rewrite (forallb_impl esc_char query_char _ esc_char_query_char (query_escape_chars _ Hk)).
  rewrite (forallb_impl esc_char query_char _ esc_char_query_char (query_escape_chars _ Hv)).
  reflexivity.
Qed.

(* ---------- one step, end to end ---------- *)

(* A registry answers the request [base] with a link, in one of the four forms, to path P and the
   escaped rendering of the association list q'.  Then the next request of the string level
   (parseLink, net/url resolution, re-parse, setQueryParams) goes to P and its raw query
   represents the request the association-list model builds for the target (P, q'). *)
Theorem step_simulation c base P segs q' t trailer hc ht :
  let Q := enc_pairs (shown q') in
  link_form base P Q t -> query_ok q' ->
  clean_path P segs -> forallb path_char P = true ->
  s_host base = hc :: ht -> forallb host_char (s_host base) = true -> host_ok (s_host base) = true ->
  link_ok t -> contains c_gt t = false ->
  exists raw, next_request c base (c_lt :: t ++ c_gt :: trailer) = NNext P raw /\
              repr raw (u_query (mk_request c (mkUrl P q') [])).
Proof.
  intros Q F Hq C HP Eh Hh Hok HL Hgt.
  pose proof (shown_ok q' Hq) as KV.
  exists (request_query c Q []). split.
  - eapply next_request_link_forms; eauto. now apply enc_pairs_query_char.
  - apply request_query_refines; [constructor|]. now apply repr_enc.
Qed.

(* ---------- the page loop on strings refines the page loop on association lists ---------- *)

Section Refinement.
  Variable sch host : str.
  Variable serve_s : nat -> sreq -> response.
  Variable serve : nat -> url -> response.
  Variable resolve : url -> str -> option url.
  Variable cb_fail : nat -> bool.
  Variable c : cfg.
  (* an invariant of the request paths of the run (e.g. "the listing endpoint or its sibling") *)
  Variable InvP : str -> Prop.

  (* a raw request and a model request that a registry cannot tell apart *)
  Definition same_request (rs : sreq) (rq : url) : Prop :=
    sr_path rs = u_path rq /\ repr (sr_query rs) (u_query rq).

  (* the server answers related requests alike *)
  Hypothesis Hserve : forall i rs rq, InvP (sr_path rs) -> same_request rs rq -> serve_s i rs = serve i rq.
  (* net/url (as modelled) and the abstract resolver of the model agree on the links served *)
  Hypothesis Hlink : forall i rs rq t,
    InvP (sr_path rs) -> same_request rs rq -> parse_link (rs_link (serve i rq)) = LTarget t ->
    match resolve_ref (mkS sch host (sr_path rs) (sr_query rs)) t, resolve rq t with
    | ROk u, Some u' => s_path u <> [] /\ s_path u = u_path u' /\ repr (s_query u) (u_query u') /\ InvP (s_path u)
    | RErr, None => True
    | _, _ => False
    end.

  Theorem loop_s_refines_inv :
    forall fuel i k p raw q last,
      InvP p -> repr raw q -> Forall byte_ok last ->
      exists ts, loop_s sch host serve_s cb_fail c fuel i k p raw last = Some ts /\
                 let t := loop serve resolve cb_fail c fuel i k (mkUrl p q) last in
                 st_pages ts = t_pages t /\ st_out ts = t_out t /\
                 Forall2 same_request (st_reqs ts) (t_reqs t).
  Proof.
    induction fuel as [|fuel IH]; intros i k p raw q last Ip R Hl.
    { eexists. split; [reflexivity|]. simpl. repeat split; constructor. }
    cbn [loop_s loop]. cbv zeta.
    set (rs := mkSR p (request_query c raw last)).
    set (rq := mk_request c (mkUrl p q) last).
    assert (SR : same_request rs rq).
    { split; [reflexivity|]. now apply request_query_refines. }
    assert (Ir : InvP (sr_path rs)) by exact Ip.
    rewrite (Hserve i rs rq Ir SR).
    destruct (handle c (serve i rq)) as [e|page] eqn:H.
    { eexists. split; [reflexivity|]. simpl. repeat split. repeat constructor; apply SR. }
    destruct (delivered c page && cb_fail k).
    { eexists. split; [reflexivity|]. simpl. repeat split. repeat constructor; apply SR. }
    destruct (parse_link (rs_link (serve i rq))) as [| | |t] eqn:PL;
      try (eexists; split; [reflexivity|]; simpl; repeat split; repeat constructor; apply SR).
    pose proof (Hlink i rs rq t Ir SR PL) as HL.
    destruct (resolve_ref (mkS sch host (sr_path rs) (sr_query rs)) t) as [u| |] eqn:RR;
      destruct (resolve rq t) as [u'|] eqn:RA; try contradiction.
    - destruct HL as (Hne & Hp & Hr & Hi). destruct u' as [p' q']. cbn [u_path u_query] in *.
      destruct (IH (S i) (if delivered c page then S k else k) (s_path u) (s_query u) q' [] Hi Hr ltac:(constructor))
        as (ts & E & A & B0 & D).
      destruct (s_path u) eqn:SP; [contradiction|]. rewrite <- SP in *.
      rewrite E. eexists. split; [reflexivity|].
      rewrite Hp in A, B0, D. unfold prepend. cbn [st_pages st_out st_reqs t_pages t_out t_reqs].
      rewrite A, B0. repeat split. constructor; [exact SR|exact D].
    - eexists. split; [reflexivity|]. simpl. repeat split. repeat constructor; apply SR.
  Qed.
End Refinement.

(* without an invariant *)
Theorem loop_s_refines (sch host : str) (serve_s : nat -> sreq -> response) (serve : nat -> url -> response)
        (resolve : url -> str -> option url) (cb_fail : nat -> bool) (c : cfg) :
  (forall i rs rq, same_request rs rq -> serve_s i rs = serve i rq) ->
  (forall i rs rq t, same_request rs rq -> parse_link (rs_link (serve i rq)) = LTarget t ->
     match resolve_ref (mkS sch host (sr_path rs) (sr_query rs)) t, resolve rq t with
     | ROk u, Some u' => s_path u <> [] /\ s_path u = u_path u' /\ repr (s_query u) (u_query u')
     | RErr, None => True
     | _, _ => False
     end) ->
  forall fuel i k p raw q last,
    repr raw q -> Forall byte_ok last ->
    exists ts, loop_s sch host serve_s cb_fail c fuel i k p raw last = Some ts /\
               let t := loop serve resolve cb_fail c fuel i k (mkUrl p q) last in
               st_pages ts = t_pages t /\ st_out ts = t_out t /\
               Forall2 same_request (st_reqs ts) (t_reqs t).
Proof.
  intros Hs Hk fuel i k p raw q last R Hl.
  apply (loop_s_refines_inv sch host serve_s serve resolve cb_fail c (fun _ => True)); auto.
  intros i0 rs rq t _ SR PL. specialize (Hk i0 rs rq t SR PL).
  destruct (resolve_ref (mkS sch host (sr_path rs) (sr_query rs)) t); destruct (resolve rq t); auto.
  destruct Hk as (A & B0 & C0). auto.
Qed.

Lemma Forall2_len {A B} (R : A -> B -> Prop) l1 l2 : Forall2 R l1 l2 -> length l1 = length l2.
Proof. induction 1; simpl; congruence. Qed.

(* exactly once, stated for the loop on strings: whatever string-level server answers like the
   registry model and whose links net/url resolves like the abstract resolver *)
Theorem string_loop_exactly_once :
  forall (sch host : str) (serve_s : nat -> sreq -> response)
         (L : list item) (cap : nat) (ds : nat -> decision)
         (render : nat -> url -> url -> str) (trailer : nat -> str)
         (resolve : url -> str -> option url) (c : cfg) (cu : cursor) (npath : nat -> str -> str) (vis : item -> bool)
         (path last0 : str) (fuel : nat),
    cursor_ok cu ->
    c_kind c <> KReferrers ->
    NoDup (map fst L) -> (forall it, In it L -> fst it <> []) ->
    (forall i base x, In x (map fst L) ->
       contains c_gt (render i base (link_target ds cu npath i base x)) = false) ->
    (forall i base x, In x (map fst L) ->
       resolve base (render i base (link_target ds cu npath i base x)) = Some (link_target ds cu npath i base x)) ->
    (forall i, (Z.of_N (d_doc_len (ds i)) <= eff_limit (c_limit c))%Z) ->
    (length (after last0 L) < fuel)%nat ->
    Forall byte_ok last0 ->
    let serve := reg_serve (c_kind c) cu npath vis L cap ds render trailer in
    (forall i rs rq, same_request rs rq -> serve_s i rs = serve i rq) ->
    (forall i rs rq t, same_request rs rq -> parse_link (rs_link (serve i rq)) = LTarget t ->
       match resolve_ref (mkS sch host (sr_path rs) (sr_query rs)) t, resolve rq t with
       | ROk u, Some u' => s_path u <> [] /\ s_path u = u_path u' /\ repr (s_query u) (u_query u')
       | RErr, None => True
       | _, _ => False
       end) ->
    exists ts, loop_s sch host serve_s (fun _ => false) c fuel 0 0 path [] last0 = Some ts /\
               st_out ts = Done /\ concat (st_pages ts) = filter vis (after last0 L) /\
               (length (st_reqs ts) <= S (length (after last0 L)))%nat.
Proof.
  intros sch host serve_s L cap ds render trailer resolve c cu npath vis path last0 fuel
         Hcu K Hnd Hne Hgt Hres Hfit Hfuel Hl serve Hs Hk.
  destruct (listing_exactly_once L cap ds render trailer resolve c cu npath vis path last0 fuel
              Hcu K Hnd Hne Hgt Hres Hfit Hfuel) as (O & P & _ & N).
  destruct (loop_s_refines sch host serve_s serve resolve (fun _ => false) c Hs Hk
              fuel 0%nat 0%nat path [] [] last0 repr_nil Hl) as (ts & E & A & B0 & D).
  exists ts. split; [exact E|]. fold serve in O, P, N. cbv zeta in A, B0, D.
  rewrite A, B0. repeat split; auto.
  rewrite (Forall2_len _ _ _ D). exact N.
Qed.

(* ---------- form 5: <./seg?query>, relative to the directory of the request path ---------- *)

Lemma drop_last_snoc {A} (l : list A) x : drop_last (l ++ [x]) = l.
Proof.
  induction l as [|y l IH]; [reflexivity|].
  change ((y :: l) ++ [x]) with (y :: (l ++ [x])).
  assert (N : l ++ [x] <> []) by (destruct l; discriminate).
  destruct (l ++ [x]) as [|z r] eqn:E; [contradiction|].
  change (drop_last (y :: z :: r)) with (y :: drop_last (z :: r)). now rewrite IH.
Qed.

Lemma join_cons_ne sep (x : str) l : l <> [] -> join sep (x :: l) = x ++ sep ++ join sep l.
Proof. destruct l; [contradiction|reflexivity]. Qed.

Lemma join_app_ne sep (l1 l2 : list str) :
  l1 <> [] -> l2 <> [] -> join sep (l1 ++ l2) = join sep l1 ++ sep ++ join sep l2.
Proof.
  intros H1 H2. induction l1 as [|x l1 IH]; [contradiction|].
  destruct l1 as [|y l1].
  - simpl app. now rewrite join_cons_ne.
  - change ((x :: y :: l1) ++ l2) with (x :: (y :: l1) ++ l2).
    rewrite !join_cons_ne by (try discriminate; destruct l2; discriminate).
    rewrite IH by discriminate. now rewrite <- !app_assoc.
Qed.

Lemma seg_ok_no_sl segs : Forall seg_ok segs -> Forall (fun x => contains c_sl x = false) segs.
Proof. induction 1 as [|s l (_ & A & _) _ IH]; constructor; assumption. Qed.

(* the request path is dirs/lastB, the target dirs/seg, the link "./seg" *)
Lemma resolve_path_dot_relative dirs lastB seg :
  Forall seg_ok dirs -> seg_ok lastB -> seg_ok seg ->
  resolve_path (c_sl :: join [c_sl] (dirs ++ [lastB])) (c_dot :: c_sl :: seg) =
  c_sl :: join [c_sl] (dirs ++ [seg]).
Proof.
  intros Hd Hb Hs.
  assert (CB : clean_path (c_sl :: join [c_sl] (dirs ++ [lastB])) (dirs ++ [lastB])).
  { split; [destruct dirs; discriminate|]. split; [|reflexivity]. apply Forall_app. split; [exact Hd|now constructor]. }
  pose proof (clean_path_split _ _ CB) as SB.
  unfold resolve_path. cbv zeta. change (c_dot =? c_sl) with false. cbv iota.
  rewrite SB. change ([] :: dirs ++ [lastB]) with (([] :: dirs) ++ [lastB]). rewrite drop_last_snoc.
  set (full := (join [c_sl] ([] :: dirs) ++ [c_sl]) ++ c_dot :: c_sl :: seg).
  assert (EF : full = join [c_sl] (([] :: dirs) ++ [dot; seg])).
  { unfold full. rewrite <- app_assoc. symmetry. etransitivity; [apply (join_app_ne [c_sl] ([] :: dirs) [dot; seg]); discriminate|]. reflexivity. }
  assert (NE : full <> []).
  { rewrite EF. destruct dirs; discriminate. }
  assert (M : forall (x y : str) (l : str), l <> [] -> match l with [] => x | _ :: _ => y end = y)
    by (intros ? ? [|? ?] ?; [contradiction|reflexivity]).
  rewrite M by exact NE. clear M.
  assert (SF : split_on c_sl full = ([] :: dirs) ++ [dot; seg]).
  { rewrite EF. apply split_on_join; [destruct dirs; discriminate|].
    apply Forall_app. split.
    - constructor; [reflexivity|now apply seg_ok_no_sl].
    - constructor; [reflexivity|]. constructor; [apply Hs|constructor]. }
  rewrite SF.
  assert (FS : fold_left seg_step (([] :: dirs) ++ [dot; seg]) [] = [] :: dirs ++ [seg]).
  { rewrite fold_left_app. cbn [fold_left]. change (seg_step [] []) with [[] : str].
    rewrite fold_seg_plain by exact Hd.
    unfold seg_step at 2. change (str_eqb dot dot) with true. cbv iota.
    destruct (seg_ok_not_dots seg Hs) as [A B0].
    unfold seg_step. rewrite A, B0. cbn [app]. reflexivity. }
  rewrite FS.
  assert (LS : last (([] :: dirs) ++ [dot; seg]) [] = seg).
  { change (([] :: dirs) ++ [dot; seg]) with (([] :: dirs) ++ [dot] ++ [seg]). rewrite app_assoc. apply last_last. }
  unfold str in *. rewrite LS.
  destruct (seg_ok_not_dots seg Hs) as [A B0]. unfold str in *. rewrite A, B0. cbn [orb].
  rewrite join_cons_ne by (destruct dirs; discriminate).
  cbn [app]. change (c_sl =? c_sl) with true. cbv iota. reflexivity.
Qed.

Theorem resolve_dot_relative base dirs lastB seg Q :
  s_path base = c_sl :: join [c_sl] (dirs ++ [lastB]) ->
  Forall seg_ok dirs -> seg_ok lastB -> seg_ok seg ->
  forallb path_char seg = true -> forallb query_char Q = true ->
  link_ok (c_dot :: c_sl :: seg ++ c_qm :: Q) ->
  resolve_ref base (c_dot :: c_sl :: seg ++ c_qm :: Q) =
  ROk (mkS (s_scheme base) (s_host base) (c_sl :: join [c_sl] (dirs ++ [seg])) Q).
Proof.
  intros EB Hd Hb Hs HP HQ HL.
  unfold resolve_ref, parse_ref. unfold link_ok in HL.
  change (fun c => (33 <=? c) && (c <=? 126)) with printable. rewrite HL. cbn [negb orb].
  assert (NH : contains c_hash (c_dot :: c_sl :: seg ++ c_qm :: Q) = false).
  { simpl. rewrite contains_app. rewrite (no_hash_path seg HP). simpl.
    change (existsb (fun d => d =? c_hash) Q) with (contains c_hash Q). now rewrite (no_hash_query Q HQ). }
  rewrite NH.
  change (get_scheme (c_dot :: c_sl :: seg ++ c_qm :: Q)) with SNone. cbv iota.
  unfold parse_rest.
  change (c_dot :: c_sl :: seg ++ c_qm :: Q) with ((c_dot :: c_sl :: seg) ++ c_qm :: Q).
  rewrite cut_app by (simpl; now apply no_qm_path).
  cbn [has_prefix cut]. change (c_sl =? c_dot) with false. change (c_dot =? c_sl) with false.
  change (c_sl =? c_sl) with true. cbv iota. cbn [andb negb fst contains existsb orb].
  change (c_dot =? c_col) with false. cbn [orb andb].
  assert (PC : forallb path_char (c_dot :: c_sl :: seg) = true) by (simpl; exact HP).
  rewrite (no_bad_pct _ PC), PC, HQ. cbn [andb].
  cbn [p_scheme p_host p_path p_query]. rewrite EB.
  now rewrite (resolve_path_dot_relative dirs lastB seg Hd Hb Hs).
Qed.

Theorem next_request_dot_relative c base dirs lastB seg Q trailer :
  s_path base = c_sl :: join [c_sl] (dirs ++ [lastB]) ->
  Forall seg_ok dirs -> seg_ok lastB -> seg_ok seg ->
  forallb path_char seg = true -> forallb query_char Q = true ->
  link_ok (c_dot :: c_sl :: seg ++ c_qm :: Q) -> contains c_gt (c_dot :: c_sl :: seg ++ c_qm :: Q) = false ->
  next_request c base (c_lt :: (c_dot :: c_sl :: seg ++ c_qm :: Q) ++ c_gt :: trailer) =
  NNext (c_sl :: join [c_sl] (dirs ++ [seg])) (request_query c Q []).
Proof.
  intros EB Hd Hb Hs HP HQ HL Hgt.
  rewrite (next_request_of_target c base _ trailer
             (mkS (s_scheme base) (s_host base) (c_sl :: join [c_sl] (dirs ++ [seg])) Q)); auto.
  - now apply resolve_dot_relative with (lastB := lastB).
  - discriminate.
Qed.

(* ---------- a concrete instance: the hypotheses of the refinement theorem are satisfiable ---------- *)

Definition exs_path : str := b "/v2/r/tags/list".
Definition exs_resp (i : nat) : response :=
  match i with
  | O => mkResp 200 false [] true 10 10 [(b "a", [])] [b "<?last=a>; rel=""next"""] [] []
  | _ => mkResp 200 false [] true 10 10 [(b "b", [])] [] [] []
  end.
Definition exs_serve_s (i : nat) (_ : sreq) : response := exs_resp i.
Definition exs_serve (i : nat) (_ : url) : response := exs_resp i.
Definition exs_resolve (rq : url) (t : str) : option url := Some (mkUrl (u_path rq) [(k_last, VS (b "a"))]).
Definition exs_inv (p : str) : Prop := p = exs_path.

Lemma exs_clean : clean_path exs_path [b "v2"; b "r"; b "tags"; b "list"].
Proof.
  split; [discriminate|]. split; [|reflexivity].
  repeat constructor; try (eexists; eexists; split; reflexivity); try reflexivity; discriminate.
Qed.

Lemma example_refinement_hypotheses :
  (forall i rs rq, exs_inv (sr_path rs) -> same_request rs rq -> exs_serve_s i rs = exs_serve i rq) /\
  (forall i rs rq t,
     exs_inv (sr_path rs) -> same_request rs rq -> parse_link (rs_link (exs_serve i rq)) = LTarget t ->
     match resolve_ref (mkS (b "http") (b "reg.test") (sr_path rs) (sr_query rs)) t, exs_resolve rq t with
     | ROk u, Some u' => s_path u <> [] /\ s_path u = u_path u' /\ repr (s_query u) (u_query u') /\ exs_inv (s_path u)
     | RErr, None => True
     | _, _ => False
     end).
Proof.
  split; [reflexivity|].
  intros i rs rq t Ip [Sp _] PL. destruct i as [|i]; [|discriminate].
  assert (Et : t = c_qm :: b "last=a") by (vm_compute in PL; now injection PL as <-).
  subst t. unfold exs_inv in Ip.
  rewrite (resolve_query_only (mkS (b "http") (b "reg.test") (sr_path rs) (sr_query rs))
             [b "v2"; b "r"; b "tags"; b "list"] (b "last=a")).
  - unfold exs_resolve. cbn [s_path s_scheme s_host s_query u_path u_query].
    rewrite <- Sp, Ip. repeat split; try discriminate.
    intro k. change (parse_query_lenient (b "last=a")) with [(b "last", b "a")].
    cbn [lookup qget option_map show]. change k_last with (b "last").
    now destruct (str_eqb (b "last") k).
  - cbn [s_path]. rewrite Ip. exact exs_clean.
  - reflexivity.
  - reflexivity.
Qed.

(* known finding link-rel-ignored on the string level: the answer carries the right next link
   (last=b), but a rel="first" link-value stands before it and is the one that is followed *)
Lemma link_rel_first_string_refuted :
  exists header,
    let base := mkS (b "http") (b "reg.test") (b "/v2/r/tags/list") (b "last=a") in
    (exists pre, header = pre ++ b "<?last=b>; rel=""next""") /\
    next_request (mkCfg KTags 0 0 []) base header = NNext (b "/v2/r/tags/list") [] /\
    next_request (mkCfg KTags 0 0 []) base (b "<?last=b>; rel=""next""") = NNext (b "/v2/r/tags/list") (b "last=b").
Proof.
  exists (b "<?>; rel=""first"", <?last=b>; rel=""next"""). cbv zeta. split; [|split].
  - exists (b "<?>; rel=""first"", "). reflexivity.
  - vm_compute. reflexivity.
  - vm_compute. reflexivity.
Qed.

(* ---------- decimal numbers ---------- *)

Definition dstep (a c : N) : N := 10 * a + (c - 48).

Lemma dec_digits_spec fuel n acc :
  (1 <= fuel)%nat -> n < 10 ^ N.of_nat fuel ->
  exists d, dec_digits fuel n acc = d ++ acc /\ d <> [] /\ forallb is_digit d = true /\
            forall a, fold_left dstep d a = a * 10 ^ N.of_nat (length d) + n.
Proof.
  revert n acc. induction fuel as [|f IH]; intros n acc Hf H; [lia|].
  cbn [dec_digits].
  assert (Hm : n mod 10 < 10) by (apply N.mod_lt; discriminate).
  assert (Hd : is_digit (48 + n mod 10) = true).
  { unfold is_digit. revert Hm. generalize (n mod 10). intros r Hr. apply andb_true_iff. split; apply N.leb_le; lia. }
  destruct (N.ltb_spec n 10) as [Hs|Hb].
  - exists [48 + n mod 10]. split; [reflexivity|]. split; [discriminate|]. split; [cbn [forallb]; now rewrite Hd|].
    intro a. cbn [fold_left length]. unfold dstep. rewrite N.mod_small by exact Hs. change (N.of_nat 1) with 1. lia.
  - assert (Hq : n / 10 < 10 ^ N.of_nat f).
    { apply N.div_lt_upper_bound; [discriminate|].
      replace (N.of_nat (S f)) with (N.succ (N.of_nat f)) in H by lia. rewrite N.pow_succ_r' in H. lia. }
    assert (Hf1 : (1 <= f)%nat).
    { destruct f; [|lia]. simpl in H. lia. }
    destruct (IH (n / 10) ((48 + n mod 10) :: acc) Hf1 Hq) as (d & E & Dne & Dd & F).
    exists (d ++ [48 + n mod 10]). split; [rewrite E; now rewrite <- app_assoc|].
    split; [destruct d; discriminate|]. split; [rewrite forallb_app, Dd; cbn [forallb]; now rewrite Hd|].
    intro a. rewrite fold_left_app, F. cbn [fold_left]. unfold dstep at 1.
    rewrite app_length. simpl length. replace (N.of_nat (length d + 1)) with (N.succ (N.of_nat (length d))) by lia.
    rewrite N.pow_succ_r'. pose proof (N.div_mod n 10 ltac:(discriminate)) as DM.
    set (q := n / 10) in *. set (r := n mod 10) in *. set (X := 10 ^ N.of_nat (length d)) in *.
    clearbody q r X. replace (a * (10 * X)) with (10 * (a * X)) by ring. lia.
Qed.

Theorem atoi_itoa n : n < 10 ^ 40 -> atoi (itoa n) = Some n.
Proof.
  intro H. unfold itoa. destruct (dec_digits_spec 40 n [] ltac:(lia) H) as (d & E & Dne & Dd & F).
  rewrite app_nil_r in E. rewrite E. unfold atoi. destruct d as [|c0 d']; [contradiction|].
  rewrite Dd. f_equal. change (fun a c => 10 * a + (c - 48)) with dstep. rewrite F. lia.
Qed.

(* ---------- exactly once with net/url as modelled: registries that write </path?escaped query> ---------- *)

(* the typed reading of a lenient parse: the value of n is a number when it is decimal *)
Definition tval (kv : str * str) : qval :=
  if str_eqb (fst kv) k_n then match atoi (snd kv) with Some n => VN n | None => VS (snd kv) end
  else VS (snd kv).
Definition vsmap (l : list (str * str)) : query := map (fun kv => (fst kv, tval kv)) l.

(* n carries a number, every other key a string *)
Definition typed_pair (kv : str * qval) : Prop :=
  (fst kv = k_n /\ exists n, snd kv = VN n /\ n < 10 ^ 40) \/ (fst kv <> k_n /\ exists s, snd kv = VS s).
Definition all_vs (q : query) : Prop := Forall typed_pair q.

Lemma vsmap_shown q : all_vs q -> vsmap (shown q) = q.
Proof.
  induction 1 as [|[k v] q H _ IH]; [reflexivity|].
  unfold vsmap, shown in *. cbn [map fst snd]. rewrite IH. f_equal. f_equal. unfold tval. cbn [fst snd].
  destruct H as [(Ek & n & Ev & Hn)|(Nk & s0 & Ev)]; cbn [fst snd] in *; subst.
  - rewrite str_eqb_refl. cbn [show]. now rewrite (atoi_itoa n Hn).
  - now rewrite (str_eqb_neq k k_n Nk).
Qed.

Lemma Forall_qdel (P : str * qval -> Prop) k q : Forall P q -> Forall P (qdel k q).
Proof.
  induction 1 as [|[k' v] q H _ IH]; simpl; [constructor|].
  destruct (str_eqb k' k); [exact IH|constructor; assumption].
Qed.

Definition enc_char (c : N) : bool := esc_char c || (c =? c_eq) || (c =? c_amp).

Lemma enc_pairs_enc_char l : Forall kv_ok l -> forallb enc_char (enc_pairs l) = true.
Proof.
  intro H. unfold enc_pairs. apply forallb_join; [reflexivity|].
  assert (I : forall c, esc_char c = true -> enc_char c = true) by (intros c E; unfold enc_char; now rewrite E).
  induction H as [|kv l' [Hk Hv] _ IH]; simpl; constructor; [|exact IH].
  unfold new_param. rewrite forallb_app. cbn [forallb].
  rewrite (forallb_impl esc_char enc_char _ I (query_escape_chars _ Hk)).
  rewrite (forallb_impl esc_char enc_char _ I (query_escape_chars _ Hv)).
  reflexivity.
Qed.

Lemma query_char_printable c : query_char c = true -> printable c = true.
Proof. unfold query_char, printable. intro H. apply andb_true_iff in H as [H _]. exact H. Qed.

Lemma printable_last_seg dirs x :
  forallb printable (join [c_sl] (dirs ++ [x])) = true -> forallb printable x = true.
Proof.
  induction dirs as [|d ds0 IH]; intro H; [exact H|].
  change ((d :: ds0) ++ [x]) with (d :: (ds0 ++ [x])) in H.
  rewrite join_cons_ne in H by (destruct ds0; discriminate).
  rewrite !forallb_app in H. apply andb_true_iff in H as [_ H]. apply andb_true_iff in H as [_ H].
  now apply IH.
Qed.

Section Concrete.
  Variable sch host : str.
  Variable hc : N. Variable ht : str.
  Hypothesis Hhost : host = hc :: ht.
  Hypothesis Hhostc : forallb host_char host = true.
  Hypothesis Hhostok : host_ok host = true.
  (* the listing endpoint *)
  Variable P0 : str.
  Variable segs0 : list str.
  Hypothesis HP0 : clean_path P0 segs0.
  Hypothesis HP0c : forallb path_char P0 = true.
  Hypothesis HP0p : forallb printable P0 = true.
  (* the registry *)
  Variable L : list item.
  Variable cap : nat.
  Variable ds : nat -> decision.
  Variable trailer : nat -> str.
  Variable vis : item -> bool.
  Variable cu : cursor.
  Variable c : cfg.
  Hypothesis Hcu : cursor_ok cu.
  Hypothesis Hcub : match cu with CLast => True | CToken k s => Forall byte_ok k /\ Forall byte_ok s end.
  Hypothesis Hnames : forall x, In x (map fst L) -> Forall byte_ok x.
  Hypothesis Hextra_vs : forall i, all_vs (d_extra (ds i)) /\ query_ok (d_extra (ds i)).
  (* any page size (below 10^40) *)
  Hypothesis Hn : (c_n c < 10 ^ 40)%Z.

  (* how this registry writes a link, and net/url (as modelled) reading it *)
  Definition render_c (i : nat) (base tgt : url) : str :=
    u_path tgt ++ c_qm :: enc_pairs (shown (u_query tgt)).
  Definition resolve_c (base : url) (t : str) : option url :=
    match resolve_ref (mkS sch host (u_path base) []) t with
    | ROk u => Some (mkUrl (s_path u) (vsmap (parse_query_lenient (s_query u))))
    | _ => None
    end.
  Definition inv_c (rq : url) : Prop := u_path rq = P0 /\ all_vs (u_query rq) /\ query_ok (u_query rq).

  Lemma ckey_ok : Forall byte_ok (ckey cu).
  Proof. destruct cu; [apply k_last_ok|apply Hcub]. Qed.

  Lemma cenc_ok x : Forall byte_ok x -> Forall byte_ok (cenc cu x).
  Proof. intro H. destruct cu; [exact H|]. simpl. apply Forall_app. split; [apply Hcub|exact H]. Qed.

  Lemma target_inv i base x :
    inv_c base -> In x (map fst L) ->
    let tgt := link_target ds cu (fun _ p => p) i base x in
    u_path tgt = P0 /\ all_vs (u_query tgt) /\ query_ok (u_query tgt).
  Proof.
    intros (Ep & Av & Qo) Hx. unfold link_target, link_url. cbn [u_path u_query]. split; [exact Ep|].
    destruct (Hextra_vs i) as [Ev Eo]. split.
    - constructor; [right; split; [now apply ckey_neq_n|now eexists]|].
      apply Forall_app. split; [exact Ev|]. now do 2 apply Forall_qdel.
    - constructor; [split; [apply ckey_ok|apply cenc_ok; now apply Hnames]|].
      apply Forall_app. split; [exact Eo|]. now do 2 apply Forall_qdel.
  Qed.

  (* the request the client builds for a URL that satisfies the invariant satisfies it *)
  Lemma mk_request_inv u last :
    inv_c u -> Forall byte_ok last -> inv_c (mk_request c u last).
  Proof.
    intros (Ep & Av & Qo) Hl. unfold mk_request, inv_c. cbn [u_path u_query]. split; [exact Ep|].
    assert (A : all_vs (if (0 <? c_n c)%Z then qset k_n (VN (Z.to_N (c_n c))) (u_query u) else u_query u) /\
                query_ok (if (0 <? c_n c)%Z then qset k_n (VN (Z.to_N (c_n c))) (u_query u) else u_query u)).
    { destruct (0 <? c_n c)%Z eqn:E; [|split; assumption]. apply Z.ltb_lt in E. unfold qset. split.
      - apply Forall_app. split; [now apply Forall_qdel|]. constructor; [|constructor].
        left. split; [reflexivity|]. eexists. split; [reflexivity|]. lia.
      - apply Forall_app. split; [now apply Forall_qdel|]. constructor; [|constructor].
        split; [apply k_n_ok|apply itoa_ok]. }
    destruct A as [A1 A2].
    destruct (sends_last (c_kind c) && negb (is_empty last)); [|split; assumption].
    unfold qset. split.
    - apply Forall_app. split; [now apply Forall_qdel|]. constructor; [|constructor].
      right. split; [intro E; symmetry in E; now apply k_n_neq_last in E|now eexists].
    - apply Forall_app. split; [now apply Forall_qdel|]. constructor; [|constructor].
      split; [apply k_last_ok|exact Hl].
  Qed.

  Theorem concrete_exactly_once last0 fuel :
    c_kind c <> KReferrers ->
    NoDup (map fst L) -> (forall it, In it L -> fst it <> []) ->
    Forall byte_ok last0 ->
    (forall i, (Z.of_N (d_doc_len (ds i)) <= eff_limit (c_limit c))%Z) ->
    (length (after last0 L) < fuel)%nat ->
    let t := loop (reg_serve (c_kind c) cu (fun _ p => p) vis L cap ds render_c trailer) resolve_c (fun _ => false) c
                  fuel 0 0 (mkUrl P0 []) last0 in
    t_out t = Done /\
    concat (t_pages t) = filter vis (after last0 L) /\
    (length (t_reqs t) <= S (length (after last0 L)))%nat.
  Proof.
    intros K Hnd Hne Hl Hfit Hfuel.
    apply (listing_exactly_once_inv L cap ds render_c trailer resolve_c c cu (fun _ p => p) vis inv_c P0 last0 fuel);
      auto.
    - (* no '>' in the link text *)
      intros i base x Hi Hx. destruct (target_inv i base x Hi Hx) as (Ep & Av & Qo).
      unfold render_c. rewrite Ep. rewrite contains_app.
      rewrite (contains_forallb c_gt path_char P0 eq_refl HP0c). cbn [contains existsb].
      change (c_qm =? c_gt) with false. cbn [orb].
      apply (contains_forallb c_gt enc_char); [reflexivity|]. apply enc_pairs_enc_char. now apply shown_ok.
    - (* net/url reads the link back *)
      intros i base x Hi Hx. destruct (target_inv i base x Hi Hx) as (Ep & Av & Qo).
      destruct Hi as (Eb & _ & _).
      unfold resolve_c, render_c. rewrite Ep.
      pose proof (shown_ok _ Qo) as KV.
      rewrite (resolve_abs_path (mkS sch host (u_path base) []) P0 segs0 (enc_pairs (shown (u_query (link_target ds cu (fun _ p => p) i base x))))); auto.
      + cbn [s_path s_query]. rewrite (parse_enc_pairs _ KV). rewrite (vsmap_shown _ Av).
        f_equal. destruct (link_target ds cu (fun _ p => p) i base x) as [p q]. cbn [u_path u_query] in *. now subst p.
      + now apply enc_pairs_query_char.
      + unfold link_ok. rewrite forallb_app. rewrite HP0p. cbn [forallb]. change (printable c_qm) with true. cbn [andb].
        apply (forallb_impl query_char printable _ query_char_printable). now apply enc_pairs_query_char.
    - (* the invariant is kept *)
      intros i base x Hi Hx. apply mk_request_inv; [|constructor].
      pose proof (target_inv i base x Hi Hx) as T. exact T.
    - (* and holds at the start *)
      apply mk_request_inv; [|exact Hl]. split; [reflexivity|]. split; constructor.
  Qed.

  Lemma k_at_ok : Forall byte_ok k_at. Proof. repeat constructor. Qed.

  (* Referrers against the same kind of registry *)
  Theorem concrete_referrers fuel :
    c_kind c = KReferrers ->
    NoDup (map fst L) -> (forall it, In it L -> fst it <> []) ->
    Forall byte_ok (c_at c) ->
    (forall i, (Z.of_N (d_doc_len (ds i)) <= eff_limit (c_limit c))%Z) ->
    (forall i, qget k_at (d_extra (ds i)) = None) ->
    (length L < fuel)%nat ->
    let t := loop (reg_serve KReferrers cu (fun _ p => p) vis L cap ds render_c trailer) resolve_c (fun _ => false) c
                  fuel 0 0 (mkUrl P0 (referrers_query (c_at c))) [] in
    t_out t = Done /\
    concat (t_pages t) = filter_referrers (filter vis L) (c_at c) /\
    (length (t_reqs t) <= S (length L))%nat.
  Proof.
    intros K Hnd Hne Ha Hfit Hex Hfuel.
    apply (referrers_exactly_once_inv L cap ds render_c trailer resolve_c c cu (fun _ p => p) vis inv_c P0 fuel);
      auto.
    - intros i base x Hi Hx. destruct (target_inv i base x Hi Hx) as (Ep & Av & Qo).
      unfold render_c. rewrite Ep. rewrite contains_app.
      rewrite (contains_forallb c_gt path_char P0 eq_refl HP0c). cbn [contains existsb].
      change (c_qm =? c_gt) with false. cbn [orb].
      apply (contains_forallb c_gt enc_char); [reflexivity|]. apply enc_pairs_enc_char. now apply shown_ok.
    - intros i base x Hi Hx. destruct (target_inv i base x Hi Hx) as (Ep & Av & Qo).
      destruct Hi as (Eb & _ & _).
      unfold resolve_c, render_c. rewrite Ep.
      pose proof (shown_ok _ Qo) as KV.
      rewrite (resolve_abs_path (mkS sch host (u_path base) []) P0 segs0 (enc_pairs (shown (u_query (link_target ds cu (fun _ p => p) i base x))))); auto.
      + cbn [s_path s_query]. rewrite (parse_enc_pairs _ KV). rewrite (vsmap_shown _ Av).
        f_equal. destruct (link_target ds cu (fun _ p => p) i base x) as [p q]. cbn [u_path u_query] in *. now subst p.
      + now apply enc_pairs_query_char.
      + unfold link_ok. rewrite forallb_app. rewrite HP0p. cbn [forallb]. change (printable c_qm) with true. cbn [andb].
        apply (forallb_impl query_char printable _ query_char_printable). now apply enc_pairs_query_char.
    - intros i base x Hi Hx. apply mk_request_inv; [|constructor].
      pose proof (target_inv i base x Hi Hx) as T. exact T.
    - apply mk_request_inv; [|constructor]. split; [reflexivity|]. unfold referrers_query.
      destruct (is_empty (c_at c)); [split; constructor|]. split.
      + constructor; [|constructor]. right. split; [intro E; symmetry in E; now apply k_n_neq_at in E|now eexists].
      + constructor; [|constructor]. split; [apply k_at_ok|exact Ha].
  Qed.
  (* ---------- every link form, chosen per answer ---------- *)

  Hypothesis Hhostp : forallb printable host = true.
  Variable fm : nat -> nat.   (* 0: </path?q>  1: <?q>  2: <http://host/path?q>  3: <//host/path?q>  4..: <./last?q> *)
  (* the last segment of the endpoint path, for the path-relative form *)
  Variable dirs0 : list str.
  Variable lastB0 : str.
  Hypothesis Hsegs0 : segs0 = dirs0 ++ [lastB0].
  Hypothesis Hlastc : forallb path_char lastB0 = true.

  Definition form_text (f : nat) (P Q : str) : str :=
    match f with
    | O => P ++ c_qm :: Q
    | S O => c_qm :: Q
    | S (S O) => b "http://" ++ host ++ P ++ c_qm :: Q
    | S (S (S O)) => c_sl :: c_sl :: host ++ P ++ c_qm :: Q
    | _ => c_dot :: c_sl :: lastB0 ++ c_qm :: Q
    end.

  Definition render_f (i : nat) (base tgt : url) : str :=
    form_text (fm i) (u_path tgt) (enc_pairs (shown (u_query tgt))).

  Lemma form_no_gt f Q : forallb enc_char Q = true -> contains c_gt (form_text f P0 Q) = false.
  Proof.
    intro HQ.
    assert (GP : contains c_gt P0 = false) by (apply (contains_forallb c_gt path_char); [reflexivity|exact HP0c]).
    assert (GQ : contains c_gt Q = false) by (apply (contains_forallb c_gt enc_char); [reflexivity|exact HQ]).
    assert (GH : contains c_gt host = false) by (apply (contains_forallb c_gt host_char); [reflexivity|exact Hhostc]).
    assert (T : contains c_gt (P0 ++ c_qm :: Q) = false).
    { rewrite contains_app, GP. cbn [contains existsb]. change (c_qm =? c_gt) with false. exact GQ. }
    destruct f as [|[|[|[|f]]]]; unfold form_text.
    - exact T.
    - cbn [contains existsb]. change (c_qm =? c_gt) with false. exact GQ.
    - rewrite contains_app. change (contains c_gt (b "http://")) with false.
      rewrite contains_app, GH. exact T.
    - cbn [contains existsb]. change (c_sl =? c_gt) with false. cbn [orb].
      change (existsb (fun d => d =? c_gt) (host ++ P0 ++ c_qm :: Q)) with (contains c_gt (host ++ P0 ++ c_qm :: Q)).
      rewrite contains_app, GH. exact T.
    - cbn [contains existsb]. change (c_dot =? c_gt) with false. change (c_sl =? c_gt) with false. cbn [orb].
      change (existsb (fun d => d =? c_gt) (lastB0 ++ c_qm :: Q)) with (contains c_gt (lastB0 ++ c_qm :: Q)).
      rewrite contains_app. rewrite (contains_forallb c_gt path_char lastB0 eq_refl Hlastc).
      cbn [contains existsb]. change (c_qm =? c_gt) with false. exact GQ.
  Qed.

  Lemma form_resolves f base Q :
    u_path base = P0 -> forallb query_char Q = true ->
    exists s h, resolve_ref (mkS sch host (u_path base) []) (form_text f P0 Q) = ROk (mkS s h P0 Q).
  Proof.
    intros Eb HQ.
    assert (PQ : forallb printable Q = true) by (apply (forallb_impl query_char printable _ query_char_printable); exact HQ).
    assert (LPQ : forallb printable (P0 ++ c_qm :: Q) = true).
    { rewrite forallb_app, HP0p. cbn [forallb]. change (printable c_qm) with true. exact PQ. }
    destruct f as [|[|[|[|f]]]]; unfold form_text.
    5:{ (* <./last?q>: the directory of the endpoint path, then its last segment again *)
        destruct HP0 as (Hne0 & HF0 & EP0). rewrite Hsegs0 in HF0, EP0.
        apply Forall_app in HF0 as [Hd0 Hl0]. pose proof (Forall_inv Hl0) as Hlb.
        exists sch, host.
        rewrite (resolve_dot_relative (mkS sch host (u_path base) []) dirs0 lastB0 lastB0 Q); auto.
        - now rewrite <- EP0.
        - cbn [s_path]. now rewrite Eb.
        - unfold link_ok. cbn [forallb]. change (printable c_dot) with true. change (printable c_sl) with true. cbn [andb].
          rewrite forallb_app. cbn [forallb]. change (printable c_qm) with true. rewrite PQ.
          assert (PL : forallb printable lastB0 = true).
          { rewrite EP0 in HP0p. cbn [forallb] in HP0p. apply andb_true_iff in HP0p as [_ HJ].
            exact (printable_last_seg dirs0 lastB0 HJ). }
          now rewrite PL. }
    - eexists. eexists. apply (resolve_abs_path _ P0 segs0 Q); auto.
    - exists sch, host. rewrite (resolve_query_only (mkS sch host (u_path base) []) segs0 Q).
      + cbn [s_scheme s_host s_path]. now rewrite Eb.
      + cbn [s_path]. now rewrite Eb.
      + exact HQ.
      + unfold link_ok. cbn [forallb]. change (printable c_qm) with true. exact PQ.
    - eexists. eexists. apply (resolve_absolute _ host hc ht P0 segs0 Q); auto.
      unfold link_ok. rewrite forallb_app. change (forallb printable (b "http://")) with true. cbn [andb].
      rewrite forallb_app, Hhostp. exact LPQ.
    - eexists. eexists. apply (resolve_scheme_relative _ host hc ht P0 segs0 Q); auto.
      unfold link_ok. cbn [forallb]. change (printable c_sl) with true. cbn [andb].
      rewrite forallb_app, Hhostp. exact LPQ.
  Qed.

  Lemma resolve_c_form f base tgt :
    u_path base = P0 -> u_path tgt = P0 -> all_vs (u_query tgt) -> query_ok (u_query tgt) ->
    resolve_c base (form_text f (u_path tgt) (enc_pairs (shown (u_query tgt)))) = Some tgt.
  Proof.
    intros Eb Et Av Qo. pose proof (shown_ok _ Qo) as KV. rewrite Et.
    destruct (form_resolves f base (enc_pairs (shown (u_query tgt))) Eb (enc_pairs_query_char _ KV)) as (s & h & R).
    unfold resolve_c. rewrite R. cbn [s_path s_query]. rewrite (parse_enc_pairs _ KV), (vsmap_shown _ Av).
    f_equal. destruct tgt as [p q]. cbn [u_path u_query] in *. now subst p.
  Qed.

  Theorem concrete_exactly_once_forms last0 fuel :
    c_kind c <> KReferrers ->
    NoDup (map fst L) -> (forall it, In it L -> fst it <> []) ->
    Forall byte_ok last0 ->
    (forall i, (Z.of_N (d_doc_len (ds i)) <= eff_limit (c_limit c))%Z) ->
    (length (after last0 L) < fuel)%nat ->
    let t := loop (reg_serve (c_kind c) cu (fun _ p => p) vis L cap ds render_f trailer) resolve_c (fun _ => false) c
                  fuel 0 0 (mkUrl P0 []) last0 in
    t_out t = Done /\
    concat (t_pages t) = filter vis (after last0 L) /\
    (length (t_reqs t) <= S (length (after last0 L)))%nat.
  Proof.
    intros K Hnd Hne Hl Hfit Hfuel.
    apply (listing_exactly_once_inv L cap ds render_f trailer resolve_c c cu (fun _ p => p) vis inv_c P0 last0 fuel);
      auto.
    - intros i base x Hi Hx. destruct (target_inv i base x Hi Hx) as (Ep & Av & Qo).
      unfold render_f. rewrite Ep. apply form_no_gt. apply enc_pairs_enc_char. now apply shown_ok.
    - intros i base x Hi Hx. destruct (target_inv i base x Hi Hx) as (Ep & Av & Qo).
      destruct Hi as (Eb & _ & _). unfold render_f. now apply resolve_c_form.
    - intros i base x Hi Hx. apply mk_request_inv; [|constructor].
      pose proof (target_inv i base x Hi Hx) as T. exact T.
    - apply mk_request_inv; [|exact Hl]. split; [reflexivity|]. split; constructor.
  Qed.

  Theorem concrete_referrers_forms fuel :
    c_kind c = KReferrers ->
    NoDup (map fst L) -> (forall it, In it L -> fst it <> []) ->
    Forall byte_ok (c_at c) ->
    (forall i, (Z.of_N (d_doc_len (ds i)) <= eff_limit (c_limit c))%Z) ->
    (forall i, qget k_at (d_extra (ds i)) = None) ->
    (length L < fuel)%nat ->
    let t := loop (reg_serve KReferrers cu (fun _ p => p) vis L cap ds render_f trailer) resolve_c (fun _ => false) c
                  fuel 0 0 (mkUrl P0 (referrers_query (c_at c))) [] in
    t_out t = Done /\
    concat (t_pages t) = filter_referrers (filter vis L) (c_at c) /\
    (length (t_reqs t) <= S (length L))%nat.
  Proof.
    intros K Hnd Hne Ha Hfit Hex Hfuel.
    apply (referrers_exactly_once_inv L cap ds render_f trailer resolve_c c cu (fun _ p => p) vis inv_c P0 fuel);
      auto.
    - intros i base x Hi Hx. destruct (target_inv i base x Hi Hx) as (Ep & Av & Qo).
      unfold render_f. rewrite Ep. apply form_no_gt. apply enc_pairs_enc_char. now apply shown_ok.
    - intros i base x Hi Hx. destruct (target_inv i base x Hi Hx) as (Ep & Av & Qo).
      destruct Hi as (Eb & _ & _). unfold render_f. now apply resolve_c_form.
    - intros i base x Hi Hx. apply mk_request_inv; [|constructor].
      pose proof (target_inv i base x Hi Hx) as T. exact T.
    - apply mk_request_inv; [|constructor]. split; [reflexivity|]. unfold referrers_query.
      destruct (is_empty (c_at c)); [split; constructor|]. split.
      + constructor; [|constructor]. right. split; [intro E; symmetry in E; now apply k_n_neq_at in E|now eexists].
      + constructor; [|constructor]. split; [apply k_at_ok|exact Ha].
  Qed.
End Concrete.

(* ---------- the raw request IS the model request (typed reading), not only lookup-equivalent ---------- *)

Lemma filter_filter {A} (f g : A -> bool) l : filter f (filter g l) = filter (fun x => g x && f x) l.
Proof.
  induction l as [|x l IH]; [reflexivity|]. simpl. destruct (g x); simpl; [destruct (f x); now rewrite IH|exact IH].
Qed.

Lemma qdel_app k q1 q2 : qdel k (q1 ++ q2) = qdel k q1 ++ qdel k q2.
Proof. induction q1 as [|[k' v] q1 IH]; simpl; [reflexivity|]. destruct (str_eqb k' k); simpl; now rewrite IH. Qed.

Lemma qdel_vsmap k l : qdel k (vsmap l) = vsmap (filter (fun kv => negb (str_eqb (fst kv) k)) l).
Proof.
  induction l as [|[k' v] l IH]; [reflexivity|]. unfold vsmap in *. cbn [map filter fst qdel].
  destruct (str_eqb k' k); cbn [negb]; [exact IH|]. cbn [map fst]. now rewrite IH.
Qed.

Definition typed_query (raw : str) : query := vsmap (parse_query_lenient raw).

Theorem request_query_exact c p raw last :
  Forall byte_ok last -> (c_n c < 10 ^ 40)%Z ->
  typed_query (request_query c raw last) = u_query (mk_request c (mkUrl p (typed_query raw)) last).
Proof.
  intros Hl Hn. unfold request_query, page_params, mk_request, typed_query. cbn [u_query].
  assert (TN : forall n, n < 10 ^ 40 -> tval (k_n, itoa n) = VN n).
  { intros n H. unfold tval. cbn [fst snd]. rewrite str_eqb_refl. now rewrite (atoi_itoa n H). }
  assert (TL : tval (k_last, last) = VS last).
  { unfold tval. cbn [fst snd]. now rewrite (str_eqb_neq k_last k_n) by (intro E; symmetry in E; now apply k_n_neq_last in E). }
  destruct (0 <? c_n c)%Z eqn:E0; destruct (sends_last (c_kind c) && negb (is_empty last)); cbn [app].
  - apply Z.ltb_lt in E0.
    rewrite set_query_params_spec by (repeat constructor; try apply k_n_ok; try apply itoa_ok; try apply k_last_ok; assumption).
    unfold qset. rewrite qdel_app. cbn [qdel]. rewrite (str_eqb_neq k_n k_last) by exact k_n_neq_last.
    rewrite !qdel_vsmap. rewrite filter_filter. unfold vsmap at 1. rewrite map_app. cbn [map fst].
    rewrite <- app_assoc. f_equal.
    + unfold vsmap. f_equal. apply filter_ext. intros [k' v']. unfold not_set. cbn [existsb fst].
      rewrite orb_false_r. now rewrite negb_orb.
    + cbn [app]. rewrite TN by lia. repeat f_equal; try exact TL.
  - apply Z.ltb_lt in E0.
    rewrite set_query_params_spec by (repeat constructor; try apply k_n_ok; apply itoa_ok).
    unfold qset. rewrite qdel_vsmap. unfold vsmap at 1. rewrite map_app. cbn [map fst]. f_equal.
    + unfold vsmap. f_equal. apply filter_ext. intros [k' v']. unfold not_set. cbn [existsb fst]. now rewrite orb_false_r.
    + rewrite TN by lia. reflexivity.
  - rewrite set_query_params_spec by (repeat constructor; try apply k_last_ok; assumption).
    unfold qset. rewrite qdel_vsmap. unfold vsmap at 1. rewrite map_app. cbn [map fst]. f_equal.
    unfold vsmap. f_equal. apply filter_ext. intros [k' v']. unfold not_set. cbn [existsb fst]. now rewrite orb_false_r.
  - reflexivity.
Qed.

(* ---------- refinement without "answers alike": the server reads the raw query itself ---------- *)

Section ExactRefinement.
  Variable sch host : str.
  Variable serve : nat -> url -> response.       (* any registry on association lists *)
  Variable resolve : url -> str -> option url.
  Variable cb_fail : nat -> bool.
  Variable c : cfg.
  Variable Inv : sreq -> Prop.                   (* an invariant of the raw requests of the run *)
  Hypothesis Hn : (c_n c < 10 ^ 40)%Z.

  (* the typed reading of a raw request; the same registry serving raw requests *)
  Definition typed_req (rs : sreq) : url := mkUrl (sr_path rs) (typed_query (sr_query rs)).
  Definition serve_typed (i : nat) (rs : sreq) : response := serve i (typed_req rs).

  (* net/url as modelled and the abstract resolver agree on the links served *)
  Hypothesis Hlink : forall i rs t,
    Inv rs -> parse_link (rs_link (serve i (typed_req rs))) = LTarget t ->
    match resolve_ref (mkS sch host (sr_path rs) (sr_query rs)) t, resolve (typed_req rs) t with
    | ROk u, Some u' => s_path u <> [] /\ u' = mkUrl (s_path u) (typed_query (s_query u)) /\
                        Inv (mkSR (s_path u) (request_query c (s_query u) []))
    | RErr, None => True
    | _, _ => False
    end.

  Theorem loop_s_exact :
    forall fuel i k p raw last,
      Inv (mkSR p (request_query c raw last)) -> Forall byte_ok last ->
      exists ts, loop_s sch host serve_typed cb_fail c fuel i k p raw last = Some ts /\
                 let t := loop serve resolve cb_fail c fuel i k (mkUrl p (typed_query raw)) last in
                 st_pages ts = t_pages t /\ st_out ts = t_out t /\ map typed_req (st_reqs ts) = t_reqs t.
  Proof.
    induction fuel as [|fuel IH]; intros i k p raw last Hi Hl.
    { eexists. split; [reflexivity|]. simpl. auto. }
    cbn [loop_s loop]. cbv zeta.
    set (rs := mkSR p (request_query c raw last)) in *.
    set (rq := mk_request c (mkUrl p (typed_query raw)) last).
    assert (ER : typed_req rs = rq).
    { unfold typed_req, rs, rq. cbn [sr_path sr_query]. rewrite (request_query_exact c p raw last Hl Hn). reflexivity. }
    change (serve_typed i rs) with (serve i (typed_req rs)). rewrite ER.
    destruct (handle c (serve i rq)) as [e|page] eqn:H.
    { eexists. split; [reflexivity|]. simpl. now rewrite ER. }
    destruct (delivered c page && cb_fail k).
    { eexists. split; [reflexivity|]. simpl. now rewrite ER. }
    destruct (parse_link (rs_link (serve i rq))) as [| | |tx] eqn:PL;
      try (eexists; split; [reflexivity|]; cbn [st_pages st_out st_reqs t_pages t_out t_reqs map]; rewrite ER; auto).
    rewrite <- ER in PL. pose proof (Hlink i rs tx Hi PL) as HL. rewrite ER in HL.
    destruct (resolve_ref (mkS sch host (sr_path rs) (sr_query rs)) tx) as [u| |] eqn:RR;
      destruct (resolve rq tx) as [u'|] eqn:RA; try contradiction.
    - destruct HL as (Hne & Eu & Hi'). subst u'.
      destruct (IH (S i) (if delivered c page then S k else k) (s_path u) (s_query u) [] Hi' ltac:(constructor))
        as (ts & E & A & B0 & D).
      destruct (s_path u) eqn:SP; [contradiction|]. rewrite <- SP in *.
      rewrite E. eexists. split; [reflexivity|].
      unfold prepend. cbn [st_pages st_out st_reqs t_pages t_out t_reqs map].
      rewrite A, B0, D, ER. auto.
    - eexists. split; [reflexivity|]. simpl. now rewrite ER.
  Qed.
End ExactRefinement.
