(* The general reader (Model/JsonRead.v: what Load / GetCredential do with a text)
   reads the entry Put writes back to its fields. *)
From Coq Require Import Lia.
From Oras Require Import Base.Prelude Generated.GC18 Model.Utf8 Model.Json Model.Base64 Model.CredFile
  Model.JsonDoc Model.JsonRead Proofs.Json Proofs.Base64 Proofs.CredFile Proofs.CredJson.

Lemma skip_ws_nows c r : is_ws c = false -> skip_ws (c :: r) = c :: r.
Proof. intro H. cbn [skip_ws]. now rewrite H. Qed.

Lemma src_between_app (X T : str) : src_between (X ++ T) T = X.
Proof.
  unfold src_between. rewrite app_length. replace (length X + length T - length T)%nat with (length X) by lia.
  apply firstn_app_exact.
Qed.

(* a quoted string value *)
Lemma pvalue_string n v rest :
  valid_utf8 v = true -> pvalue (S n) (dq :: json_quote v ++ dq :: rest) = Some (JStr v, rest).
Proof.
  intro V. unfold dq at 1. cbn [pvalue N.eqb Pos.eqb].
  change (34 =? dq) with true. cbv iota.
  rewrite scan_json_quote, (json_string_roundtrip v V). reflexivity.
Qed.

Definition member_jval (kv : str * str) : str * (jval * str) :=
  (fst kv, (JStr (snd kv), [dq] ++ json_quote (snd kv) ++ [dq])).

Lemma pmembers_step n r :
  pmembers (S n) (34 :: r) =
  match scan_string r with
  | Some (q, rest) =>
      match json_unquote q, skip_ws rest with
      | Some k, 58 :: rest1 =>
          let vs := skip_ws rest1 in
          match pvalue n vs with
          | Some (v, rest2) =>
              let src := src_between vs rest2 in
              match skip_ws rest2 with
              | 125 :: rest3 => Some ([(k, (v, src))], rest3)
              | 44 :: rest3 => match pmembers n (skip_ws rest3) with
                               | Some (l, r4) => Some ((k, (v, src)) :: l, r4)
                               | None => None
                               end
              | _ => None
              end
          | None => None
          end
      | _, _ => None
      end
  | None => None
  end.
Proof. reflexivity. Qed.

(* one member "k":"v" followed by T (which starts with } or ,) *)
Lemma member_head k v T n :
  key_ok k -> valid_utf8 v = true ->
  scan_string (k ++ dq :: 58 :: dq :: json_quote v ++ dq :: T) = Some (k, 58 :: dq :: json_quote v ++ dq :: T) /\
  json_unquote k = Some k /\
  pvalue (S n) (skip_ws (dq :: json_quote v ++ dq :: T)) = Some (JStr v, T) /\
  src_between (skip_ws (dq :: json_quote v ++ dq :: T)) T = [dq] ++ json_quote v ++ [dq].
Proof.
  intros [KS KU] VV. split; [apply KS|]. split; [exact KU|].
  assert (W : skip_ws (dq :: json_quote v ++ dq :: T) = dq :: json_quote v ++ dq :: T) by (apply skip_ws_nows; reflexivity).
  rewrite W. split; [now apply pvalue_string|].
  replace (dq :: json_quote v ++ dq :: T) with (([dq] ++ json_quote v ++ [dq]) ++ T).
  - apply src_between_app.
  - cbn [app]. now rewrite <- app_assoc.
Qed.

Lemma member_shape (k q T : str) :
  ([dq] ++ k ++ [dq; 58; dq] ++ q ++ [dq]) ++ T = 34 :: (k ++ dq :: 58 :: dq :: q ++ dq :: T).
Proof. unfold dq. cbn [app]. f_equal. rewrite <- !app_assoc. cbn [app]. rewrite <- !app_assoc. reflexivity. Qed.

(* the members of a compact object whose values are strings *)
Lemma pmembers_rendered l : forall n rest,
  l <> [] ->
  Forall (fun kv => key_ok (fst kv) /\ valid_utf8 (snd kv) = true) l ->
  (length l < n)%nat ->
  pmembers n (join_comma (map render_member l) ++ 125 :: rest) = Some (map member_jval l, rest).
Proof.
  induction l as [|[k v] l IH]; intros n rest NE F L; [congruence|].
  inversion F as [|? ? [KO VV] F']; subst. cbn [fst snd] in *.
  destruct n as [|[|n]]; try (cbn in L; lia).
  destruct l as [|kv2 l].
  - cbn [map join_comma]. unfold render_member. cbn [fst snd].
    rewrite member_shape. rewrite pmembers_step.
    destruct (member_head k v (125 :: rest) n KO VV) as (E1 & E2 & E3 & E4).
    rewrite E1, E2. rewrite (skip_ws_nows 58) by reflexivity. cbv zeta.
    rewrite E3, E4. rewrite (skip_ws_nows 125) by reflexivity. reflexivity.
  - cbn [map]. rewrite join_cons2.
    set (T := join_comma (render_member kv2 :: map render_member l)) in *.
    assert (ET : T = join_comma (map render_member (kv2 :: l))) by reflexivity.
    unfold render_member. cbn [fst snd].
    rewrite <- (app_assoc _ (44 :: T) (125 :: rest)).
    rewrite member_shape. change ((44 :: T) ++ 125 :: rest) with (44 :: (T ++ 125 :: rest)).
    rewrite pmembers_step.
    destruct (member_head k v (44 :: (T ++ 125 :: rest)) n KO VV) as (E1 & E2 & E3 & E4).
    rewrite E1, E2. rewrite (skip_ws_nows 58) by reflexivity. cbv zeta.
    rewrite E3, E4. rewrite (skip_ws_nows 44) by reflexivity.
    assert (ST : exists y, T ++ 125 :: rest = 34 :: y).
    { subst T. destruct l; cbn [map join_comma]; unfold render_member; cbn [app]; unfold dq; eexists; reflexivity. }
    destruct ST as [y ST]. rewrite ST. rewrite (skip_ws_nows 34) by reflexivity. rewrite <- ST.
    rewrite ET. rewrite (IH (S n) rest); [reflexivity|discriminate|exact F'|cbn in L |- *; lia].
Qed.

Lemma pvalue_obj_step n r :
  pvalue (S n) (123 :: r) =
  match skip_ws r with
  | 125 :: rest => Some (JObj [], rest)
  | r1 => match pmembers n r1 with
          | Some (l, rest) => Some (JObj l, rest)
          | None => None
          end
  end.
Proof. reflexivity. Qed.

Lemma fresh_view a i r :
  view_of_jval (JObj (map member_jval (fresh_members a i r))) = VFields a i r [] [].
Proof. destruct a, i, r; reflexivity. Qed.

(* the general reader on the text Put writes for an entry *)
Lemma reader_reads_fresh a i r :
  valid_utf8 a = true -> valid_utf8 i = true -> valid_utf8 r = true ->
  exists v, parse_whole (render_fresh a i r) = Some v /\ view_of_jval v = VFields a i r [] [].
Proof.
  intros VA VI VR. rewrite render_fresh_members.
  pose proof (fresh_members_ok a i r VA VI VR) as F.
  destruct (fresh_members a i r) as [|kv l] eqn:E.
  - unfold fresh_members in E. destruct a, i, r; cbn in E; try discriminate.
    exists (JObj []). split; reflexivity.
  - exists (JObj (map member_jval (kv :: l))). split; [|rewrite <- E; apply fresh_view].
    set (J := join_comma (map render_member (kv :: l))).
    assert (SJ : exists y, J ++ [125] = 34 :: y).
    { subst J. destruct kv as [k v]. destruct l; cbn [map join_comma]; unfold render_member; cbn [app fst]; unfold dq; eexists; reflexivity. }
    destruct SJ as [y SJ].
    unfold parse_whole. cbn [app]. rewrite (skip_ws_nows 123) by reflexivity.
    rewrite pvalue_obj_step. rewrite SJ. rewrite (skip_ws_nows 34) by reflexivity. rewrite <- SJ.
    assert (L : (length (kv :: l) < length (123%N :: J ++ [125%N]))%nat).
    { pose proof (join_length (kv :: l)) as JL. fold J in JL. cbn [length] in *. lia. }
    subst J. rewrite (pmembers_rendered (kv :: l) _ [] ltac:(discriminate) F L).
    reflexivity.
Qed.

(* ... hence GetCredential, reading with the general reader the bytes PutCredential
   produced, answers the credential that was stored *)
Lemma reader_reads_put_entry a c :
  put_accepts a c = true -> bytes (c_user c ++ colon :: c_pass c) ->
  exists v, parse_whole (entry_bytes b64_encode c) = Some v /\
            cred_of_entry b64_decode (Old (entry_bytes b64_encode c) (view_of_jval v)) = RCred c.
Proof.
  intros ACC B. destruct (put_accepts_valid a c ACC) as (_ & VR & VT).
  destruct (reader_reads_fresh (encode_auth b64_encode (c_user c) (c_pass c)) (c_refresh c) (c_access c)
              (encode_auth_valid _ _ B) VR VT) as (v & P & W).
  exists v. split; [exact P|]. rewrite W. cbn [cred_of_entry].
  exact (codec_roundtrip b64_encode b64_decode bytes b64_roundtrip b64_encode_nonempty c (put_accepts_colon a c ACC) B).
Qed.
