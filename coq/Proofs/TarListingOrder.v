(* C12: the tar written by Store.Add does not depend on the order in which a directory
   lists its entries: filepath.Walk's sort makes the children list canonical. *)
From Coq Require Import Permutation Sorted.
From Oras Require Import Base.Prelude Model.TarRoundTrip Proofs.TarRoundTrip Proofs.TarWalkOrder.

(* ---------- byte-wise order on names ---------- *)
Lemma str_ltb_cons c x d y :
  str_ltb (c :: x) (d :: y) = true <-> c < d \/ (c = d /\ str_ltb x y = true).
Proof.
  simpl. destruct (N.ltb_spec c d) as [Hcd|Hcd]; [split; auto|].
  destruct (N.ltb_spec d c) as [Hdc|Hdc].
  - split; [discriminate|]. intros [?|[? _]]; lia.
  - assert (c = d) by lia. split; [auto|]. intros [?|[_ ?]]; [lia|assumption].
Qed.

Lemma str_ltb_trans : forall x y z, str_ltb x y = true -> str_ltb y z = true -> str_ltb x z = true.
Proof.
  induction x as [|c x IH]; intros [|d y] [|e z] H1 H2; simpl in H1, H2; try discriminate; try reflexivity.
  apply str_ltb_cons in H1. apply str_ltb_cons in H2. apply str_ltb_cons.
  destruct H1 as [H1|[-> H1]], H2 as [H2|[-> H2]].
  - left; lia.
  - left; lia.
  - left; lia.
  - right. split; [reflexivity|]. eapply IH; eauto.
Qed.

Lemma str_ltb_asym : forall x y, str_ltb x y = true -> str_ltb y x = true -> False.
Proof.
  induction x as [|c x IH]; intros [|d y] H1 H2; simpl in H1, H2; try discriminate.
  apply str_ltb_cons in H1. apply str_ltb_cons in H2.
  destruct H1 as [H1|[-> H1]], H2 as [H2|[E2 H2]]; try lia. eapply IH; eauto.
Qed.

Lemma str_ltb_total : forall x y, str_ltb x y = false -> str_ltb y x = false -> x = y.
Proof.
  induction x as [|c x IH]; intros [|d y] H1 H2; simpl in H1, H2; try discriminate; try reflexivity.
  destruct (N.ltb_spec c d); [discriminate|]. destruct (N.ltb_spec d c); [discriminate|].
  assert (c = d) by lia. subst d. f_equal. now apply IH.
Qed.

(* ---------- sorted children lists are canonical ---------- *)
Definition name_lt (a b : name * tree) : Prop := str_ltb (fst a) (fst b) = true.

Lemma insert_child_sorted x l :
  StronglySorted name_lt l -> (forall y, In y l -> fst y <> fst x) ->
  StronglySorted name_lt (insert_child x l).
Proof.
  induction l as [|a l IH]; simpl; intros Hs Hd.
  - constructor; constructor.
  - inversion Hs as [|? ? Hs' Ha]; subst.
    destruct (str_ltb (fst a) (fst x)) eqn:E.
    + constructor.
      * apply IH; [exact Hs'|]. intros y Hy. apply Hd. now right.
      * apply (Permutation_Forall (Permutation_sym (insert_child_perm x l))).
        constructor; [exact E|exact Ha].
    + assert (Hxa : name_lt x a).
      { unfold name_lt. destruct (str_ltb (fst x) (fst a)) eqn:E'; [reflexivity|].
        exfalso. apply (Hd a); [now left|]. symmetry. now apply str_ltb_total. }
      constructor; [exact Hs|]. constructor; [exact Hxa|].
      eapply Forall_impl; [|exact Ha]. intros y Hy. unfold name_lt in *. eapply str_ltb_trans; eauto.
Qed.

Lemma sort_children_sorted l : NoDup (map fst l) -> StronglySorted name_lt (sort_children l).
Proof.
  induction l as [|x l IH]; intro Hnd.
  - constructor.
  - inversion Hnd as [|? ? Hni Hnd']; subst. unfold sort_children in *. simpl.
    apply insert_child_sorted; [now apply IH|].
    intros y Hy E. apply Hni. rewrite <- E. apply in_map.
    eapply Permutation_in; [apply sort_children_perm|exact Hy].
Qed.

Lemma sorted_perm_eq : forall l l',
  StronglySorted name_lt l -> StronglySorted name_lt l' -> Permutation l l' -> l = l'.
Proof.
  induction l as [|a l IH]; intros l' Hs Hs' Hp.
  - apply Permutation_nil in Hp. now subst.
  - destruct l' as [|b l']; [apply Permutation_sym, Permutation_nil in Hp; discriminate|].
    inversion Hs as [|? ? Hs1 Ha]; inversion Hs' as [|? ? Hs2 Hb]; subst.
    assert (a = b).
    { assert (Ia : In a (b :: l')) by (eapply Permutation_in; [exact Hp|now left]).
      assert (Ib : In b (a :: l)) by (eapply Permutation_in; [apply Permutation_sym; exact Hp|now left]).
      destruct Ia as [Ia|Ia]; [now symmetry|]. destruct Ib as [Ib|Ib]; [assumption|].
      exfalso. rewrite Forall_forall in Ha, Hb.
      exact (str_ltb_asym _ _ (Ha b Ib) (Hb a Ia)). }
    subst b. f_equal. apply IH; auto. eapply Permutation_cons_inv; eauto.
Qed.

Lemma names_nodupb_NoDup l : names_nodupb l = true -> NoDup l.
Proof.
  induction l as [|x l IH]; simpl; intro Hn; [constructor|].
  apply andb_true_iff in Hn as [H1 H2]. constructor; [|now apply IH].
  intro Hin. apply negb_true_iff in H1.
  assert (existsb (str_eqb x) l = true) as E by (apply existsb_exists; exists x; split; [exact Hin|apply str_eqb_refl]).
  rewrite E in H1. discriminate.
Qed.

Theorem sort_children_canonical l l' :
  Permutation l l' -> names_nodupb (map fst l) = true -> sort_children l = sort_children l'.
Proof.
  intros Hp Hn. apply names_nodupb_NoDup in Hn.
  apply sorted_perm_eq.
  - now apply sort_children_sorted.
  - apply sort_children_sorted. eapply Permutation_NoDup; [apply Permutation_map; exact Hp|exact Hn].
  - rewrite sort_children_perm, Hp. symmetry. apply sort_children_perm.
Qed.

(* ---------- two listings of the same tree ---------- *)
(* the same tree, every directory possibly listing its children in another order *)
Inductive same_tree : tree -> tree -> Prop :=
| st_file c m t : same_tree (File c m t) (File c m t)
| st_link g t : same_tree (Link g t) (Link g t)
| st_dir m t ch ch' ch'' :
    Forall2 (fun a b => fst a = fst b /\ same_tree (snd a) (snd b)) ch ch' ->
    Permutation ch' ch'' ->
    same_tree (Dir m t ch) (Dir m t ch'').

Lemma same_tree_sort : forall t t', same_tree t t' -> wf_treeb t = true -> sort_tree t = sort_tree t'.
Proof.
  induction t as [c m mt|tg mt|m mt ch IH] using tree_ind'; intros t' Hst Hwf; inversion Hst; subst; try reflexivity.
  rename ch' into ch1, ch'' into ch2. rewrite !sort_tree_dir. f_equal.
  simpl in Hwf. apply andb_true_iff in Hwf as [Hnd Hwf]. apply andb_true_iff in Hnd as [Hnd Hnok].
  assert (Hmap : map sortg ch = map sortg ch1).
  { clear - IH H3 Hwf. induction H3 as [|a b0 l l' [Hab Hs] HF IHF]; [reflexivity|].
    inversion IH as [|? ? IHa IHl]; subst. simpl in Hwf. apply andb_true_iff in Hwf as [Hwa Hwl].
    simpl. f_equal; [|now apply IHF].
    unfold sortg. rewrite Hab. f_equal. now apply IHa. }
  rewrite Hmap. apply sort_children_canonical.
  - now apply Permutation_map.
  - rewrite <- Hmap, map_fst_sortg. exact Hnd.
Qed.

Theorem listing_order_irrelevant pre repro t t' :
  same_tree t t' -> wf_treeb t = true -> tar_entries pre repro t = tar_entries pre repro t'.
Proof. intros Hst Hwf. unfold tar_entries. now rewrite (same_tree_sort t t' Hst Hwf). Qed.

Lemma strip_times_idem : forall t, strip_times (strip_times t) = strip_times t.
Proof.
  induction t as [c m mt|tg mt|m mt ch IH] using tree_ind'; simpl; try reflexivity.
  f_equal. rewrite map_map. simpl. apply map_ext_Forall.
  eapply Forall_impl; [|exact IH]. intros nc H. simpl. now rewrite H.
Qed.

(* reproducible tars: neither the timestamps nor the listing order of any directory matter *)
Theorem reproducible_any_listing pre t1 t2 :
  same_tree (strip_times t1) (strip_times t2) -> wf_treeb (strip_times t1) = true ->
  tar_entries pre true t1 = tar_entries pre true t2.
Proof.
  intros Hst Hwf.
  rewrite (reproducible_entries pre t1 (strip_times t1)) by (symmetry; apply strip_times_idem).
  rewrite (reproducible_entries pre t2 (strip_times t2)) by (symmetry; apply strip_times_idem).
  now apply listing_order_irrelevant.
Qed.
