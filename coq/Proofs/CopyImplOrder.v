(* CopyImplOrder: the push-ordering invariant of the protocol LTS as statements about every
   reachable state -- failed, cancelled and unfinished executions included.  (The invariants
   themselves, I_waitd and I_donecl, are proved in CopyImplSucc / CopyImplSucc2.) *)
From Coq Require Import List Arith Bool Lia.
From Oras Require Import Model.CopyImpl Proofs.CopyImplBase Proofs.CopyImplInv Proofs.CopyImplInv2 Proofs.CopyImplLive
  Proofs.CopyImplFault Proofs.CopyImplSucc Proofs.CopyImplSucc2.
Import ListNotations.

Section Proofs.
Variable succ : nat -> list nat.
Variable K : nat.
Variable ext : bool.
Variable roots : list nat.
Hypothesis succ_dec : forall n m, In m (succ n) -> m < n.
Local Notation Reachable := (Reachable succ K ext roots).

(* a task of copyGraph.fn that is past its wait loop (about to re-acquire its permit, or in
   copyNode) has every successor of its node Done: its done channel is closed *)
Lemma past_wait_successors_done s t : Reachable s ->
  t_kind (tasks s t) = KFn -> (t_pc (tasks s t) = TStart \/ t_pc (tasks s t) = TPush) ->
  forall m, In m (succ (t_node (tasks s t))) -> is_done (tracker s m) = true.
Proof.
  intros Hr Hk Hp. destruct (inv1234_reach succ K ext roots succ_dec s Hr) as [_ [_ [_ I4]]].
  destruct (i4_waitd _ _ _ _ I4 t Hk) as [_ H]. now apply H.
Qed.

(* whenever the push step of a task is enabled -- with either outcome -- every successor is Done *)
Lemma push_after_done s t ok s' : Reachable s -> step succ s (LPush t ok) = Some s' ->
  forall m, In m (succ (t_node (tasks s t))) -> is_done (tracker s m) = true.
Proof.
  intros Hr Hs. destruct (inv1234_reach succ K ext roots succ_dec s Hr) as [_ [_ [I3 _]]].
  assert (Hp : t_pc (tasks s t) = TPush).
  { cbn in Hs. destruct (t_pc (tasks s t)); try discriminate. reflexivity. }
  apply past_wait_successors_done; auto.
  apply (i3_kfn _ I3). rewrite Hp. reflexivity.
Qed.

(* a node is marked Done only in three ways; "copied" implies all successors Done -- at every
   reachable state, not only after a successful return *)
Lemma copied_successors_done s : Reachable s ->
  forall n, tracker s n = DoneCopied -> forall m, In m (succ n) -> is_done (tracker s m) = true.
Proof.
  intros Hr. destruct (inv1234_reach succ K ext roots succ_dec s Hr) as [_ [_ [_ I4]]].
  exact (i4_donecl _ _ _ _ I4).
Qed.

End Proofs.
