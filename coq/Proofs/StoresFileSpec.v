(* C06 -- the file store refines its abstract specification (Model/StoresFileSpec.v): on every
   history that does not use a second name for one path, equal outputs step by step, and the
   content map by digest is what digestToPath -> path -> file yields. *)
From Oras Require Import Base.Prelude Model.Stores Model.StoresFileSpec Proofs.Stores.

Local Arguments res_tag : simpl never.
Local Arguments g_index : simpl never.
Local Arguments gkey_eqb : simpl never.
Local Arguments verify : simpl never.
Local Arguments is_manifest : simpl never.
Local Arguments limit_reader : simpl never.

Record frel (s : file_store) (a : fspec) : Prop := mkFR {
  fr_names : fs_names a = f_names s;
  fr_named : forall g, get N.eqb g (fs_named a) =
                       match get N.eqb g (f_d2p s) with Some p => get N.eqb p (f_disk s) | None => None end;
  fr_cas : fs_cas a = f_cas s;
  fr_res : fs_res a = f_res s;
  fr_graph : fs_graph a = f_graph s }.

Lemma frel_init : frel file_init fspec_init.
Proof. constructor; reflexivity. Qed.

Lemma frel_fetch d s a : file_inv s -> frel s a -> fspec_fetch d a = file_fetch d s.
Proof.
  intros [A _ _] [Hn Hm Hc _ _]. unfold fspec_fetch, file_fetch, fs_name_ok, name_ok. rewrite Hn, Hm, Hc.
  destruct ((d_name d =? 0) || mem N.eqb (d_name d) (f_names s)); [|reflexivity].
  destruct (get N.eqb (d_dig d) (f_d2p s)) as [p|] eqn:E; [|reflexivity].
  destruct (A _ _ E) as (_ & c & Hc' & _). now rewrite Hc'.
Qed.

Lemma frel_exists d s a : file_inv s -> frel s a -> fspec_exists d a = file_exists d s.
Proof.
  intros [A _ _] [Hn Hm Hc _ _]. unfold fspec_exists, file_exists, fs_name_ok, name_ok. rewrite Hn, Hm, Hc.
  destruct (get N.eqb (d_dig d) (f_d2p s)) as [p|] eqn:E; [|reflexivity].
  destruct (A _ _ E) as (_ & c & Hc' & _). now rewrite Hc'.
Qed.

Lemma frel_named_push ov s a k n c :
  file_inv s -> frel s a -> path_of n = n ->
  snd (file_named_push true ov s k n c) = snd (fspec_named_push a k n c) /\
  frel (fst (file_named_push true ov s k n c)) (fst (fspec_named_push a k n c)).
Proof.
  intros Hi Hr Hp. pose proof Hi as [A D _]. pose proof Hr as [Hn Hm Hc Hre Hg].
  unfold file_named_push, fspec_named_push. rewrite Hn, Hp.
  destruct (mem N.eqb n (f_names s)) eqn:Em; [split; [reflexivity | exact Hr]|].
  destruct (bad_name n); [split; [reflexivity | exact Hr]|].
  assert (Hnn : ~ In n (f_names s)) by (intro X; apply memN_In in X; congruence).
  assert (Hd : get N.eqb n (f_disk s) = None).
  { destruct (get N.eqb n (f_disk s)) as [c0|] eqn:E; auto. destruct (D _ _ E) as [X _]. contradiction. }
  rewrite Hd. rewrite andb_false_r.
  assert (Hother : forall g p, get N.eqb g (f_d2p s) = Some p -> p <> n).
  { intros g p E. destruct (A _ _ E) as [X _]. congruence. }
  destruct ((k_dig k =? b_hash c) && (k_size k =? b_len c)); cbn [fst snd]; (split; [reflexivity|]).
  - constructor; cbn [fs_names fs_named fs_cas fs_res fs_graph f_names f_d2p f_disk f_cas f_res f_graph]; auto.
    intro g. destruct (N.eq_dec g (k_dig k)) as [->|Hne].
    + repeat rewrite (get_put_eq N.eqb Neqb_spec). reflexivity.
    + rewrite !(get_put_neq N.eqb Neqb_spec) by exact Hne. rewrite Hm.
        destruct (get N.eqb g (f_d2p s)) as [p|] eqn:E; [|reflexivity].
        rewrite (get_put_neq N.eqb Neqb_spec); [reflexivity|]. eapply Hother; eauto.
  - constructor; cbn [f_names f_d2p f_disk f_cas f_res f_graph]; auto.
    intro g. rewrite Hm. destruct (get N.eqb g (f_d2p s)) as [p|] eqn:E; [|reflexivity].
    rewrite (get_del_neq N.eqb Neqb_spec); [reflexivity|]. eapply Hother; eauto.
Qed.

Lemma frel_restore ov tl : forall s a,
  file_inv s -> frel s a -> (forall k n, In (k, n) tl -> path_of n = n) ->
  snd (file_restore true ov tl s) = snd (fspec_restore tl a) /\
  frel (fst (file_restore true ov tl s)) (fst (fspec_restore tl a)).
Proof.
  induction tl as [|[k n] tl IH]; intros s a Hi Hr Ht; [split; [reflexivity | exact Hr]|].
  assert (Ht' : forall k0 n0, In (k0, n0) tl -> path_of n0 = n0) by (intros; eapply Ht; right; eauto).
  pose proof (Ht k n (or_introl eq_refl)) as Hp.
  cbn [file_restore fspec_restore]. rewrite (fr_names _ _ Hr).
  destruct ((n =? 0) || mem N.eqb n (f_names s)) eqn:En; [now apply IH|].
  rewrite (frel_fetch _ s a Hi Hr).
  destruct (file_fetch (mkDesc (k_mt k) (k_dig k) (k_size k) 0) s) as [c2|] eqn:Ef; [|now apply IH].
  destruct (file_fetch_inv _ _ _ Hi Ef) as [_ Hok].
  set (c2' := match get N.eqb (k_dig k) (f_d2p s) with
              | Some p => if (p =? path_of n) && negb (b_len c2 =? 0) then mkBlob 0 0 [] 0 [] else c2
              | None => c2 end).
  assert (Hc2' : c2' = c2).
  { unfold c2'. destruct (get N.eqb (k_dig k) (f_d2p s)) as [p|] eqn:Ep; auto.
    destruct Hi as [A _ _]. destruct (A _ _ Ep) as [Hpn _]. rewrite Hp.
    destruct (p =? n) eqn:Epn; auto. apply N.eqb_eq in Epn. subst p.
    apply orb_false_iff in En as [_ En]. apply memN_In in Hpn. congruence. }
  rewrite Hc2'.
  destruct (frel_named_push ov s a k n c2 Hi Hr Hp) as [Hs Hr1].
  pose proof (file_named_push_inv ov s k n c2 Hi Hp Hok) as Hi1.
  destruct (file_named_push true ov s k n c2) as [s1 r1]. destruct (fspec_named_push a k n c2) as [a1 r2].
  cbn [fst snd] in *. subst r2.
  destruct r1 as [[o|[| |]]|]; try (split; [reflexivity | exact Hr1]); now apply IH.
Qed.

Lemma frel_index d s a :
  file_inv s -> frel s a ->
  snd (file_index d s) = snd (fspec_index d a) /\ frel (fst (file_index d s)) (fst (fspec_index d a)).
Proof.
  intros Hi Hr. unfold file_index, fspec_index. rewrite (frel_fetch d s a Hi Hr). pose proof Hr as [Hn Hm Hc Hre Hg].
  destruct (is_manifest (d_mt d)).
  - destruct (file_fetch d s) as [c1|]; [|split; [reflexivity | exact Hr]].
    destruct (d_dig d =? b_hash c1); [|split; [reflexivity | exact Hr]].
    split; [reflexivity|]. constructor; cbn; auto. now rewrite Hg.
  - split; [reflexivity|]. constructor; cbn; auto. now rewrite Hg.
Qed.

Lemma frel_index_after ov d s a :
  file_inv s -> frel s a ->
  snd (file_index_after true ov d s) = snd (fspec_index_after d a) /\
  frel (fst (file_index_after true ov d s)) (fst (fspec_index_after d a)).
Proof.
  intros Hi Hr. unfold file_index_after, fspec_index_after.
  destruct (frel_index d s a Hi Hr) as [Hs Hr2]. pose proof (file_index_inv d s Hi) as Hi2.
  destruct (file_index d s) as [s2 r]. destruct (fspec_index d a) as [a2 r']. cbn [fst snd] in *. subst r'.
  destruct r as [o|e]; [|split; [reflexivity | exact Hr2]].
  destruct o; try (split; [reflexivity | exact Hr2]).
  destruct (is_manifest (d_mt d)); [|split; [reflexivity | exact Hr2]].
  rewrite (frel_fetch d s2 a2 Hi2 Hr2).
  destruct (file_fetch d s2) as [c1|] eqn:Ef; [|split; [reflexivity | exact Hr2]].
  destruct (d_dig d =? b_hash c1); [|split; [reflexivity | exact Hr2]].
  destruct (file_fetch_inv _ _ _ Hi2 Ef) as [_ [Hok _]].
  destruct (frel_restore ov (b_tl c1) s2 a2 Hi2 Hr2 Hok) as [Hs3 Hr3].
  destruct (file_restore true ov (b_tl c1) s2) as [s3 x]. destruct (fspec_restore (b_tl c1) a2) as [a3 x'].
  cbn [fst snd] in *. subst x'. destruct x; (split; [reflexivity | exact Hr3]).
Qed.

Lemma frel_step ig ov s a o :
  no_alias o -> file_inv s -> frel s a ->
  snd (file_step true ig ov s o) = snd (fspec_step ig a o) /\
  frel (fst (file_step true ig ov s o)) (fst (fspec_step ig a o)).
Proof.
  intros Hna Hi Hr. pose proof Hr as [Hn Hm Hc Hre Hg].
  destruct o; cbn [file_step fspec_step]; try (split; [reflexivity | exact Hr]).
  - (* Push *)
    destruct Hna as [Hp Ht]. destruct (d_name d =? 0) eqn:En.
    + destruct ig.
      * destruct (is_manifest (d_mt d)); [|split; [reflexivity | exact Hr]].
        destruct (verify d c); [|split; [reflexivity | exact Hr]].
        destruct (frel_restore ov (b_tl c) s a Hi Hr (proj1 Ht)) as [Hs3 Hr3].
        destruct (file_restore true ov (b_tl c) s) as [s3 x]. destruct (fspec_restore (b_tl c) a) as [a3 x'].
        cbn [fst snd] in *. subst x'. destruct x; (split; [reflexivity | exact Hr3]).
      * rewrite Hc. destruct (get gkey_eqb (gk d) (f_cas s)) eqn:Ec; [split; [reflexivity | exact Hr]|].
        destruct (verify d (limit_reader d c)) eqn:V; [|split; [reflexivity | exact Hr]].
        apply frel_index_after.
        -- pose proof (file_step_inv false ov s (Push d c) (conj Hp Ht) Hi) as H. cbn [file_step] in H.
           rewrite En, Ec, V in H.
           destruct Hi as [A B0 C]. constructor; cbn [f_names f_d2p f_disk f_cas]; auto. intros k c0.
           destruct (eqb_dec gkey_eqb gkey_eqb_spec k (gk d)) as [->|Hne].
           ++ rewrite (get_put_eq gkey_eqb gkey_eqb_spec). intro E. injection E as <-.
              apply verify_spec in V as [V _]. split; [exact V | now apply titles_ok_limit].
           ++ rewrite (get_put_neq gkey_eqb gkey_eqb_spec) by exact Hne. apply C.
        -- constructor; cbn; auto.
    + destruct (frel_named_push ov s a (gk d) (d_name d) c Hi Hr Hp) as [Hs Hr1].
      pose proof (file_named_push_inv ov s (gk d) (d_name d) c Hi Hp Ht) as Hi1.
      destruct (file_named_push true ov s (gk d) (d_name d) c) as [s1 r1].
      destruct (fspec_named_push a (gk d) (d_name d) c) as [a1 r2]. cbn [fst snd] in *. subst r2.
      destruct r1 as [e|]; [split; [reflexivity | exact Hr1]|]. now apply frel_index_after.
  - rewrite (frel_fetch d s a Hi Hr). destruct (file_fetch d s); (split; [reflexivity | exact Hr]).
  - rewrite (frel_exists d s a Hi Hr). split; [reflexivity | exact Hr].
  - rewrite (frel_exists d s a Hi Hr).
    destruct r; try (split; [reflexivity | exact Hr]);
      (destruct (file_exists d s); [|split; [reflexivity | exact Hr]]; split; [reflexivity|];
       constructor; cbn; auto; now rewrite Hre).
  - rewrite Hre. destruct r; try (split; [reflexivity | exact Hr]);
      (destruct (get ref_eqb _ (r_index (f_res s))); (split; [reflexivity | exact Hr])).
  - rewrite Hg. split; [reflexivity | exact Hr].
Qed.

Lemma frel_run ig ov h : forall s a,
  Forall no_alias h -> file_inv s -> frel s a ->
  snd (runf (file_step true ig ov) s h) = snd (runf (fspec_step ig) a h) /\
  frel (fst (runf (file_step true ig ov) s h)) (fst (runf (fspec_step ig) a h)).
Proof.
  induction h as [|o h IH]; intros s a Hna Hi Hr; [split; [reflexivity | exact Hr]|].
  inversion Hna; subst. rewrite !runf_cons. cbn [fst snd].
  destruct (frel_step ig ov s a o H1 Hi Hr) as [Hs Hr1].
  destruct (IH _ _ H2 (file_step_inv ig ov s o H1 Hi) Hr1) as [Hs2 Hr2].
  split; [now rewrite Hs, Hs2 | exact Hr2].
Qed.

(* The file store (repaired pushFile; any IgnoreNoName / DisableOverwrite setting) answers every
   history without an aliasing name exactly like the abstract content-map specification, and
   its digest -> path -> file indirection is the specification's content map. *)
Theorem refines_file ig ov h :
  Forall no_alias h ->
  snd (runf (file_step true ig ov) file_init h) = snd (runf (fspec_step ig) fspec_init h) /\
  frel (fst (runf (file_step true ig ov) file_init h)) (fst (runf (fspec_step ig) fspec_init h)).
Proof. intro Hna. apply frel_run; [exact Hna | exact file_inv_init | exact frel_init]. Qed.

(* hence DisableOverwrite is unobservable on such histories *)
Corollary file_disable_overwrite_unobservable ig h :
  Forall no_alias h ->
  snd (runf (file_step true ig true) file_init h) = snd (runf (file_step true ig false) file_init h).
Proof.
  intro Hna. rewrite (proj1 (refines_file ig true h Hna)), (proj1 (refines_file ig false h Hna)). reflexivity.
Qed.
