(* The result of io.CopyBuffer over a VerifyReader does not depend on the size of the copy
   buffer: for every buffer size >= 1 the loop computes the same canonical function of the
   reader script ([drain]).  So the 32 KiB of os.File.ReadFrom / the 1 MiB pool buffer are
   irrelevant to everything the stores observe. *)
From Oras Require Import Base.Prelude Generated.GC05 Model.Verify Proofs.Verify Proofs.VerifyFuel.
From Coq Require Import Lia ZArith.

Local Open Scope nat_scope.

(* what repeated Reads of a fresh VerifyReader (limit lim) deliver before the first error,
   that error, and what is left: by recursion on the script, no buffer size involved *)
Fixpoint drain (comb : bool) (evs : list ev) (lim : Z) : ((str * rerr) * list ev) * Z :=
  match evs with
  | [] => if (lim <=? 0)%Z then ((([], EEof), []), lim) else ((([], EUnexpEof), []), lim)
  | Zero :: r => if (lim <=? 0)%Z then ((([], EEof), evs), lim) else drain comb r lim
  | Fail :: r => if (lim <=? 0)%Z then ((([], EEof), evs), lim) else ((([], EInjected), r), lim)
  | Eof :: r => if (lim <=? 0)%Z then ((([], EEof), evs), lim) else ((([], EUnexpEof), r), lim)
  | Data d :: r =>
      if (lim <=? 0)%Z then ((([], EEof), evs), lim)
      else if (Z.of_nat (length d) <=? lim)%Z then
        let lim1 := (lim - Z.of_nat (length d))%Z in
        let go := let '(((bs, e), evs'), lim2) := drain comb r lim1 in (((d ++ bs, e), evs'), lim2) in
        if comb then
          match r with
          | [] => (((d, if (lim1 >? 0)%Z then EUnexpEof else EEof), []), lim1)
          | Fail :: r' => (((d, EInjected), r'), lim1)
          | Eof :: r' => (((d, if (lim1 >? 0)%Z then EUnexpEof else EEof), r'), lim1)
          | _ => go
          end
        else go
      else (((firstn (Z.to_nat lim) d, EEof), Data (skipn (Z.to_nat lim) d) :: r), 0%Z)
  end.

Lemma firstn_add {A} (l : list A) a c : firstn (a + c) l = firstn a l ++ firstn c (skipn a l).
Proof. revert l. induction a as [|a IH]; intros [|x l]; simpl; auto. - destruct c; reflexivity. - rewrite IH. reflexivity. Qed.

Lemma skipn_add {A} (l : list A) a c : skipn (a + c) l = skipn c (skipn a l).
Proof. revert l. induction a as [|a IH]; intros [|x l]; simpl; auto. destruct c; reflexivity. Qed.

(* reading the first k bytes of a chunk separately changes nothing *)
Lemma drain_split comb d r lim k :
  1 <= k -> k < length d -> (Z.of_nat k <= lim)%Z ->
  drain comb (Data d :: r) lim =
  let '(((bs, e), evs'), lim1) := drain comb (Data (skipn k d) :: r) (lim - Z.of_nat k) in
  (((firstn k d ++ bs, e), evs'), lim1).
Proof.
  intros K1 K2 K3. cbn [drain].
  assert (Hnp : (lim <=? 0)%Z = false) by (apply Z.leb_gt; lia). rewrite Hnp.
  rewrite skipn_length.
  destruct (Z.of_nat (length d) <=? lim)%Z eqn:W.
  - apply Z.leb_le in W.
    assert (Hn2 : (lim - Z.of_nat k <=? 0)%Z = false) by (apply Z.leb_gt; lia). rewrite Hn2.
    assert (W2 : (Z.of_nat (length d - k) <=? lim - Z.of_nat k)%Z = true) by (apply Z.leb_le; lia). rewrite W2.
    replace (lim - Z.of_nat k - Z.of_nat (length d - k))%Z with (lim - Z.of_nat (length d))%Z by lia.
    assert (G : forall X : ((str * rerr) * list ev) * Z,
              (let '(((bs, e), evs'), lim2) := X in (((d ++ bs, e), evs'), lim2)) =
              (let '(((bs0, e0), evs0), Hn0) := (let '(((bs, e), evs'), lim2) := X in (((skipn k d ++ bs, e), evs'), lim2)) in
               (((firstn k d ++ bs0, e0), evs0), Hn0))).
    { intros [[[bs e] evs'] lim2]. rewrite app_assoc, firstn_skipn. reflexivity. }
    destruct comb.
    + destruct r as [|[d'| | |] r']; try (rewrite firstn_skipn; reflexivity); apply G.
    + apply G.
  - apply Z.leb_gt in W.
    destruct (lim - Z.of_nat k <=? 0)%Z eqn:Hn2.
    + apply Z.leb_le in Hn2. assert (lim = Z.of_nat k) by lia. subst lim. rewrite Nat2Z.id, app_nil_r.
      replace (Z.of_nat k - Z.of_nat k)%Z with 0%Z by lia. reflexivity.
    + apply Z.leb_gt in Hn2.
      assert (W2 : (Z.of_nat (length d - k) <=? lim - Z.of_nat k)%Z = false) by (apply Z.leb_gt; lia). rewrite W2.
      replace (Z.to_nat lim) with (k + Z.to_nat (lim - Z.of_nat k)) by lia.
      rewrite firstn_add, skipn_add. reflexivity.
Qed.

Section Chunk.
  Variable H : str -> str -> str.
  Variable comb : bool.

  Definition drained (hashed out : str) (X : ((str * rerr) * list ev) * Z) : (option rerr * str) * vrd :=
    let '(((bs, e), evs'), lim1) := X in
    ((if is_eof e then None else Some e, out ++ bs), mkVr (mkBase evs' None) lim1 (hashed ++ bs) (Some e) false).

  Lemma drained_shift hashed out pre X :
    drained (hashed ++ pre) (out ++ pre) X =
    drained hashed out (let '(((bs, e), evs'), lim1) := X in (((pre ++ bs, e), evs'), lim1)).
  Proof. destruct X as [[[bs e] evs'] lim1]. unfold drained. rewrite !app_assoc. reflexivity. Qed.

  Lemma copy_loop_drain bufsz : 1 <= bufsz -> forall fuel evs lim out hashed,
    ev_weight evs < fuel ->
    copy_loop comb fuel (mkVr (mkBase evs None) lim hashed None false) bufsz out
    = drained hashed out (drain comb evs lim).
  Proof.
    intro B1. induction fuel as [|f IH]; intros evs lim out hashed Fu; [lia|].
    cbn [copy_loop]. unfold vr_read at 1. cbn [v_err v_N v_base v_hashed v_verified].
    destruct (lim <=? 0)%Z eqn:Hn0.
    - (* the LimitedReader is exhausted *)
      assert (D : drain comb evs lim = ((([], EEof), evs), lim)).
      { destruct evs as [|[d| | |] r]; cbn [drain]; rewrite Hn0; reflexivity. }
      rewrite D. unfold drained, set_err. cbn [is_eof v_base v_N v_hashed v_verified]. rewrite !app_nil_r. reflexivity.
    - apply Z.leb_gt in Hn0.
      pose proof (clamp_ge1 bufsz lim B1 Hn0) as K1. pose proof (clamp_le bufsz lim Hn0) as [_ K2].
      remember (clamp bufsz lim) as k eqn:Ek. clear Ek.
      unfold base_read. cbn [b_lim b_evs].
      assert (Hnp : (lim <=? 0)%Z = false) by (apply Z.leb_gt; lia).
      destruct evs as [|[d| | |] r].
      + cbn [script_read drain]. rewrite Hnp. cbn [length is_eof andb]. rewrite Z.sub_0_r.
        assert (G : (lim >? 0)%Z = true) by (apply Z.gtb_lt; lia). rewrite G.
        unfold drained, set_err. cbn [is_eof v_base v_N v_hashed v_verified]. rewrite !app_nil_r. reflexivity.
      + cbn [script_read]. simpl in Fu.
        destruct (length d <=? k) eqn:Ld.
        * (* the rest of the chunk in one Read *)
          apply Nat.leb_le in Ld. cbn [drain]. rewrite Hnp.
          assert (W : (Z.of_nat (length d) <=? lim)%Z = true) by (apply Z.leb_le; lia). rewrite W.
          assert (Go : copy_loop comb f (mkVr (mkBase r None) (lim - Z.of_nat (length d)) (hashed ++ d) None false) bufsz (out ++ d)
                       = drained hashed out (let '(((bs, e), evs'), lim2) := drain comb r (lim - Z.of_nat (length d)) in (((d ++ bs, e), evs'), lim2))).
          { rewrite IH by lia. apply drained_shift. }
          destruct comb eqn:Cb.
          -- destruct r as [|[d'| | |] r']; try exact Go.
             ++ cbn [is_eof andb]. unfold drained, set_err. cbn [v_base v_N v_hashed v_verified].
                destruct (lim - Z.of_nat (length d) >? 0)%Z; reflexivity.
             ++ cbn [is_eof andb]. unfold drained, set_err. cbn [v_base v_N v_hashed v_verified is_eof]. reflexivity.
             ++ cbn [is_eof andb]. unfold drained, set_err. cbn [v_base v_N v_hashed v_verified].
                destruct (lim - Z.of_nat (length d) >? 0)%Z; reflexivity.
          -- exact Go.
        * (* a partial Read *)
          apply Nat.leb_gt in Ld.
          rewrite (drain_split comb d r lim k K1 Ld K2).
          assert (Lf : length (firstn k d) = k) by (apply firstn_length_le; lia). rewrite Lf.
          rewrite IH by (simpl; rewrite skipn_length; lia).
          apply drained_shift.
      + cbn [script_read drain length app]. rewrite Hnp, Z.sub_0_r, !app_nil_r. simpl in Fu. apply IH. lia.
      + cbn [script_read drain length app is_eof andb]. rewrite Hnp, Z.sub_0_r.
        unfold drained, set_err. cbn [is_eof v_base v_N v_hashed v_verified]. rewrite !app_nil_r. reflexivity.
      + cbn [script_read drain length app is_eof andb]. rewrite Hnp, Z.sub_0_r.
        assert (G : (lim >? 0)%Z = true) by (apply Z.gtb_lt; lia). rewrite G.
        unfold drained, set_err. cbn [is_eof v_base v_N v_hashed v_verified]. rewrite !app_nil_r. reflexivity.
  Qed.

  (* CopyBuffer: the complete result (error, bytes written, final reader state) is the same
     for every two buffer sizes >= 1 *)
  Theorem copy_buffer_bufsz_indep fixed fuel evs b1 b2 dg sz :
    1 <= b1 -> 1 <= b2 -> ev_weight evs < fuel ->
    copy_buffer H comb fixed fuel (mkBase evs None) b1 dg sz = copy_buffer H comb fixed fuel (mkBase evs None) b2 dg sz.
  Proof.
    intros B1 B2 Fu. unfold copy_buffer, new_vr, new_vr_gen.
    destruct (negb (valid_digest dg)).
    - (* the reader is born with an error: no Read reaches the source *)
      destruct fuel as [|f]; [lia|]. reflexivity.
    - destruct (fixed && (sz <? 0)%Z).
      + destruct fuel as [|f]; [lia|]. reflexivity.
      + rewrite (copy_loop_drain b1 B1), (copy_loop_drain b2 B2) by exact Fu. reflexivity.
  Qed.
End Chunk.
