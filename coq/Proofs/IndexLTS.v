(* Proofs/IndexLTS.v -- with saveIndex atomic w.r.t. the resolver snapshot, every
   interleaving of concurrent Push/Tag/Untag leaves index.json equal to the final resolver
   map at quiescence; with the snapshot outside the lock it does not. *)
From Coq Require Import List NArith Arith Bool Lia Permutation.
Import ListNotations.
From Oras Require Import Base.Prelude Generated.GC07 Model.GraphMem Model.IndexLTS Proofs.GraphMem.
Local Open Scope nat_scope.

Definition pending (s : lstate) : bool := existsb (fun t => Nat.eqb (t_pc t) 2) (l_threads s).

Lemma existsb_set_nth_new {A} (P : A -> bool) x : forall l i y,
  nth_error l i = Some y -> P x = true -> existsb P (set_nth i x l) = true.
Proof.
  induction l as [|z r IH]; intros i y H Hx; destruct i; simpl in *; try discriminate.
  - now rewrite Hx.
  - rewrite (IH i y H Hx). apply orb_true_r.
Qed.

Lemma existsb_set_nth_other {A} (P : A -> bool) x : forall l i y,
  nth_error l i = Some y -> P y = false -> existsb P l = true -> existsb P (set_nth i x l) = true.
Proof.
  induction l as [|z r IH]; intros i y H Hy He; destruct i; simpl in *; try discriminate.
  - inversion H; subst. rewrite Hy in He. simpl in He. rewrite He. apply orb_true_r.
  - destruct (P z); simpl in *; auto. apply (IH i y); auto.
Qed.

(* index.json is the resolver, or somebody still has to save *)
Definition Iv (s : lstate) : Prop := l_disk s = l_res s \/ pending s = true.

Lemma lstep_Iv s i s' : Iv s -> lstep true s i = Some s' -> Iv s'.
Proof.
  unfold lstep. intros HI H.
  destruct (nth_error (l_threads s) i) as [t|] eqn:E; [|discriminate].
  destruct (t_pc t) as [|[|[|[|k]]]] eqn:Epc; try discriminate; inversion H; subst; clear H.
  - destruct HI as [HI|HI]; [left; exact HI|right].
    unfold pending. simpl. apply (existsb_set_nth_other _ _ _ i t); auto. now rewrite Epc.
  - right. unfold pending. simpl. apply (existsb_set_nth_new _ _ _ i t); auto.
  - left. reflexivity.
Qed.

Lemma lrun_Iv trace : forall s s', Iv s -> lrun true s trace = Some s' -> Iv s'.
Proof.
  induction trace as [|i r IH]; intros s s' HI H; simpl in H.
  - inversion H; subst; auto.
  - destruct (lstep true s i) as [s1|] eqn:E; [|discriminate].
    apply (IH s1); auto. apply (lstep_Iv s i); auto.
Qed.

Lemma done_not_pending s : all_done s = true -> pending s = false.
Proof.
  unfold all_done, pending. induction (l_threads s) as [|t r IH]; simpl; auto.
  intro H. apply andb_true_iff in H. destruct H as [H1 H2].
  apply Nat.eqb_eq in H1. rewrite H1. simpl. auto.
Qed.

Lemma save_index_atomic_quiescent res acts trace s' :
  lrun true (linit res acts) trace = Some s' -> all_done s' = true ->
  l_disk s' = l_res s'.
Proof.
  intros H Hd.
  assert (Iv s') as HI by (apply (lrun_Iv trace (linit res acts)); [left; reflexivity | exact H]).
  destruct HI as [HI|HI]; auto.
  rewrite (done_not_pending s' Hd) in HI. discriminate.
Qed.

(* the narrowed critical section: two pushes, the older snapshot is written last *)
Definition split_trace : list nat := [0; 0; 0; 1; 1; 1; 1; 0]%nat.
Lemma save_index_split_refuted :
  exists res acts trace s',
    lrun false (linit res acts) trace = Some s' /\ all_done s' = true /\
    exists e, In e (l_res s') /\ ~ In e (l_disk s').
Proof.
  exists [], [ActAdd 1%N; ActAdd 2%N], split_trace.
  eexists. split; [vm_compute; reflexivity|]. split; [reflexivity|].
  exists 2%N. simpl. split; [auto|]. intros [H|[]]. discriminate.
Qed.

(* the same trace shape is a legal complete run of the real (atomic) code *)
Lemma save_index_atomic_example :
  exists s', lrun true (linit [] [ActAdd 1%N; ActAdd 2%N]) [0; 0; 1; 1; 1; 0]%nat = Some s' /\
             all_done s' = true /\ l_disk s' = [2; 1]%N.
Proof. eexists. vm_compute. repeat split. Qed.

(* consequence for Predecessors: after any interleaving of concurrent Push/Tag/Untag that has
   run to completion, a store reopened from the index.json on disk answers like the live
   graph, provided the resolver names every live node with successors (Push tags every
   manifest by digest) and the storage holds the live graph's nodes. *)
Lemma concurrent_save_then_reload content sok fuel res acts trace s' g g' :
  lrun true (linit res acts) trace = Some s' -> all_done s' = true ->
  Inv content g ->
  (forall p, In p (g_nodes g) -> sok p = true) ->
  (forall p, sok p = true -> content p <> [] -> In p (g_nodes g)) ->
  (forall p, In p (g_nodes g) -> content p <> [] -> In p (l_res s')) ->
  load content sok fuel (l_disk s') = (g', true) ->
  forall n, Permutation (predecessors g' n) (predecessors g n).
Proof.
  intros H Hd HI Ha Hb Hc HL.
  rewrite (save_index_atomic_quiescent res acts trace s' H Hd) in HL.
  apply (reload_equiv content sok fuel (l_res s') g g'); auto.
Qed.

(* ---- the same facts about the code as translated on this run ---- *)
Lemma save_index_atomic_true : save_index_atomic = true.
Proof. vm_compute. auto. Qed.

Lemma save_index_quiescent_src res acts trace s' :
  lrun save_index_atomic (linit res acts) trace = Some s' -> all_done s' = true ->
  l_disk s' = l_res s'.
Proof. rewrite save_index_atomic_true. apply save_index_atomic_quiescent. Qed.

(* the recogniser rejects the narrowed critical section *)
Lemma atomic_calls_split_false :
  atomic_calls [b "s.tagResolver.Map"; b "s.indexLock.Lock"; b "s.indexLock.Unlock"; b "s.writeIndexFile"] = false /\
  atomic_calls [b "s.indexLock.Lock"; b "s.tagResolver.Map"; b "s.indexLock.Unlock"; b "s.writeIndexFile"] = false.
Proof. vm_compute. auto. Qed.
