(* Proofs/GraphStore.v -- Predecessors at the level of the OCI store
   (Model/GraphStore.v): exact with respect to the blobs on disk after every history of
   Push / Tag / Delete / GC / reopen, for the repaired gcIndex; refuted for the code
   before the repair. *)
From Coq Require Import List NArith Bool Lia Permutation.
Import ListNotations.
From Oras Require Import Model.GraphMem Model.GraphStore Proofs.GraphMem.

Section Store.
Variable content : node -> list node.
Variable isman : node -> bool.
(* only the five manifest media types have successors *)
Hypothesis content_isman : forall p, content p <> [] -> isman p = true.

Record J (s : ostore) : Prop := mkJ {
  j_inv : Inv content (o_graph s);
  (* every stored manifest has a by-digest entry in the resolver *)
  j_root : forall p, isman p = true -> In p (o_blobs s) -> In p (o_bydigest s);
  (* graph manifests = stored manifests *)
  j_graph_stored : forall p, In p (g_nodes (o_graph s)) -> isman p = true -> In p (o_blobs s);
  j_stored_graph : forall p, In p (o_blobs s) -> isman p = true -> In p (g_nodes (o_graph s));
  (* every stored manifest is named by the index.json last written *)
  j_disk : forall p, isman p = true -> In p (o_blobs s) -> In p (o_dbydigest s) \/ In p (o_dtagged s)
}.

Lemma J_empty : J empty_store.
Proof.
  constructor; simpl; try tauto. apply Inv_empty.
Qed.

Lemma exists_node_In g x : exists_node g x = true <-> In x (g_nodes g).
Proof. apply smem_In. Qed.

Lemma o_sok_true s p : o_sok isman s p = true <-> isman p = false \/ In p (o_blobs s).
Proof.
  unfold o_sok. rewrite orb_true_iff, negb_true_iff, smem_In. tauto.
Qed.

(* the graph after a load whose storage is the store's blobs *)
Lemma load_J_nodes s fuel roots g' :
  load content (o_sok isman s) fuel roots = (g', true) ->
  (forall p, In p (g_nodes g') -> isman p = true -> In p (o_blobs s)) /\
  (forall p, In p roots -> isman p = true -> In p (o_blobs s) -> In p (g_nodes g')).
Proof.
  intro H. destruct (load_exact content (o_sok isman s) fuel roots g' H) as [Hn _].
  split.
  - intros p Hp Hm. apply Hn in Hp. destruct Hp as (r & _ & _ & Hs).
    apply o_sok_true in Hs. destruct Hs as [Hs|Hs]; [congruence | exact Hs].
  - intros p Hr Hm Hb. apply Hn. exists p. split; auto. split; [apply pre_refl|].
    apply o_sok_true. auto.
Qed.

Lemma ostep_J fuel s o :
  J s -> J (fst (ostep true true content isman fuel s o)).
Proof.
  intros HJ. destruct HJ as [H1 H2 H3 H4 H5]. destruct o; cbn [ostep].
  - (* Push *)
    destruct (smem n (o_blobs s)) eqn:M; [constructor; auto|].
    destruct (isman n) eqn:Mn; constructor; simpl.
    + apply index_Inv, H1.
    + intros p Hm [<-|Hb]; apply In_sadd; auto.
    + intros p Hp Hm. apply In_sadd in Hp. destruct Hp as [->|Hp]; [left; reflexivity | right; apply H3; auto].
    + intros p [<-|Hb] Hm; apply In_sadd; [left; reflexivity | right; apply H4; auto].
    + intros p Hm [<-|Hb]; left; apply In_sadd; auto.
    + apply index_Inv, H1.
    + intros p Hm [<-|Hb]; [congruence | auto].
    + intros p Hp Hm. apply In_sadd in Hp. destruct Hp as [->|Hp]; [left; reflexivity | right; apply H3; auto].
    + intros p [<-|Hb] Hm; apply In_sadd; [left; reflexivity | right; apply H4; auto].
    + intros p Hm [<-|Hb]; [congruence | auto].
  - (* Tag *)
    destruct (smem n (o_blobs s)) eqn:M; [|constructor; auto].
    constructor; simpl; auto.
    + intros p Hm Hb. apply In_sadd. auto.
    + intros p Hm Hb. left. apply In_sadd. auto.
  - (* Untag *)
    constructor; simpl; auto.
  - (* Delete *)
    assert (Inv content (fst (remove (o_graph s) n))) as R1 by (apply remove_Inv, H1).
    assert (forall p, isman p = true -> In p (sdel n (o_blobs s)) -> In p (sdel n (o_bydigest s))) as R2.
    { intros p Hm Hb. apply In_sdel in Hb. destruct Hb as [Hne Hb]. apply In_sdel. auto. }
    assert (forall p, In p (g_nodes (fst (remove (o_graph s) n))) -> isman p = true -> In p (sdel n (o_blobs s))) as R3.
    { intros p Hp Hm. apply remove_ord_nodes in Hp. destruct Hp as [Hne Hp]. apply In_sdel. auto. }
    assert (forall p, In p (sdel n (o_blobs s)) -> isman p = true -> In p (g_nodes (fst (remove (o_graph s) n)))) as R4.
    { intros p Hb Hm. apply In_sdel in Hb. destruct Hb as [Hne Hb]. apply remove_ord_nodes. auto. }
    destruct (smem n (o_bydigest s) || smem n (o_tagged s)); constructor; simpl; auto.
    intros p Hm Hb. apply In_sdel in Hb. destruct Hb as [Hne Hb]. auto.
  - (* GC *)
    destruct (load content (o_sok isman s) fuel (o_tagged s ++ kept)) as [g' ok] eqn:E.
    destruct ok; [|constructor; auto].
    destruct (load_J_nodes s fuel _ g' E) as [Ha Hb].
    assert (forall p, isman p = true -> In p (filter (exists_node g') (o_blobs s)) ->
                      In p ((o_tagged s ++ kept) ++ filter (exists_node g') (o_bydigest s))) as R2.
    { intros p Hm Hp. apply filter_In in Hp. destruct Hp as [Hp Hx].
      apply in_app_iff. right. apply filter_In. auto. }
    constructor; simpl; auto.
    + pose proof (load_Inv content (o_sok isman s) fuel (o_tagged s ++ kept)) as HI.
      rewrite E in HI. exact HI.
    + intros p Hp Hm. apply filter_In. split; [apply Ha; auto | apply exists_node_In; auto].
    + intros p Hp Hm. apply filter_In in Hp. destruct Hp as [_ Hx]. apply exists_node_In, Hx.
  - (* Reopen *)
    destruct (load content (o_sok isman s) fuel (o_dtagged s ++ o_dbydigest s)) as [g' ok] eqn:E.
    destruct ok; [|constructor; auto].
    destruct (load_J_nodes s fuel _ g' E) as [Ha Hb].
    assert (forall p, isman p = true -> In p (o_blobs s) -> In p (o_dtagged s ++ o_dbydigest s)) as R2.
    { intros p Hm Hp. apply in_app_iff. destruct (H5 p Hm Hp); auto. }
    constructor; simpl; auto.
    pose proof (load_Inv content (o_sok isman s) fuel (o_dtagged s ++ o_dbydigest s)) as HI.
    rewrite E in HI. exact HI.
Qed.

Lemma orun_J fuel ops : forall s, J s -> J (fst (orun true true content isman fuel s ops)).
Proof.
  induction ops as [|o r IH]; intros s HJ; simpl; auto.
  pose proof (ostep_J fuel s o HJ) as H.
  destruct (ostep true true content isman fuel s o) as [s1 ok1]. simpl in H.
  specialize (IH s1 H). destruct (orun true true content isman fuel s1 r) as [s2 ok2]. exact IH.
Qed.

(* Predecessors = the stored manifests, indexes and artifact manifests referencing n *)
Lemma J_exact s : J s -> forall n,
  NoDup (predecessors (o_graph s) n) /\
  forall p, In p (predecessors (o_graph s) n) <-> In p (o_blobs s) /\ In n (content p).
Proof.
  intros [H1 H2 H3 H4 H5] n.
  destruct (predecessors_exact content (o_graph s) H1 n) as [Hd Hm]. split; auto.
  intro p. rewrite Hm. split; intros [Hp Hn]; split; auto.
  - apply H3; auto. apply content_isman. intro E. rewrite E in Hn. destruct Hn.
  - apply H4; auto. apply content_isman. intro E. rewrite E in Hn. destruct Hn.
Qed.

Lemma store_history_exact fuel ops n :
  let s := fst (orun true true content isman fuel empty_store ops) in
  NoDup (predecessors (o_graph s) n) /\
  forall p, In p (predecessors (o_graph s) n) <-> In p (o_blobs s) /\ In n (content p).
Proof. intro s. apply J_exact. apply orun_J, J_empty. Qed.

(* closing and opening the layout again changes no answer *)
Lemma store_reopen_same fuel ops s' :
  let s := fst (orun true true content isman fuel empty_store ops) in
  ostep true true content isman fuel s PReopen = (s', true) ->
  o_blobs s' = o_blobs s /\
  forall n, Permutation (predecessors (o_graph s') n) (predecessors (o_graph s) n).
Proof.
  intros s H.
  assert (J s) as HJ by (apply orun_J, J_empty).
  assert (J s') as HJ'.
  { pose proof (ostep_J fuel s PReopen HJ) as H1. rewrite H in H1. exact H1. }
  assert (o_blobs s' = o_blobs s) as Hb.
  { cbn [ostep] in H. destruct (load content (o_sok isman s) fuel (o_dtagged s ++ o_dbydigest s)) as [g' ok].
    destruct ok; inversion H; reflexivity. }
  split; auto. intro n.
  destruct (J_exact s HJ n) as [Hd Hm]. destruct (J_exact s' HJ' n) as [Hd' Hm'].
  apply NoDup_Permutation; auto. intro p. rewrite Hm, Hm', Hb. tauto.
Qed.
End Store.

(* ---- the code before the repair: a history after which a stored manifest is omitted ----
   0 blob; 2 = manifest{0}; 3 = index{2}.  push all, tag 3, GC (nothing kept), delete 3,
   reopen: 2 is on disk, references 0, and Predecessors(0) is empty. *)
Definition pf_ct : amap := [(2, [0]); (3, [2])]%N.
Definition pf_isman (x : node) : bool := N.leb 2 x.
Definition pf_ops : list oop := [PPush 0; PPush 2; PPush 3; PTag 3; PGC []; PDelete 3; PReopen]%N.
(* the chain needed when GC writes index.json too early: reopen BETWEEN GC and Delete *)
Definition pf_ops2 : list oop :=
  [PPush 0; PPush 2; PPush 3; PTag 3; PGC []; PReopen; PDelete 3; PReopen]%N.

Lemma pf_content_isman : forall q, ctab pf_ct q <> [] -> pf_isman q = true.
Proof.
  intros q Hq. unfold pf_isman. apply N.leb_le.
  destruct (N.le_gt_cases 2 q) as [H|H]; auto. exfalso. apply Hq.
  unfold ctab, getd, pf_ct. simpl.
  destruct (N.eqb_spec q 2); [lia|]. destruct (N.eqb_spec q 3); [lia|]. reflexivity.
Qed.

Lemma store_history_exact_prefix_refuted :
  exists content isman fuel ops n p,
    (forall q, content q <> [] -> isman q = true) /\
    let r := orun false true content isman fuel empty_store ops in
    snd r = true /\ In p (o_blobs (fst r)) /\ In n (content p) /\
    ~ In p (predecessors (o_graph (fst r)) n).
Proof.
  exists (ctab pf_ct), pf_isman, 50%nat, pf_ops, 0%N, 2%N.
  split; [exact pf_content_isman|].
  vm_compute. repeat split; auto.
Qed.

(* Store.GC writing index.json BEFORE the digest references are restored: the file names
   only the tagged roots; reopen, delete the root (AutoGC off), reopen: 2 is lost. *)
Lemma store_gc_save_early_refuted :
  exists content isman fuel ops n p,
    (forall q, content q <> [] -> isman q = true) /\
    let r := orun true false content isman fuel empty_store ops in
    snd r = true /\ In p (o_blobs (fst r)) /\ In n (content p) /\
    ~ In p (predecessors (o_graph (fst r)) n).
Proof.
  exists (ctab pf_ct), pf_isman, 50%nat, pf_ops2, 0%N, 2%N.
  split; [exact pf_content_isman|].
  vm_compute. repeat split; auto.
Qed.

(* ... and without the reopen in between the early save is masked (the live resolver is
   complete and Delete rewrites the file): why the chain GC -> reopen -> Delete -> reopen matters *)
Lemma store_gc_save_early_masked :
  let r := orun true false (ctab pf_ct) pf_isman 50 empty_store pf_ops in
  snd r = true /\ predecessors (o_graph (fst r)) 0%N = [2%N].
Proof. vm_compute. repeat split. Qed.

(* the same histories on the code as it is *)
Lemma store_history_fixed_example :
  let r := orun true true (ctab pf_ct) pf_isman 50 empty_store pf_ops in
  snd r = true /\ o_blobs (fst r) = [2; 0]%N /\ predecessors (o_graph (fst r)) 0%N = [2%N].
Proof. vm_compute. repeat split. Qed.
Lemma store_history_fixed_example2 :
  let r := orun true true (ctab pf_ct) pf_isman 50 empty_store pf_ops2 in
  snd r = true /\ o_blobs (fst r) = [2; 0]%N /\ predecessors (o_graph (fst r)) 0%N = [2%N].
Proof. vm_compute. repeat split. Qed.

(* ---- the same facts about Store.GC as translated on this run ---- *)
Lemma gc_save_after_restore_true : gc_save_after_restore = true.
Proof. vm_compute. reflexivity. Qed.

Lemma store_history_exact_src :
  forall (content : node -> list node) (isman : node -> bool),
    (forall p, content p <> [] -> isman p = true) ->
    forall fuel ops n,
      let s := fst (orun true gc_save_after_restore content isman fuel empty_store ops) in
      NoDup (predecessors (o_graph s) n) /\
      forall p, In p (predecessors (o_graph s) n) <-> In p (o_blobs s) /\ In n (content p).
Proof. rewrite gc_save_after_restore_true. exact store_history_exact. Qed.
