(* Proofs/GraphStore.v -- Predecessors at the level of the OCI store
   (Model/GraphStore.v): exact with respect to the blobs on disk after every history of
   Push / Tag / Delete / GC / reopen, for the repaired gcIndex; refuted for the code
   before the repair. *)
From Coq Require Import List NArith Bool Lia Permutation.
Import ListNotations.
From Oras Require Import Model.GraphMem Model.GraphStore Proofs.GraphMem.

Lemma list_max_In (f : node -> nat) (l : list node) x : In x l -> f x <= list_max (map f l).
Proof.
  induction l as [|a r IH]; simpl; [tauto|].
  intros [<-|H]; [lia | specialize (IH H); lia].
Qed.

Lemma forall_or_exists (P : node -> bool) (n : node) (l : list node) :
  (forall x, In x l -> P x = true -> x = n) \/ (exists x, In x l /\ P x = true /\ x <> n).
Proof.
  induction l as [|a r IH]; [left; intros x []|].
  destruct IH as [IH|(x & Hx & Hp & Hn)].
  - destruct (P a) eqn:Pa.
    + destruct (N.eq_dec a n) as [->|Hne].
      * left. intros x [<-|Hx] Hp; auto.
      * right. exists a. simpl. auto.
    + left. intros x [<-|Hx] Hp; [congruence | auto].
  - right. exists x. simpl. auto.
Qed.

Lemma pre_inv content sok r p :
  pre content sok r p -> p = r \/ exists q, pre content sok r q /\ sok q = true /\ In p (content q).
Proof. intros H. inversion H; subst; [left; reflexivity | right; eauto]. Qed.

Section Store.
Variable content : node -> list node.
Variable isman : node -> bool.
Variable rank : node -> nat.
(* only the five manifest media types have successors *)
Hypothesis content_isman : forall p, content p <> [] -> isman p = true.
(* content addressing: a node's successors were hashed before it *)
Hypothesis rank_dec : forall p c, In c (content p) -> rank c < rank p.

Definition parented (s : ostore) (p : node) : Prop :=
  exists q, In q (o_blobs s) /\ isman q = true /\ In p (content q).

Record J (s : ostore) : Prop := mkJ {
  j_inv : Inv content (o_graph s);
  (* every stored manifest has a by-digest entry in the resolver or a stored parent *)
  j_local : forall p, isman p = true -> In p (o_blobs s) -> In p (o_bydigest s) \/ parented s p;
  (* graph manifests = stored manifests *)
  j_graph_stored : forall p, In p (g_nodes (o_graph s)) -> isman p = true -> In p (o_blobs s);
  j_stored_graph : forall p, In p (o_blobs s) -> isman p = true -> In p (g_nodes (o_graph s));
  j_tagged : forall p, In p (o_tagged s) -> In p (o_bydigest s);
  (* the index.json last written names what the resolver names *)
  j_sync : forall p, In p (o_bydigest s) <-> In p (o_dbydigest s) \/ In p (o_dtagged s)
}.

Lemma J_empty : J empty_store.
Proof.
  constructor; simpl; try tauto. apply Inv_empty.
Qed.

Lemma exists_node_In g x : exists_node g x = true <-> In x (g_nodes g).
Proof. apply smem_In. Qed.

Lemma o_sok_true s p : o_sok isman s p = true <-> isman p = false \/ In p (o_blobs s).
Proof.
  unfold o_sok. rewrite orb_true_iff, negb_true_iff, smem_In. tauto.
Qed.

Lemma parented_mono s s' p :
  (forall q, In q (o_blobs s) -> In q (o_blobs s')) -> parented s p -> parented s' p.
Proof. intros H (q & Hq & Hm & Hc). exists q. auto. Qed.

Lemma in_content_isman p q : In p (content q) -> isman q = true.
Proof. intro H. apply content_isman. intro E. rewrite E in H. destruct H. Qed.

(* the graph after a load whose storage is the store's blobs *)
Lemma load_J_nodes s fuel roots g' :
  load content (o_sok isman s) fuel roots = (g', true) ->
  (forall p, In p (g_nodes g') -> isman p = true -> In p (o_blobs s)) /\
  (forall p, In p roots -> isman p = true -> In p (o_blobs s) -> In p (g_nodes g')).
Proof.
  intro H. destruct (load_exact content (o_sok isman s) fuel roots g' H) as [Hn _].
  split.
  - intros p Hp Hm. apply Hn in Hp. destruct Hp as (r & _ & _ & Hs).
    apply o_sok_true in Hs. destruct Hs as [Hs|Hs]; [congruence | exact Hs].
  - intros p Hr Hm Hb. apply Hn. exists p. split; auto. split; [apply pre_refl|].
    apply o_sok_true. auto.
Qed.

(* every stored manifest is reachable from the roots when each is a root or has a stored
   parent: walk up the parents, the rank grows and is bounded *)
Lemma rooted_reach s roots :
  (forall p, isman p = true -> In p (o_blobs s) -> In p roots \/ parented s p) ->
  forall p, isman p = true -> In p (o_blobs s) ->
    exists r, In r roots /\ areach content (o_sok isman s) r p.
Proof.
  intros Hloc.
  set (B := S (list_max (map rank (o_blobs s)))).
  assert (forall x, In x (o_blobs s) -> rank x < B) as HB.
  { intros x Hx. unfold B. pose proof (list_max_In rank (o_blobs s) x Hx). lia. }
  assert (forall k p, B - rank p <= k -> isman p = true -> In p (o_blobs s) ->
            exists r, In r roots /\ areach content (o_sok isman s) r p) as Hk.
  { induction k as [|k IH]; intros p Hle Hm Hp.
    - pose proof (HB p Hp). lia.
    - destruct (Hloc p Hm Hp) as [Hr|(q & Hq & Hmq & Hc)].
      + exists p. split; auto. split; [apply pre_refl | apply o_sok_true; auto].
      + pose proof (rank_dec q p Hc). pose proof (HB q Hq).
        destruct (IH q) as (r & Hr & Hpre & Hs); auto; [lia|].
        exists r. split; auto. split; [|apply o_sok_true; auto].
        eapply pre_step; eauto. }
  intros p Hm Hp. apply (Hk (B - rank p)); auto.
Qed.

Lemma save_sync (bd tg : list node) :
  (forall p, In p tg -> In p bd) -> forall p, In p bd <-> In p bd \/ In p tg.
Proof. intros H p. split; [auto | intros [H1|H1]; auto]. Qed.

(* a load from roots that cover the stored manifests re-establishes graph = storage *)
Lemma load_covers s fuel roots g' :
  load content (o_sok isman s) fuel roots = (g', true) ->
  (forall p, isman p = true -> In p (o_blobs s) -> In p roots \/ parented s p) ->
  Inv content g' /\
  (forall p, In p (g_nodes g') -> isman p = true -> In p (o_blobs s)) /\
  (forall p, In p (o_blobs s) -> isman p = true -> In p (g_nodes g')).
Proof.
  intros E Hloc.
  destruct (load_J_nodes s fuel roots g' E) as [Ha _].
  split; [|split; auto].
  - pose proof (load_Inv content (o_sok isman s) fuel roots) as HI. rewrite E in HI. exact HI.
  - intros p Hp Hm. destruct (rooted_reach s roots Hloc p Hm Hp) as (r & Hr & Hreach).
    apply (load_exact content (o_sok isman s) fuel roots g' E). exists r. auto.
Qed.

Lemma ostep_J fuel s o :
  J s -> J (fst (ostep true true true content isman fuel s o)).
Proof.
  intros HJ. destruct HJ as [H1 H2 H3 H4 H5 H6]. destruct o; cbn [ostep].
  - (* Push *)
    destruct (smem n (o_blobs s)) eqn:M; [constructor; auto|].
    destruct (isman n) eqn:Mn; constructor; simpl.
    + apply index_Inv, H1.
    + intros p Hm [<-|Hb]; [left; apply In_sadd; auto|].
      destruct (H2 p Hm Hb) as [H|H]; [left; apply In_sadd; auto | right].
      apply (parented_mono s); auto. simpl. auto.
    + intros p Hp Hm. apply In_sadd in Hp. destruct Hp as [->|Hp]; [left; reflexivity | right; apply H3; auto].
    + intros p [<-|Hb] Hm; apply In_sadd; [left; reflexivity | right; apply H4; auto].
    + intros p Hp. apply In_sadd. auto.
    + apply save_sync. intros p Hp. apply In_sadd. auto.
    + apply index_Inv, H1.
    + intros p Hm [<-|Hb]; [congruence|].
      destruct (H2 p Hm Hb) as [H|H]; [auto | right].
      apply (parented_mono s); auto. simpl. auto.
    + intros p Hp Hm. apply In_sadd in Hp. destruct Hp as [->|Hp]; [left; reflexivity | right; apply H3; auto].
    + intros p [<-|Hb] Hm; apply In_sadd; [left; reflexivity | right; apply H4; auto].
    + exact H5.
    + exact H6.
  - (* Tag *)
    destruct (smem n (o_blobs s)) eqn:M; [|constructor; auto].
    constructor; simpl.
    + exact H1.
    + intros p Hm Hb. destruct (H2 p Hm Hb) as [H|H]; [left; apply In_sadd; auto | right].
      apply (parented_mono s); auto.
    + exact H3.
    + exact H4.
    + intros p Hp. apply In_sadd in Hp. apply In_sadd. destruct Hp; auto.
    + apply save_sync. intros p Hp. apply In_sadd in Hp. apply In_sadd. destruct Hp; auto.
  - (* Untag *)
    constructor; simpl.
    + exact H1.
    + intros p Hm Hb. destruct (H2 p Hm Hb) as [H|H]; [auto | right].
      apply (parented_mono s); auto.
    + exact H3.
    + exact H4.
    + intros p Hp. apply In_sdel in Hp. apply H5, Hp.
    + apply save_sync. intros p Hp. apply In_sdel in Hp. apply H5, Hp.
  - (* Delete *)
    destruct (remove (o_graph s) n) as [g' dang] eqn:ER.
    assert (g' = fst (remove (o_graph s) n)) as Eg by (rewrite ER; reflexivity).
    assert (dang = snd (remove (o_graph s) n)) as Ed by (rewrite ER; reflexivity).
    assert (Inv content g') as R1 by (rewrite Eg; apply remove_Inv, H1).
    assert (forall x, In x (g_nodes g') <-> x <> n /\ In x (g_nodes (o_graph s))) as Rn.
    { intro x. rewrite Eg. apply remove_ord_nodes. }
    assert (forall d, In d dang <->
              (In n (g_nodes (o_graph s)) /\ In d (content n) /\ In d (g_nodes (o_graph s)) /\
               forall p, In p (g_nodes (o_graph s)) -> In d (content p) -> p = n)) as Rd.
    { intro d. rewrite Ed. unfold remove. apply remove_ord_danglings; auto. tauto. }
    remember (filter (fun d => isman d && negb (smem d (o_bydigest s))) dang) as rr eqn:Err.
    set (s' := mkO (sdel n (o_blobs s)) (rr ++ sdel n (o_bydigest s)) (sdel n (o_tagged s)) g'
                   (o_dbydigest s) (o_dtagged s)).
    assert (forall p, isman p = true -> In p (o_blobs s') -> In p (o_bydigest s') \/ parented s' p) as R2.
    { intros p Hm Hb. simpl in Hb. apply In_sdel in Hb. destruct Hb as [Hne Hb]. simpl.
      destruct (H2 p Hm Hb) as [H|(q & Hq & Hmq & Hc)].
      - left. apply in_app_iff. right. apply In_sdel. auto.
      - destruct (N.eq_dec q n) as [->|Hqn].
        + (* the deleted node was a parent: another parent, or p is dangling and re-rooted *)
          destruct (forall_or_exists (fun x => if in_dec N.eq_dec p (content x) then true else false)
                                     n (g_nodes (o_graph s))) as [Hall|(x & Hx & Hpx & Hxn)].
          * assert (In p dang) as Hd.
            { apply Rd. split; [apply H4; auto|]. split; auto. split; [apply H4; auto|].
              intros p' Hp' Hc'. apply Hall; auto.
              destruct (in_dec N.eq_dec p (content p')); auto; try contradiction. }
            left. apply in_app_iff.
            destruct (smem p (o_bydigest s)) eqn:Mb.
            -- right. apply In_sdel. split; auto. apply smem_In, Mb.
            -- left. rewrite Err. apply filter_In. split; auto. rewrite Hm, Mb. reflexivity.
          * right. exists x.
            destruct (in_dec N.eq_dec p (content x)) as [Hc'|]; [|discriminate].
            assert (isman x = true) as Hmx by (apply (in_content_isman p x Hc')).
            split; [apply In_sdel; split; auto|]. auto.
        + right. exists q. split; [apply In_sdel; auto|]. auto. }
    assert (forall p, In p (g_nodes g') -> isman p = true -> In p (sdel n (o_blobs s))) as R3.
    { intros p Hp Hm. apply Rn in Hp. destruct Hp as [Hne Hp]. apply In_sdel. auto. }
    assert (forall p, In p (sdel n (o_blobs s)) -> isman p = true -> In p (g_nodes g')) as R4.
    { intros p Hb Hm. apply In_sdel in Hb. destruct Hb as [Hne Hb]. apply Rn. auto. }
    assert (forall p, In p (sdel n (o_tagged s)) -> In p (rr ++ sdel n (o_bydigest s))) as R5.
    { intros p Hp. apply In_sdel in Hp. destruct Hp as [Hne Hp]. apply in_app_iff. right.
      apply In_sdel. auto. }
    destruct (smem n (o_bydigest s) || smem n (o_tagged s) ||
              negb (match rr with [] => true | _ => false end)) eqn:Cond.
    + constructor; simpl; [exact R1 | exact R2 | exact R3 | exact R4 | exact R5 | apply save_sync; exact R5].
    + constructor; simpl; [exact R1 | exact R2 | exact R3 | exact R4 | exact R5 |].
      apply orb_false_iff in Cond. destruct Cond as [Cond Crr].
      apply orb_false_iff in Cond. destruct Cond as [Cb Ct].
      apply smem_false in Cb. destruct rr; [|discriminate].
      intro p. simpl. rewrite In_sdel, <- H6. split; [tauto|].
      intro Hp. split; auto. intros ->. auto.
  - (* GC *)
    destruct (load content (o_sok isman s) fuel (o_tagged s ++ kept)) as [g' ok] eqn:E.
    destruct ok; [|constructor; auto].
    destruct (load_J_nodes s fuel _ g' E) as [Ha Hb].
    destruct (load_exact content (o_sok isman s) fuel _ g' E) as [Hn _].
    constructor; simpl.
    + pose proof (load_Inv content (o_sok isman s) fuel (o_tagged s ++ kept)) as HI.
      rewrite E in HI. exact HI.
    + intros p Hm Hp. apply filter_In in Hp. destruct Hp as [Hp Hx].
      apply exists_node_In in Hx. apply Hn in Hx. destruct Hx as (r & Hr & Hpre & Hs).
      destruct (pre_inv _ _ _ _ Hpre) as [->|(q & Hq & Hsq & Hc)].
      * left. apply in_app_iff. auto.
      * right. exists q.
        assert (isman q = true) as Hmq by (apply (in_content_isman p q Hc)).
        assert (In q (g_nodes g')) as Hqg by (apply Hn; exists r; split; auto; split; auto).
        split; [|auto]. apply filter_In. split; [apply Ha; auto | apply exists_node_In; auto].
    + intros p Hp Hm. apply filter_In. split; [apply Ha; auto | apply exists_node_In; auto].
    + intros p Hp Hm. apply filter_In in Hp. destruct Hp as [_ Hx]. apply exists_node_In, Hx.
    + intros p Hp. apply in_app_iff. left. apply in_app_iff. auto.
    + apply save_sync. intros p Hp. apply in_app_iff. left. apply in_app_iff. auto.
  - (* Reopen *)
    destruct (load content (o_sok isman s) fuel (o_dtagged s ++ o_dbydigest s)) as [g' ok] eqn:E.
    destruct ok; [|constructor; auto].
    assert (forall p, isman p = true -> In p (o_blobs s) ->
                      In p (o_dtagged s ++ o_dbydigest s) \/ parented s p) as Hloc.
    { intros p Hm Hp. destruct (H2 p Hm Hp) as [H|H]; auto.
      left. apply in_app_iff. apply H6 in H. tauto. }
    destruct (load_covers s fuel _ g' E Hloc) as (R1 & R3 & R4).
    constructor; simpl.
    + exact R1.
    + intros p Hm Hp. destruct (Hloc p Hm Hp) as [H|H]; [left; exact H | right; exact H].
    + exact R3.
    + exact R4.
    + intros p Hp. apply in_app_iff. auto.
    + intros p. rewrite in_app_iff. tauto.
  - (* Foreign *)
    match goal with |- context [forallb ?f ?l] => destruct (forallb f l) eqn:G end; [|constructor; auto].
    destruct (load content (o_sok isman s) fuel (o_tagged s ++ roots)) as [g' ok] eqn:E.
    destruct ok; [|constructor; auto].
    assert (forall p, isman p = true -> In p (o_blobs s) ->
                      In p (o_tagged s ++ roots) \/ parented s p) as Hloc.
    { intros p Hm Hp. rewrite forallb_forall in G. specialize (G p Hp).
      rewrite Hm in G. simpl in G.
      apply orb_true_iff in G. destruct G as [G|G].
      - apply orb_true_iff in G. destruct G as [G|G]; apply smem_In in G; left; apply in_app_iff; auto.
      - right. apply existsb_exists in G. destruct G as (q & Hq & Hc).
        apply andb_true_iff in Hc. destruct Hc as [Hmq Hc]. apply smem_In in Hc.
        exists q. auto. }
    destruct (load_covers s fuel _ g' E Hloc) as (R1 & R3 & R4).
    constructor; simpl.
    + exact R1.
    + intros p Hm Hp. destruct (Hloc p Hm Hp) as [H|H]; [left; exact H | right; exact H].
    + exact R3.
    + exact R4.
    + intros p Hp. apply in_app_iff. auto.
    + intros p. rewrite in_app_iff. tauto.
Qed.

Lemma orun_J fuel ops : forall s, J s -> J (fst (orun true true true content isman fuel s ops)).
Proof.
  induction ops as [|o r IH]; intros s HJ; simpl; auto.
  pose proof (ostep_J fuel s o HJ) as H.
  destruct (ostep true true true content isman fuel s o) as [s1 ok1]. simpl in H.
  specialize (IH s1 H). destruct (orun true true true content isman fuel s1 r) as [s2 ok2]. exact IH.
Qed.

(* Predecessors = the stored manifests, indexes and artifact manifests referencing n *)
Lemma J_exact s : J s -> forall n,
  NoDup (predecessors (o_graph s) n) /\
  forall p, In p (predecessors (o_graph s) n) <-> In p (o_blobs s) /\ In n (content p).
Proof.
  intros [H1 H2 H3 H4 H5 H6] n.
  destruct (predecessors_exact content (o_graph s) H1 n) as [Hd Hm]. split; auto.
  intro p. rewrite Hm. split; intros [Hp Hn]; split; auto.
  - apply H3; auto. apply (in_content_isman n p Hn).
  - apply H4; auto. apply (in_content_isman n p Hn).
Qed.

Lemma store_history_exact fuel ops n :
  let s := fst (orun true true true content isman fuel empty_store ops) in
  NoDup (predecessors (o_graph s) n) /\
  forall p, In p (predecessors (o_graph s) n) <-> In p (o_blobs s) /\ In n (content p).
Proof. intro s. apply J_exact. apply orun_J, J_empty. Qed.

(* closing and opening the layout again changes no answer *)
Lemma store_reopen_same fuel ops s' :
  let s := fst (orun true true true content isman fuel empty_store ops) in
  ostep true true true content isman fuel s PReopen = (s', true) ->
  o_blobs s' = o_blobs s /\
  forall n, Permutation (predecessors (o_graph s') n) (predecessors (o_graph s) n).
Proof.
  intros s H.
  assert (J s) as HJ by (apply orun_J, J_empty).
  assert (J s') as HJ'.
  { pose proof (ostep_J fuel s PReopen HJ) as H1. rewrite H in H1. exact H1. }
  assert (o_blobs s' = o_blobs s) as Hb.
  { cbn [ostep] in H. destruct (load content (o_sok isman s) fuel (o_dtagged s ++ o_dbydigest s)) as [g' ok].
    destruct ok; inversion H; reflexivity. }
  split; auto. intro n.
  destruct (J_exact s HJ n) as [Hd Hm]. destruct (J_exact s' HJ' n) as [Hd' Hm'].
  apply NoDup_Permutation; auto. intro p. rewrite Hm, Hm', Hb. tauto.
Qed.
End Store.

(* ---- the code before the repair: a history after which a stored manifest is omitted ----
   0 blob; 2 = manifest{0}; 3 = index{2}.  push all, tag 3, GC (nothing kept), delete 3,
   reopen: 2 is on disk, references 0, and Predecessors(0) is empty. *)
Definition pf_ct : amap := [(2, [0]); (3, [2])]%N.
Definition pf_isman (x : node) : bool := N.leb 2 x.
Definition pf_ops : list oop := [PPush 0; PPush 2; PPush 3; PTag 3; PGC []; PDelete 3; PReopen]%N.
(* the chain needed when GC writes index.json too early: reopen BETWEEN GC and Delete *)
Definition pf_ops2 : list oop :=
  [PPush 0; PPush 2; PPush 3; PTag 3; PGC []; PReopen; PDelete 3; PReopen]%N.

Lemma pf_content_isman : forall q, ctab pf_ct q <> [] -> pf_isman q = true.
Proof.
  intros q Hq. unfold pf_isman. apply N.leb_le.
  destruct (N.le_gt_cases 2 q) as [H|H]; auto. exfalso. apply Hq.
  unfold ctab, getd, pf_ct. simpl.
  destruct (N.eqb_spec q 2); [lia|]. destruct (N.eqb_spec q 3); [lia|]. reflexivity.
Qed.

Lemma store_history_exact_prefix_refuted :
  exists content isman fuel ops n p,
    (forall q, content q <> [] -> isman q = true) /\
    let r := orun false true false content isman fuel empty_store ops in
    snd r = true /\ In p (o_blobs (fst r)) /\ In n (content p) /\
    ~ In p (predecessors (o_graph (fst r)) n).
Proof.
  exists (ctab pf_ct), pf_isman, 50%nat, pf_ops, 0%N, 2%N.
  split; [exact pf_content_isman|].
  vm_compute. repeat split; auto.
Qed.

(* Store.GC writing index.json BEFORE the digest references are restored: the file names
   only the tagged roots; reopen, delete the root (AutoGC off), reopen: 2 is lost. *)
Lemma store_gc_save_early_refuted :
  exists content isman fuel ops n p,
    (forall q, content q <> [] -> isman q = true) /\
    let r := orun true false false content isman fuel empty_store ops in
    snd r = true /\ In p (o_blobs (fst r)) /\ In n (content p) /\
    ~ In p (predecessors (o_graph (fst r)) n).
Proof.
  exists (ctab pf_ct), pf_isman, 50%nat, pf_ops2, 0%N, 2%N.
  split; [exact pf_content_isman|].
  vm_compute. repeat split; auto.
Qed.

(* ... and without the reopen in between the early save is masked (the live resolver is
   complete and Delete rewrites the file): why the chain GC -> reopen -> Delete -> reopen matters *)
Lemma store_gc_save_early_masked :
  let r := orun true false false (ctab pf_ct) pf_isman 50 empty_store pf_ops in
  snd r = true /\ predecessors (o_graph (fst r)) 0%N = [2%N].
Proof. vm_compute. repeat split. Qed.

(* the same histories on the code as it is *)
Lemma store_history_fixed_example :
  let r := orun true true true (ctab pf_ct) pf_isman 50 empty_store pf_ops in
  snd r = true /\ o_blobs (fst r) = [2; 0]%N /\ predecessors (o_graph (fst r)) 0%N = [2%N].
Proof. vm_compute. repeat split. Qed.
Lemma store_history_fixed_example2 :
  let r := orun true true true (ctab pf_ct) pf_isman 50 empty_store pf_ops2 in
  snd r = true /\ o_blobs (fst r) = [2; 0]%N /\ predecessors (o_graph (fst r)) 0%N = [2%N].
Proof. vm_compute. repeat split. Qed.

(* ---- the same facts about Store.GC as translated on this run ---- *)
Lemma gc_save_after_restore_true : gc_save_after_restore = true.
Proof. vm_compute. reflexivity. Qed.

Lemma delete_reroots_true : delete_reroots = true.
Proof. vm_compute. reflexivity. Qed.

Lemma store_history_exact_src :
  forall (content : node -> list node) (isman : node -> bool) (rank : node -> nat),
    (forall p, content p <> [] -> isman p = true) ->
    (forall p c, In c (content p) -> rank c < rank p) ->
    forall fuel ops n,
      let s := fst (orun true gc_save_after_restore delete_reroots content isman fuel empty_store ops) in
      NoDup (predecessors (o_graph s) n) /\
      forall p, In p (predecessors (o_graph s) n) <-> In p (o_blobs s) /\ In n (content p).
Proof. rewrite gc_save_after_restore_true, delete_reroots_true. exact store_history_exact. Qed.

(* ---- a layout whose index.json lists only the top-level manifests (other tools; oras-go's
   own GC before 34cefcb), Delete without re-rooting the dangling manifest ([reroot = false]):
   push 0, 2 = manifest{0}, 3 = index{2}; tag 3; the index is rewritten to list 3 only and the
   layout reopened; delete 3; reopen: 2 is stored, references 0, Predecessors(0) is empty. *)
Definition pf_ops3 : list oop :=
  [PPush 0; PPush 2; PPush 3; PTag 3; PForeign []; PDelete 3; PReopen]%N.

Lemma store_foreign_noreroot_refuted :
  exists content isman fuel ops n p,
    (forall q, content q <> [] -> isman q = true) /\
    let r := orun true true false content isman fuel empty_store ops in
    snd r = true /\ In p (o_blobs (fst r)) /\ In n (content p) /\
    ~ In p (predecessors (o_graph (fst r)) n).
Proof.
  exists (ctab pf_ct), pf_isman, 50%nat, pf_ops3, 0%N, 2%N.
  split; [exact pf_content_isman|].
  vm_compute. repeat split; auto.
Qed.

Lemma store_foreign_fixed_example :
  let r := orun true true true (ctab pf_ct) pf_isman 50 empty_store pf_ops3 in
  snd r = true /\ o_blobs (fst r) = [2; 0]%N /\ predecessors (o_graph (fst r)) 0%N = [2%N].
Proof. vm_compute. repeat split. Qed.

(* the rank hypothesis is satisfiable for the example universe *)
Lemma pf_rank_dec : forall p c, In c (ctab pf_ct p) -> (N.to_nat c < N.to_nat p)%nat.
Proof.
  intros p c. unfold ctab, getd, pf_ct. simpl.
  destruct (N.eqb_spec p 2) as [->|]; [intros [<-|[]]; vm_compute; lia|].
  destruct (N.eqb_spec p 3) as [->|]; [intros [<-|[]]; vm_compute; lia|]. intros [].
Qed.

(* ---- file store ---- *)
Lemma frun_inv content ops : forall s,
  (Inv content (f_graph s) /\ forall x, In x (g_nodes (f_graph s)) <-> In x (f_blobs s)) ->
  let s' := fold_left (fstep true content) ops s in
  Inv content (f_graph s') /\ forall x, In x (g_nodes (f_graph s')) <-> In x (f_blobs s').
Proof.
  induction ops as [|o r IH]; intros s H; simpl; auto.
  apply IH. destruct H as [HI Hn]. destruct o as [n st rs]. simpl.
  destruct (smem n (f_blobs s) || negb st); [auto|]. simpl. split; [apply index_Inv, HI|].
  intro x. rewrite In_sadd, Hn. intuition auto.
Qed.

Lemma file_history_exact content ops n :
  let s := frun true content ops in
  NoDup (predecessors (f_graph s) n) /\
  forall p, In p (predecessors (f_graph s) n) <-> In p (f_blobs s) /\ In n (content p).
Proof.
  intro s.
  destruct (frun_inv content ops empty_fstore) as [HI Hn].
  { split; [apply Inv_empty | simpl; tauto]. }
  fold (frun true content ops) in HI, Hn. fold s in HI, Hn.
  destruct (predecessors_exact content (f_graph s) HI n) as [Hd Hm]. split; auto.
  intro p. rewrite Hm, Hn. tauto.
Qed.

Lemma file_index_first_true : file_index_first = true.
Proof. vm_compute. reflexivity. Qed.

Lemma file_history_exact_src content ops n :
  let s := frun file_index_first content ops in
  NoDup (predecessors (f_graph s) n) /\
  forall p, In p (predecessors (f_graph s) n) <-> In p (f_blobs s) /\ In n (content p).
Proof. rewrite file_index_first_true. apply file_history_exact. Qed.

(* restore before index: a manifest whose duplicate cannot be restored is stored, not indexed *)
Lemma file_restore_first_refuted :
  exists content ops n p,
    let s := frun false content ops in
    In p (f_blobs s) /\ In n (content p) /\ ~ In p (predecessors (f_graph s) n).
Proof.
  exists (ctab pf_ct), [FPush 0%N true true; FPush 2%N true false], 0%N, 2%N.
  vm_compute. repeat split; auto.
Qed.

(* ---- an operation that fails half-way is outside the theorems: witness ---- *)
Lemma store_delete_error_refuted :
  exists content isman ops n p,
    (forall q, content q <> [] -> isman q = true) /\
    let s := delete_unlink_fails content isman
               (fst (orun true true true content isman 50 empty_store ops)) p in
    In p (o_blobs s) /\ In n (content p) /\ ~ In p (predecessors (o_graph s) n).
Proof.
  exists (ctab pf_ct), pf_isman, [PPush 0%N; PPush 2%N], 0%N, 2%N.
  split; [exact pf_content_isman|].
  vm_compute. repeat split; auto.
Qed.

(* ---- fuel: every GC / reopen step completes (per step; audit F8) ---- *)
Lemma load_fuel_ok content sok U fuel roots :
  (forall u, In u U -> forall c, In c (content u) -> In c U) ->
  1 + pot content U [] < fuel -> (forall r, In r roots -> In r U) ->
  snd (load content sok fuel roots) = true.
Proof. intros Hc Hf Hr. unfold load. apply (load_from_fuel content sok U fuel Hc Hf roots empty_graph Hr). Qed.

Lemma store_step_terminates content isman U fuel fixed save_late reroot s o :
  (forall u, In u U -> forall c, In c (content u) -> In c U) ->
  1 + pot content U [] < fuel ->
  (forall x, In x (o_tagged s) \/ In x (o_dtagged s) \/ In x (o_dbydigest s) -> In x U) ->
  match o with PGC kept => forall x, In x kept -> In x U | PForeign _ => False | _ => True end ->
  snd (ostep fixed save_late reroot content isman fuel s o) = true.
Proof.
  intros Hc Hf He Ho. destruct o; cbn [ostep].
  - destruct (smem n (o_blobs s)); [reflexivity|]. destruct (isman n); reflexivity.
  - destruct (smem n (o_blobs s)); reflexivity.
  - reflexivity.
  - destruct (remove (o_graph s) n) as [g' dang].
    match goal with |- snd (if ?c then _ else _) = true => destruct c; reflexivity end.
  - assert (snd (load content (o_sok isman s) fuel (o_tagged s ++ kept)) = true) as H.
    { apply (load_fuel_ok content _ U); auto. intros r Hr. apply in_app_iff in Hr. destruct Hr; auto. }
    destruct (load content (o_sok isman s) fuel (o_tagged s ++ kept)) as [g' ok]. simpl in H. subst ok.
    destruct save_late; reflexivity.
  - assert (snd (load content (o_sok isman s) fuel (o_dtagged s ++ o_dbydigest s)) = true) as H.
    { apply (load_fuel_ok content _ U); auto. intros r Hr. apply in_app_iff in Hr. destruct Hr; auto. }
    destruct (load content (o_sok isman s) fuel (o_dtagged s ++ o_dbydigest s)) as [g' ok]. simpl in H. subst ok.
    reflexivity.
  - destruct Ho.
Qed.

(* ---- AutoSaveIndex = false and SaveIndex ---- *)
Section AutoSave.
Variable content : node -> list node.
Variable isman : node -> bool.
Variable rank : node -> nat.
Hypothesis content_isman : forall p, content p <> [] -> isman p = true.
Hypothesis rank_dec : forall p c, In c (content p) -> rank c < rank p.

(* the part of the state Predecessors, Exists and the resolver depend on *)
Definition core (s : ostore) := (o_blobs s, o_bydigest s, o_tagged s, o_graph s).
(* J without "index.json is up to date" *)
Definition Jc (s : ostore) : Prop := J content isman (osave s).

Lemma J_Jc s : J content isman s -> Jc s.
Proof.
  intros [H1 H2 H3 H4 H5 H6]. constructor; simpl; auto. apply save_sync. exact H5.
Qed.

Lemma Jc_core s s' : core s = core s' -> Jc s -> Jc s'.
Proof.
  unfold core, Jc, osave. intro E. inversion E as [[E1 E2 E3 E4]]. rewrite E1, E2, E3, E4. auto.
Qed.

Lemma Jc_synced_J s : Jc s -> synced_b s = true -> J content isman s.
Proof.
  intros [H1 H2 H3 H4 H5 H6] Hs. simpl in *. constructor; auto.
  unfold synced_b in Hs. apply andb_true_iff in Hs. destruct Hs as [Ha Hb].
  rewrite forallb_forall in Ha, Hb. intro p. split.
  - intro Hp. specialize (Ha p Hp). apply orb_true_iff in Ha.
    destruct Ha as [Ha|Ha]; apply smem_In in Ha; auto.
  - intro Hp. apply smem_In. apply Hb. apply in_app_iff. exact Hp.
Qed.

(* except for a reopen, a step does not read index.json *)
Lemma ostep_core_indep fuel s o :
  match o with PReopen => False | _ => True end ->
  core (fst (ostep true true true content isman fuel (osave s) o)) =
  core (fst (ostep true true true content isman fuel s o)) /\
  snd (ostep true true true content isman fuel (osave s) o) =
  snd (ostep true true true content isman fuel s o).
Proof.
  intro Ho. destruct o; cbn [ostep]; simpl o_blobs; simpl o_bydigest; simpl o_tagged; simpl o_graph.
  - destruct (smem n (o_blobs s)); [split; reflexivity|]. destruct (isman n); split; reflexivity.
  - destruct (smem n (o_blobs s)); split; reflexivity.
  - split; reflexivity.
  - destruct (remove (o_graph s) n) as [g' dang].
    match goal with |- context [if ?c then _ else _] => destruct c end; split; reflexivity.
  - unfold o_sok. simpl o_blobs.
    destruct (load content (fun x => negb (isman x) || smem x (o_blobs s)) fuel (o_tagged s ++ kept)) as [g' ok].
    destruct ok; split; reflexivity.
  - destruct Ho.
  - unfold o_sok. simpl o_blobs.
    match goal with |- context [forallb ?f ?l] => destruct (forallb f l) end; [|split; reflexivity].
    destruct (load content (fun x => negb (isman x) || smem x (o_blobs s)) fuel (o_tagged s ++ roots)) as [g' ok].
    destruct ok; split; reflexivity.
Qed.

Lemma ostep_Jc_nonreopen fuel s o :
  match o with PReopen => False | _ => True end ->
  Jc s -> Jc (fst (ostep true true true content isman fuel s o)).
Proof.
  intros Ho HJ. destruct (ostep_core_indep fuel s o Ho) as [Hc _].
  apply (Jc_core (fst (ostep true true true content isman fuel (osave s) o))); [exact Hc|].
  apply J_Jc, (ostep_J content isman rank content_isman rank_dec), HJ.
Qed.

Lemma astep_Jc fuel a o :
  Jc (a_s a) -> snd (astep content isman fuel a o) = true ->
  Jc (a_s (fst (astep content isman fuel a o))).
Proof.
  intros HJ Hok. destruct o as [op|v| |bad]; cbn [astep] in *.
  - destruct (ostep true true true content isman fuel (a_s a) op) as [s' ok] eqn:E.
    assert (s' = fst (ostep true true true content isman fuel (a_s a) op)) as Es by (rewrite E; reflexivity).
    assert (match op with PReopen => False | _ => True end -> Jc s') as Hnr.
    { intro Ho. rewrite Es. apply ostep_Jc_nonreopen; auto. }
    destruct op; cbn [fst snd a_s] in *;
      try (specialize (Hnr I); destruct (a_auto a); [exact Hnr | apply (Jc_core s'); [reflexivity | exact Hnr]]).
    + (* Reopen of a saved index *)
      apply andb_true_iff in Hok. destruct Hok as [_ Hs].
      rewrite Es. apply J_Jc, (ostep_J content isman rank content_isman rank_dec).
      apply Jc_synced_J; auto.
  - exact HJ.
  - cbn [fst a_s]. apply (Jc_core (a_s a)); [reflexivity | exact HJ].
  - exact HJ.
Qed.

Lemma arun_Jc fuel ops : forall a,
  Jc (a_s a) -> snd (arun content isman fuel a ops) = true ->
  Jc (a_s (fst (arun content isman fuel a ops))).
Proof.
  induction ops as [|o r IH]; intros a HJ Hok; simpl in *; auto.
  destruct (astep content isman fuel a o) as [a1 ok1] eqn:E1.
  destruct (arun content isman fuel a1 r) as [a2 ok2] eqn:E2.
  simpl in *. apply andb_true_iff in Hok. destruct Hok as [-> ->].
  assert (Jc (a_s a1)) as H1.
  { pose proof (astep_Jc fuel a o HJ) as H. rewrite E1 in H. apply H. reflexivity. }
  specialize (IH a1 H1). rewrite E2 in IH. apply IH. reflexivity.
Qed.

Lemma autosave_history_exact fuel ops n :
  let r := arun content isman fuel empty_astore ops in
  snd r = true ->
  NoDup (predecessors (o_graph (a_s (fst r))) n) /\
  forall p, In p (predecessors (o_graph (a_s (fst r))) n) <->
            In p (o_blobs (a_s (fst r))) /\ In n (content p).
Proof.
  intros r Hok.
  assert (Jc (a_s (fst r))) as HJ.
  { apply arun_Jc; auto. apply J_Jc. apply J_empty. }
  apply (J_exact content isman content_isman (osave (a_s (fst r))) HJ n).
Qed.
End AutoSave.

(* reopening an index that was not saved loses what was pushed since (documented: the caller
   must call SaveIndex) -- why the theorem needs [snd r = true] *)
Lemma autosave_unsaved_reopen_refuted :
  exists content isman fuel ops n p,
    (forall q, content q <> [] -> isman q = true) /\
    let r := arun content isman fuel empty_astore ops in
    snd r = false /\ In p (o_blobs (a_s (fst r))) /\ In n (content p) /\
    ~ In p (predecessors (o_graph (a_s (fst r))) n).
Proof.
  exists (ctab pf_ct), pf_isman, 50, [ASetAuto false; AOp (PPush 0%N); AOp (PPush 2%N); AOp PReopen], 0%N, 2%N.
  split; [exact pf_content_isman|].
  vm_compute. repeat split; auto.
Qed.

Lemma autosave_saved_reopen_example :
  let r := arun (ctab pf_ct) pf_isman 50 empty_astore
             [ASetAuto false; AOp (PPush 0%N); AOp (PPush 2%N); ASaveIndex; AOp PReopen] in
  snd r = true /\ predecessors (o_graph (a_s (fst r))) 0%N = [2%N].
Proof. vm_compute. repeat split. Qed.

(* ---- fuel: whole histories complete (not only single steps) ---- *)
Section HistoryFuel.
Variable content : node -> list node.
Variable isman : node -> bool.
Variable U : list node.
Hypothesis closed : forall u, In u U -> forall c, In c (content u) -> In c U.

Definition ents (s : ostore) : Prop :=
  forall x, In x (o_tagged s) \/ In x (o_bydigest s) \/ In x (o_dtagged s) \/ In x (o_dbydigest s) \/
            In x (g_nodes (o_graph s)) -> In x U.
Definition op_in (o : oop) : Prop :=
  match o with
  | PPush n | PTag n | PUntag n | PDelete n => In n U
  | PGC kept => forall x, In x kept -> In x U
  | PReopen => True
  | PForeign _ => False
  end.

Lemma pre_in_U sok r x : In r U -> pre content sok r x -> In x U.
Proof. intros Hr H. induction H; auto. eapply closed; eauto. Qed.

Lemma remove_dang_nodes g n d : In d (snd (remove g n)) -> In d (g_nodes g).
Proof.
  unfold remove, remove_ord.
  destruct (fold_left (rm_step (g_nodes g) n) (getd (g_succs g) n) (g_preds g, [])) as [pm dang] eqn:E.
  simpl. intro H.
  assert (In d (snd (fold_left (rm_step (g_nodes g) n) (getd (g_succs g) n) (g_preds g, [])))) as H'
    by (rewrite E; exact H).
  apply rm_fold_dang in H'. destruct H' as [[]|(_ & _ & Hn)]. exact Hn.
Qed.

Lemma load_nodes_in_U sok fuel roots g' :
  (forall r, In r roots -> In r U) -> load content sok fuel roots = (g', true) ->
  forall x, In x (g_nodes g') -> In x U.
Proof.
  intros Hr HL x Hx. destruct (load_exact content sok fuel roots g' HL) as [Hn _].
  apply Hn in Hx. destruct Hx as (r & Hin & Hpre & _). apply (pre_in_U sok r x); auto.
Qed.

Lemma ostep_term fuel s o :
  1 + pot content U [] < fuel -> ents s -> op_in o ->
  snd (ostep true true true content isman fuel s o) = true /\
  ents (fst (ostep true true true content isman fuel s o)).
Proof.
  intros Hf He Ho. unfold ents in *.
  assert (forall x, In x (o_tagged s) -> In x U) as E1 by (intros; apply He; auto).
  assert (forall x, In x (o_bydigest s) -> In x U) as E2 by (intros; apply He; auto).
  assert (forall x, In x (o_dtagged s) -> In x U) as E3 by (intros; apply He; auto).
  assert (forall x, In x (o_dbydigest s) -> In x U) as E4 by (intros; apply He; auto 6).
  assert (forall x, In x (g_nodes (o_graph s)) -> In x U) as E5 by (intros; apply He; auto 6).
  destruct o; cbn [ostep]; simpl in Ho.
  - destruct (smem n (o_blobs s)); [split; auto|].
    destruct (isman n); simpl; (split; [reflexivity|]); intros x Hx;
      repeat rewrite In_sadd in Hx; intuition (subst; auto).
  - destruct (smem n (o_blobs s)); simpl; (split; [reflexivity|]); auto.
    intros x Hx. repeat rewrite In_sadd in Hx. intuition (subst; auto).
  - simpl. split; [reflexivity|]. intros x Hx. repeat rewrite In_sdel in Hx. intuition auto.
  - destruct (remove (o_graph s) n) as [g' dang] eqn:ER.
    assert (forall d, In d dang -> In d U) as Hd.
    { intros d Hdd. apply He. right. right. right. right.
      apply (remove_dang_nodes (o_graph s) n). rewrite ER. exact Hdd. }
    assert (forall x, In x (g_nodes g') -> In x U) as Hg.
    { intros x Hx. apply He. right. right. right. right.
      assert (g' = fst (remove (o_graph s) n)) as -> by (rewrite ER; reflexivity).
      apply remove_ord_nodes in Hx. tauto. }
    match goal with |- context [if ?c then _ else _] => destruct c end; simpl;
      (split; [reflexivity|]); intros x Hx;
      repeat rewrite in_app_iff in Hx; repeat rewrite filter_In in Hx; repeat rewrite In_sdel in Hx;
      intuition auto.
  - assert (forall r, In r (o_tagged s ++ kept) -> In r U) as Hr.
    { intros r Hr. apply in_app_iff in Hr. destruct Hr; auto. }
    pose proof (load_fuel_ok content (o_sok isman s) U fuel _ closed Hf Hr) as Hok.
    destruct (load content (o_sok isman s) fuel (o_tagged s ++ kept)) as [g' ok] eqn:E.
    simpl in Hok. subst ok. simpl. split; [reflexivity|].
    pose proof (load_nodes_in_U (o_sok isman s) fuel _ g' Hr E) as Hg.
    intros x Hx. repeat rewrite in_app_iff in Hx. repeat rewrite filter_In in Hx. intuition auto.
  - assert (forall r, In r (o_dtagged s ++ o_dbydigest s) -> In r U) as Hr.
    { intros r Hr. apply in_app_iff in Hr. destruct Hr; auto. }
    pose proof (load_fuel_ok content (o_sok isman s) U fuel _ closed Hf Hr) as Hok.
    destruct (load content (o_sok isman s) fuel (o_dtagged s ++ o_dbydigest s)) as [g' ok] eqn:E.
    simpl in Hok. subst ok. simpl. split; [reflexivity|].
    pose proof (load_nodes_in_U (o_sok isman s) fuel _ g' Hr E) as Hg.
    intros x Hx. repeat rewrite in_app_iff in Hx. intuition auto.
  - destruct Ho.
Qed.

Lemma orun_term fuel ops : forall s,
  1 + pot content U [] < fuel -> ents s -> Forall op_in ops ->
  snd (orun true true true content isman fuel s ops) = true.
Proof.
  induction ops as [|o r IH]; intros s Hf He Ho; simpl; auto.
  inversion Ho; subst.
  destruct (ostep_term fuel s o Hf He H1) as [Hok He'].
  destruct (ostep true true true content isman fuel s o) as [s1 ok1]. simpl in *. subst ok1.
  specialize (IH s1 Hf He' H2).
  destruct (orun true true true content isman fuel s1 r) as [s2 ok2]. simpl in *. subst. reflexivity.
Qed.

Lemma store_history_terminates fuel ops :
  1 + pot content U [] < fuel -> Forall op_in ops ->
  snd (orun true true true content isman fuel empty_store ops) = true.
Proof. intros Hf Ho. apply orun_term; auto. intros x Hx. simpl in Hx. tauto. Qed.
End HistoryFuel.

(* ---- refinement of the abstract specification, and the name layer ---- *)
Section Spec.
Variable content : node -> list node.
Variable isman : node -> bool.
Variable rank : node -> nat.
Hypothesis content_isman : forall p, content p <> [] -> isman p = true.
Hypothesis rank_dec : forall p c, In c (content p) -> rank c < rank p.

Lemma spec_preds_perm (g : graph) (blobs : list node) n :
  NoDup (predecessors g n) ->
  (forall p, In p (predecessors g n) <-> In p blobs /\ In n (content p)) ->
  Permutation (predecessors g n) (spec_preds content blobs n).
Proof.
  intros Hd Hm. apply NoDup_Permutation; auto.
  - unfold spec_preds. apply NoDup_filter, NoDup_nodup.
  - intro p. rewrite Hm. unfold spec_preds. rewrite filter_In, nodup_In, smem_In. tauto.
Qed.

Lemma autosave_refines_spec fuel ops n :
  let r := arun content isman fuel empty_astore ops in
  snd r = true ->
  Permutation (predecessors (o_graph (a_s (fst r))) n)
              (spec_preds content (o_blobs (a_s (fst r))) n).
Proof.
  intros r Hok.
  destruct (autosave_history_exact content isman rank content_isman rank_dec fuel ops n Hok) as [Hd Hm].
  apply spec_preds_perm; auto.
Qed.

Lemma names_refines_spec fuel ops n :
  let r := nrun content isman fuel ops in
  snd r = true ->
  Permutation (predecessors (o_graph (a_s (fst r))) n)
              (spec_preds content (o_blobs (a_s (fst r))) n).
Proof. intros r Hok. apply autosave_refines_spec. exact Hok. Qed.
End Spec.

(* a name moving from one manifest to another: the first one is no longer a GC root *)
Lemma names_example :
  let r := nrun (ctab pf_ct) pf_isman 50
             [NOp (AOp (PPush 0%N)); NOp (AOp (PPush 2%N)); NOp (AOp (PPush 3%N));
              NTag 2%N 7%N; NTag 3%N 7%N; NOp (AOp (PGC []))] in
  snd r = true /\ o_tagged (a_s (fst r)) = [3%N] /\ predecessors (o_graph (a_s (fst r))) 0%N = [2%N].
Proof. vm_compute. repeat split. Qed.

(* a Push of an undecodable manifest in the middle of a history leaves no trace *)
Lemma bad_push_example :
  let ops1 := [AOp (PPush 0%N); AOp (PPush 2%N); ABadPush 9%N; AOp (PPush 3%N); AOp PReopen] in
  let ops2 := [AOp (PPush 0%N); AOp (PPush 2%N); AOp (PPush 3%N); AOp PReopen] in
  arun (ctab pf_ct) pf_isman 50 empty_astore ops1 = arun (ctab pf_ct) pf_isman 50 empty_astore ops2.
Proof. vm_compute. reflexivity. Qed.
