(* The fuel of Model/OciIndex.v is sufficient: on a universe whose successor and subject links
   point to smaller node ids (content addressing: a descriptor can only name content that
   existed before; the harness builds its DAGs bottom-up) and whose node ids stay below N, the
   fuelled functions do not depend on their fuel and Delete's queue loop never runs out of it.
   (Audit F7: "hidden totalisation by fuel".) *)
From Coq Require Import List Arith Bool PeanoNat Lia.
From Oras Require Import Model.OciIndex Proofs.OciIndex.
Import ListNotations.

Section Fuel.
  Variable N : nat.
  Variable mf : nat -> bool.
  Variable succs : nat -> list nat.
  Variable subj : nat -> option nat.
  Variable sk bad : nat -> bool.
  Hypothesis succs_down : forall k c, In c (succs k) -> c < k.
  Hypothesis subj_down : forall k c, subj k = Some c -> c < k.

  Lemma fold_left_ext_in {A B} (f g : A -> B -> A) l : forall a,
    (forall a b, In b l -> f a b = g a b) -> fold_left f l a = fold_left g l a.
  Proof.
    induction l as [|b l IH]; intros a H; simpl; auto.
    rewrite H by (now left). apply IH. intros a' b' I. apply H. now right.
  Qed.

  (* IndexAll: any fuel above the root gives the same traversal *)
  Lemma visit_fuel p f1 : forall f2 n g, n < f1 -> n < f2 -> visit mf succs f1 p n g = visit mf succs f2 p n g.
  Proof.
    induction f1 as [|f1 IH]; intros f2 n g H1 H2; [lia|].
    destruct f2 as [|f2]; [lia|]. simpl.
    destruct (mem n g); auto. destruct (mf n); auto. destruct (p n); auto.
    apply fold_left_ext_in. intros a c Ic. pose proof (succs_down n c Ic). apply IH; lia.
  Qed.

  Theorem index_all_fuel_sufficient bl root g fuel :
    root < N -> N < fuel -> index_all N mf succs bl root g = visit mf succs fuel (fun k => mem k bl) root g.
  Proof. intros H1 H2. unfold index_all. apply visit_fuel; lia. Qed.

  (* the subject-chain walk of the GC referrer pass *)
  Lemma chain_fuel bl g f1 : forall f2 cur, cur < f1 -> cur < f2 ->
    chain_hits mf subj sk f1 bl g cur = chain_hits mf subj sk f2 bl g cur.
  Proof.
    induction f1 as [|f1 IH]; intros f2 cur H1 H2; [lia|].
    destruct f2 as [|f2]; [lia|]. simpl.
    destruct (sk cur && negb (mem cur bl)); auto.
    destruct (subj cur) as [sb|] eqn:E; auto.
    destruct (mf sb && mem sb g); auto.
    pose proof (subj_down cur sb E). apply IH; lia.
  Qed.

  Theorem chain_hits_fuel_sufficient bl g cur fuel :
    cur < N -> N < fuel -> chain_hits mf subj sk (S N) bl g cur = chain_hits mf subj sk fuel bl g cur.
  Proof. intros H1 H2. apply chain_fuel; lia. Qed.

  (* Delete: every turn of the queue loop removes one blob file (or ends the loop) *)
  Lemma filter_len {A} (f : A -> bool) l : length (filter f l) <= length l.
  Proof. induction l as [|x l IH]; simpl; auto. destruct (f x); simpl; lia. Qed.

  Lemma length_del k l : In k l -> length (del k l) < length l.
  Proof.
    induction l as [|x l IH]; simpl; [tauto|]. unfold del in *. simpl.
    destruct (Nat.eqb k x) eqn:E; simpl.
    - intros _. pose proof (filter_len (fun x0 => negb (Nat.eqb k x0)) l). lia.
    - intros [X|X]; [subst; rewrite Nat.eqb_refl in E; discriminate|]. specialize (IH X). lia.
  Qed.

  Lemma delete1_blobs cfg o k s :
    snd (delete1 mf succs cfg o k s) = true ->
    blobs (fst (fst (delete1 mf succs cfg o k s))) = del k (blobs s) /\ In k (blobs s).
  Proof.
    unfold delete1. destruct (mem k (blobs s)) eqn:M; simpl; [|discriminate].
    intros _. split; auto. now apply mem_In.
  Qed.

  Lemma delete_loop_fuel fixHold cfg o fuel : forall ds qq pd s,
    length (blobs s) < fuel ->
    snd (delete_loop N mf succs subj fixHold fuel cfg o ds qq pd s) <> ROutOfFuel.
  Proof.
    induction fuel as [|f IH]; intros ds qq pd s H; [lia|]. simpl.
    destruct (fst qq) as [|h q]; [discriminate|].
    pose proof (delete1_blobs cfg o h s) as B.
    destruct (delete1 mf succs cfg o h s) as [[s' dang] okb]. simpl in B.
    destruct okb; [|discriminate].
    destruct (B eq_refl) as [E I]. apply IH. rewrite E. pose proof (length_del h (blobs s) I). lia.
  Qed.

  (* blob files of a store driven by operations on nodes below N: no duplicates, all below N *)
  Definition blobs_ok (s : store) : Prop := NoDup (blobs s) /\ forall k, In k (blobs s) -> k < N.
  Definition op_below (o : op) : Prop :=
    match o with
    | OPush k | OInject k => k < N
    | OPushX d => d_node d < N
    | _ => True
    end.

  Lemma nodup_filter {A} (f : A -> bool) l : NoDup l -> NoDup (filter f l).
  Proof.
    induction l as [|x l IH]; simpl; intro H; [constructor|]. inversion H as [|? ? Hn Hl]; subst.
    destruct (f x); auto. constructor; auto. intro I. apply filter_In in I as [I _]. contradiction.
  Qed.

  Lemma blobs_ok_length s : blobs_ok s -> length (blobs s) <= N.
  Proof.
    intros [ND B]. rewrite <- (seq_length N 0). apply NoDup_incl_length; auto.
    intros k I. apply in_seq. specialize (B k I). lia.
  Qed.

  Lemma delete_loop_blobs_ok fixHold cfg o fuel : forall ds qq pd s,
    blobs_ok s -> blobs_ok (fst (delete_loop N mf succs subj fixHold fuel cfg o ds qq pd s)).
  Proof.
    induction fuel as [|f IH]; intros ds qq pd s H; simpl; auto.
    destruct (fst qq) as [|h q]; auto.
    assert (B : blobs_ok (fst (fst (delete1 mf succs cfg o h s)))).
    { unfold delete1. destruct H as [ND Bd].
      destruct (mem h (blobs s)); simpl.
      - split; [now apply nodup_filter|]. intros k I. apply In_del in I as [_ I]. auto.
      - destruct (negb _ || _); simpl; [unfold maybe_save, do_save; destruct (autosave cfg)|]; simpl; split; auto. }
    destruct (delete1 mf succs cfg o h s) as [[s' dang] okb]. simpl in B.
    destruct okb; simpl; auto.
  Qed.

  Lemma step_blobs_ok fF2 fA fF1 fH fR cfg s oo :
    blobs_ok s -> op_below (fst oo) ->
    blobs_ok (fst (step N mf succs subj sk bad fF2 fA fF1 fH fR cfg s oo)).
  Proof.
    intros H W. destruct oo as [o ord]. simpl in W. unfold step. cbn [fst snd]. destruct o; simpl in W.
    - unfold st_push, st_push_desc. simpl. destruct (mem k (blobs s)) eqn:M; simpl; [exact H|]. destruct (bad k); simpl; [exact H|].
      apply mem_false in M. assert (X : blobs_ok (mkStore (k :: blobs s) (res s) (add k (gr s)) (disk s))).
      { destruct H as [ND B]. split; simpl; [constructor; auto|]. intros x [<-|I]; auto. }
      destruct (mf k); simpl; auto. unfold st_tag, maybe_save, do_save. destruct (autosave cfg); simpl; exact X.
    - unfold st_push_desc. destruct (mem (d_node d) (blobs s)) eqn:M; simpl; [exact H|]. destruct (bad (d_node d)); simpl; [exact H|].
      apply mem_false in M.
      assert (X : blobs_ok (mkStore (d_node d :: blobs s) (res s) (add (d_node d) (gr s)) (disk s))).
      { destruct H as [ND B]. split; simpl; [constructor; auto|]. intros x [<-|I]; auto. }
      destruct (mf (d_node d)); simpl; auto. unfold st_tag, maybe_save, do_save. destruct (autosave cfg); simpl; exact X.
    - unfold st_tagop. destruct (fR && _); simpl; [exact H|]. destruct (mem (d_node d) (blobs s)); simpl; [|exact H].
      simpl. unfold st_tag, maybe_save, do_save. destruct (mf (d_node d)); destruct (autosave cfg); simpl; exact H.
    - unfold st_untag. destruct (lookup r (r_index (res s))) as [d|]; simpl; [|exact H]. destruct (is_digest_ref r d); simpl; [exact H|].
      simpl. unfold maybe_save, do_save. destruct (autosave cfg); simpl; exact H.
    - unfold st_delete. now apply delete_loop_blobs_ok.
    - unfold st_gc. destruct (gc_pass2 _ _ _ _ _ _ _ _ _ _) as [[a2 [|]]|]; simpl; try exact H.
      destruct H as [ND B]. destruct fF2; unfold maybe_save, do_save; try destruct (autosave cfg); simpl;
        (split; [now apply nodup_filter | intros x I; apply filter_In in I as [I _]; auto]).
    - exact H.
    - exact H.
    - exact H.
    - destruct (mem k (blobs s)) eqn:M; simpl; [exact H|]. apply mem_false in M. destruct H as [ND B].
      split; simpl; [constructor; auto|]. intros x [<-|I]; auto.
  Qed.

  Lemma run_blobs_ok fF2 fA fF1 fH fR h : forall cfg s,
    blobs_ok s -> Forall (fun oo => op_below (fst oo)) h ->
    blobs_ok (run N mf succs subj sk bad fF2 fA fF1 fH fR cfg h s).
  Proof.
    induction h as [|oo h IH]; intros cfg s H W; simpl; auto.
    inversion W as [|? ? W1 W2]; subst. apply IH; auto. now apply step_blobs_ok.
  Qed.

  (* after any history on nodes below N, Delete never runs out of fuel *)
  Theorem delete_fuel_sufficient fF2 fA fF1 fH fR cfg h o k :
    Forall (fun oo => op_below (fst oo)) h ->
    let s := run N mf succs subj sk bad fF2 fA fF1 fH fR cfg h store_empty in
    snd (st_delete N mf succs subj fH cfg o k s) <> ROutOfFuel.
  Proof.
    intros W s. unfold st_delete. apply delete_loop_fuel.
    assert (B : blobs_ok s).
    { apply run_blobs_ok; auto. split; [constructor|intros ? []]. }
    pose proof (blobs_ok_length s B). lia.
  Qed.
End Fuel.

(* ---------- the rounds of GC's referrer pass ---------- *)
Section GcFuel.
  Variable N : nat.
  Variable mf : nat -> bool.
  Variable succs : nat -> list nat.
  Variable subj : nat -> option nat.
  Variable sk : nat -> bool.

  (* the entries a round of the referrer pass may still keep *)
  Definition cand (tg : list nat) (kv : ref * desc) : bool :=
    is_digest_ref (fst kv) (snd kv) && negb (mem (d_node (snd kv)) tg).
  Definition mu (m : rmap) (tg : list nat) : nat := length (filter (cand tg) m).

  Lemma filter_len_le {A} (p q : A -> bool) l :
    (forall x, In x l -> q x = true -> p x = true) -> length (filter q l) <= length (filter p l).
  Proof.
    induction l as [|x l IH]; simpl; intro H; auto.
    assert (IH' : length (filter q l) <= length (filter p l)) by (apply IH; intros y I; apply H; now right).
    destruct (q x) eqn:Q.
    - rewrite (H x (or_introl eq_refl) Q). simpl. lia.
    - destruct (p x); simpl; lia.
  Qed.
  Lemma filter_len_lt {A} (p q : A -> bool) l x :
    (forall y, In y l -> q y = true -> p y = true) -> In x l -> p x = true -> q x = false ->
    length (filter q l) < length (filter p l).
  Proof.
    induction l as [|y l IH]; simpl; intros H I P Q; [tauto|].
    assert (Hl : forall z, In z l -> q z = true -> p z = true) by (intros z Iz; apply H; now right).
    destruct I as [->|I].
    - rewrite P, Q. simpl. pose proof (filter_len_le p q l Hl). lia.
    - specialize (IH Hl I P Q). destruct (q y) eqn:Qy.
      + rewrite (H y (or_introl eq_refl) Qy). simpl. lia.
      + destruct (p y); simpl; lia.
  Qed.

  Lemma mu_mono m tg tg' : (forall x, In x tg -> In x tg') -> mu m tg' <= mu m tg.
  Proof.
    intro H. unfold mu. apply filter_len_le. intros kv _ C. unfold cand in *.
    apply andb_true_iff in C as [C1 C2]. rewrite C1. simpl. apply negb_true_iff in C2. apply negb_true_iff.
    apply mem_false. apply mem_false in C2. auto.
  Qed.
  Lemma mu_strict m tg kv : In kv m -> cand tg kv = true -> mu m (d_node (snd kv) :: tg) < mu m tg.
  Proof.
    intros I C. unfold mu. apply (filter_len_lt _ _ m kv); auto.
    - intros y _ Cy. unfold cand in *. apply andb_true_iff in Cy as [C1 C2]. rewrite C1. simpl.
      apply negb_true_iff in C2. apply negb_true_iff. apply mem_false. apply mem_false in C2.
      intro X. apply C2. now right.
    - unfold cand in *. apply andb_true_iff in C as [C1 _]. rewrite C1. cbn [andb].
      apply negb_false_iff. apply mem_In. now left.
  Qed.

  Notation round_step bl := (fun (ac : gcacc * bool) (kv : ref * desc) =>
      let a := fst ac in let r := fst kv in let d := snd kv in
      if negb (is_digest_ref r d) || mem (d_node d) (g_tagged a) then ac
      else if chain_hits mf subj sk (S N) bl (g_gr a) (d_node d)
           then (mkGc (res_tag (strip d) (RDig (d_node d)) (g_res a))
                      (index_all N mf succs bl (d_node d) (g_gr a)) (d_node d :: g_tagged a), true)
           else ac).

  Lemma round_progress bl m l : forall a b, (forall kv, In kv l -> In kv m) ->
    let r := fold_left (round_step bl) l (a, b) in
    mu m (g_tagged (fst r)) <= mu m (g_tagged a) /\
    (snd r = true -> b = true \/ mu m (g_tagged (fst r)) < mu m (g_tagged a)).
  Proof.
    induction l as [|kv l IH]; intros a b Hl; cbn [fold_left]; [cbn [fst snd]; split; auto|].
    assert (Hl' : forall x, In x l -> In x m) by (intros x I; apply Hl; now right).
    destruct kv as [r d]. cbn [fst snd].
    destruct (negb (is_digest_ref r d) || mem (d_node d) (g_tagged a)) eqn:C; [now apply IH|].
    destruct (chain_hits mf subj sk (S N) bl (g_gr a) (d_node d)); [|now apply IH].
    apply orb_false_iff in C as [C1 C2]. apply negb_false_iff in C1.
    assert (Cd : cand (g_tagged a) (r, d) = true) by (unfold cand; cbn [fst snd]; now rewrite C1, C2).
    pose proof (mu_strict m (g_tagged a) (r, d) (Hl _ (or_introl eq_refl)) Cd) as St. cbn [fst snd] in St.
    destruct (IH (mkGc (res_tag (strip d) (RDig (d_node d)) (g_res a))
                       (index_all N mf succs bl (d_node d) (g_gr a)) (d_node d :: g_tagged a)) true Hl') as [A B].
    cbn [g_tagged] in A, B. split; [lia|]. intros _. right. lia.
  Qed.

  Lemma rounds_fuel bl m f1 : forall f2 os a, mu m (g_tagged a) < f1 -> mu m (g_tagged a) < f2 ->
    gc_rounds N mf succs subj sk f1 bl m os a = gc_rounds N mf succs subj sk f2 bl m os a.
  Proof.
    induction f1 as [|f1 IH]; intros f2 os a H1 H2; [lia|]. destruct f2 as [|f2]; [lia|]. cbn [gc_rounds].
    unfold gc_round.
    pose proof (round_progress bl m (shuffle (hd [] os) m) a false
                 (fun kv I => proj1 (In_shuffle _ _ _) I)) as [A B]. cbn [fst snd] in A, B.
    destruct (snd (fold_left (round_step bl) (shuffle (hd [] os) m) (a, false))) eqn:E; auto.
    destruct (B eq_refl) as [X|X]; [discriminate|]. apply IH; lia.
  Qed.

  (* the referrer pass of gcIndex: S |refMap| rounds are enough for any order *)
  Theorem gc_rounds_fuel_sufficient bl m os a fuel :
    length m < fuel ->
    gc_rounds N mf succs subj sk (S (length m)) bl m os a = gc_rounds N mf succs subj sk fuel bl m os a.
  Proof.
    intro H. assert (X : mu m (g_tagged a) <= length m).
    { unfold mu. clear. induction m as [|x l IH]; simpl; auto. destruct (cand (g_tagged a) x); simpl; lia. }
    apply rounds_fuel; lia.
  Qed.
End GcFuel.

Lemma fuel_example :
  (forall k c, In c (ex_succs k) -> c < k) /\ Forall (fun oo => op_below 3 (fst oo)) ex_hist.
Proof.
  split.
  - intros [|[|[|k]]] c; simpl; intros H; try tauto; destruct H as [<-|[]]; auto.
  - repeat constructor.
Qed.
