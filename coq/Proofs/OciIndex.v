(* Lemmas for C08 about Model/OciIndex.v.
   Main results (end of file):
     run_inv_autosave / run_inv_manual : the store invariant and "index.json is a
       projection of the resolver map" hold after every history;
     reopen_equiv : under the invariant, the store reopened from its directory is
       observationally equal to the running one;
     disk_valid_inv : every index.json entry points to an existing blob. *)
From Coq Require Import List Arith Bool PeanoNat Lia Permutation.
From Oras Require Import Model.OciIndex.
Import ListNotations.

(* ---------- basics ---------- *)
Lemma ref_eqb_eq a b : ref_eqb a b = true <-> a = b.
Proof.
  destruct a, b; simpl; split; intro H; try discriminate; try congruence;
    try (apply Nat.eqb_eq in H; congruence); try (injection H as ->; apply Nat.eqb_refl).
Qed.
Lemma ref_eqb_refl r : ref_eqb r r = true.
Proof. now apply ref_eqb_eq. Qed.
Lemma ref_eqb_neq a b : ref_eqb a b = false <-> a <> b.
Proof.
  split; intro H.
  - intro E. apply ref_eqb_eq in E. congruence.
  - destruct (ref_eqb a b) eqn:E; auto. apply ref_eqb_eq in E. contradiction.
Qed.
Lemma ref_eqb_sym a b : ref_eqb a b = ref_eqb b a.
Proof.
  destruct (ref_eqb a b) eqn:E.
  - apply ref_eqb_eq in E. subst. now rewrite ref_eqb_refl.
  - symmetry. apply ref_eqb_neq. apply ref_eqb_neq in E. congruence.
Qed.

Lemma mem_In n l : mem n l = true <-> In n l.
Proof.
  unfold mem. rewrite existsb_exists. split.
  - intros (x & Hx & E). apply Nat.eqb_eq in E. now subst.
  - intro H. exists n. split; auto. apply Nat.eqb_refl.
Qed.
Lemma mem_false n l : mem n l = false <-> ~ In n l.
Proof.
  split; intro H.
  - intro I. apply mem_In in I. congruence.
  - destruct (mem n l) eqn:E; auto. apply mem_In in E. contradiction.
Qed.
Lemma In_add x n l : In x (add n l) <-> x = n \/ In x l.
Proof.
  unfold add. destruct (mem n l) eqn:E; simpl.
  - apply mem_In in E. split; [auto|]. intros [->|H]; auto.
  - split; intros [H|H]; auto.
Qed.
Lemma In_del x n l : In x (del n l) <-> x <> n /\ In x l.
Proof.
  unfold del. rewrite filter_In. split.
  - intros [H E]. split; auto. intro; subst. rewrite Nat.eqb_refl in E. discriminate.
  - intros [H I]. split; auto. destruct (Nat.eqb n x) eqn:E; auto. apply Nat.eqb_eq in E. congruence.
Qed.

(* ---------- association lists ---------- *)
Lemma lookup_runset_eq r m : lookup r (runset r m) = None.
Proof.
  induction m as [|[k v] m IH]; simpl; auto.
  destruct (ref_eqb r k) eqn:E; simpl; auto. now rewrite E.
Qed.
Lemma lookup_runset_neq r r' m : r <> r' -> lookup r' (runset r m) = lookup r' m.
Proof.
  intro H. induction m as [|[k v] m IH]; simpl; auto.
  destruct (ref_eqb r k) eqn:E; simpl.
  - apply ref_eqb_eq in E. subst k. destruct (ref_eqb r' r) eqn:E2; auto.
    apply ref_eqb_eq in E2. congruence.
  - now rewrite IH.
Qed.
Lemma lookup_rset_eq r d m : lookup r (rset r d m) = Some d.
Proof. unfold rset. simpl. now rewrite ref_eqb_refl. Qed.
Lemma lookup_rset_neq r r' d m : r <> r' -> lookup r' (rset r d m) = lookup r' m.
Proof.
  intro H. unfold rset. simpl. destruct (ref_eqb r' r) eqn:E.
  - apply ref_eqb_eq in E. congruence.
  - now apply lookup_runset_neq.
Qed.
Lemma lookup_rset r r' d m : lookup r' (rset r d m) = if ref_eqb r' r then Some d else lookup r' m.
Proof.
  destruct (ref_eqb r' r) eqn:E.
  - apply ref_eqb_eq in E. subst. apply lookup_rset_eq.
  - apply ref_eqb_neq in E. apply lookup_rset_neq. congruence.
Qed.
Lemma lookup_runset r r' m : lookup r' (runset r m) = if ref_eqb r' r then None else lookup r' m.
Proof.
  destruct (ref_eqb r' r) eqn:E.
  - apply ref_eqb_eq in E. subst. apply lookup_runset_eq.
  - apply ref_eqb_neq in E. apply lookup_runset_neq. congruence.
Qed.

Lemma lookup_Some_In r d m : lookup r m = Some d -> In (r, d) m.
Proof.
  induction m as [|[k v] m IH]; simpl; [discriminate|].
  destruct (ref_eqb r k) eqn:E.
  - apply ref_eqb_eq in E. intros [= ->]. subst. auto.
  - auto.
Qed.
Lemma lookup_None_notin r m : lookup r m = None -> forall d, ~ In (r, d) m.
Proof.
  induction m as [|[k v] m IH]; simpl; intros H d; [tauto|].
  destruct (ref_eqb r k) eqn:E; [discriminate|].
  intros [X|X].
  - injection X as -> ->. rewrite ref_eqb_refl in E. discriminate.
  - eapply IH; eauto.
Qed.
Lemma In_lookup r d m : NoDup (map fst m) -> In (r, d) m -> lookup r m = Some d.
Proof.
  induction m as [|[k v] m IH]; simpl; intros ND H; [tauto|].
  inversion ND as [|? ? Hn ND']; subst.
  destruct H as [H|H].
  - injection H as -> ->. now rewrite ref_eqb_refl.
  - destruct (ref_eqb r k) eqn:E.
    + apply ref_eqb_eq in E. subst. exfalso. apply Hn. apply in_map_iff. exists (k, d). auto.
    + auto.
Qed.

Lemma nodup_runset r m : NoDup (map fst m) -> NoDup (map fst (runset r m)).
Proof.
  induction m as [|[k v] m IH]; simpl; intro ND; auto.
  inversion ND as [|? ? Hn ND']; subst.
  destruct (ref_eqb r k); simpl; auto.
  constructor; auto. intro H. apply Hn. apply in_map_iff in H as ((k', v') & E & I).
  simpl in E. subst. apply filter_In in I as [I _]. apply in_map_iff. exists (k, v'). auto.
Qed.
Lemma notin_runset r m : ~ In r (map fst (runset r m)).
Proof.
  intro H. apply in_map_iff in H as ((k, v) & E & I). simpl in E. subst.
  apply filter_In in I as [_ I]. simpl in I. rewrite ref_eqb_refl in I. discriminate.
Qed.
Lemma nodup_rset r d m : NoDup (map fst m) -> NoDup (map fst (rset r d m)).
Proof.
  intro ND. unfold rset. simpl. constructor; [apply notin_runset | now apply nodup_runset].
Qed.

(* ---------- shuffle is a permutation ---------- *)
Lemma remove_at_perm {A} (l : list A) : forall i x, nth_error l i = Some x -> Permutation (x :: remove_at i l) l.
Proof.
  induction l as [|y l IH]; intros [|i] x H; simpl in *; try discriminate.
  - injection H as ->. apply Permutation_refl.
  - apply IH in H. eapply perm_trans; [apply perm_swap|]. now constructor.
Qed.
Lemma shuffle_perm {A} cs : forall l : list A, Permutation (shuffle cs l) l.
Proof.
  induction cs as [|c cs IH]; intro l; simpl; [apply Permutation_refl|].
  destruct (nth_error l (c mod length l)) eqn:E; [|apply Permutation_refl].
  eapply perm_trans; [apply perm_skip, IH|]. now apply remove_at_perm.
Qed.
Lemma In_shuffle {A} cs (l : list A) x : In x (shuffle cs l) <-> In x l.
Proof.
  split; apply Permutation_in; [apply shuffle_perm | apply Permutation_sym, shuffle_perm].
Qed.

(* ---------- the resolver map and its projection index.json ---------- *)
Definition J2 (ix : rmap) := forall k d, lookup (RDig k) ix = Some d -> d_node d = k.
Definition J1 (ix : rmap) := forall t d, lookup (RTag t) ix = Some d -> lookup (RDig (d_node d)) ix <> None.
Record IxInv (ix : rmap) : Prop := {
  ix_nd : NoDup (map fst ix);
  ix_j2 : J2 ix;
  ix_j1 : J1 ix }.

(* index.json is a projection of the resolver map (independent of iteration order) *)
Record DiskOK (ents : list desc) (ix : rmap) : Prop := {
  dk1 : forall t d, lookup (RTag t) ix = Some d -> In (with_ref d (RTag t)) ents;
  dk2 : forall e r, In e ents -> d_refann e = Some r ->
        exists t d, r = RTag t /\ lookup (RTag t) ix = Some d /\ e = with_ref d (RTag t);
  dk3 : forall e, In e ents -> lookup (RDig (d_node e)) ix <> None;
  dk4 : forall k, lookup (RDig k) ix <> None -> exists e, In e ents /\ d_node e = k }.

Lemma digest_ref_inv r d : is_digest_ref r d = true <-> r = RDig (d_node d).
Proof. unfold is_digest_ref. apply ref_eqb_eq. Qed.

Lemma nondigest_is_tag ix r d :
  IxInv ix -> In (r, d) ix -> is_digest_ref r d = false -> exists t, r = RTag t.
Proof.
  intros I H E. destruct r as [t|k]; [eauto|].
  apply In_lookup in H; [|apply I]. apply (ix_j2 _ I) in H. subst k.
  unfold is_digest_ref in E. rewrite ref_eqb_refl in E. discriminate.
Qed.

Lemma in_pass1 e l : In e (save_pass1 l) <->
  exists r d, In (r, d) l /\ is_digest_ref r d = false /\ e = with_ref d r.
Proof.
  unfold save_pass1. rewrite in_flat_map. split.
  - intros ((r, d) & I & H). simpl in H. destruct (is_digest_ref r d) eqn:E; simpl in H; [tauto|].
    destruct H as [<-|[]]. eauto.
  - intros (r & d & I & E & ->). exists (r, d). split; auto. simpl. rewrite E. simpl. auto.
Qed.
Lemma in_pass2 e tg l : In e (save_pass2 tg l) <->
  exists r d, In (r, d) l /\ is_digest_ref r d = true /\ mem (d_node d) tg = false /\ e = strip d.
Proof.
  unfold save_pass2. rewrite in_flat_map. split.
  - intros ((r, d) & I & H). simpl in H. destruct (is_digest_ref r d) eqn:E; simpl in H; [|tauto].
    destruct (mem (d_node d) tg) eqn:M; simpl in H; [tauto|]. destruct H as [<-|[]]. exists r, d. auto.
  - intros (r & d & I & E & M & ->). exists (r, d). split; auto. simpl. rewrite E, M. simpl. auto.
Qed.

Lemma save_diskok c1 c2 ix : IxInv ix -> DiskOK (save_index c1 c2 ix) ix.
Proof.
  intro I. unfold save_index. set (p1 := save_pass1 (shuffle c1 ix)).
  split.
  - intros t d H. apply in_or_app. left. apply in_pass1. exists (RTag t), d.
    split; [apply In_shuffle; now apply lookup_Some_In|]. split; auto.
  - intros e r H R. apply in_app_or in H as [H|H].
    + apply in_pass1 in H as (r0 & d0 & H & E & ->). apply In_shuffle in H.
      simpl in R. injection R as <-. destruct (nondigest_is_tag _ _ _ I H E) as (t & ->).
      exists t, d0. split; auto. split; auto. apply In_lookup; auto. apply I.
    + apply in_pass2 in H as (r0 & d0 & _ & _ & _ & ->). simpl in R. discriminate.
  - intros e H. apply in_app_or in H as [H|H].
    + apply in_pass1 in H as (r0 & d0 & H & E & ->). apply In_shuffle in H.
      destruct (nondigest_is_tag _ _ _ I H E) as (t & ->). simpl.
      apply (ix_j1 _ I t). apply In_lookup; auto. apply I.
    + apply in_pass2 in H as (r0 & d0 & H & E & _ & ->). apply In_shuffle in H.
      apply digest_ref_inv in E. subst r0. simpl. apply In_lookup in H; [|apply I]. congruence.
  - intros k H. destruct (lookup (RDig k) ix) as [d|] eqn:L; [|congruence].
    pose proof (ix_j2 _ I _ _ L) as Hk.
    destruct (mem k (map d_node p1)) eqn:M.
    + apply mem_In in M. apply in_map_iff in M as (e & E & Ie). exists e. split; auto.
      apply in_or_app. now left.
    + exists (strip d). split; [|simpl; auto]. apply in_or_app. right. apply in_pass2.
      exists (RDig k), d. split; [apply In_shuffle; now apply lookup_Some_In|].
      split; [apply digest_ref_inv; congruence|]. split; auto. now rewrite Hk.
Qed.

(* ---------- loadIndex: the resolver part ---------- *)
Definition load_res (m : resolver) (e : desc) : resolver :=
  let m1 := res_tag (strip e) (RDig (d_node e)) m in
  match d_refann e with Some r => res_tag e r m1 | None => m1 end.

Definition wf_ents (ents : list desc) :=
  forall e r, In e ents -> d_refann e = Some r -> exists t, r = RTag t.

Lemma load_res_lookup m e r :
  lookup r (r_index (load_res m e)) =
  match d_refann e with
  | Some r' => if ref_eqb r r' then Some e
               else if ref_eqb r (RDig (d_node e)) then Some (strip e) else lookup r (r_index m)
  | None => if ref_eqb r (RDig (d_node e)) then Some (strip e) else lookup r (r_index m)
  end.
Proof.
  unfold load_res, res_tag. destruct (d_refann e) as [r'|]; cbn [r_index]; now rewrite !lookup_rset.
Qed.

Lemma load_res_nodup m e : NoDup (map fst (r_index m)) -> NoDup (map fst (r_index (load_res m e))).
Proof.
  intro H. unfold load_res, res_tag. destruct (d_refann e); cbn [r_index]; repeat apply nodup_rset; auto.
Qed.

Lemma load_mono ents : forall m r, lookup r (r_index m) <> None ->
  lookup r (r_index (fold_left load_res ents m)) <> None.
Proof.
  induction ents as [|e ents IH]; intros m r H; simpl; auto.
  apply IH. rewrite load_res_lookup.
  destruct (d_refann e); repeat (match goal with |- context[if ?b then _ else _] => destruct b end); congruence.
Qed.

Lemma load_nodup ents : forall m, NoDup (map fst (r_index m)) ->
  NoDup (map fst (r_index (fold_left load_res ents m))).
Proof. induction ents; intros m H; simpl; auto. apply IHents. now apply load_res_nodup. Qed.

Lemma load_tag_in t ents : forall m d,
  lookup (RTag t) (r_index (fold_left load_res ents m)) = Some d ->
  lookup (RTag t) (r_index m) = Some d \/ (In d ents /\ d_refann d = Some (RTag t)).
Proof.
  induction ents as [|e ents IH]; intros m d H; simpl in *; auto.
  apply IH in H as [H|[H R]]; [|right; auto].
  rewrite load_res_lookup in H.
  destruct (d_refann e) as [r'|] eqn:R.
  - destruct (ref_eqb (RTag t) r') eqn:E; cbv iota in H.
    + apply ref_eqb_eq in E. subst r'. injection H as <-. right. auto.
    + cbn in H. auto.
  - cbn in H. auto.
Qed.

Lemma load_tag_ex t ents : forall m,
  (exists e, In e ents /\ d_refann e = Some (RTag t)) ->
  lookup (RTag t) (r_index (fold_left load_res ents m)) <> None.
Proof.
  induction ents as [|e ents IH]; intros m (e0 & I & R); simpl in *; [tauto|].
  destruct I as [->|I].
  - apply load_mono. rewrite load_res_lookup, R, ref_eqb_refl. congruence.
  - apply IH. eauto.
Qed.

Lemma load_dig k ents : wf_ents ents -> forall m,
  lookup (RDig k) (r_index (fold_left load_res ents m)) <> None <->
  (lookup (RDig k) (r_index m) <> None \/ exists e, In e ents /\ d_node e = k).
Proof.
  induction ents as [|e ents IH]; intros W m; simpl.
  - split; [auto|]. intros [H|(e & [] & _)]; auto.
  - rewrite IH by (intros x r I; apply W; now right). rewrite load_res_lookup.
    assert (Hr : forall r', d_refann e = Some r' -> ref_eqb (RDig k) r' = false).
    { intros r' R. destruct (W e r' (or_introl eq_refl) R) as (t & ->). reflexivity. }
    split.
    + intros [H|(x & I & E)]; [|right; eauto].
      destruct (d_refann e) as [r'|] eqn:R; [rewrite (Hr _ eq_refl) in H|];
        (destruct (ref_eqb (RDig k) (RDig (d_node e))) eqn:E;
          [apply ref_eqb_eq in E; injection E as ->; right; eauto | auto]).
    + intros [H|(x & [<-|I] & E)]; [| |right; eauto]; left.
      * destruct (d_refann e) as [r'|] eqn:R; [rewrite (Hr _ eq_refl)|];
          destruct (ref_eqb (RDig k) (RDig (d_node e))); congruence.
      * subst k. destruct (d_refann e) as [r'|] eqn:R; [rewrite (Hr _ eq_refl)|];
          rewrite ref_eqb_refl; congruence.
Qed.

Lemma load_j2 ents : wf_ents ents -> forall m, J2 (r_index m) -> J2 (r_index (fold_left load_res ents m)).
Proof.
  induction ents as [|e ents IH]; intros W m H; simpl; auto.
  apply IH; [intros x r I; apply W; now right|].
  intros k d L. rewrite load_res_lookup in L.
  assert (Hr : forall r', d_refann e = Some r' -> ref_eqb (RDig k) r' = false).
  { intros r' R. destruct (W e r' (or_introl eq_refl) R) as (t & ->). reflexivity. }
  destruct (d_refann e) as [r'|] eqn:R; [rewrite (Hr _ eq_refl) in L|];
    (destruct (ref_eqb (RDig k) (RDig (d_node e))) eqn:E;
      [apply ref_eqb_eq in E; injection E as ->; injection L as <-; reflexivity | now apply H]).
Qed.

Lemma with_ref_idem d r : with_ref (with_ref d r) r = with_ref d r.
Proof. reflexivity. Qed.

Section LoadSave.
  Variables (ents : list desc) (ix : rmap).
  Hypothesis I : IxInv ix.
  Hypothesis D : DiskOK ents ix.
  Let ix' := r_index (fold_left load_res ents res_empty).

  Lemma disk_wf : wf_ents ents.
  Proof. intros e r H R. destruct (dk2 _ _ D e r H R) as (t & _ & -> & _). eauto. Qed.

  Lemma reload_tag t : lookup (RTag t) ix' = option_map (fun d => with_ref d (RTag t)) (lookup (RTag t) ix).
  Proof.
    destruct (lookup (RTag t) ix) as [d0|] eqn:L; simpl.
    - pose proof (dk1 _ _ D _ _ L) as H.
      assert (X : lookup (RTag t) ix' <> None).
      { apply load_tag_ex. exists (with_ref d0 (RTag t)). auto. }
      destruct (lookup (RTag t) ix') as [d|] eqn:L'; [|congruence].
      apply load_tag_in in L' as [L'|[Hi R]]; [discriminate|].
      destruct (dk2 _ _ D _ _ Hi R) as (t' & d1 & E & L1 & ->). injection E as <-. congruence.
    - destruct (lookup (RTag t) ix') as [d|] eqn:L'; auto.
      apply load_tag_in in L' as [L'|[Hi R]]; [discriminate|].
      destruct (dk2 _ _ D _ _ Hi R) as (t' & d1 & E & L1 & ->). injection E as <-. congruence.
  Qed.

  Lemma reload_dig k : lookup (RDig k) ix' <> None <-> lookup (RDig k) ix <> None.
  Proof.
    unfold ix'. rewrite (load_dig k ents disk_wf). simpl. split.
    - intros [H|(e & H & <-)]; [congruence|]. now apply (dk3 _ _ D).
    - intro H. right. now apply (dk4 _ _ D).
  Qed.

  Lemma reload_j2 : J2 ix'.
  Proof. apply load_j2; [apply disk_wf|]. intros k d H. discriminate. Qed.

  Lemma reload_inv : IxInv ix'.
  Proof.
    split.
    - apply load_nodup. constructor.
    - apply reload_j2.
    - intros t d H. rewrite reload_tag in H. destruct (lookup (RTag t) ix) as [d0|] eqn:L; [|discriminate].
      injection H as <-. simpl. apply reload_dig. now apply (ix_j1 _ I t).
  Qed.

  Lemma reload_diskok : DiskOK ents ix'.
  Proof.
    split.
    - intros t d H. rewrite reload_tag in H. destruct (lookup (RTag t) ix) as [d0|] eqn:L; [|discriminate].
      injection H as <-. rewrite with_ref_idem. now apply (dk1 _ _ D).
    - intros e r H R. destruct (dk2 _ _ D _ _ H R) as (t & d0 & -> & L & ->).
      exists t, (with_ref d0 (RTag t)). split; auto. split; auto. rewrite reload_tag, L. reflexivity.
    - intros e H. apply reload_dig. now apply (dk3 _ _ D).
    - intros k H. apply reload_dig in H. now apply (dk4 _ _ D).
  Qed.
End LoadSave.

(* ---------- graph: IndexAll ---------- *)
Section Univ.
  Variable N : nat.
  Variable mf : nat -> bool.
  Variable succs : nat -> list nat.
  Variable subj : nat -> option nat.
  Variable sk : nat -> bool.
  Variable bad : nat -> bool.
  Variable dflt : nat -> bool.

  Notation visit := (visit mf succs).
  Notation index_all := (index_all N mf succs).
  Notation st_push := (st_push mf bad).
  Notation st_tagop := (st_tagop mf true).
  Notation delete1 := (delete1 mf succs).
  Notation delete_loop := (delete_loop N mf succs subj true).
  Notation st_delete := (st_delete N mf succs subj true).
  Notation gc_pass1 := (gc_pass1 N mf succs).
  Notation gc_round := (gc_round N mf succs subj sk).
  Notation gc_rounds := (gc_rounds N mf succs subj sk).
  Notation st_gc := (st_gc N mf succs subj sk true true true).
  Notation reopen := (reopen N mf succs).
  Notation step := (step N mf succs subj sk bad true true true true true).
  Notation run := (run N mf succs subj sk bad true true true true true).
  Notation obs_equiv := (obs_equiv N succs dflt).
  Notation wf_op := (wf_op mf).
  Notation wf_history := (wf_history mf).

  Lemma fold_visit_mono f p (IH : forall c g x, In x g -> In x (visit f p c g)) :
    forall l g x, In x g -> In x (fold_left (fun acc c => visit f p c acc) l g).
  Proof. induction l as [|c l IHl]; intros g x H; simpl; auto. Qed.

  Lemma visit_mono f p : forall n g x, In x g -> In x (visit f p n g).
  Proof.
    induction f as [|f IH]; intros n g x H; simpl; auto.
    destruct (mem n g); auto. destruct (mf n).
    - destruct (p n); auto. apply fold_visit_mono; auto. now right.
    - now right.
  Qed.

  Lemma visit_root f p n g : (mf n = true -> p n = true) -> In n (visit (S f) p n g).
  Proof.
    intro H. simpl. destruct (mem n g) eqn:M; [now apply mem_In|].
    destruct (mf n).
    - rewrite H by reflexivity. apply fold_visit_mono; [apply visit_mono|]. now left.
    - now left.
  Qed.

  Definition mf_present (p : nat -> bool) (g : list nat) := forall x, In x g -> mf x = true -> p x = true.

  Lemma visit_present f p : forall n g, mf_present p g -> mf_present p (visit f p n g).
  Proof.
    induction f as [|f IH]; intros n g H; simpl; auto.
    destruct (mem n g); auto. destruct (mf n) eqn:M.
    - destruct (p n) eqn:P; auto.
      assert (H' : mf_present p (n :: g)).
      { intros x [<-|I] Hx; auto. }
      revert H'. generalize (n :: g). induction (succs n) as [|c l IHl]; intros g0 H0; simpl; auto.
    - intros x [<-|I] Hx; [congruence|auto].
  Qed.

  Lemma index_all_mono bl r g x : In x g -> In x (index_all bl r g).
  Proof. apply visit_mono. Qed.
  Lemma index_all_root bl r g : (mf r = true -> In r bl) -> In r (index_all bl r g).
  Proof. intro H. apply visit_root. intro M. apply mem_In. auto. Qed.
  Lemma index_all_present bl r g :
    (forall x, In x g -> mf x = true -> In x bl) -> forall x, In x (index_all bl r g) -> mf x = true -> In x bl.
  Proof.
    intros H x I M. apply mem_In.
    apply (visit_present (S N) (fun k => mem k bl) r g); auto.
    intros y Iy My. apply mem_In. auto.
  Qed.

  (* the graph part of loadIndex *)
  Definition load_gr (bl : list nat) (ents : list desc) (g : list nat) :=
    fold_left (fun g e => index_all bl (d_node e) g) ents g.

  Lemma load_split bl ents : forall m g,
    fold_left (load_entry N mf succs bl) ents (m, g) = (fold_left load_res ents m, load_gr bl ents g).
  Proof.
    induction ents as [|e ents IH]; intros m g; simpl; auto.
    unfold load_entry at 2. simpl. rewrite IH. reflexivity.
  Qed.

  Lemma load_gr_mono bl ents : forall g x, In x g -> In x (load_gr bl ents g).
  Proof. induction ents; intros g x H; simpl; auto. apply IHents. now apply index_all_mono. Qed.
  Lemma load_gr_root bl ents : forall g e, In e ents -> (mf (d_node e) = true -> In (d_node e) bl) ->
    In (d_node e) (load_gr bl ents g).
  Proof.
    induction ents as [|a ents IH]; intros g e H P; simpl in *; [tauto|].
    destruct H as [->|H].
    - apply load_gr_mono. now apply index_all_root.
    - now apply IH.
  Qed.
  Lemma load_gr_present bl ents : forall g,
    (forall x, In x g -> mf x = true -> In x bl) ->
    forall x, In x (load_gr bl ents g) -> mf x = true -> In x bl.
  Proof.
    induction ents as [|a ents IH]; intros g H x I M; simpl in *; auto.
    apply (IH (index_all bl (d_node a) g)); auto.
    intros y Iy My. eapply index_all_present; eauto.
  Qed.

  (* ---------- the store invariant ---------- *)
  Notation store := OciIndex.store.
  Definition idx (s : store) := r_index (res s).

  Record InvC (bl : list nat) (ix : rmap) (g : list nat) : Prop := {
    inv_ix : IxInv ix;
    inv_i4 : forall r d, lookup r ix = Some d -> In (d_node d) bl;
    inv_k : forall k, mf k = true -> In k bl -> lookup (RDig k) ix <> None;
    inv_g2a : forall k, mf k = true -> In k g -> In k bl;
    inv_g2b : forall k, mf k = true -> In k bl -> In k g }.
  Definition Inv (s : store) := InvC (blobs s) (idx s) (gr s).

  Definition Synced (s : store) := DiskOK (disk s) (idx s).

  Lemma inv_empty : Inv store_empty.
  Proof.
    split.
    - split; simpl; [constructor| |]; intros ? ? H; discriminate.
    - intros ? ? H; discriminate.
    - intros k _ [].
    - intros k _ [].
    - intros k _ [].
  Qed.
  Lemma synced_empty : Synced store_empty.
  Proof.
    split; simpl.
    - intros ? ? H; discriminate.
    - intros ? ? [].
    - intros ? [].
    - intros k H. congruence.
  Qed.
  Definition Good (cfg : config) (s : store) := Inv s /\ (autosave cfg = true -> Synced s).

  Lemma good_save cfg o s : Inv s -> Good cfg (maybe_save cfg o s).
  Proof.
    intro H. unfold maybe_save, do_save. destruct (autosave cfg) eqn:A.
    - split; [exact H|]. intros _. unfold Synced, idx. simpl. apply save_diskok. apply H.
    - split; [exact H|]. intro X; congruence.
  Qed.
  Lemma good_same cfg s s' :
    Good cfg s -> Inv s' -> idx s' = idx s -> disk s' = disk s -> Good cfg s'.
  Proof.
    intros [_ S] I E1 E2. split; auto. intro A. unfold Synced. rewrite E1, E2. now apply S.
  Qed.

  (* ----- setting entries ----- *)
  Lemma ixinv_set_dig ix d : IxInv ix -> IxInv (rset (RDig (d_node d)) d ix).
  Proof.
    intro I. split.
    - apply nodup_rset, I.
    - intros k d' H. rewrite lookup_rset in H. destruct (ref_eqb (RDig k) (RDig (d_node d))) eqn:E.
      + apply ref_eqb_eq in E. injection E as ->. now injection H as <-.
      + now apply (ix_j2 _ I).
    - intros t d' H. rewrite lookup_rset in H. simpl in H. apply (ix_j1 _ I) in H.
      rewrite lookup_rset. destruct (ref_eqb (RDig (d_node d')) (RDig (d_node d))); congruence.
  Qed.
  Lemma ixinv_set_tag ix d t : IxInv ix -> lookup (RDig (d_node d)) ix <> None -> IxInv (rset (RTag t) d ix).
  Proof.
    intros I L. split.
    - apply nodup_rset, I.
    - intros k d' H. rewrite lookup_rset in H. simpl in H. now apply (ix_j2 _ I).
    - intros t' d' H. rewrite lookup_rset in H. rewrite lookup_rset. simpl.
      destruct (ref_eqb (RTag t') (RTag t)).
      + now injection H as <-.
      + now apply (ix_j1 _ I) in H.
  Qed.

  Definition tag_ix (d : desc) (r : ref) (ix : rmap) : rmap :=
    if is_digest_ref r d then rset r d ix else rset r d (rset (RDig (d_node d)) d ix).

  Lemma tag_ix_inv bl ix g d r :
    InvC bl ix g -> In (d_node d) bl -> wf_tag d r -> InvC bl (tag_ix d r ix) g.
  Proof.
    intros H Hb W. unfold tag_ix.
    assert (M : forall r', lookup r' ix <> None -> lookup r' (tag_ix d r ix) <> None).
    { intros r' L. unfold tag_ix. destruct (is_digest_ref r d); rewrite !lookup_rset;
        repeat (match goal with |- context[if ?b then _ else _] => destruct b end); congruence. }
    assert (V : forall r' d', lookup r' (tag_ix d r ix) = Some d' -> d' = d \/ lookup r' ix = Some d').
    { intros r' d' L. unfold tag_ix in L. destruct (is_digest_ref r d); rewrite !lookup_rset in L;
        repeat (match type of L with context[if ?b then _ else _] => destruct b end);
        try (injection L as <-); auto. }
    unfold tag_ix in M, V.
    split.
    - destruct r as [t|k]; simpl in W.
      + unfold is_digest_ref. simpl. apply ixinv_set_tag; [apply ixinv_set_dig, H|].
        rewrite lookup_rset_eq. congruence.
      + subst k. unfold is_digest_ref. rewrite ref_eqb_refl. apply ixinv_set_dig, H.
    - intros r' d' L. apply V in L as [->|L]; auto. eapply inv_i4; eauto.
    - intros k Mk Ik. apply M. eapply inv_k; eauto.
    - apply H.
    - apply H.
  Qed.

  Lemma st_tag_good cfg o d r s :
    Inv s -> In (d_node d) (blobs s) -> wf_tag d r -> Good cfg (st_tag cfg o d r s).
  Proof.
    intros H Hb W. unfold st_tag. apply good_save. unfold Inv.
    change (InvC (blobs s)
      (r_index (res_tag d r (if is_digest_ref r d then res s else res_tag d (RDig (d_node d)) (res s)))) (gr s)).
    assert (E : r_index (res_tag d r (if is_digest_ref r d then res s else res_tag d (RDig (d_node d)) (res s)))
                = tag_ix d r (idx s)).
    { unfold tag_ix, idx. destruct (is_digest_ref r d); reflexivity. }
    rewrite E. now apply tag_ix_inv.
  Qed.

  (* ----- Push ----- *)
  Lemma push_desc_good cfg o d s : Good cfg s -> Good cfg (fst (st_push_desc mf bad cfg o d s)).
  Proof.
    intros G. unfold st_push_desc. set (k := d_node d).
    destruct (mem k (blobs s)) eqn:M; [exact G|].
    destruct (bad k); [exact G|].
    destruct G as [H S]. destruct (mf k) eqn:Mk; simpl.
    - unfold st_tag. apply good_save. unfold Inv, idx.
      assert (E : is_digest_ref (RDig k) d = true) by (unfold is_digest_ref, k; apply ref_eqb_refl).
      rewrite E. cbn [blobs res gr disk r_index res_tag].
      change (rset (RDig k) d (r_index (res s))) with (rset (RDig (d_node d)) d (idx s)).
      split.
      + apply ixinv_set_dig, H.
      + intros r d' L. rewrite lookup_rset in L. destruct (ref_eqb r (RDig (d_node d))).
        * injection L as <-. now left.
        * right. eapply inv_i4; eauto.
      + intros k' Mk' [<-|I]; rewrite lookup_rset.
        * fold k. rewrite ref_eqb_refl. congruence.
        * destruct (ref_eqb (RDig k') (RDig (d_node d))); [congruence|]. eapply inv_k; eauto.
      + intros k' Mk' I. apply In_add in I as [->|I]; [now left|]. right. eapply inv_g2a; eauto.
      + intros k' Mk' [<-|I]; apply In_add; auto. right. eapply inv_g2b; eauto.
    - apply (good_same cfg s); [split; auto| |reflexivity|reflexivity].
      unfold Inv, idx. simpl. split.
      + apply H.
      + intros r d' L. right. eapply inv_i4; eauto.
      + intros k' Mk' [<-|I]; [congruence|]. eapply inv_k; eauto.
      + intros k' Mk' I. apply In_add in I as [->|I]; [congruence|]. right. eapply inv_g2a; eauto.
      + intros k' Mk' [<-|I]; [congruence|]. apply In_add. right. eapply inv_g2b; eauto.
  Qed.
  Lemma push_good cfg o k s : Good cfg s -> Good cfg (fst (st_push cfg o k s)).
  Proof. apply push_desc_good. Qed.

  Lemma tagop_good cfg o d r s : Good cfg s -> Good cfg (fst (st_tagop cfg o d r s)).
  Proof.
    intros G. unfold OciIndex.st_tagop. simpl.
    destruct (negb match r with RDig k => Nat.eqb k (d_node d) | RTag _ => true end) eqn:W; [exact G|].
    destruct (mem (d_node d) (blobs s)) eqn:M; [|exact G].
    apply mem_In in M. simpl.
    assert (Wf : wf_tag d r).
    { destruct r as [t|k]; simpl; auto. apply negb_false_iff in W. now apply Nat.eqb_eq in W. }
    destruct (mf (d_node d)) eqn:Mf.
    - apply st_tag_good; auto. destruct G as [H _]. unfold Inv, idx in *. simpl. split.
      + apply H.
      + apply H.
      + apply H.
      + intros k' Mk I. apply In_add in I as [->|I]; auto. eapply inv_g2a; eauto.
      + intros k' Mk I. apply In_add. right. eapply inv_g2b; eauto.
    - apply st_tag_good; auto. apply G.
  Qed.

  (* ----- Untag ----- *)
  Lemma res_untag_lookup r0 m r :
    lookup r (r_index (res_untag r0 m)) = if ref_eqb r r0 then None else lookup r (r_index m).
  Proof.
    unfold res_untag. destruct (lookup r0 (r_index m)) eqn:L; cbn [r_index].
    - apply lookup_runset.
    - destruct (ref_eqb r r0) eqn:E; auto. apply ref_eqb_eq in E. now subst.
  Qed.
  Lemma res_untag_nodup r0 m : NoDup (map fst (r_index m)) -> NoDup (map fst (r_index (res_untag r0 m))).
  Proof.
    intro H. unfold res_untag. destruct (lookup r0 (r_index m)); cbn [r_index]; auto. now apply nodup_runset.
  Qed.

  Lemma untag_good cfg o r s : Good cfg s -> Good cfg (fst (st_untag cfg o r s)).
  Proof.
    intros G. unfold st_untag. destruct (lookup r (r_index (res s))) as [d|] eqn:L; [|exact G].
    destruct (is_digest_ref r d) eqn:E; [exact G|]. simpl.
    destruct G as [H S]. apply good_save. unfold Inv, idx. simpl.
    assert (Ht : exists t, r = RTag t).
    { eapply nondigest_is_tag; [apply H| |exact E]. apply lookup_Some_In. exact L. }
    destruct Ht as (t & ->).
    assert (V : forall r' d', lookup r' (r_index (res_untag (RTag t) (res s))) = Some d' -> lookup r' (idx s) = Some d').
    { intros r' d' X. rewrite res_untag_lookup in X. destruct (ref_eqb r' (RTag t)); [discriminate|auto]. }
    split.
    - split.
      + apply res_untag_nodup, H.
      + intros k d' X. apply V in X. eapply ix_j2; eauto. apply H.
      + intros t' d' X. apply V in X. apply (ix_j1 _ (inv_ix _ _ _ H)) in X.
        rewrite res_untag_lookup. simpl. exact X.
    - intros r' d' X. apply V in X. eapply inv_i4; eauto.
    - intros k Mk Ik. rewrite res_untag_lookup. simpl. eapply inv_k; eauto.
    - apply H.
    - apply H.
  Qed.
  (* ----- Delete ----- *)
  Definition untag_all (refs : list ref) (m : resolver) := fold_left (fun m r => res_untag r m) refs m.

  Lemma untag_all_lookup refs : forall m r,
    lookup r (r_index (untag_all refs m)) = if existsb (ref_eqb r) refs then None else lookup r (r_index m).
  Proof.
    induction refs as [|r0 refs IH]; intros m r; simpl; auto.
    unfold untag_all in *. rewrite IH, res_untag_lookup.
    destruct (ref_eqb r r0); simpl; destruct (existsb (ref_eqb r) refs); auto.
  Qed.
  Lemma untag_all_nodup refs : forall m, NoDup (map fst (r_index m)) -> NoDup (map fst (r_index (untag_all refs m))).
  Proof.
    induction refs; intros m H; simpl; auto. apply IHrefs. now apply res_untag_nodup.
  Qed.

  Definition refs_of (k : nat) (ix : rmap) := map fst (filter (fun kv => Nat.eqb (d_node (snd kv)) k) ix).

  Lemma del_lookup k ix m r : r_index m = ix -> NoDup (map fst ix) ->
    lookup r (r_index (untag_all (refs_of k ix) m)) =
    match lookup r ix with Some d => if Nat.eqb (d_node d) k then None else Some d | None => None end.
  Proof.
    intros E ND. rewrite untag_all_lookup, E.
    destruct (existsb (ref_eqb r) (refs_of k ix)) eqn:X.
    - apply existsb_exists in X as (r' & I & Er). apply ref_eqb_eq in Er. subst r'.
      apply in_map_iff in I as ((r', d) & Ef & I). simpl in Ef. subst r'.
      apply filter_In in I as [I Ek]. simpl in Ek. rewrite (In_lookup _ _ _ ND I), Ek. reflexivity.
    - destruct (lookup r ix) as [d|] eqn:L; auto.
      destruct (Nat.eqb (d_node d) k) eqn:Ek; auto.
      exfalso. apply Bool.not_true_iff_false in X. apply X. apply existsb_exists. exists r.
      split; [|apply ref_eqb_refl]. apply in_map_iff. exists (r, d). split; auto.
      apply filter_In. split; auto. now apply lookup_Some_In.
  Qed.

  Lemma graph_remove_fst k g x : In x (fst (graph_remove succs k g)) <-> x <> k /\ In x g.
  Proof.
    unfold graph_remove. destruct (mem k g) eqn:M; simpl.
    - apply In_del.
    - apply mem_false in M. split; [|tauto]. intro H. split; auto. intro; subst. contradiction.
  Qed.

  Lemma delete_invc k bl ix g m bl' :
    InvC bl ix g -> r_index m = ix ->
    (forall x, In x bl' <-> (x <> k /\ In x bl) \/ (In x bl /\ ~ In k bl)) ->
    InvC bl' (r_index (untag_all (refs_of k ix) m)) (fst (graph_remove succs k g)).
  Proof.
    intros H E Hb.
    assert (ND : NoDup (map fst ix)) by apply H.
    assert (V : forall r d, lookup r (r_index (untag_all (refs_of k ix) m)) = Some d ->
                lookup r ix = Some d /\ d_node d <> k).
    { intros r d L. rewrite (del_lookup k ix m r E ND) in L.
      destruct (lookup r ix) as [d0|]; [|discriminate].
      destruct (Nat.eqb (d_node d0) k) eqn:Ek; [discriminate|]. injection L as <-.
      split; auto. now apply Nat.eqb_neq. }
    assert (P : forall r d, lookup r ix = Some d -> d_node d <> k ->
                lookup r (r_index (untag_all (refs_of k ix) m)) = Some d).
    { intros r d L Nk. rewrite (del_lookup k ix m r E ND), L.
      apply Nat.eqb_neq in Nk. now rewrite Nk. }
    assert (B : forall x, x <> k -> In x bl -> In x bl').
    { intros x Nx Ix. apply Hb. left. auto. }
    split.
    - split.
      + apply untag_all_nodup. now rewrite E.
      + intros k' d L. apply V in L as [L _]. eapply ix_j2; eauto. apply H.
      + intros t d L. apply V in L as [L Nk].
        pose proof (ix_j1 _ (inv_ix _ _ _ H) _ _ L) as X.
        destruct (lookup (RDig (d_node d)) ix) as [d1|] eqn:L1; [|congruence].
        pose proof (ix_j2 _ (inv_ix _ _ _ H) _ _ L1) as E1.
        rewrite (P _ _ L1); congruence.
    - intros r d L. apply V in L as [L Nk]. apply B; auto. eapply inv_i4; eauto.
    - intros k' Mk Ik. apply Hb in Ik.
      assert (Nk : k' <> k /\ In k' bl).
      { destruct Ik as [?|[I Nk]]; auto. split; auto. intro; subst. contradiction. }
      destruct Nk as [Nk Ik'].
      pose proof (inv_k _ _ _ H _ Mk Ik') as X.
      destruct (lookup (RDig k') ix) as [d1|] eqn:L1; [|congruence].
      pose proof (ix_j2 _ (inv_ix _ _ _ H) _ _ L1) as E1.
      rewrite (P _ _ L1); congruence.
    - intros k' Mk Ik. apply graph_remove_fst in Ik as [Nk Ik]. apply B; auto. eapply inv_g2a; eauto.
    - intros k' Mk Ik. apply Hb in Ik.
      assert (Nk : k' <> k /\ In k' bl).
      { destruct Ik as [?|[I Nk]]; auto. split; auto. intro; subst. contradiction. }
      destruct Nk as [Nk Ik']. apply graph_remove_fst. split; auto. eapply inv_g2b; eauto.
  Qed.

  Lemma graph_remove_snd k g x : In x (snd (graph_remove succs k g)) -> In x (fst (graph_remove succs k g)).
  Proof.
    unfold graph_remove. destruct (mem k g); simpl; [|tauto].
    intro H. apply filter_In in H as [_ H]. apply andb_true_iff in H as [H _]. now apply mem_In.
  Qed.

  Lemma keep_danglings_inv bl g dang : forall m,
    (forall x, In x dang -> In x g) -> InvC bl (r_index m) g ->
    InvC bl (r_index (keep_danglings mf dang m)) g.
  Proof.
    induction dang as [|d dang IH]; intros m Hd H; simpl; auto.
    apply IH; [intros x I; apply Hd; now right|].
    unfold needs_ref. destruct (mf d) eqn:Md; simpl; auto.
    destruct (lookup (RDig d) (r_index m)); auto.
    cbn [r_index res_tag].
    assert (E : rset (RDig d) (plain d) (r_index m) = tag_ix (plain d) (RDig d) (r_index m)).
    { unfold tag_ix, is_digest_ref. simpl. now rewrite Nat.eqb_refl. }
    rewrite E. apply tag_ix_inv; auto.
    - simpl. eapply inv_g2a; [exact H|exact Md|]. apply Hd. now left.
    - reflexivity.
  Qed.

  Lemma keep_danglings_same dang : forall m,
    existsb (needs_ref mf m) dang = false -> keep_danglings mf dang m = m.
  Proof.
    induction dang as [|d dang IH]; intros m H; simpl in *; auto.
    apply orb_false_iff in H as [H1 H2]. rewrite H1. now apply IH.
  Qed.

  Lemma delete1_good cfg o k s : Good cfg s -> Good cfg (fst (fst (delete1 cfg o k s))).
  Proof.
    intros [H S]. unfold OciIndex.delete1.
    fold (refs_of k (r_index (res s))). fold (untag_all (refs_of k (r_index (res s))) (res s)).
    set (m := untag_all (refs_of k (r_index (res s))) (res s)).
    set (g' := fst (graph_remove succs k (gr s))).
    set (dang := snd (graph_remove succs k (gr s))).
    set (m2 := keep_danglings mf dang m).
    assert (Hd : forall x, In x dang -> In x g') by (intros x I; now apply graph_remove_snd).
    assert (I1 : forall dk, Inv (mkStore (del k (blobs s)) m2 g' dk)).
    { intro dk. unfold Inv, idx. simpl. apply keep_danglings_inv; auto.
      apply (delete_invc k (blobs s) (r_index (res s)) (gr s) (res s)); [exact H|reflexivity|].
      intro x. rewrite In_del. split; [tauto|].
      intros [?|[Ix Nk]]; auto. split; auto. intro; subst. contradiction. }
    assert (I2 : ~ In k (blobs s) -> forall dk, Inv (mkStore (blobs s) m2 g' dk)).
    { intros Nk dk. unfold Inv, idx. simpl. apply keep_danglings_inv; auto.
      apply (delete_invc k (blobs s) (r_index (res s)) (gr s) (res s)); [exact H|reflexivity|].
      intro x. split; [|tauto]. intro Ix. right. auto. }
    assert (I3 : IxInv (r_index m2)).
    { exact (inv_ix _ _ _ (I1 [])). }
    destruct (negb match refs_of k (r_index (res s)) with [] => true | _ :: _ => false end
              || existsb (needs_ref mf m) dang) eqn:C.
    - unfold maybe_save, do_save. destruct (autosave cfg) eqn:A; destruct (mem k (blobs s)) eqn:M; simpl.
      + split; [apply I1|]. intros _. unfold Synced, idx. simpl. now apply save_diskok.
      + apply mem_false in M. split; [now apply I2|]. intros _. unfold Synced, idx. simpl. now apply save_diskok.
      + split; [apply I1|]. intro X; congruence.
      + apply mem_false in M. split; [now apply I2|]. intro X; congruence.
    - (* nothing untagged, nothing added: the resolver is unchanged, index.json is not written *)
      apply orb_false_iff in C as [C1 C2].
      assert (Em : m2 = res s).
      { unfold m2. rewrite keep_danglings_same by exact C2. unfold m.
        destruct (refs_of k (r_index (res s))); [reflexivity|discriminate]. }
      destruct (mem k (blobs s)) eqn:M; simpl.
      + split; [apply I1|]. intro A. unfold Synced, idx. simpl. rewrite Em. now apply S.
      + apply mem_false in M. split; [now apply I2|]. intro A. unfold Synced, idx. simpl. rewrite Em. now apply S.
  Qed.

  Lemma delete_loop_good cfg o fuel : forall ds qq pd s, Good cfg s -> Good cfg (fst (delete_loop fuel cfg o ds qq pd s)).
  Proof.
    induction fuel as [|f IH]; intros ds qq pd s G; simpl; auto.
    destruct (fst qq) as [|h q]; simpl; auto.
    pose proof (delete1_good cfg o h s G) as G1.
    destruct (delete1 cfg o h s) as [[s' dang] okb]. simpl in G1.
    destruct okb; simpl; auto.
  Qed.

  (* ----- GC ----- *)
  Section GC.
    Variables (bl : list nat) (ix : rmap) (g0 : list nat).
    Hypothesis H : InvC bl ix g0.

    Record GcInv (a : gcacc) : Prop := {
      gi_ix : IxInv (r_index (g_res a));
      gi_val : forall r d, lookup r (r_index (g_res a)) = Some d -> In (d_node d) bl /\ In (d_node d) (g_gr a);
      gi_gr : forall x, In x (g_gr a) -> mf x = true -> In x bl }.

    Lemma entry_present r d : In (r, d) ix -> In (d_node d) bl.
    Proof. intro I. eapply inv_i4; [exact H|]. apply In_lookup; eauto. apply H. Qed.

    Lemma gcinv_dig rs g tg tg' d : GcInv (mkGc rs g tg) -> In (d_node d) bl ->
      GcInv (mkGc (res_tag (strip d) (RDig (d_node d)) rs) (index_all bl (d_node d) g) tg').
    Proof.
      intros [I V G] B. cbn [r_index g_res g_gr g_tagged res_tag] in *. split; cbn [r_index g_res g_gr g_tagged res_tag].
      - apply (ixinv_set_dig _ (strip d)). exact I.
      - intros r d' L. rewrite lookup_rset in L. destruct (ref_eqb r (RDig (d_node d))).
        + injection L as <-. simpl. split; auto. apply index_all_root. auto.
        + apply V in L as [L1 L2]. split; auto. now apply index_all_mono.
      - intros x Ix Mx. eapply index_all_present; eauto.
    Qed.
    Lemma gcinv_dig_same rs g tg tg' d : GcInv (mkGc rs g tg) -> In (d_node d) bl -> In (d_node d) g ->
      GcInv (mkGc (res_tag (strip d) (RDig (d_node d)) rs) g tg').
    Proof.
      intros [I V G] B Ig. cbn [r_index g_res g_gr g_tagged res_tag] in *. split; cbn [r_index g_res g_gr g_tagged res_tag]; try exact G.
      - apply (ixinv_set_dig _ (strip d)). exact I.
      - intros r d' L. rewrite lookup_rset in L. destruct (ref_eqb r (RDig (d_node d))).
        + injection L as <-. simpl. split; assumption.
        + eapply V; eassumption.
    Qed.
    Lemma gcinv_tag rs g tg tg' d t : GcInv (mkGc rs g tg) ->
      lookup (RDig (d_node d)) (r_index rs) <> None -> In (d_node d) bl -> In (d_node d) g ->
      GcInv (mkGc (res_tag d (RTag t) rs) g tg').
    Proof.
      intros [I V G] L B Ig. cbn [r_index g_res g_gr g_tagged res_tag] in *. split; cbn [r_index g_res g_gr g_tagged res_tag]; try exact G.
      - now apply ixinv_set_tag.
      - intros r d' L'. rewrite lookup_rset in L'. destruct (ref_eqb r (RTag t)).
        + injection L' as <-. split; assumption.
        + eapply V; eassumption.
    Qed.

    Lemma pass1_inv l : forall a, (forall kv, In kv l -> In kv ix) -> GcInv a -> GcInv (gc_pass1 bl l a).
    Proof.
      induction l as [|[r d] l IH]; intros a Hl Ga; simpl; auto.
      apply IH; [intros kv I; apply Hl; now right|].
      simpl. destruct (is_digest_ref r d) eqn:E; auto.
      assert (I : In (r, d) ix) by (apply Hl; now left).
      destruct (nondigest_is_tag _ _ _ (inv_ix _ _ _ H) I E) as (t & ->).
      destruct a as [rs g tg]. simpl.
      eapply gcinv_tag.
      - apply (gcinv_dig rs g tg tg); auto. eapply entry_present; eauto.
      - cbn [r_index res_tag]. rewrite lookup_rset_eq. congruence.
      - eapply entry_present; eauto.
      - apply index_all_root. intro. eapply entry_present; eauto.
    Qed.

    Lemma round_inv l : forall a b, (forall kv, In kv l -> In kv ix) -> GcInv a ->
      GcInv (fst (fold_left (fun ac kv =>
        let a := fst ac in let r := fst kv in let d := snd kv in
        if negb (is_digest_ref r d) || mem (d_node d) (g_tagged a) then ac
        else if chain_hits mf subj sk (S N) bl (g_gr a) (d_node d)
             then (mkGc (res_tag (strip d) (RDig (d_node d)) (g_res a))
                        (index_all bl (d_node d) (g_gr a)) (d_node d :: g_tagged a), true)
             else ac) l (a, b))).
    Proof.
      induction l as [|[r d] l IH]; intros a b Hl Ga; cbn [fold_left fst snd]; auto.
      assert (Hl' : forall kv, In kv l -> In kv ix) by (intros kv I; apply Hl; now right).
      destruct (negb (is_digest_ref r d) || mem (d_node d) (g_tagged a)); [now apply IH|].
      destruct (chain_hits mf subj sk (S N) bl (g_gr a) (d_node d)); [|now apply IH].
      apply IH; auto. destruct a as [rs g tg]. cbn [g_res g_gr g_tagged].
      apply (gcinv_dig rs g tg); auto. eapply entry_present. apply Hl. now left.
    Qed.

    Lemma rounds_inv fuel : forall os a, GcInv a -> GcInv (gc_rounds fuel bl ix os a).
    Proof.
      induction fuel as [|f IH]; intros os a Ga; simpl; auto.
      assert (G1 : GcInv (fst (gc_round bl (shuffle (hd [] os) ix) a))).
      { apply round_inv; auto. intros kv I. now apply In_shuffle in I. }
      destruct (snd (gc_round bl (shuffle (hd [] os) ix) a)); auto.
    Qed.

    Definition p3step (a : gcacc) (kv : ref * desc) : gcacc :=
      let r := fst kv in let d := snd kv in
      if is_digest_ref r d && mem (d_node d) (g_gr a) then
        match lookup r (r_index (g_res a)) with
        | None => mkGc (res_tag (strip d) r (g_res a)) (g_gr a) (g_tagged a)
        | Some _ => a
        end
      else a.

    Lemma p3step_gr a kv : g_gr (p3step a kv) = g_gr a.
    Proof.
      unfold p3step. destruct (_ && _); auto. destruct (lookup _ _); auto.
    Qed.
    Lemma p3step_mono a kv r' : lookup r' (r_index (g_res a)) <> None ->
      lookup r' (r_index (g_res (p3step a kv))) <> None.
    Proof.
      intro L. unfold p3step. destruct (_ && _); auto. destruct (lookup (fst kv) _); auto.
      cbn [r_index g_res res_tag]. rewrite lookup_rset. destruct (ref_eqb r' (fst kv)); congruence.
    Qed.
    Lemma p3step_hit a r d : is_digest_ref r d = true -> In (d_node d) (g_gr a) ->
      lookup r (r_index (g_res (p3step a (r, d)))) <> None.
    Proof.
      intros E I. unfold p3step. simpl. rewrite E. apply mem_In in I. rewrite I. simpl.
      destruct (lookup r (r_index (g_res a))) eqn:L; [congruence|].
      cbn [r_index g_res res_tag]. rewrite lookup_rset_eq. congruence.
    Qed.
    Lemma p3step_inv a kv : In kv ix -> GcInv a -> GcInv (p3step a kv).
    Proof.
      intros I Ga. destruct kv as [r d]. unfold p3step. simpl.
      destruct (is_digest_ref r d) eqn:E; simpl; auto.
      destruct (mem (d_node d) (g_gr a)) eqn:M; auto.
      destruct (lookup r (r_index (g_res a))); auto.
      apply digest_ref_inv in E. subst r. destruct a as [rs g tg]. simpl in *.
      apply (gcinv_dig_same rs g tg tg); auto; [eapply entry_present; eauto | now apply mem_In].
    Qed.

    Lemma pass3_eq l a : gc_pass3 l a = fold_left p3step l a.
    Proof. reflexivity. Qed.

    Lemma pass3_inv l : forall a, (forall kv, In kv l -> In kv ix) -> GcInv a ->
      GcInv (fold_left p3step l a) /\ g_gr (fold_left p3step l a) = g_gr a /\
      (forall r', lookup r' (r_index (g_res a)) <> None -> lookup r' (r_index (g_res (fold_left p3step l a))) <> None).
    Proof.
      induction l as [|kv l IH]; intros a Hl Ga; simpl; auto.
      destruct (IH (p3step a kv)) as (A & B & C).
      - intros x I. apply Hl. now right.
      - apply p3step_inv; auto. apply Hl. now left.
      - split; auto. split; [now rewrite B, p3step_gr|].
        intros r' L. apply C. now apply p3step_mono.
    Qed.
    Lemma pass3_hit l : forall a r d, (forall kv, In kv l -> In kv ix) -> GcInv a ->
      In (r, d) l -> is_digest_ref r d = true -> In (d_node d) (g_gr a) ->
      lookup r (r_index (g_res (fold_left p3step l a))) <> None.
    Proof.
      induction l as [|kv l IH]; intros a r d Hl Ga I E Ig; simpl in *; [tauto|].
      assert (Hl' : forall x, In x l -> In x ix) by (intros x Ix; apply Hl; now right).
      assert (Ga' : GcInv (p3step a kv)) by (apply p3step_inv; auto).
      destruct I as [->|I].
      - apply (pass3_inv l (p3step a (r, d)) Hl' Ga'). now apply p3step_hit.
      - eapply IH; eauto. now rewrite p3step_gr.
    Qed.
  End GC.

  Lemma gc_good cfg o s : Good cfg s -> Good cfg (fst (st_gc cfg o s)).
  Proof.
    intros G. unfold OciIndex.st_gc.
    set (a1 := gc_pass1 (blobs s) (shuffle (o_gc1 o) (r_index (res s))) (mkGc res_empty [] [])).
    unfold gc_pass2. set (a2 := gc_rounds (S (length (r_index (res s)))) (blobs s) (r_index (res s)) (o_gc2 o) a1).
    destruct G as [H S]. pose proof H as H0. unfold Inv, idx in H0.
    assert (G0 : GcInv (blobs s) (mkGc res_empty [] [])).
    { split; simpl.
      - split; simpl; [constructor| |]; intros ? ? X; discriminate.
      - intros ? ? X; discriminate.
      - intros ? []. }
    assert (G1 : GcInv (blobs s) a1).
    { apply (pass1_inv _ _ _ H0); auto. intros kv I. now apply In_shuffle in I. }
    assert (G2 : GcInv (blobs s) a2).
    { apply (rounds_inv _ _ _ H0); auto. }
    rewrite pass3_eq.
    destruct (pass3_inv _ _ _ H0 (r_index (res s)) a2 (fun kv I => I) G2) as (G3 & Eg & Mono).
    set (a3 := fold_left p3step (r_index (res s)) a2) in *.
    assert (I3 : forall dk, Inv (mkStore (filter (fun k => mem k (g_gr a3)) (blobs s)) (g_res a3) (g_gr a3) dk)).
    { intro dk. unfold Inv, idx. simpl. split.
      - apply G3.
      - intros r d L. apply (gi_val _ _ G3) in L as [L1 L2]. apply filter_In. split; auto. now apply mem_In.
      - intros k Mk Ik. apply filter_In in Ik as [Ik Ig]. apply mem_In in Ig.
        pose proof (inv_k _ _ _ H0 _ Mk Ik) as X.
        destruct (lookup (RDig k) (r_index (res s))) as [d|] eqn:L; [|congruence].
        pose proof (ix_j2 _ (inv_ix _ _ _ H0) _ _ L) as Ek.
        apply (pass3_hit _ _ _ H0 (r_index (res s)) a2 (RDig k) d (fun kv I => I) G2).
        + now apply lookup_Some_In.
        + apply digest_ref_inv. congruence.
        + rewrite Ek. unfold a3 in Eg. rewrite <- Eg. exact Ig.
      - intros k Mk Ik. apply filter_In. split; [|now apply mem_In]. eapply gi_gr; eauto.
      - intros k Mk Ik. apply filter_In in Ik as [_ Ik]. now apply mem_In. }
    unfold maybe_save, do_save. destruct (autosave cfg) eqn:A; simpl.
    - split; [apply I3|]. intros _. unfold Synced, idx. simpl. apply save_diskok. apply G3.
    - split; [apply I3|]. intro X; congruence.
  Qed.

  (* ----- what GC keeps ----- *)
  Lemma res_tag_keeps d r m r' : lookup r' (r_index m) <> None -> lookup r' (r_index (res_tag d r m)) <> None.
  Proof.
    intro H. unfold res_tag. cbn [r_index]. rewrite lookup_rset. destruct (ref_eqb r' r); congruence.
  Qed.

  Lemma pass1_keeps bl l : forall a r', lookup r' (r_index (g_res a)) <> None ->
    lookup r' (r_index (g_res (gc_pass1 bl l a))) <> None.
  Proof.
    induction l as [|[r d] l IH]; intros a r' H; simpl; auto.
    apply IH. cbn [fst snd]. destruct (is_digest_ref r d); auto.
    cbn [g_res]. apply res_tag_keeps. now apply res_tag_keeps.
  Qed.
  Lemma pass1_hits bl l : forall a r d, In (r, d) l -> is_digest_ref r d = false ->
    lookup r (r_index (g_res (gc_pass1 bl l a))) <> None.
  Proof.
    induction l as [|[r0 d0] l IH]; intros a r d I E; simpl in I; [tauto|].
    destruct I as [X|I].
    - injection X as -> ->. simpl. apply pass1_keeps. cbn [fst snd]. rewrite E. cbn [g_res].
      unfold res_tag at 1. cbn [r_index]. rewrite lookup_rset_eq. congruence.
    - simpl. now apply (IH _ r d).
  Qed.
  Lemma round_keeps bl l : forall ac r', lookup r' (r_index (g_res (fst ac))) <> None ->
    lookup r' (r_index (g_res (fst (fold_left (fun ac kv =>
        let a := fst ac in let r := fst kv in let d := snd kv in
        if negb (is_digest_ref r d) || mem (d_node d) (g_tagged a) then ac
        else if chain_hits mf subj sk (S N) bl (g_gr a) (d_node d)
             then (mkGc (res_tag (strip d) (RDig (d_node d)) (g_res a))
                        (index_all bl (d_node d) (g_gr a)) (d_node d :: g_tagged a), true)
             else ac) l ac)))) <> None.
  Proof.
    induction l as [|[r d] l IH]; intros ac r' H; cbn [fold_left]; auto.
    apply IH. cbn [fst snd].
    destruct (negb (is_digest_ref r d) || mem (d_node d) (g_tagged (fst ac))); auto.
    destruct (chain_hits mf subj sk (S N) bl (g_gr (fst ac)) (d_node d)); auto.
    cbn [fst g_res]. now apply res_tag_keeps.
  Qed.
  Lemma rounds_keeps bl m fuel : forall os a r', lookup r' (r_index (g_res a)) <> None ->
    lookup r' (r_index (g_res (gc_rounds fuel bl m os a))) <> None.
  Proof.
    induction fuel as [|f IH]; intros os a r' H; cbn [OciIndex.gc_rounds]; auto.
    assert (X : lookup r' (r_index (g_res (fst (gc_round bl (shuffle (hd [] os) m) a)))) <> None)
      by (unfold OciIndex.gc_round; now apply round_keeps).
    destruct (snd (gc_round bl (shuffle (hd [] os) m) a)); auto.
  Qed.

  (* every reference of the rebuilt resolver comes from an old reference to the same node *)
  Definition src_ok (ix : rmap) (m : resolver) : Prop :=
    forall r d, lookup r (r_index m) = Some d -> exists d0, lookup r ix = Some d0 /\ d_node d0 = d_node d.

  Lemma src_tag ix m d r : src_ok ix m -> (exists d0, lookup r ix = Some d0 /\ d_node d0 = d_node d) ->
    src_ok ix (res_tag d r m).
  Proof.
    intros S E r' d' L. unfold res_tag in L. cbn [r_index] in L. rewrite lookup_rset in L.
    destruct (ref_eqb r' r) eqn:Er; [|now apply S].
    apply ref_eqb_eq in Er. subst r'. injection L as <-. exact E.
  Qed.

  Lemma entry_sources ix r d : IxInv ix -> In (r, d) ix ->
    (exists d0, lookup r ix = Some d0 /\ d_node d0 = d_node d) /\
    (exists d0, lookup (RDig (d_node d)) ix = Some d0 /\ d_node d0 = d_node (strip d)).
  Proof.
    intros I Hin. pose proof (In_lookup _ _ _ (ix_nd _ I) Hin) as L. split; [eauto|].
    destruct r as [t|k].
    - pose proof (ix_j1 _ I _ _ L) as X. destruct (lookup (RDig (d_node d)) ix) as [d1|] eqn:L1; [|congruence].
      exists d1. split; auto. now apply (ix_j2 _ I) in L1.
    - pose proof (ix_j2 _ I _ _ L) as E. subst k. eauto.
  Qed.

  Lemma pass1_src ix bl l : IxInv ix -> forall a, (forall kv, In kv l -> In kv ix) -> src_ok ix (g_res a) ->
    src_ok ix (g_res (gc_pass1 bl l a)).
  Proof.
    intros I. induction l as [|[r d] l IH]; intros a Hl Sr; simpl; auto.
    apply IH; [intros kv X; apply Hl; now right|]. cbn [fst snd].
    destruct (is_digest_ref r d); auto. cbn [g_res].
    destruct (entry_sources ix r d I (Hl _ (or_introl eq_refl))) as [E1 E2].
    apply src_tag; auto. now apply src_tag.
  Qed.
  Lemma round_src ix bl l : IxInv ix -> forall ac, (forall kv, In kv l -> In kv ix) -> src_ok ix (g_res (fst ac)) ->
    src_ok ix (g_res (fst (fold_left (fun ac kv =>
        let a := fst ac in let r := fst kv in let d := snd kv in
        if negb (is_digest_ref r d) || mem (d_node d) (g_tagged a) then ac
        else if chain_hits mf subj sk (S N) bl (g_gr a) (d_node d)
             then (mkGc (res_tag (strip d) (RDig (d_node d)) (g_res a))
                        (index_all bl (d_node d) (g_gr a)) (d_node d :: g_tagged a), true)
             else ac) l ac))).
  Proof.
    intros I. induction l as [|[r d] l IH]; intros ac Hl Sr; cbn [fold_left]; auto.
    apply IH; [intros kv X; apply Hl; now right|]. cbn [fst snd].
    destruct (negb (is_digest_ref r d) || mem (d_node d) (g_tagged (fst ac))); auto.
    destruct (chain_hits mf subj sk (S N) bl (g_gr (fst ac)) (d_node d)); auto.
    cbn [fst g_res]. destruct (entry_sources ix r d I (Hl _ (or_introl eq_refl))) as [_ E2]. now apply src_tag.
  Qed.
  Lemma rounds_src ix bl fuel : IxInv ix -> forall os a, src_ok ix (g_res a) ->
    src_ok ix (g_res (gc_rounds fuel bl ix os a)).
  Proof.
    intros I. induction fuel as [|f IH]; intros os a Sr; cbn [OciIndex.gc_rounds]; auto.
    assert (X : src_ok ix (g_res (fst (gc_round bl (shuffle (hd [] os) ix) a)))).
    { unfold OciIndex.gc_round. apply round_src; auto. intros kv Hin. now apply In_shuffle in Hin. }
    destruct (snd (gc_round bl (shuffle (hd [] os) ix) a)); auto.
  Qed.
  Lemma pass3_src ix l : IxInv ix -> forall a, (forall kv, In kv l -> In kv ix) -> src_ok ix (g_res a) ->
    src_ok ix (g_res (gc_pass3 l a)).
  Proof.
    intros I. induction l as [|[r d] l IH]; intros a Hl Sr; simpl; auto.
    apply IH; [intros kv X; apply Hl; now right|]. cbn [fst snd].
    destruct (is_digest_ref r d && mem (d_node d) (g_gr a)); auto.
    destruct (lookup r (r_index (g_res a))); auto. cbn [g_res].
    destruct (entry_sources ix r d I (Hl _ (or_introl eq_refl))) as [(d0 & L0 & E0) _].
    apply src_tag; auto. exists d0. auto.
  Qed.

  (* GC as one operation: exactly the blob files of the rebuilt graph stay; every reference that is
     left names a node of that graph; every reference whose node is in that graph is still there
     (all tags: their nodes are roots of the graph) - i.e. GC is the abstract "keep the nodes of the
     graph" step of Model/OciLocks.v with keep = the rebuilt graph *)
  Theorem gc_effect cfg o s : Inv s -> snd (st_gc cfg o s) = ROk ->
    let s' := fst (st_gc cfg o s) in
    blobs s' = filter (fun k => mem k (gr s')) (blobs s) /\
    (forall r d, lookup r (idx s') = Some d -> In (d_node d) (gr s')) /\
    (forall t d, lookup (RTag t) (idx s) = Some d -> lookup (RTag t) (idx s') <> None) /\
    (forall k, lookup (RDig k) (idx s) <> None -> In k (gr s') -> lookup (RDig k) (idx s') <> None) /\
    (forall r d, lookup r (idx s') = Some d -> exists d0, lookup r (idx s) = Some d0 /\ d_node d0 = d_node d).
  Proof.
    intros H. unfold OciIndex.st_gc.
    set (a1 := gc_pass1 (blobs s) (shuffle (o_gc1 o) (r_index (res s))) (mkGc res_empty [] [])).
    unfold gc_pass2. set (a2 := gc_rounds (S (length (r_index (res s)))) (blobs s) (r_index (res s)) (o_gc2 o) a1).
    pose proof H as H0. unfold Inv, idx in H0.
    assert (G0 : GcInv (blobs s) (mkGc res_empty [] [])).
    { split; simpl.
      - split; simpl; [constructor| |]; intros ? ? X; discriminate.
      - intros ? ? X; discriminate.
      - intros ? []. }
    assert (G1 : GcInv (blobs s) a1).
    { apply (pass1_inv _ _ _ H0); auto. intros kv I. now apply In_shuffle in I. }
    assert (G2 : GcInv (blobs s) a2).
    { apply (rounds_inv _ _ _ H0); auto. }
    rewrite pass3_eq.
    destruct (pass3_inv _ _ _ H0 (r_index (res s)) a2 (fun kv I => I) G2) as (G3 & Eg & Mono).
    set (a3 := fold_left p3step (r_index (res s)) a2) in *.
    assert (Src : src_ok (r_index (res s)) (g_res a3)).
    { pose proof (inv_ix _ _ _ H0) as I. unfold a3. rewrite <- pass3_eq. apply pass3_src; auto.
      unfold a2. apply rounds_src; auto. unfold a1. apply pass1_src; auto.
      - intros kv X. now apply In_shuffle in X.
      - intros r d X. discriminate. }
    intros _. unfold maybe_save, do_save, idx. destruct (autosave cfg); cbn [fst blobs res gr disk];
      (split; [reflexivity|split; [|split; [|split; [|exact Src]]]]).
    1,4: intros r d L; now apply (gi_val _ _ G3) in L as [_ L2].
    1,3: intros t d L; apply Mono; unfold a2; apply rounds_keeps; unfold a1;
         apply (pass1_hits _ _ _ (RTag t) d); [apply In_shuffle; now apply lookup_Some_In|reflexivity].
    1,2: intros k L Ik; destruct (lookup (RDig k) (r_index (res s))) as [d|] eqn:Ld; [|congruence];
         pose proof (ix_j2 _ (inv_ix _ _ _ H0) _ _ Ld) as Ek;
         apply (pass3_hit _ _ _ H0 (r_index (res s)) a2 (RDig k) d (fun kv I => I) G2);
         [now apply lookup_Some_In | apply digest_ref_inv; congruence | rewrite Ek; unfold a3 in Eg; rewrite <- Eg; exact Ik].
  Qed.

  (* ----- reopening ----- *)
  Lemma reopen_good s : Inv s -> Synced s -> Inv (reopen s) /\ Synced (reopen s).
  Proof.
    intros H S. unfold OciIndex.reopen, load_index. rewrite load_split. simpl.
    pose proof H as H0. unfold Inv, idx in H0. unfold Synced, idx in S.
    pose proof (inv_ix _ _ _ H0) as I.
    split.
    - unfold Inv, idx. simpl. split.
      + now apply (reload_inv (disk s) (r_index (res s))).
      + intros r d L. destruct r as [t|k].
        * rewrite (reload_tag _ _ S) in L.
          destruct (lookup (RTag t) (r_index (res s))) as [d0|] eqn:L0; [|discriminate].
          injection L as <-. simpl. eapply inv_i4; eauto.
        * pose proof (reload_j2 _ _ S _ _ L) as Ek.
          assert (X : lookup (RDig k) (r_index (res s)) <> None).
          { apply (reload_dig _ _ S). congruence. }
          destruct (lookup (RDig k) (r_index (res s))) as [d0|] eqn:L0; [|congruence].
          pose proof (ix_j2 _ I _ _ L0) as E0. rewrite Ek, <- E0. eapply inv_i4; eauto.
      + intros k Mk Ik. apply (reload_dig _ _ S). eapply inv_k; eauto.
      + intros k Mk Ik. apply (load_gr_present (blobs s) (disk s) []) in Ik; auto. intros ? [].
      + intros k Mk Ik. pose proof (inv_k _ _ _ H0 _ Mk Ik) as X.
        apply (dk4 _ _ S) in X as (e & Ie & <-). apply load_gr_root; auto.
    - unfold Synced, idx. simpl. exact (reload_diskok _ _ S).
  Qed.

  (* ----- every step, every history ----- *)
  Lemma step_good cfg s oo :
    Good cfg s -> wf_op (fst oo) -> (autosave cfg = true \/ fst oo <> OReopen) ->
    Good cfg (fst (step cfg s oo)).
  Proof.
    intros G W R. destruct oo as [o ord]. destruct o; simpl in *.
    - now apply push_good.
    - now apply push_desc_good.
    - now apply tagop_good.
    - now apply untag_good.
    - unfold OciIndex.st_delete. now apply delete_loop_good.
    - now apply gc_good.
    - destruct G as [H S]. split; [exact H|]. intros _. unfold Synced, idx. simpl. apply save_diskok. apply H.
    - destruct R as [A|R]; [|congruence]. destruct G as [H S].
      destruct (reopen_good s H (S A)) as [H' S']. split; auto.
    - exact G.
    - destruct (mem k (blobs s)); [exact G|]. simpl.
      apply (good_same cfg s); [exact G| |reflexivity|reflexivity].
      destruct G as [H _]. unfold Inv, idx in *. simpl. split.
      + apply H.
      + intros r d L. right. eapply inv_i4; eauto.
      + intros k' Mk [<-|I]; [congruence|]. eapply inv_k; eauto.
      + intros k' Mk I. right. eapply inv_g2a; eauto.
      + intros k' Mk [<-|I]; [congruence|]. eapply inv_g2b; eauto.
  Qed.

  Lemma good_cfg cfg cfg' s : autosave cfg' = autosave cfg -> Good cfg s -> Good cfg' s.
  Proof. intros E [H S]. split; auto. rewrite E. exact S. Qed.
  Lemma next_cfg_autosave cfg o : autosave (next_cfg cfg o) = autosave cfg.
  Proof. destruct o; reflexivity. Qed.

  Lemma run_good h : forall cfg s,
    Good cfg s -> wf_history h -> (autosave cfg = true \/ no_reopen h) -> Good cfg (run cfg h s).
  Proof.
    induction h as [|oo h IH]; intros cfg s G W R; simpl; auto.
    inversion W as [|? ? W1 W2]; subst.
    apply (good_cfg (next_cfg cfg (fst oo))); [symmetry; apply next_cfg_autosave|].
    apply IH; auto.
    - apply (good_cfg cfg); [apply next_cfg_autosave|].
      apply step_good; auto. destruct R as [A|R]; auto. right. now inversion R.
    - rewrite next_cfg_autosave. destruct R as [A|R]; auto. right. now inversion R.
  Qed.

  Lemma run_app h : forall cfg s x,
    exists cfg', autosave cfg' = autosave cfg /\ run cfg (h ++ [x]) s = fst (step cfg' (run cfg h s) x).
  Proof.
    induction h as [|oo h IH]; intros cfg s x; simpl.
    - exists cfg. auto.
    - destruct (IH (next_cfg cfg (fst oo)) (fst (step cfg s oo)) x) as (c & E & Hc).
      exists c. split; auto. now rewrite E, next_cfg_autosave.
  Qed.

  Lemma good_empty cfg : Good cfg store_empty.
  Proof. split; [apply inv_empty | intros _; apply synced_empty]. Qed.

  (* ----- the reopened store is observationally equal ----- *)
  Hypothesis succs_blob : forall k, mf k = false -> succs k = [].

  Lemma mem_iff_eq x a b : (In x a <-> In x b) -> mem x a = mem x b.
  Proof.
    intro H. destruct (mem x a) eqn:A; destruct (mem x b) eqn:B; auto.
    - apply mem_In in A. apply H in A. apply mem_In in A. congruence.
    - apply mem_In in B. apply H in B. apply mem_In in B. congruence.
  Qed.

  Lemma reopen_equiv T s : Inv s -> Synced s -> obs_equiv T (reopen s) s.
  Proof.
    intros H S. destruct (reopen_good s H S) as [H' S'].
    pose proof H as H0. unfold Inv, idx in H0. unfold Synced, idx in S.
    pose proof (inv_ix _ _ _ H0) as I.
    assert (Ei : r_index (res (reopen s)) = r_index (fold_left load_res (disk s) res_empty)).
    { unfold OciIndex.reopen, load_index. rewrite load_split. reflexivity. }
    assert (Eb : blobs (reopen s) = blobs s) by reflexivity.
    split.
    - unfold obs_tags. apply filter_ext. intro t. rewrite Ei, (reload_tag _ _ S).
      destruct (lookup (RTag t) (r_index (res s))); reflexivity.
    - intro f. unfold obs_tags_from. f_equal.
      unfold obs_tags. apply filter_ext. intro t. rewrite Ei, (reload_tag _ _ S).
      destruct (lookup (RTag t) (r_index (res s))); reflexivity.
    - intro t. unfold obs_resolve_tag. rewrite Ei, (reload_tag _ _ S).
      destruct (lookup (RTag t) (r_index (res s))) as [d|]; simpl; auto.
      unfold desc_eqb_mod. simpl. now rewrite !Nat.eqb_refl.
    - intro k. unfold obs_resolve_dig. rewrite Eb, Ei.
      pose proof (reload_dig _ _ S k) as X. pose proof (reload_j2 _ _ S k) as J.
      destruct (lookup (RDig k) (r_index (fold_left load_res (disk s) res_empty))) as [d'|] eqn:L';
        destruct (lookup (RDig k) (r_index (res s))) as [d|] eqn:L.
      + rewrite (J _ eq_refl), (ix_j2 _ I _ _ L), Nat.eqb_refl. reflexivity.
      + exfalso. destruct X as [X1 X2]. apply X1; congruence.
      + exfalso. destruct X as [X1 X2]. apply X2; congruence.
      + reflexivity.
    - intro k. reflexivity.
    - intro k. unfold obs_preds, predecessors. apply filter_ext. intro p.
      destruct (mf p) eqn:Mp.
      + f_equal. apply mem_iff_eq. split; intro X.
        * eapply inv_g2b; [exact H|exact Mp|]. eapply inv_g2a in X; [|exact H'|exact Mp]. exact X.
        * eapply inv_g2b; [exact H'|exact Mp|]. eapply inv_g2a in X; [|exact H|exact Mp]. exact X.
      + rewrite (succs_blob _ Mp). simpl. now rewrite !andb_false_r.
  Qed.

  Lemma disk_valid_inv s : Inv s -> Synced s -> disk_valid s = true.
  Proof.
    intros H S. unfold disk_valid. apply forallb_forall. intros e Ie. apply mem_In.
    pose proof (dk3 _ _ S _ Ie) as X. unfold idx in X.
    destruct (lookup (RDig (d_node e)) (r_index (res s))) as [d|] eqn:L; [|congruence].
    rewrite <- (ix_j2 _ (inv_ix _ _ _ H) _ _ L). eapply inv_i4; [exact H|exact L].
  Qed.

  (* AutoSaveIndex on: after every history (read-write reopening included) *)
  Theorem reopen_equiv_autosave T cfg h :
    autosave cfg = true -> wf_history h ->
    let s := run cfg h store_empty in
    obs_equiv T (reopen s) s /\ disk_valid s = true.
  Proof.
    intros A W s. destruct (run_good h cfg store_empty (good_empty cfg) W (or_introl A)) as [H S].
    split; [apply reopen_equiv | apply disk_valid_inv]; auto.
  Qed.

  (* AutoSaveIndex off (or on): any history without reopening, followed by SaveIndex *)
  Theorem reopen_equiv_saveindex T cfg h o :
    wf_history h -> no_reopen h ->
    let s := run cfg (h ++ [(OSave, o)]) store_empty in
    obs_equiv T (reopen s) s /\ disk_valid s = true.
  Proof.
    intros W R s.
    destruct (run_good h cfg store_empty (good_empty cfg) W (or_intror R)) as [H _].
    assert (E : s = do_save o (run cfg h store_empty)).
    { unfold s. destruct (run_app h cfg store_empty (OSave, o)) as (c & _ & ->). reflexivity. }
    assert (H' : Inv s) by (rewrite E; exact H).
    assert (S' : Synced s).
    { rewrite E. unfold Synced, idx. simpl. apply save_diskok. apply H. }
    split; [apply reopen_equiv | apply disk_valid_inv]; auto.
  Qed.

  (* any AutoSaveIndex setting: read-write reopens only right after SaveIndex *)
  Definition Good2 (cfg : config) (b : bool) (s : store) :=
    Inv s /\ (autosave cfg = true \/ b = true -> Synced s).
  Definition saved_after (o : op) : bool := match o with OSave | OReopen => true | _ => false end.

  Lemma step_good2 cfg b s oo :
    Good2 cfg b s -> wf_op (fst oo) -> (fst oo = OReopen -> b = true) ->
    Good2 cfg (saved_after (fst oo)) (fst (step cfg s oo)).
  Proof.
    intros [H S] W R.
    assert (G : Good cfg s) by (split; auto).
    destruct oo as [o ord]. simpl in W, R. simpl fst at 1.
    assert (X : o <> OReopen -> o <> OSave -> Good2 cfg (saved_after o) (fst (step cfg s (o, ord)))).
    { intros N1 N2.
      assert (G' : Good cfg (fst (step cfg s (o, ord)))) by (apply step_good; auto).
      destruct G' as [H' S']. split; auto. intros [A|A]; auto.
      destruct o; simpl in A; try discriminate; congruence. }
    destruct o; try (apply X; discriminate).
    - simpl. split; [exact H|]. intros _. unfold Synced, idx. simpl. apply save_diskok. apply H.
    - simpl. destruct (reopen_good s H (S (or_intror (R eq_refl)))) as [H' S']. split; auto.
  Qed.

  Lemma run_good2 h : forall cfg b s,
    Good2 cfg b s -> wf_history h -> reopen_after_save b h -> Inv (run cfg h s).
  Proof.
    induction h as [|oo h IH]; intros cfg b s G W R; simpl; [apply G|].
    inversion W as [|? ? W1 W2]; subst.
    apply (IH (next_cfg cfg (fst oo)) (saved_after (fst oo))); auto.
    - assert (G' : Good2 cfg (saved_after (fst oo)) (fst (step cfg s oo))).
      { apply (step_good2 cfg b); auto. intro E. simpl in R. rewrite E in R. apply R. }
      destruct G' as [H' S']. split; auto. now rewrite next_cfg_autosave.
    - simpl in R. destruct (fst oo); simpl; try exact R. apply R.
  Qed.

  Theorem reopen_equiv_saveindex_general T cfg h o :
    wf_history h -> reopen_after_save true h ->
    let s := run cfg (h ++ [(OSave, o)]) store_empty in
    obs_equiv T (reopen s) s /\ disk_valid s = true.
  Proof.
    intros W R s.
    assert (H : Inv (run cfg h store_empty)).
    { apply (run_good2 h cfg true); auto. split; [apply inv_empty | intros _; apply synced_empty]. }
    assert (E : s = do_save o (run cfg h store_empty)).
    { unfold s. destruct (run_app h cfg store_empty (OSave, o)) as (c & _ & ->). reflexivity. }
    assert (H' : Inv s) by (rewrite E; exact H).
    assert (S' : Synced s).
    { rewrite E. unfold Synced, idx. simpl. apply save_diskok. apply H. }
    split; [apply reopen_equiv | apply disk_valid_inv]; auto.
  Qed.

  (* GC after any history: exactly the blobs of the rebuilt graph stay, the references left name its
     nodes, no tag and no digest reference of a kept node is lost *)
  Theorem gc_effect_history cfg h o :
    wf_history h -> (autosave cfg = true \/ no_reopen h) ->
    let s := run cfg h store_empty in
    snd (st_gc cfg o s) = ROk ->
    let s' := fst (st_gc cfg o s) in
    blobs s' = filter (fun k => mem k (gr s')) (blobs s) /\
    (forall r d, lookup r (r_index (res s')) = Some d -> In (d_node d) (gr s')) /\
    (forall t d, lookup (RTag t) (r_index (res s)) = Some d -> lookup (RTag t) (r_index (res s')) <> None) /\
    (forall k, lookup (RDig k) (r_index (res s)) <> None -> In k (gr s') -> lookup (RDig k) (r_index (res s')) <> None) /\
    (forall r d, lookup r (r_index (res s')) = Some d -> exists d0, lookup r (r_index (res s)) = Some d0 /\ d_node d0 = d_node d).
  Proof.
    intros W R s E. destruct (run_good h cfg store_empty (good_empty cfg) W R) as [H _].
    exact (gc_effect cfg o s H E).
  Qed.

  (* the representation facts other properties rely on (C07: the reloaded graph is the live graph) *)
  Theorem store_invariant cfg h :
    wf_history h -> (autosave cfg = true \/ no_reopen h) ->
    let s := run cfg h store_empty in
    (forall k, mf k = true -> In k (blobs s) -> lookup (RDig k) (r_index (res s)) <> None /\ In k (gr s)) /\
    (forall k, mf k = true -> In k (gr s) -> In k (blobs s)) /\
    (forall r d, lookup r (r_index (res s)) = Some d -> In (d_node d) (blobs s)).
  Proof.
    intros W R s. destruct (run_good h cfg store_empty (good_empty cfg) W R) as [H _].
    split; [|split].
    - intros k Mk Ik. split; [eapply inv_k | eapply inv_g2b]; eauto.
    - intros k Mk Ik. eapply inv_g2a; eauto.
    - intros r d L. eapply inv_i4; eauto.
  Qed.
End Univ.

(* ---------- the code as found: witnesses ---------- *)
Definition ex_cfg := mkCfg true false.
Definition ex_plain_hist (l : list op) : list (op * orders) := map (fun o => (o, ord0)) l.

(* F2: GC without saving index.json.  One manifest, pushed, never tagged, collected. *)
Lemma refuted_gc_not_saved :
  exists (N : nat) (mf : nat -> bool) (succs : nat -> list nat) (subj : nat -> option nat)
         (sk dflt : nat -> bool) (cfg : config) (h : list (op * orders)),
    autosave cfg = true /\ wf_history mf h /\
    let s := run N mf succs subj sk (fun _ => false) false true true true true cfg h store_empty in
    obs_resolve_dig dflt (reopen N mf succs s) 0 <> obs_resolve_dig dflt s 0 /\ disk_valid s = false.
Proof.
  exists 1, (fun _ => true), (fun _ => []), (fun _ => None), (fun _ => false), (fun _ => false),
    ex_cfg, (ex_plain_hist [OPush 0; OGC]).
  split; [reflexivity|]. split; [repeat constructor|].
  vm_compute. split; [discriminate|reflexivity].
Qed.

(* GC drops the digest reference of a kept child manifest (node 1, listed by the tagged
   index 2); after Delete of the index (AutoGC off) the reopened store no longer indexes it. *)
Definition ex_mf (k : nat) := match k with 1 | 2 => true | _ => false end.
Definition ex_succs (k : nat) := match k with 1 => [0] | 2 => [1] | _ => [] end.
(* Without fixA, GC drops the digest reference of the kept child: Resolve by digest degrades to
   the generic blob descriptor.  (Since Delete gives a manifest that loses its last predecessor
   a digest reference again, this no longer leads to a reopen difference; the history
   Push 1; Push 2; Tag 2; GC; Delete 2 of corpus/C08/gc-orphan-digest-ref.json was one before.) *)
Lemma gc_digest_ref_effect :
  let h := ex_plain_hist [OPush 1; OPush 2; OTag (plain 2) (RTag 0); OGC] in
  let run' := fun fixA => run 3 ex_mf ex_succs (fun _ => None) (fun _ => true) (fun _ => false)
                              true fixA true true true ex_cfg h store_empty in
  obs_resolve_dig (fun _ => false) (run' false) 1 = DBlob 1 /\
  obs_resolve_dig (fun _ => false) (run' true) 1 = DPlain 1.
Proof. vm_compute. split; reflexivity. Qed.

(* the hypotheses are satisfiable by a non-trivial history; the repaired model on the same
   histories *)
Definition ex_hist : list (op * orders) :=
  [ (OPush 0, ord0); (OPush 1, ord0); (OPush 2, ord0);
    (OTag (mkDesc 2 1 (Some (RTag 5))) (RTag 0), mkOrd [1;0] [2] [] [] []);
    (OTag (plain 1) (RTag 1), ord0); (OTag (mkDesc 1 2 None) (RTag 0), ord0);
    (OTag (plain 0) (RDig 0), ord0);
    (OUntag (RTag 1), mkOrd [3;1] [0;2] [] [] []); (OGC, mkOrd [] [1] [2;1] [[1;1;0]; [2]] []);
    (ODelete 2, mkOrd [1] [] [] [] [([1], [2;0])]); (OReopen, ord0); (OPush 2, ord0) ].
Lemma example_history :
  wf_history ex_mf ex_hist /\ (forall k, ex_mf k = false -> ex_succs k = []) /\
  let s := run 3 ex_mf ex_succs (fun _ => None) (fun _ => true) (fun _ => false) true true true true true ex_cfg ex_hist store_empty in
  obs_tags 3 s = [0] /\ obs_resolve_tag s 0 = Some (mkDesc 1 2 (Some (RTag 0))) /\
  obs_preds 3 ex_succs s 1 = [2] /\ obs_preds 3 ex_succs s 0 = [1] /\
  obs_preds 3 ex_succs (reopen 3 ex_mf ex_succs s) 0 = [1] /\ disk_valid s = true.
Proof.
  split; [repeat constructor|]. split.
  - intros [|[|[|k]]]; simpl; intro; try discriminate; reflexivity.
  - vm_compute. repeat split.
Qed.
Lemma example_repaired :
  let s := run 3 ex_mf ex_succs (fun _ => None) (fun _ => true) (fun _ => false) true true true true true ex_cfg
             (ex_plain_hist [OPush 1; OPush 2; OTag (plain 2) (RTag 0); OGC; ODelete 2]) store_empty in
  obs_preds 3 ex_succs (reopen 3 ex_mf ex_succs s) 0 = [1] /\ obs_preds 3 ex_succs s 0 = [1].
Proof. vm_compute. split; reflexivity. Qed.

(* The code as found accepts a reference that is the digest string of OTHER stored content
   (validateReference only refuses ""): Tag(m1, digest(m2)) replaces m2's digest entry, the
   reopened store no longer indexes m2 (Predecessors of its layer differ; a later GC would
   collect it).  The repaired Tag refuses it. *)
Definition ex2_mf (k : nat) := match k with 1 | 2 => true | _ => false end.
Definition ex2_succs (k : nat) := match k with 2 => [0] | _ => [] end.
Lemma refuted_foreign_digest_reference :
  let h := ex_plain_hist [OPush 1; OPush 2; OTag (plain 1) (RDig 2)] in
  let run' := fun fixRef => run 3 ex2_mf ex2_succs (fun _ => None) (fun _ => true) (fun _ => false)
                                true true true true fixRef ex_cfg in
  (let s := run' false h store_empty in
   obs_preds 3 ex2_succs s 0 = [2] /\ obs_preds 3 ex2_succs (reopen 3 ex2_mf ex2_succs s) 0 = []) /\
  (let s := run' true (ex_plain_hist [OPush 1; OPush 2]) store_empty in
   snd (step 3 ex2_mf ex2_succs (fun _ => None) (fun _ => true) (fun _ => false) true true true true true
             ex_cfg s (OTag (plain 1) (RDig 2), ord0)) = RInvalidReference).
Proof. vm_compute. repeat split. Qed.

(* F1 (C09): with the referrer pass as found, GC never returns for an untagged manifest
   whose subject is not in the rebuilt graph; the repaired pass returns and collects it *)
Lemma prefix_gc_hangs :
  let mf := fun k => Nat.eqb k 1 in
  let succs := fun k : nat => if Nat.eqb k 1 then [0] else [] in
  let subj := fun k : nat => if Nat.eqb k 1 then Some 0 else None in
  let s1 := run 2 mf succs subj mf (fun _ => false) true true false true true ex_cfg (ex_plain_hist [OPush 1]) store_empty in
  snd (step 2 mf succs subj mf (fun _ => false) true true false true true ex_cfg s1 (OGC, ord0)) = RHang /\
  let r := step 2 mf succs subj mf (fun _ => false) true true true true true ex_cfg s1 (OGC, ord0) in
  snd r = ROk /\ obs_exists (fst r) 1 = false.
Proof. vm_compute. repeat split. Qed.
