From Coq Require Import List Arith Bool PeanoNat Lia Permutation.
From Oras Require Import Model.OciIndex.
Import ListNotations.

Lemma ref_eqb_refl r : ref_eqb r r = true.
Proof. destruct r; simpl; apply Nat.eqb_refl. Qed.
