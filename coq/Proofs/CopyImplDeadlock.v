(* CopyImplDeadlock: every reachable non-final state of the protocol LTS has an enabled protocol step
   (not a fault / cancellation choice of the environment). *)
From Coq Require Import List Arith Bool Lia Wf_nat.
From Oras Require Import Model.CopyImpl Proofs.CopyImplBase Proofs.CopyImplInv Proofs.CopyImplInv2 Proofs.CopyImplLive.
Import ListNotations.

Section Proofs.
Variable succ : nat -> list nat.
Variable K : nat.
Variable ext : bool.
Variable roots : list nat.
Hypothesis succ_dec : forall n m, In m (succ n) -> m < n.
Local Notation Reachable := (Reachable succ K ext roots).
Local Notation Inv1 := (Inv1 K).
Local Notation Inv2 := (Inv2 succ).
Local Notation fires := (fires succ).

Lemma fires_intro s l : progress_label l = true -> In l (candidates s) ->
  (exists s', step succ s l = Some s') -> fires s.
Proof.
  intros Hp Hc [s' Hs]. exists l, s'. split; auto. split; auto. eapply in_enabled; eauto.
Qed.

Definition simple_pc (p : pc) : bool :=
  match p with TSpawned | TTry | TExists | TFind | TEnd | TGo | TPush => true | _ => false end.

Ltac fire l t Hpc :=
  apply (fires_intro _ l); [ reflexivity | apply (cand_task _ t); [assumption | cbn; tauto] | cbn [step]; rewrite Hpc ].

Lemma simple_fires s t : t < ntasks s -> simple_pc (t_pc (tasks s t)) = true -> fires s.
Proof.
  intros Ht Hp. destruct (t_pc (tasks s t)) eqn:Hpc; try discriminate.
  - fire (LChildRun t) t Hpc. eexists; reflexivity.
  - fire (LTryCommit t) t Hpc. destruct (tracker s _); eexists; reflexivity.
  - fire (LExists t ExFalse) t Hpc. eexists; reflexivity.
  - fire (LFind t true) t Hpc. eexists; reflexivity.
  - fire (LEnd t) t Hpc. eexists; reflexivity.
  - fire (LGo t) t Hpc. eexists; reflexivity.
  - fire (LPush t true) t Hpc. eexists; reflexivity.
Qed.

Lemma task_fires s : Inv1 s -> Inv2 s -> Inv3 s ->
  forall r t, trank (tasks s t) <= r -> is_fin (t_pc (tasks s t)) = false ->
    (f_cancelled (frames s (t_frame (tasks s t))) = true \/ (failed s = false /\ 0 < free s)) -> fires s.
Proof.
  intros I1 I2 I3.
  pose proof I1 as I1'. pose proof I2 as I2'. pose proof I3 as I3'.
  destruct I1' as [Hwf Hperm Hmust Hmay].
  destruct I2' as [Hwff Hnf Htf Hunf Hingo Hpar Htop Hself Hanc Hrank Hwait].
  destruct I3' as [Hcf Hfw Hown Hkfn].
  induction r as [r IH] using lt_wf_ind. intros t Hr Hfin Hreg.
  assert (Ht : t < ntasks s) by (apply live_lt; auto).
  destruct (t_pc (tasks s t)) eqn:Hpc; try discriminate.
  1-6, 10: apply (simple_fires s t); auto; rewrite Hpc; reflexivity.
  - (* TInGo f *)
    destruct (Hingo t f Hpc) as [Hp Hret].
    assert (Hreg' : f_cancelled (frames s f) = true \/ failed s = false /\ 0 < free s).
    { destruct Hreg as [Hc|Hc]; auto. left. destruct (Hanc f t Hp) as [_ Hi]. auto. }
    destruct (f_pc (frames s f)) eqn:Hfpc; try discriminate.
    + apply (frame_dispatch_fires succ s f); auto. tauto.
    + destruct (frame_tasks_done s f) eqn:Hd.
      * apply (frame_wait_fires succ K s f); auto.
      * destruct (ftd_false s f Hd) as [c [Hc1 [Hc2 Hc3]]].
        destruct (Hrank f t Hp) as [_ Hrk]. specialize (Hrk c Hc2).
        apply (IH (trank (tasks s c))) with (t := c); auto; try lia. rewrite Hc2. auto.
  - (* TWait *)
    destruct (Hwait t l Hpc) as [Hk [Hne Hsub]].
    destruct l as [|m rest]; [congruence|].
    destruct Hreg as [Hc|[Hfl Hfree]].
    + fire (LWaitCancel t) t Hpc. rewrite Hc. eexists; reflexivity.
    + destruct (tracker s m) eqn:Hm.
      * fire (LWaitDone t) t Hpc. rewrite Hm. eexists; reflexivity.
      * destruct (Hown Hfl m Hm) as [o [Ho1 [Ho2 Ho3]]].
        assert (Hlt : m < t_node (tasks s t)) by (apply succ_dec; apply Hsub; left; auto).
        apply (IH (trank (tasks s o))) with (t := o); auto.
        -- unfold trank, crank in *. rewrite Ho2, Ho1. rewrite Hk in Hr. lia.
        -- destruct (t_pc (tasks s o)); try discriminate; reflexivity.
      * fire (LWaitDone t) t Hpc. rewrite Hm. eexists; reflexivity.
      * fire (LWaitDone t) t Hpc. rewrite Hm. eexists; reflexivity.
  - (* TStart *)
    destruct (t_holds (tasks s t)) eqn:Hh.
    + fire (LStart t) t Hpc. rewrite Hh. destruct (t_kind (tasks s t)); eexists; reflexivity.
    + destruct Hreg as [Hc|[Hfl Hfree]].
      * fire (LStartFail t) t Hpc. rewrite Hh, Hc. eexists; reflexivity.
      * fire (LStart t) t Hpc. rewrite Hh. destruct (free s); [lia|].
        destruct (t_kind (tasks s t)); eexists; reflexivity.
Qed.

Lemma count_upto_pos p n : 0 < count_upto p n -> exists i, i < n /\ p i = true.
Proof.
  induction n; cbn; intros H; [lia|]. destruct (p n) eqn:Hp.
  - exists n. auto.
  - destruct (IHn H) as [i [Hi Hpi]]. exists i. auto.
Qed.

(* a frame that has not returned and is cancelled, or runs in a failure-free state with a free permit *)
Lemma frame_fires s f : Inv1 s -> Inv2 s -> Inv3 s ->
  is_ret (f_pc (frames s f)) = false ->
  (f_cancelled (frames s f) = true \/ (failed s = false /\ 0 < free s)) -> fires s.
Proof.
  intros I1 I2 I3 Hret Hreg.
  destruct (f_pc (frames s f)) eqn:Hfpc; try discriminate.
  - apply (frame_dispatch_fires succ s f); auto. apply I2. tauto.
  - destruct (frame_tasks_done s f) eqn:Hd.
    + apply (frame_wait_fires succ K s f); auto.
    + destruct (ftd_false s f Hd) as [c [Hc1 [Hc2 Hc3]]].
      apply (task_fires s I1 I2 I3 (trank (tasks s c)) c); auto. rewrite Hc2. auto.
Qed.

Theorem no_deadlock s : 1 <= K -> Reachable s -> is_final s = false -> fires s.
Proof.
  intros HK Hr Hnf. destruct (inv123_reach succ K ext roots succ_dec s Hr) as [I1 [I2 I3]].
  unfold is_final in Hnf.
  destruct (failed s) eqn:Hfl.
  - destruct (i3_failw s I3 Hfl) as [[f [Hc Hu]]|Ht].
    + apply (frame_fires s f); auto.
    + rewrite Ht in Hnf. discriminate.
  - destruct (free s) as [|k] eqn:Hfree.
    + pose proof I1 as I1'. destruct I1' as [Hwf Hperm Hmust Hmay].
      assert (Hh : 0 < holders s) by lia.
      destruct (count_upto_pos _ _ Hh) as [t [Ht1 Ht2]].
      apply (simple_fires s t); auto. specialize (Hmay t Ht2).
      destruct (t_pc (tasks s t)); try discriminate; reflexivity.
    + apply (frame_fires s 0); auto. right. split; auto. lia.
Qed.

End Proofs.
