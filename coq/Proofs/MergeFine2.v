From Oras Require Import Base.Prelude Model.Referrers Proofs.Referrers Model.Merge Proofs.Merge Model.MergeFine.
From Oras Require Import Proofs.MergeFine.
From Coq Require Import Lia.

Ltac dI I := destruct I as [f_it0 f_it_nd0 f_pe0 f_pe_nd0 f_mn0 f_mu0 f_wt0 f_tok0 f_tom0 f_emp0 f_com0 f_qt0 f_fut0 f_vb0 f_vc0 f_vm0 f_vw0 f_vn0 f_pl0].

(* the main caller receives the main status *)
Lemma stepF_recv sg s t s' : InvF s -> fstep sg s (FERecv t) = Some s' -> InvF s'.
Proof.
  intros I H. simpl in H.
  destruct (f_pcs s t) as [|c|g| |old|nw o|oi ap|r k|r|r|r] eqn:Hpc; try discriminate.
  destruct (f_wt s I t g Hpc) as (Hg1 & Hg2 & Hg3).
  destruct (fbuf (f_chans s g)) as [[|r]|] eqn:Hb.
  - (* main status *)
    injection H as <-. pose proof (f_vm s I g Hb) as ->.
    destruct (f_tok s I Hb) as (Hni & Hcm & Hnomain).
    destruct (f_token_fresh s I Hb) as (Hcl & Hv).
    pose proof (Hg2 eq_refl) as Hin.
    dI I. constructor; simpl.
    all: try solve [fsolve].
    + intros t0 c0 Hin0. tcase t0 t; [right; left; reflexivity|].
      destruct (f_it0 t0 c0 Hin0) as [E|[E|[(tm & Htm) E]]]; auto.
      apply fwindow_main in Htm. now rewrite Hnomain in Htm.
    + intros t0 c0 Hin0. destruct (f_pe0 t0 c0 Hin0) as [A B]. split; [|exact B].
      tcase t0 t; [tauto|exact A].
    + rewrite upd_eq. simpl. discriminate.
    + intros _. right. exists t. now rewrite upd_eq.
    + intros t0 Hx. rewrite upd_eq. simpl. tcase t0 t; [auto|]. apply fpre_main in Hx. now rewrite Hnomain in Hx.
    + destruct f_pl0 as (hs & A & B & C). exists hs. split; auto. split; auto.
      intro x. tcase x t; [rewrite B, Hpc; simpl; tauto | apply B].
  - (* a buffered result *)
    injection H as <-.
    assert (Hv : f_verdict s g = Some r) by (eapply (f_vb s I); eauto).
    assert (Hle : (g <= f_gen s)%nat).
    { destruct (Nat.le_gt_cases g (f_gen s)); auto. destruct (f_fut s I g H) as (A & _). congruence. }
    apply invF_wake with (g := g); auto.
    + intros ->. destruct (f_vn s I r Hv) as (tm & Htm). exists tm. eapply fres_window; eauto.
    + right. split; [congruence|reflexivity].
  - destruct (fclosed (f_chans s g)) eqn:Hc; [|discriminate]. injection H as <-.
    assert (Hv : f_verdict s g = Some ROk) by (eapply (f_vc s I); eauto).
    assert (Hle : (g <= f_gen s)%nat).
    { destruct (Nat.le_gt_cases g (f_gen s)); auto. destruct (f_fut s I g H) as (_ & A & _). congruence. }
    unfold fset_pc. apply invF_wake with (g := g); auto.
    intros ->. destruct (f_vn s I ROk Hv) as (tm & Htm). exists tm. eapply fres_window; eauto.
Qed.

(* a channel operation of complete(): the main caller stays between FNotify and FSwap *)
Lemma invF_window s t p ch' :
  InvF s -> fwindow (f_pcs s t) = true -> fwindow p = true -> fres p = fres (f_pcs s t) ->
  (forall g0, g0 <> f_gen s -> ch' g0 = f_chans s g0) ->
  fbuf (ch' (f_gen s)) <> Some FMain ->
  (forall r0, fbuf (ch' (f_gen s)) = Some (FRes r0) -> f_verdict s (f_gen s) = Some r0) ->
  (fclosed (ch' (f_gen s)) = true -> f_verdict s (f_gen s) = Some ROk) ->
  InvF (mkF (f_pool s) (f_committed s) (f_items s) (f_pending s) (f_gen s) ch' (upd (f_pcs s) t p)
            (f_reg s) (f_store s) (f_verdict s)).
Proof.
  intros I Hw Hp Hr Hch Hnm Hvb Hvc.
  assert (Hm : fmain (f_pcs s t) = true) by now apply fwindow_main.
  assert (Hpm : fmain p = true) by now apply fwindow_main.
  assert (Hu : forall t0, fmain (f_pcs s t0) = true -> t0 = t) by (intros; eapply (f_mu s I); eauto).
  assert (Hpost : fpost p = true) by (destruct p; try discriminate; reflexivity).
  assert (Hpost0 : fpost (f_pcs s t) = true) by (destruct (f_pcs s t); try discriminate; reflexivity).
  assert (Hnpre : fpre p = false) by (destruct p; try discriminate; reflexivity).
  dI I. constructor; simpl.
  all: try solve [fsolve].
  all: try solve [apply it_keep; auto].
  all: try solve [intros t0 c0 Hin0; destruct (f_pe0 t0 c0 Hin0) as [A B]; split; [|exact B]; tcase t0 t; auto; rewrite A in Hm; discriminate].
  all: try solve [intros t0 Hx; tcase t0 t; auto].
  all: try solve [intros t1 t2 H1 H2; tcase t1 t; tcase t2 t; auto; symmetry; auto].
  all: try solve [intros t0 g Hx; tcase t0 t; [rewrite Hx in Hpm; discriminate|eauto]].
  all: try solve [intro Hx; congruence].
  all: try solve [intros _; right; exists t; rewrite upd_eq; exact Hpm].
  all: try solve [intros t0 Hx; tcase t0 t; eauto].
  all: try solve [intros t0 Hx; tcase t0 t; [congruence|]; apply fpre_main, Hu in Hx; congruence].
  all: try solve [intros g0 Hx; rewrite Hch by lia; auto].
  all: try solve [intros g0 r0 Hx; destruct (Nat.eq_dec g0 (f_gen s)) as [->|Hne]; [auto|rewrite Hch in Hx by auto; eauto]].
  all: try solve [intros g0 Hx; destruct (Nat.eq_dec g0 (f_gen s)) as [->|Hne]; [auto|rewrite Hch in Hx by auto; eauto]].
  all: try solve [intros t0 r0 Hx; tcase t0 t; [rewrite Hr in Hx; eauto|eauto]].
  all: try solve [intros r0 Hx; destruct (f_vn0 r0 Hx) as (x & Hxx); destruct (Nat.eq_dec x t) as [->|Hne];
                  [exists t; rewrite upd_eq; congruence|exists x; now rewrite upd_neq]].
  destruct f_pl0 as (hs & A & B & C). exists hs. split; auto. split; auto.
  intro x. tcase x t; [rewrite B, (fmain_holding _ Hm), (fmain_holding _ Hpm); tauto | apply B].
Qed.

Lemma stepF_notify sg s t s' : InvF s -> fstep sg s (FENotify t) = Some s' -> InvF s'.
Proof.
  intros I H. simpl in H.
  destruct (f_pcs s t) as [|c|g| |old|nw o|oi ap|r k|r|r|r] eqn:Hpc; try discriminate.
  assert (Hw : fwindow (f_pcs s t) = true) by now rewrite Hpc.
  assert (Hv : f_verdict s (f_gen s) = Some r) by (apply (f_vw s I t); now rewrite Hpc).
  pose proof (f_window_no_token s t I (fwindow_main _ Hw)) as Hnt.
  assert (Hvb : forall r0, fbuf (f_chans s (f_gen s)) = Some (FRes r0) -> f_verdict s (f_gen s) = Some r0) by (intros; eapply (f_vb s I); eauto).
  assert (Hvc : fclosed (f_chans s (f_gen s)) = true -> f_verdict s (f_gen s) = Some ROk) by (apply (f_vc s I)).
  assert (Hsend : forall k2, r <> ROk -> fbuf (f_chans s (f_gen s)) = None ->
            InvF (mkF (f_pool s) (f_committed s) (f_items s) (f_pending s) (f_gen s)
                      (upd (f_chans s) (f_gen s) (mkFC (Some (FRes r)) (fclosed (f_chans s (f_gen s)))))
                      (upd (f_pcs s) t (FNotify r k2)) (f_reg s) (f_store s) (f_verdict s))).
  { intros k2 _ Hb. apply invF_window; auto; try (rewrite Hpc; reflexivity); try (rewrite upd_eq; simpl; congruence).
    - intros g0 Hne. now rewrite upd_neq.
    - rewrite upd_eq. simpl. exact Hvc. }
  assert (Hskip : InvF (fset_pc s t (FSwap r))).
  { unfold fset_pc. apply invF_window; auto; rewrite Hpc; reflexivity. }
  destruct r.
  - injection H as <-. apply invF_window; auto; try (rewrite Hpc; reflexivity); try (rewrite upd_eq; simpl; auto).
    intros g0 Hne. now rewrite upd_neq.
  - destruct k as [|k2]; [injection H as <-; exact Hskip|].
    destruct (fbuf (f_chans s (f_gen s))) eqn:Hb; [discriminate|]. injection H as <-. apply Hsend; auto. discriminate.
  - destruct k as [|k2]; [injection H as <-; exact Hskip|].
    destruct (fbuf (f_chans s (f_gen s))) eqn:Hb; [discriminate|]. injection H as <-. apply Hsend; auto. discriminate.
Qed.

Lemma stepF_done sg s t s' : InvF s -> fstep sg s (FEDone t) = Some s' -> InvF s'.
Proof.
  intros I H. simpl in H.
  destruct (f_pcs s t) as [|c|g| |old|nw o|oi ap|r k|r|r|r] eqn:Hpc; try discriminate.
  destruct (f_pool s) as [rc|] eqn:Hpool; try discriminate. injection H as <-.
  assert (Hnm : fmain (f_pcs s t) = false) by now rewrite Hpc.
  assert (Hnw : fwindow (f_pcs s t) = false) by now rewrite Hpc.
  assert (Hnr : fres (f_pcs s t) = None) by now rewrite Hpc.
  assert (Hnp : forall c0, In (t, c0) (f_pending s) -> False).
  { intros c0 Hin. destruct (f_pe s I t c0 Hin) as [E _]. rewrite Hpc in E. discriminate. }
  dI I. constructor; simpl.
  all: try solve [fsolve].
  all: try solve [intro Hx; destruct (f_tok0 Hx) as (A & B & C); repeat split; auto; intro t0; tcase t0 t; auto].
  all: try solve [intro Hx; destruct (f_tom0 Hx) as [A|A]; auto; right; apply ex_keep; auto].
  all: try solve [intros r0 Hx; apply ex_res_keep; auto].
  all: try solve [intros t0 c0 Hin0; assert (t0 <> t) by (intro; subst; eauto); rewrite upd_neq by auto; exact (f_pe0 t0 c0 Hin0)].
  - intros t0 c0 Hin0. tcase t0 t.
    + destruct (f_it0 t c0 Hin0) as [E|[E|[E _]]]; [congruence|congruence|].
      right; right. split; [apply ex_keep; auto|eauto].
    + destruct (f_it0 t0 c0 Hin0) as [E|[E|[E1 E2]]]; auto. right; right. split; auto. apply ex_keep; auto.
  - destruct f_pl0 as (hs & Hnd & Hin & Hp). rewrite Hpool in Hp. destruct Hp as [-> Hne0].
    assert (Ht : In t hs) by (apply Hin; rewrite Hpc; reflexivity).
    destruct (remove_facts hs t Hnd Ht) as (A & B & C).
    exists (remove Nat.eq_dec t hs). repeat split; auto.
    + intro Hx. apply B in Hx as [Hx Hy]. rewrite upd_neq by auto. now apply Hin.
    + intro Hx. tcase t0 t; [discriminate|]. apply B. split; auto. now apply Hin.
    + destruct (Nat.leb (length hs - 1) 0) eqn:El.
      * apply Nat.leb_le in El. destruct (remove Nat.eq_dec t hs) eqn:Er; [reflexivity|]. exfalso. rewrite ?Er in C. simpl in C. unfold tid in *. lia.
      * apply Nat.leb_gt in El. unfold tid in *. split; [lia|]. intro E. rewrite E in C. simpl in C. lia.
Qed.

Lemma stepF_extdrop sg s s' : InvF s -> fstep sg s FEExtDrop = Some s' -> InvF s'.
Proof.
  intros I H. simpl in H. destruct (f_reg s) as [x|]; [|discriminate].
  destruct (forallb is_empty x); [|discriminate]. injection H as <-. unfold fset_reg. now apply invF_frame.
Qed.

Lemma stepF_swap sg s t s' : InvF s -> fstep sg s (FESwap t) = Some s' -> InvF s'.
Proof.
  intros I H. simpl in H.
  destruct (f_pcs s t) as [|c|g| |old|nw o|oi ap|r k|r|r|r] eqn:Hpc; try discriminate. injection H as <-.
  assert (Hw : fwindow (f_pcs s t) = true) by now rewrite Hpc.
  assert (Hm : fmain (f_pcs s t) = true) by now rewrite Hpc.
  assert (Hu : forall t0, fmain (f_pcs s t0) = true -> t0 = t) by (intros; eapply (f_mu s I); eauto).
  assert (Hnomain : forall x, fmain (upd (f_pcs s) t (FRet r) x) = false).
  { intro x. tcase x t; [reflexivity|]. destruct (fmain (f_pcs s x)) eqn:E; auto. apply Hu in E. congruence. }
  pose proof (f_window_no_token s t I Hm) as Hnt.
  destruct (f_fut s I (S (f_gen s)) (Nat.lt_succ_diag_r _)) as (F1 & F2 & F3).
  assert (Hne_pe : forall x c0, In (x, c0) (f_pending s) -> x <> t).
  { intros x c0 Hin ->. destruct (f_pe s I t c0 Hin) as [E _]. congruence. }
  set (ch' := if is_nil (f_pending s) then f_chans s
              else upd (f_chans s) (S (f_gen s)) (mkFC (Some FMain) (fclosed (f_chans s (S (f_gen s)))))).
  assert (Hch : forall g0, g0 <> S (f_gen s) -> ch' g0 = f_chans s g0).
  { intros g0 Hne. unfold ch'. destruct (is_nil (f_pending s)); auto. now rewrite upd_neq. }
  assert (Hch1 : f_pending s <> [] -> ch' (S (f_gen s)) = mkFC (Some FMain) false).
  { intro Hne. unfold ch'. destruct (f_pending s); [congruence|]. simpl. now rewrite upd_eq, F2. }
  assert (Hch0 : f_pending s = [] -> ch' (S (f_gen s)) = f_chans s (S (f_gen s))).
  { intro E. unfold ch'. now rewrite E. }
  dI I. constructor; simpl; fold ch'.
  - intros x c0 Hin. left. rewrite upd_neq by eauto. now destruct (f_pe0 x c0 Hin).
  - exact f_pe_nd0.
  - intros x c0 [].
  - constructor.
  - intros x Hx. rewrite Hnomain in Hx. discriminate.
  - intros x1 x2 Hx. rewrite Hnomain in Hx. discriminate.
  - intros x g Hx. tcase x t; [discriminate|]. destruct (f_wt0 x g Hx) as (A & B & C). repeat split.
    + lia.
    + intro E. unfold fbatch. simpl. auto.
    + intro E. lia.
  - intro Hx. destruct (f_pending s) as [|p ps] eqn:Ep.
    + rewrite Hch0 in Hx by reflexivity. congruence.
    + repeat split; auto. discriminate.
  - intro Hx. left. rewrite Hch1 by exact Hx. reflexivity.
  - intro Hx. auto.
  - intros x Hx. apply fpost_main in Hx. rewrite Hnomain in Hx. discriminate.
  - intros x Hx. apply fpre_main in Hx. rewrite Hnomain in Hx. discriminate.
  - intros g0 Hx. rewrite Hch by lia. apply f_fut0. lia.
  - intros g0 r0 Hx. destruct (Nat.eq_dec g0 (S (f_gen s))) as [->|Hne].
    + destruct (f_pending s) eqn:Ep; [rewrite Hch0 in Hx by reflexivity; congruence|].
      rewrite Hch1 in Hx by discriminate. discriminate.
    + rewrite Hch in Hx by auto. eauto.
  - intros g0 Hx. destruct (Nat.eq_dec g0 (S (f_gen s))) as [->|Hne].
    + destruct (f_pending s) eqn:Ep; [rewrite Hch0 in Hx by reflexivity; congruence|].
      rewrite Hch1 in Hx by discriminate. discriminate.
    + rewrite Hch in Hx by auto. eauto.
  - intros g0 Hx. destruct (Nat.eq_dec g0 (S (f_gen s))) as [->|Hne]; auto.
    rewrite Hch in Hx by auto. pose proof (f_vm0 g0 Hx). subst g0. congruence.
  - intros x r0 Hx. exfalso. apply fres_window, fwindow_main in Hx. rewrite Hnomain in Hx. discriminate.
  - intros r0 Hx. congruence.
  - destruct f_pl0 as (hs & A & B & C). exists hs. split; auto. split; auto.
    intro x. tcase x t; [rewrite B, Hpc; simpl; tauto | apply B].
Qed.

Lemma stepF sg s e s' : InvF s -> fstep sg s e = Some s' -> InvF s'.
Proof.
  intros I H. destruct e.
  - eapply stepF_get; eauto.
  - eapply stepF_assign; eauto.
  - eapply stepF_recv; eauto.
  - eapply stepF_main; eauto.
  - eapply stepF_main; eauto.
  - eapply stepF_main; eauto 6.
  - eapply stepF_main; eauto 6.
  - eapply stepF_notify; eauto.
  - eapply stepF_swap; eauto.
  - eapply stepF_done; eauto.
  - eapply stepF_extdrop; eauto.
Qed.

Lemma frun_inv sg tr : forall s s', InvF s -> frun sg s tr = Some s' -> InvF s'.
Proof.
  induction tr as [|e tr IH]; intros s s' I H; simpl in H.
  - now injection H as <-.
  - destruct (fstep sg s e) as [s1|] eqn:E; [|discriminate]. apply (IH s1 s'); auto. eapply stepF; eauto.
Qed.
