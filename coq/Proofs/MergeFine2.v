(* C14 — InvF preserved by every step of the channel-level system *)
From Oras Require Import Base.Prelude Model.Referrers Proofs.Referrers Model.Merge Proofs.Merge Model.MergeFine.
From Oras Require Import Proofs.MergeFine Proofs.MergeFineGet Proofs.MergeFineMain Proofs.MergeFineAssign Proofs.MergeFineWake.
From Oras Require Export Proofs.MergeFineRecv Proofs.MergeFineNotify Proofs.MergeFineSwap.
From Coq Require Import Lia.


(* the main caller receives the main status *)
Lemma stepF sg s e s' : InvF s -> fstep sg s e = Some s' -> InvF s'.
Proof.
  intros I H. destruct e.
  - eapply stepF_get; eauto.
  - eapply stepF_assign; eauto.
  - eapply stepF_recv; eauto.
  - eapply stepF_main; eauto.
  - eapply stepF_main; eauto.
  - eapply stepF_main; eauto 6.
  - eapply stepF_main; eauto 7.
  - eapply stepF_main; eauto 7.
  - eapply stepF_main; eauto 8.
  - eapply stepF_notify; eauto.
  - eapply stepF_swap; eauto.
  - eapply stepF_done; eauto.
  - eapply stepF_extdrop; eauto.
Qed.

Lemma frun_inv sg tr : forall s s', InvF s -> frun sg s tr = Some s' -> InvF s'.
Proof.
  induction tr as [|e tr IH]; intros s s' I H; simpl in H.
  - now injection H as <-.
  - destruct (fstep sg s e) as [s1|] eqn:E; [|discriminate]. apply (IH s1 s'); auto. eapply stepF; eauto.
Qed.

