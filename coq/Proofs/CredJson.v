(* C18 -- what Put hands to encoding/json reads back unchanged: the server address
   (an object key), the auth field (base64 text) and the two tokens. *)
From Oras Require Import Base.Prelude Model.Utf8 Model.Json Model.Base64 Model.CredFile
  Proofs.Json Proofs.Base64 Proofs.CredFile.

Lemma valid_nil : valid_utf8 [] = true.
Proof. reflexivity. Qed.

Lemma encode_auth_valid u p : bytes (u ++ colon :: p) -> valid_utf8 (encode_auth b64_encode u p) = true.
Proof.
  intro B. unfold encode_auth.
  destruct u as [|u0 u']; [destruct p as [|p0 p']; [reflexivity|]|]; apply ascii_valid, b64_encode_ascii; exact B.
Qed.

Lemma put_accepts_valid a c :
  put_accepts a c = true -> valid_utf8 a = true /\ valid_utf8 (c_refresh c) = true /\ valid_utf8 (c_access c) = true.
Proof.
  rewrite put_accepts_spec. intro H. apply andb_true_iff in H as [H A]. apply andb_true_iff in H as [H R].
  apply andb_true_iff in H as [_ K]. auto.
Qed.

(* every string of an accepted Put survives the JSON string codec *)
Lemma put_fields_json_roundtrip a c :
  put_accepts a c = true -> bytes (c_user c ++ colon :: c_pass c) ->
  Forall (fun x => json_unquote (json_quote x) = Some x)
         [a; encode_auth b64_encode (c_user c) (c_pass c); c_refresh c; c_access c].
Proof.
  intros ACC B. destruct (put_accepts_valid a c ACC) as (VA & VR & VT).
  repeat constructor; apply json_string_roundtrip; try assumption. now apply encode_auth_valid.
Qed.

(* and what a refused Put would have lost: a string that is not valid UTF-8 does
   not survive (the reason for the refusal; before the fix it was written) *)
Lemma invalid_utf8_json_lossy : exists s, valid_utf8 s = false /\ json_unquote (json_quote s) <> Some s.
Proof. exists [114; 255; 116]. split; [reflexivity|]. vm_compute. discriminate. Qed.

(* Put -> bytes -> Get: the JSON text PutCredential produces for an accepted
   credential parses back (parse_fresh = what json.Unmarshal into AuthConfig
   finds) to the entry, and so to the credential *)
Lemma entry_bytes_roundtrip a c :
  put_accepts a c = true -> bytes (c_user c ++ colon :: c_pass c) ->
  parse_fresh (entry_bytes b64_encode c) =
    Some (encode_auth b64_encode (c_user c) (c_pass c), c_refresh c, c_access c) /\
  cred_of_bytes b64_decode (entry_bytes b64_encode c) = RCred c.
Proof.
  intros ACC B. destruct (put_accepts_valid a c ACC) as (_ & VR & VT).
  assert (P : parse_fresh (entry_bytes b64_encode c) =
              Some (encode_auth b64_encode (c_user c) (c_pass c), c_refresh c, c_access c)).
  { unfold entry_bytes. apply fresh_roundtrip; [now apply encode_auth_valid|exact VR|exact VT]. }
  split; [exact P|]. unfold cred_of_bytes. rewrite P.
  pose proof (codec_roundtrip b64_encode b64_decode bytes b64_roundtrip b64_encode_nonempty c
                              (put_accepts_colon a c ACC) B) as CR.
  exact CR.
Qed.
