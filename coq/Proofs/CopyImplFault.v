(* CopyImplFault: a fault or a cancellation before completion surfaces as an error of the top-level call. *)
From Coq Require Import List Arith Bool Lia Wf_nat.
From Oras Require Import Model.CopyImpl Proofs.CopyImplBase Proofs.CopyImplInv Proofs.CopyImplInv2 Proofs.CopyImplLive.
Import ListNotations.

Section Proofs.
Variable succ : nat -> list nat.
Variable K : nat.
Variable ext : bool.
Variable roots : list nat.
Hypothesis succ_dec : forall n m, In m (succ n) -> m < n.
Local Notation Reachable := (Reachable succ K ext roots).
Local Notation Inv1 := (Inv1 K).
Local Notation Inv2 := (Inv2 succ).

(* a frame that has not returned keeps every frame above it, up to the top-level one, from returning *)
Lemma unreturned_up s : Inv2 s -> forall f, is_ret (f_pc (frames s f)) = false -> is_ret (f_pc (frames s 0)) = false.
Proof.
  intros [Hwff Hnf Htf Hunf Hingo Hpar Htop Hself Hanc Hrank Hwait].
  induction f as [f IH] using lt_wf_ind. intros Hu.
  assert (Hf : f < nframes s) by (apply flive; auto).
  destruct (f_parent (frames s f)) as [p|] eqn:Hp.
  - destruct (Hpar f p Hp) as [[Hlt _] Hq]. specialize (Hq Hu).
    apply (IH (t_frame (tasks s p))); auto. apply Hunf. rewrite Hq. reflexivity.
  - destruct (Htop f Hp); [subst; auto | lia].
Qed.

Lemma failed_mono s l s' : step succ s l = Some s' -> failed s = true -> failed s' = true.
Proof.
  intros Hs Hf. step_cases l Hs; cbn; rewrite ?Hf; auto.
Qed.
Lemma fault_sets_failed s l s' : step succ s l = Some s' -> is_fault l = true -> failed s' = true.
Proof.
  intros Hs Hf. destruct l; try discriminate; try (destruct r; try discriminate); try (destruct ok; try discriminate).
  all: inv_step Hs; unfold finish; cbn; rewrite ?orb_true_r; auto.
Qed.

Lemma run_reachable s ls s' : Reachable s -> run succ s ls = Some s' -> Reachable s'.
Proof.
  revert s. induction ls as [|l ls IH]; cbn; intros s Hr H.
  - inversion H. subst. auto.
  - destruct (step succ s l) as [s1|] eqn:Hs; [|discriminate]. apply (IH s1); auto. econstructor; eauto.
Qed.
Lemma run_failed s ls s' : run succ s ls = Some s' ->
  (failed s = true \/ existsb is_fault ls = true) -> failed s' = true.
Proof.
  revert s. induction ls as [|l ls IH]; cbn; intros s H Hf.
  - inversion H. subst. destruct Hf; auto. discriminate.
  - destruct (step succ s l) as [s1|] eqn:Hs; [|discriminate]. apply (IH s1); auto.
    destruct Hf as [Hf|Hf].
    + left. eapply failed_mono; eauto.
    + apply orb_true_iff in Hf. destruct Hf as [Hf|Hf]; auto. left. eapply fault_sets_failed; eauto.
Qed.

Lemma failed_final_error s : Reachable s -> failed s = true -> is_final s = true -> result s = Some true.
Proof.
  intros Hr Hf Hfin. destruct (inv123_reach succ K ext roots succ_dec s Hr) as [I1 [I2 I3]].
  unfold is_final, result in *.
  destruct (i3_failw s I3 Hf) as [[f [Hc Hu]]|Ht].
  - rewrite (unreturned_up s I2 f Hu) in Hfin. discriminate.
  - rewrite Ht. reflexivity.
Qed.

(* any execution in which a storage step / callback of some task fails or the caller's context is
   cancelled before the top-level syncutil.Go has returned, ends - if it ends - with an error *)
Theorem fault_surfaces ls s : run succ (init K ext roots) ls = Some s ->
  existsb is_fault ls = true -> is_final s = true -> result s = Some true.
Proof.
  intros Hrun Hf Hfin. apply failed_final_error; auto.
  - eapply run_reachable; eauto. constructor.
  - eapply run_failed; eauto.
Qed.

End Proofs.
