(* C06 -- quiescent serialisability of the memory store: every interleaving of the atomic
   steps of complete operations ends in the state of a sequential order of the same
   operations (the order of their commit steps). *)
From Oras Require Import Base.Prelude Model.Stores Model.StoresConc Proofs.Stores.
From Coq Require Import Permutation.

Local Arguments res_tag : simpl never.
Local Arguments g_index : simpl never.
Local Arguments gkey_eqb : simpl never.
Local Arguments verify : simpl never.

Definition remaining (t : mthread) : list op :=
  match t_pc t with MPush2 d c => [Push d c] | MTag2 d r => [Tag d r] | _ => [] end ++ t_ops t.

Definition S_ix (cas : list (gkey * blob)) (J : list gkey) : gkey -> option (list gkey) :=
  fun k => if mem gkey_eqb k J then S_mem cas k else None.

Definition thread_ok (s : mem_store) (t : mthread) : Prop :=
  match t_pc t with
  | MIdle => True
  | MPush2 d c => verify d c = true
  | MPush3 d => get gkey_eqb (gk d) (m_cas s) <> None
  | MTag2 d r => get gkey_eqb (gk d) (m_cas s) <> None
  end.

Definition seq_state (L : list op) : mem_store := fst (run mem_step mem_init L).

Lemma seq_state_snoc L o : seq_state (L ++ [o]) = fst (mem_step (seq_state L) o).
Proof. unfold seq_state. rewrite run_app. cbn [fst]. rewrite run_cons. reflexivity. Qed.

Record cinv (progs : list (list op)) (cf : mconf) : Prop := mkCI {
  ci_perm : Permutation (map snd (c_log cf) ++ flat_map remaining (c_threads cf)) (concat progs);
  ci_order : forall i, log_of i (c_log cf) ++ match nth_error (c_threads cf) i with Some t => remaining t | None => [] end
                       = nth i progs [];
  ci_cas : m_cas (c_store cf) = m_cas (seq_state (map snd (c_log cf)));
  ci_res : m_res (c_store cf) = m_res (seq_state (map snd (c_log cf)));
  ci_threads : Forall (thread_ok (c_store cf)) (c_threads cf);
  ci_graph : graph_inv (S_ix (m_cas (c_store cf)) (c_indexed cf)) (m_graph (c_store cf));
  ci_indexed : forall k, get gkey_eqb k (m_cas (c_store cf)) <> None ->
                         In k (c_indexed cf) \/
                         exists t d, In t (c_threads cf) /\ t_pc t = MPush3 d /\ gk d = k;
  ci_ix_sub : forall k, In k (c_indexed cf) -> get gkey_eqb k (m_cas (c_store cf)) <> None }.

Lemma map_snd_pair (i : nat) (lg : list op) : map snd (map (pair i) lg) = lg.
Proof. induction lg; simpl; congruence. Qed.

Lemma log_of_app j L1 L2 : log_of j (L1 ++ L2) = log_of j L1 ++ log_of j L2.
Proof. unfold log_of. now rewrite filter_app, map_app. Qed.

Lemma log_of_pair_same i (lg : list op) : log_of i (map (pair i) lg) = lg.
Proof. unfold log_of. induction lg; simpl; auto. rewrite Nat.eqb_refl. simpl. congruence. Qed.

Lemma log_of_pair_other i j (lg : list op) : j <> i -> log_of j (map (pair i) lg) = [].
Proof.
  intro H. unfold log_of. induction lg; simpl; auto.
  destruct (Nat.eqb i j) eqn:E; [apply Nat.eqb_eq in E; congruence | exact IHlg].
Qed.

Lemma nth_error_mid {A} (l1 l2 : list A) t : nth_error (l1 ++ t :: l2) (length l1) = Some t.
Proof. induction l1; simpl; auto. Qed.

Lemma nth_error_mid_other {A} (l1 l2 : list A) t t' j :
  j <> length l1 -> nth_error (l1 ++ t :: l2) j = nth_error (l1 ++ t' :: l2) j.
Proof.
  revert j. induction l1 as [|x l1 IH]; intros j H; simpl in *.
  - destruct j; [congruence | reflexivity].
  - destruct j; [reflexivity|]. apply IH. intro; subst. congruence.
Qed.

Lemma flat_map_remaining_init progs :
  flat_map remaining (map (fun p => mkT MIdle p) progs) = concat progs.
Proof. induction progs as [|p ps IH]; simpl; auto. unfold remaining at 1. simpl. now rewrite IH. Qed.

Lemma cinv_init progs : cinv progs (mconf_init progs).
Proof.
  constructor; simpl.
  - rewrite flat_map_remaining_init. apply Permutation_refl.
  - intro i. unfold log_of. simpl. rewrite nth_error_map.
    destruct (nth_error progs i) as [p|] eqn:E; simpl.
    + unfold remaining. simpl. symmetry. now apply nth_error_nth.
    + symmetry. apply nth_overflow. now apply nth_error_None.
  - reflexivity.
  - reflexivity.
  - apply Forall_forall. intros t Ht. apply in_map_iff in Ht as (p & <- & _). exact I.
  - eapply graph_inv_ext; [|exact graph_inv_init]. intro k. reflexivity.
  - intros k H. exfalso. apply H. reflexivity.
  - tauto.
Qed.

(* what a step commits is taken from the front of what the goroutine still has to do *)
Lemma step_remaining s t s' t' lg ix :
  mthread_step s t = Some (s', t', lg, ix) -> remaining t = lg ++ remaining t'.
Proof.
  unfold mthread_step, remaining. destruct t as [pc ops]; cbn [t_pc t_ops].
  destruct pc as [|d c|d|d r].
  - destruct ops as [|o rest]; [discriminate|].
    destruct o; try (intro H; injection H as <- <- <- <-; reflexivity).
    + destruct (is_some _); [intro H; injection H as <- <- <- <-; reflexivity|].
      destruct (verify d c); intro H; injection H as <- <- <- <-; reflexivity.
    + destruct (is_some _); intro H; injection H as <- <- <- <-; reflexivity.
  - destruct (get gkey_eqb (gk d) (m_cas s)); intro H; injection H as <- <- <- <-; reflexivity.
  - destruct (get gkey_eqb (gk d) (m_cas s)); intro H; injection H as <- <- <- <-; reflexivity.
  - intro H; injection H as <- <- <- <-; reflexivity.
Qed.

Lemma perm_move {A} (L R1 lg X R2 : list A) :
  Permutation (L ++ R1 ++ (lg ++ X) ++ R2) ((L ++ lg) ++ R1 ++ X ++ R2).
Proof.
  rewrite <- !app_assoc. apply Permutation_app_head.
  rewrite !app_assoc. apply Permutation_app_tail. apply Permutation_app_tail.
  apply Permutation_app_comm.
Qed.

Lemma upd_nth_split {A} (l1 l2 : list A) t t' :
  upd_nth (length l1) t' (l1 ++ t :: l2) = l1 ++ t' :: l2.
Proof. induction l1 as [|x l1 IH]; simpl; congruence. Qed.

(* the sequential step only looks at the content map and the resolver for these two components *)
Lemma mem_step_cas_res s1 s2 o :
  m_cas s1 = m_cas s2 -> m_res s1 = m_res s2 ->
  m_cas (fst (mem_step s1 o)) = m_cas (fst (mem_step s2 o)) /\
  m_res (fst (mem_step s1 o)) = m_res (fst (mem_step s2 o)).
Proof.
  intros Hc Hr. destruct o; simpl; rewrite <- ?Hc, <- ?Hr; auto.
  - destruct (get gkey_eqb (gk d) (m_cas s1)); auto. destruct (verify d c); simpl; auto.
  - destruct (get gkey_eqb (gk d) (m_cas s1)); auto.
  - destruct (is_some _); simpl; auto.
  - destruct (get ref_eqb r (r_index (m_res s1))); auto.
Qed.

(* every commit step does to the content map and the resolver what the sequential
   operation does; other steps leave them alone *)
Lemma step_commit s t s' t' lg ix :
  thread_ok s t -> mthread_step s t = Some (s', t', lg, ix) ->
  (lg = [] /\ m_cas s' = m_cas s /\ m_res s' = m_res s) \/
  (exists o, lg = [o] /\ m_cas s' = m_cas (fst (mem_step s o)) /\ m_res s' = m_res (fst (mem_step s o))).
Proof.
  unfold mthread_step, thread_ok. destruct t as [pc ops]; cbn [t_pc t_ops].
  destruct pc as [|d c|d|d r]; intro Hok.
  - destruct ops as [|o rest]; [discriminate|].
    destruct o; try (intro H; injection H as <- <- <- <-; right; eexists; split; [reflexivity|]; simpl; auto; fail).
    + destruct (get gkey_eqb (gk d) (m_cas s)) eqn:E; simpl.
      * intro H; injection H as <- <- <- <-. right. eexists; split; [reflexivity|]. simpl. rewrite E. auto.
      * destruct (verify d c) eqn:V; intro H; injection H as <- <- <- <-; [left; auto|].
        right. eexists; split; [reflexivity|]. simpl. rewrite E, V. auto.
    + intro H; injection H as <- <- <- <-. right. eexists; split; [reflexivity|]. simpl.
      destruct (get gkey_eqb (gk d) (m_cas s)); auto.
    + destruct (get gkey_eqb (gk d) (m_cas s)) eqn:E; simpl; intro H; injection H as <- <- <- <-; [left; auto|].
      right. eexists; split; [reflexivity|]. simpl. rewrite E. auto.
    + intro H; injection H as <- <- <- <-. right. eexists; split; [reflexivity|]. simpl.
      destruct (get ref_eqb r (r_index (m_res s))); auto.
  - destruct (get gkey_eqb (gk d) (m_cas s)) eqn:E; intro H; injection H as <- <- <- <-;
      right; eexists; (split; [reflexivity|]); simpl; rewrite E; [auto|]. rewrite Hok. auto.
  - destruct (get gkey_eqb (gk d) (m_cas s)); intro H; injection H as <- <- <- <-; left; auto.
  - intro H; injection H as <- <- <- <-. right. eexists; split; [reflexivity|]. simpl.
    destruct (get gkey_eqb (gk d) (m_cas s)); [auto|congruence].
Qed.

(* the four kinds of atomic steps *)
Lemma step_kind s t s' t' lg ix :
  thread_ok s t -> mthread_step s t = Some (s', t', lg, ix) ->
  (s' = s /\ ix = [] /\ thread_ok s t' /\ (forall d, t_pc t <> MPush3 d) /\ (forall d, t_pc t' <> MPush3 d))
  \/ (exists d c, t_pc t = MPush2 d c /\ get gkey_eqb (gk d) (m_cas s) = None /\
                  s' = mkMem (put gkey_eqb (gk d) c (m_cas s)) (m_res s) (m_graph s) /\
                  t_pc t' = MPush3 d /\ ix = [])
  \/ (exists d c, t_pc t = MPush3 d /\ get gkey_eqb (gk d) (m_cas s) = Some c /\
                  s' = mkMem (m_cas s) (m_res s) (g_index d (succ_of (gk d) c) (m_graph s)) /\
                  t_pc t' = MIdle /\ ix = [gk d])
  \/ (exists d r, s' = mkMem (m_cas s) (res_tag d r (m_res s)) (m_graph s) /\ ix = [] /\
                  t_pc t' = MIdle /\ (forall d, t_pc t <> MPush3 d)).
Proof.
  unfold mthread_step, thread_ok. destruct t as [pc ops]; cbn [t_pc t_ops].
  destruct pc as [|d c|d|d r]; intro Hok.
  - destruct ops as [|o rest]; [discriminate|].
    assert (Hidle : Some (s, mkT MIdle rest, [o], @nil gkey) = Some (s', t', lg, ix) ->
              s' = s /\ ix = [] /\ match t_pc t' with MIdle => True | MPush2 d c => verify d c = true
                                    | MPush3 d => get gkey_eqb (gk d) (m_cas s) <> None
                                    | MTag2 d _ => get gkey_eqb (gk d) (m_cas s) <> None end /\
              (forall d, MIdle <> MPush3 d) /\ (forall d, t_pc t' <> MPush3 d)).
    { intros H. injection H as <- <- <- <-. cbn [t_pc]. repeat split; auto; discriminate. }
    destruct o; try (intro H; left; apply (Hidle H)).
    + destruct (is_some _); [intro H; left; apply (Hidle H)|].
      destruct (verify d c) eqn:V; [|intro H; left; apply (Hidle H)].
      intro H. injection H as <- <- <- <-. left. cbn [t_pc]. repeat split; auto; discriminate.
    + destruct (get gkey_eqb (gk d) (m_cas s)) eqn:E; simpl; [|intro H; left; apply (Hidle H)].
      intro H. injection H as <- <- <- <-. left. cbn [t_pc]. repeat split; auto; try discriminate.
      rewrite E. discriminate.
  - destruct (get gkey_eqb (gk d) (m_cas s)) eqn:E; intro H; injection H as <- <- <- <-.
    + left. cbn [t_pc]. repeat split; auto; discriminate.
    + right. left. exists d, c. cbn [t_pc]. repeat split; auto.
  - destruct (get gkey_eqb (gk d) (m_cas s)) as [c|] eqn:E; [|congruence].
    intro H; injection H as <- <- <- <-. right. right. left. exists d, c. cbn [t_pc]. repeat split; auto.
  - intro H; injection H as <- <- <- <-. right. right. right. exists d, r. cbn [t_pc]. repeat split; auto; discriminate.
Qed.

Lemma thread_ok_mono s s' t :
  (forall k, get gkey_eqb k (m_cas s) <> None -> get gkey_eqb k (m_cas s') <> None) ->
  thread_ok s t -> thread_ok s' t.
Proof. unfold thread_ok. intro H. destruct (t_pc t); auto. Qed.

Lemma flat_map_remaining_split l1 t l2 :
  flat_map remaining (l1 ++ t :: l2) = flat_map remaining l1 ++ remaining t ++ flat_map remaining l2.
Proof. rewrite flat_map_app. reflexivity. Qed.

Lemma cinv_step progs cf i : cinv progs cf -> cinv progs (mconf_step cf i).
Proof.
  intros Hinv. unfold mconf_step.
  destruct (nth_error (c_threads cf) i) as [t|] eqn:En; [|exact Hinv].
  destruct (mthread_step (c_store cf) t) as [[[[s' t'] lg] ix]|] eqn:Es; [|exact Hinv].
  apply nth_error_split in En as (l1 & l2 & Hth & Hlen). subst i.
  destruct cf as [s ths L J]. cbn [c_store c_threads c_log c_indexed] in *. subst ths.
  rewrite upd_nth_split.
  destruct Hinv as [Hperm Hord Hcas Hres Hthr Hg Hix Hsub]. cbn [c_store c_threads c_log c_indexed] in *.
  assert (Hokt : thread_ok s t).
  { rewrite Forall_forall in Hthr. apply Hthr. apply in_or_app. right. now left. }
  assert (Hothers : forall x, In x l1 \/ In x l2 -> thread_ok s x).
  { intros x Hx. rewrite Forall_forall in Hthr. apply Hthr. apply in_or_app. destruct Hx; [now left|right; now right]. }
  (* permutation and the sequential replay of the log *)
  assert (Hord' : forall i, log_of i (L ++ map (pair (length l1)) lg) ++
                             match nth_error (l1 ++ t' :: l2) i with Some t0 => remaining t0 | None => [] end
                             = nth i progs []).
  { intro j. rewrite log_of_app. destruct (Nat.eq_dec j (length l1)) as [->|Hne].
    - rewrite log_of_pair_same, nth_error_mid. specialize (Hord (length l1)).
      rewrite nth_error_mid, (step_remaining _ _ _ _ _ _ Es) in Hord. now rewrite <- app_assoc.
    - rewrite (log_of_pair_other _ _ _ Hne), app_nil_r.
      rewrite <- (nth_error_mid_other l1 l2 t t' j Hne). apply Hord. }
  assert (Hperm' : Permutation (map snd (L ++ map (pair (length l1)) lg) ++ flat_map remaining (l1 ++ t' :: l2)) (concat progs)).
  { rewrite map_app, map_snd_pair.
    rewrite flat_map_remaining_split. rewrite flat_map_remaining_split in Hperm.
    rewrite (step_remaining _ _ _ _ _ _ Es) in Hperm.
    eapply Permutation_trans; [apply Permutation_sym, perm_move | exact Hperm]. }
  assert (Hseq : m_cas s' = m_cas (seq_state (map snd (L ++ map (pair (length l1)) lg))) /\
                 m_res s' = m_res (seq_state (map snd (L ++ map (pair (length l1)) lg)))).
  { rewrite map_app, map_snd_pair.
    destruct (step_commit _ _ _ _ _ _ Hokt Es) as [(-> & A & B)|(o & -> & A & B)].
    - rewrite app_nil_r. split; congruence.
    - rewrite seq_state_snoc. destruct (mem_step_cas_res s (seq_state (map snd L)) o Hcas Hres) as [C D].
      split; congruence. }
  destruct Hseq as [Hcas' Hres'].
  destruct (step_kind _ _ _ _ _ _ Hokt Es) as
      [(-> & -> & Hok' & Hnot3 & Hnot3')
      |[(d & c & Hpc & Habs & -> & Hpc' & ->)
       |[(d & c & Hpc & Hpres & -> & Hpc' & ->)
        |(d & r & -> & -> & Hpc' & Hnot3)]]];
    constructor; cbn [c_store c_threads c_log c_indexed m_cas m_res m_graph app]; auto.
  - (* kind A: threads *)
    apply Forall_forall. intros x Hx. apply in_app_or in Hx as [Hx|[Heq|Hx]]; [| subst x |]; auto.
  - (* kind A: indexed *)
    intros k Hk. destruct (Hix k Hk) as [H|(tw & dw & Hin & Hpcw & Hkw)]; [now left|]. right.
    exists tw, dw. split; auto. apply in_app_or in Hin as [Hin|[Heq|Hin]]; [| subst tw |].
    + apply in_or_app. now left.
    + exfalso. eapply Hnot3; eauto.
    + apply in_or_app. right. now right.
  - (* kind B: threads *)
    assert (Hmono : forall k, get gkey_eqb k (m_cas s) <> None ->
                              get gkey_eqb k (put gkey_eqb (gk d) c (m_cas s)) <> None).
    { intros k Hk. destruct (gdec k (gk d)) as [->|Hne].
      - rewrite (get_put_eq gkey_eqb gkey_eqb_spec). discriminate.
      - now rewrite (get_put_neq gkey_eqb gkey_eqb_spec). }
    apply Forall_forall. intros x Hx. apply in_app_or in Hx as [Hx|[Heq|Hx]]; [| subst x |].
    + eapply thread_ok_mono; [|apply Hothers; now left]. exact Hmono.
    + unfold thread_ok. rewrite Hpc'. cbn [m_cas]. rewrite (get_put_eq gkey_eqb gkey_eqb_spec). discriminate.
    + eapply thread_ok_mono; [|apply Hothers; now right]. exact Hmono.
  - (* kind B: graph *)
    eapply graph_inv_ext; [|exact Hg]. intro k. unfold S_ix, S_mem.
    destruct (mem gkey_eqb k J) eqn:Em; auto.
    rewrite (get_put_neq gkey_eqb gkey_eqb_spec); auto.
    intro; subst k. apply (mem_In gkey_eqb gkey_eqb_spec) in Em. apply Hsub in Em. congruence.
  - (* kind B: indexed *)
    intros k Hk. destruct (gdec k (gk d)) as [->|Hne].
    + right. exists t', d. split; [apply in_or_app; right; now left|]. auto.
    + rewrite (get_put_neq gkey_eqb gkey_eqb_spec) in Hk by exact Hne.
      destruct (Hix k Hk) as [H|(tw & dw & Hin & Hpcw & Hkw)]; [now left|]. right.
      exists tw, dw. split; auto. apply in_app_or in Hin as [Hin|[Heq|Hin]]; [| subst tw |].
      * apply in_or_app. now left.
      * congruence.
      * apply in_or_app. right. now right.
  - (* kind B: indexed keys are present *)
    intros k Hk. apply Hsub in Hk. destruct (gdec k (gk d)) as [->|Hne].
    + rewrite (get_put_eq gkey_eqb gkey_eqb_spec). discriminate.
    + now rewrite (get_put_neq gkey_eqb gkey_eqb_spec).
  - (* kind C: threads *)
    apply Forall_forall. intros x Hx. apply in_app_or in Hx as [Hx|[Heq|Hx]].
    + eapply thread_ok_mono; [|apply Hothers; now left]. intros k Hk; exact Hk.
    + subst x. unfold thread_ok. now rewrite Hpc'.
    + eapply thread_ok_mono; [|apply Hothers; now right]. intros k Hk; exact Hk.
  - (* kind C: graph *)
    eapply graph_inv_ext; [|apply g_index_inv'; [exact Hg|]].
    + intro k. unfold upd, S_ix. cbn [mem existsb].
      destruct (gkey_eqb k (gk d)) eqn:Ek; cbn [orb]; auto.
      apply gkey_eqb_spec in Ek. subst k. unfold S_mem. now rewrite Hpres.
    + unfold S_ix. destruct (mem gkey_eqb (gk d) J); [right|now left].
      unfold S_mem. now rewrite Hpres.
  - (* kind C: indexed *)
    intros k Hk. destruct (Hix k Hk) as [H|(tw & dw & Hin & Hpcw & Hkw)]; [left; now right|].
    apply in_app_or in Hin as [Hin|[Heq|Hin]]; [| subst tw |].
    + right. exists tw, dw. split; auto. apply in_or_app. now left.
    + left. left. rewrite Hpc in Hpcw. injection Hpcw as <-. auto.
    + right. exists tw, dw. split; auto. apply in_or_app. right. now right.
  - (* kind C: indexed keys are present *)
    intros k [<-|Hk]; [congruence | auto].
  - (* kind D: threads *)
    apply Forall_forall. intros x Hx. apply in_app_or in Hx as [Hx|[Heq|Hx]].
    + eapply thread_ok_mono; [|apply Hothers; now left]. intros k Hk; exact Hk.
    + subst x. unfold thread_ok. now rewrite Hpc'.
    + eapply thread_ok_mono; [|apply Hothers; now right]. intros k Hk; exact Hk.
  - (* kind D: indexed *)
    intros k Hk. destruct (Hix k Hk) as [H|(tw & dw & Hin & Hpcw & Hkw)]; [now left|]. right.
    exists tw, dw. split; auto. apply in_app_or in Hin as [Hin|[Heq|Hin]]; [| subst tw |].
    + apply in_or_app. now left.
    + exfalso. eapply Hnot3; eauto.
    + apply in_or_app. right. now right.
Qed.

Lemma cinv_run progs sched : forall cf, cinv progs cf -> cinv progs (mconf_run cf sched).
Proof.
  unfold mconf_run. induction sched as [|i sched IH]; intros cf H; [exact H|].
  simpl. apply IH. now apply cinv_step.
Qed.

Lemma thread_done_spec t : thread_done t = true -> t_pc t = MIdle /\ remaining t = [].
Proof.
  unfold thread_done, remaining. destruct (t_pc t); try discriminate.
  destruct (t_ops t); [auto|discriminate].
Qed.

Lemma quiescent_remaining ths : forallb thread_done ths = true -> flat_map remaining ths = [].
Proof.
  induction ths as [|t ths IH]; simpl; auto. intro H. apply andb_true_iff in H as [A B].
  destruct (thread_done_spec t A) as [_ ->]. now apply IH.
Qed.

(* Every interleaving of the atomic steps, run to quiescence, ends in the content map,
   the resolver and (as answers of Predecessors) the graph of a sequential execution of
   the same operations. *)
Lemma quiescent_thread_remaining ths i :
  forallb thread_done ths = true ->
  match nth_error ths i with Some t => remaining t | None => [] end = [].
Proof.
  intro H. destruct (nth_error ths i) as [t|] eqn:E; auto.
  rewrite forallb_forall in H. apply nth_error_In in E. apply H in E.
  now apply thread_done_spec in E as [_ ->].
Qed.

Theorem quiescent_serialisable_memory (progs : list (list op)) (sched : list nat) :
  let cf := mconf_run (mconf_init progs) sched in
  quiescent cf = true ->
  exists order : list (nat * op),
    Permutation (map snd order) (concat progs) /\
    (forall i, log_of i order = nth i progs []) /\
    let q := fst (run mem_step mem_init (map snd order)) in
    m_cas (c_store cf) = m_cas q /\ m_res (c_store cf) = m_res q /\
    forall n k, In k (map gk (g_predecessors n (m_graph (c_store cf)))) <->
                In k (map gk (g_predecessors n (m_graph q))).
Proof.
  intros cf Hq. pose proof (cinv_run progs sched _ (cinv_init progs)) as Hinv. fold cf in Hinv.
  destruct Hinv as [Hperm Hord Hcas Hres Hthr Hg Hix Hsub]. unfold quiescent in Hq.
  exists (c_log cf). split; [|split].
  - rewrite (quiescent_remaining _ Hq), app_nil_r in Hperm. exact Hperm.
  - intro i. specialize (Hord i). rewrite (quiescent_thread_remaining _ i Hq), app_nil_r in Hord. exact Hord.
  - cbn zeta. fold (seq_state (map snd (c_log cf))).
    assert (Hg1 : graph_inv (S_mem (m_cas (c_store cf))) (m_graph (c_store cf))).
    { eapply graph_inv_ext; [|exact Hg]. intro k0. unfold S_ix.
      destruct (mem gkey_eqb k0 (c_indexed cf)) eqn:Em; auto.
      unfold S_mem. destruct (get gkey_eqb k0 (m_cas (c_store cf))) eqn:E; auto. exfalso.
      assert (Hne : get gkey_eqb k0 (m_cas (c_store cf)) <> None) by congruence.
      destruct (Hix k0 Hne) as [H|(tw & dw & Hin & Hpc & _)].
      - apply (mem_In gkey_eqb gkey_eqb_spec) in H. congruence.
      - rewrite forallb_forall in Hq. apply Hq in Hin. apply thread_done_spec in Hin as [Hin _]. congruence. }
    destruct (run_refines_mem (map snd (c_log cf)) mem_init mem_inv_init) as (_ & _ & [_ Hg2]).
    fold (seq_state (map snd (c_log cf))) in Hg2. rewrite <- Hcas in Hg2.
    split; [exact Hcas|]. split; [exact Hres|]. intros n k.
    rewrite (g_predecessors_spec _ _ _ _ Hg1). rewrite (g_predecessors_spec _ _ _ _ Hg2). tauto.
Qed.

(* non-vacuity: two goroutines racing on the same manifest and its layer, one schedule *)
Definition cx_man := mkDesc 1 1 10 0.
Definition cx_layer := mkDesc 6 2 5 0.
Definition cx_progs : list (list op) :=
  [ [Push cx_man (mkBlob 1 10 [(6, 2, 5)] 1 [(6, 2, 5)]); Tag cx_man (RName 1)];
    [Push cx_man (mkBlob 1 10 [(6, 2, 5)] 1 [(6, 2, 5)]); Push cx_layer (mkBlob 2 5 [] 2 []); Tag cx_man (RName 1)] ].
Definition cx_sched : list nat := [0; 1; 1; 0; 0; 1; 1; 1; 0; 0; 1; 1; 0; 1]%nat.

Lemma cx_quiescent : quiescent (mconf_run (mconf_init cx_progs) cx_sched) = true.
Proof. vm_compute. reflexivity. Qed.

(* At EVERY configuration reachable by any schedule (not only at quiescence) the content
   map holds verified bytes only: a Fetch taking its atomic step there returns bytes whose
   digest and size are those of the requested descriptor. *)
Theorem conc_fetch_matches_memory (progs : list (list op)) (sched : list nat) d hash len :
  snd (mem_step (c_store (mconf_run (mconf_init progs) sched)) (Fetch d)) = OBytes hash len ->
  hash = d_dig d /\ len = d_size d.
Proof.
  pose proof (cinv_run progs sched _ (cinv_init progs)) as [_ _ Hcas _ _ _ _ _].
  assert (H : cas_verified (m_cas (c_store (mconf_run (mconf_init progs) sched)))).
  { rewrite Hcas. unfold seq_state. apply mem_run_verified. intros k c X. discriminate. }
  simpl. destruct (get gkey_eqb (gk d) (m_cas (c_store (mconf_run (mconf_init progs) sched)))) as [c|] eqn:E; [|discriminate].
  intro X. injection X as <- <-. apply (H _ _ E).
Qed.
