(* CopyFnFacts: the source facts the hand-written transition systems of C02 assume about the error
   handling of copyGraph.fn, syncutil.Go, LimitedRegion.Start and ExtendedCopyGraph's outer closure.
   Generated/GC02.v re-reads them from the Go source on every run (tools/gosrc2v kind c02_srcfacts);
   this lemma fails -- layer P breaks -- when one of the shapes is edited:

     Model/CopyFault.v  "a failing task's node becomes Dead and nothing leaves Dead" rests on:
        the named result err + the deferred close(done) only when err == nil; every error of Exists /
        FindSuccessors / syncutil.Go / the wait's ctx.Done arm / region.Start / copyNode being returned;
        exactly two `return nil`;
     Model/CopyFault.v  "Ret ok needs no cancellation" and Model/CopyImpl.v LGoReturn rest on:
        syncutil.Go returning context.Cause(ctx) after eg.Wait, a task's error cancelling the group;
     Model/CopyImpl.v   LWaitCancel / LStartFail / LDispatchFail / LChildSkip / KOuter rest on:
        the select arm, Start's Acquire error, Go's dispatch loop and skip test, the outer closure. *)
From Oras Require Import Base.Prelude Generated.GC02.

Definition c02_source_facts : bool :=
  c02_fn_named_err && c02_fn_uncommitted_returns_first && c02_fn_defer_close_on_nil &&
  c02_fn_two_nil_returns && c02_fn_exists_err_returned && c02_fn_find_err_returned &&
  c02_fn_end_then_go_err_returned && c02_fn_wait_select && c02_fn_wait_loop &&
  c02_fn_start_err_returned && c02_fn_copy_results_returned && c02_docopy_errs_returned &&
  c02_go_returns_cause && c02_go_task_err_cancels && c02_go_start_fail_cancels &&
  c02_go_skip_when_cancelled && c02_start_acquire_err_returned && c02_ext_outer_closure.

Lemma source_facts_hold : c02_source_facts = true.
Proof. reflexivity. Qed.
