(* CopyFnFacts: the source facts the hand-written transition systems of C02 assume about the error
   handling of copyGraph.fn, syncutil.Go, LimitedRegion.Start and ExtendedCopyGraph's outer closure.
   Generated/GC02.v re-reads them from the Go source on every run (tools/gosrc2v kind c02_srcfacts);
   this lemma fails -- layer P breaks -- when one of the shapes is edited:

     Model/CopyFault.v  "a failing task's node becomes Dead and nothing leaves Dead" rests on:
        the named result err + the deferred close(done) only when err == nil; every error of Exists /
        FindSuccessors / syncutil.Go / the wait's ctx.Done arm / region.Start / copyNode being returned;
        exactly two `return nil`;
     Model/CopyFault.v  "Ret ok needs no cancellation" and Model/CopyImpl.v LGoReturn rest on:
        syncutil.Go returning context.Cause(ctx) after eg.Wait, a task's error cancelling the group;
     Model/CopyImpl.v   LWaitCancel / LStartFail / LDispatchFail / LChildSkip / KOuter rest on:
        the select arm, Start's Acquire error, Go's dispatch loop and skip test, the outer closure. *)
From Oras Require Import Base.Prelude Generated.GC02.

Definition c02_source_facts : bool :=
  c02_fn_named_err && c02_fn_uncommitted_returns_first && c02_fn_defer_close_on_nil &&
  c02_fn_two_nil_returns && c02_fn_exists_err_returned && c02_fn_find_err_returned &&
  c02_fn_end_then_go_err_returned && c02_fn_wait_select && c02_fn_wait_loop &&
  c02_fn_start_err_returned && c02_fn_copy_results_returned && c02_docopy_errs_returned &&
  c02_go_returns_cause && c02_go_task_err_cancels && c02_go_start_fail_cancels &&
  c02_go_skip_when_cancelled && c02_start_acquire_err_returned && c02_ext_outer_closure &&
  c02_prepare_refpusher_branch && c02_prepare_precopy_pushes_root_with_reference &&
  c02_prepare_postcopy_tags_root && c02_prepare_skipped_and_mounted_root_tagged.

Lemma source_facts_hold : c02_source_facts = true.
Proof. reflexivity. Qed.

(* The ORDER of the calls (tools/gosrc2v kind callseq, source order) is the order of the program counters of
   Model/CopyImpl.v (TTry, TExists, TFind, TEnd, TGo, TWait, TStart, TPush; KOuter: End, Go over [root], Start) and
   of the phases of Model/CopySpec.v (ExQ; NeedFetch..MF2; Waiting; Rdy / MtRdy; F1, F2, Pushing, Closing; PostP):
     copyGraph.fn : TryCommit, [deferred close(done)], dst.Exists, OnCopySkipped, FindSuccessors,
                    removeForeignLayers, region.End, syncutil.Go, TryCommit (wait loop), region.Start,
                    proxy.Cache.Exists, copyNode | mountOrCopyNode;  copyGraph itself ends with syncutil.Go(root)
     copyNode     : PreCopy, doCopyNode, PostCopy          doCopyNode : src.Fetch, (deferred) rc.Close, dst.Push *)
Local Open Scope string_scope.
Lemma source_call_order_holds :
  c02_calls_copygraph =
    [b "tracker.TryCommit"; b "close"; b "dst.Exists"; b "opts.OnCopySkipped"; b "opts.FindSuccessors";
     b "removeForeignLayers"; b "region.End"; b "syncutil.Go"; b "tracker.TryCommit"; b "region.Start";
     b "proxy.Cache.Exists"; b "copyNode"; b "mountOrCopyNode"; b "syncutil.Go"] /\
  c02_calls_extendedcopygraph =
    [b "findRoots"; b "semaphore.NewWeighted"; b "cas.NewProxyWithLimit"; b "status.NewTracker"; b "syncutil.Go";
     b "region.End"; b "copyGraph"; b "region.Start"] /\
  c02_calls_copynode = [b "opts.PreCopy"; b "doCopyNode"; b "opts.PostCopy"] /\
  c02_calls_docopynode = [b "src.Fetch"; b "newCopyError"; b "rc.Close"; b "dst.Push"; b "newCopyError"].
Proof. repeat split; reflexivity. Qed.
