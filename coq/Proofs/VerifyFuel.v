(* Fuel: the loops of the model (io.ReadFull, io.CopyBuffer, ensureEOF) never run out
   of fuel when fuel > ev_weight of the reader script, and their results do not
   depend on the fuel beyond that bound.  So the error EFuel excludes nothing. *)
From Oras Require Import Base.Prelude Generated.GC05 Model.Verify Proofs.Verify.
From Coq Require Import Lia ZArith.

Local Open Scope nat_scope.

Ltac fin3 := repeat split; auto; try lia; try discriminate.

Lemma script_read_weight comb evs k bs e evs' :
  script_read comb evs k = ((bs, e), evs') ->
  ev_weight evs' <= ev_weight evs /\ (1 <= k -> e = None -> ev_weight evs' < ev_weight evs) /\
  (e = None \/ e = Some EEof \/ e = Some EInjected).
Proof.
  destruct evs as [|[d| | |] r]; simpl; intro E.
  - inversion E; subst. fin3.
  - destruct (length d <=? k) eqn:L.
    + destruct comb.
      * destruct r as [|[d'| | |] r']; inversion E; subst; simpl; fin3.
      * inversion E; subst. fin3.
    + apply Nat.leb_gt in L. inversion E; subst. simpl. rewrite skipn_length. fin3.
  - inversion E; subst. fin3.
  - inversion E; subst. fin3.
  - inversion E; subst. fin3.
Qed.

Lemma clamp_ge1 k n : 1 <= k -> (0 < n)%Z -> 1 <= clamp k n.
Proof. rewrite clamp_min. lia. Qed.

Definition bw (s : base) : nat := ev_weight (b_evs s).

Lemma base_read_weight comb s k bs e s' :
  base_read comb s k = ((bs, e), s') ->
  bw s' <= bw s /\ (1 <= k -> e = None -> bw s' < bw s) /\
  (e = None \/ e = Some EEof \/ e = Some EInjected).
Proof.
  unfold base_read, bw. destruct s as [evs [n|]]; simpl.
  - destruct (n <=? 0)%Z eqn:N0.
    + intro E; inversion E; subst; simpl. repeat split; auto. discriminate.
    + destruct (script_read comb evs (clamp k n)) as [[bs0 e0] evs0] eqn:Es.
      intro E; inversion E; subst; simpl. apply script_read_weight in Es as (A & B & C).
      repeat split; auto. intros K1. apply B. apply clamp_ge1; auto. lia.
  - destruct (script_read comb evs k) as [[bs0 e0] evs0] eqn:Es.
    intro E; inversion E; subst; simpl. apply script_read_weight in Es. exact Es.
Qed.

(* ------------------------------------------------------------------ generic io.ReadFull *)
Section GenericReadFull.
  Context {S : Type}.
  Variable rd : S -> nat -> rres * S.
  Variable mu : S -> nat.
  Variable P : S -> Prop.
  Hypothesis rd_ok : forall s k bs e s', P s -> rd s k = ((bs, e), s') ->
    P s' /\ mu s' <= mu s /\ (1 <= k -> e = None -> mu s' < mu s) /\ e <> Some EFuel.

  Lemma read_full_fuel fuel : forall s want acc acc' e s',
    P s -> mu s < fuel -> read_full rd fuel s want acc = ((acc', e), s') ->
    e <> Some EFuel /\ P s' /\ mu s' <= mu s.
  Proof.
    induction fuel as [|f IH]; intros s want acc acc' e s' Ps Fu; [lia|]. simpl.
    destruct (want <=? length acc) eqn:W.
    { intro E; inversion E; subst. repeat split; auto. discriminate. }
    apply Nat.leb_gt in W.
    destruct (rd s (want - length acc)) as [[bs e0] s1] eqn:Er.
    destruct (rd_ok _ _ _ _ _ Ps Er) as (P1 & M1 & M2 & NF).
    destruct e0 as [e0|].
    - destruct (want <=? length (acc ++ bs)); [intro E; inversion E; subst; repeat split; auto; discriminate|].
      destruct ((0 <? length (acc ++ bs)) && is_eof e0); intro E; inversion E; subst; repeat split; auto; discriminate.
    - intro E. assert (M3 : mu s1 < mu s) by (apply M2; auto; lia).
      destruct (IH _ _ _ _ _ _ P1 ltac:(lia) E) as (A & B & C). repeat split; auto. lia.
  Qed.

  Lemma read_full_indep f1 : forall f2 s want acc,
    P s -> mu s < f1 -> mu s < f2 -> read_full rd f1 s want acc = read_full rd f2 s want acc.
  Proof.
    induction f1 as [|f IH]; intros f2 s want acc Ps F1 F2; [lia|].
    destruct f2 as [|g]; [lia|]. simpl.
    destruct (want <=? length acc) eqn:W; [reflexivity|]. apply Nat.leb_gt in W.
    destruct (rd s (want - length acc)) as [[bs e0] s1] eqn:Er.
    destruct (rd_ok _ _ _ _ _ Ps Er) as (P1 & M1 & M2 & NF).
    destruct e0 as [e0|]; [reflexivity|].
    assert (M3 : mu s1 < mu s) by (apply M2; auto; lia).
    apply IH; auto; lia.
  Qed.
End GenericReadFull.

Section Fuel.
  Variable H : str -> str -> str.
  Variable comb : bool.

  Definition vw (v : vrd) : nat := bw (v_base v).
  Definition nofuel (v : vrd) : Prop := v_err v <> Some EFuel.

  Lemma tee_ok : forall (s : base * str) k bs e s', True -> tee_read comb s k = ((bs, e), s') ->
    True /\ bw (fst s') <= bw (fst s) /\ (1 <= k -> e = None -> bw (fst s') < bw (fst s)) /\ e <> Some EFuel.
  Proof.
    intros [b0 h] k bs e s' _. unfold tee_read. simpl.
    destruct (base_read comb b0 k) as [[bs0 e0] b1] eqn:Eb. intro E; inversion E; subst; simpl.
    apply base_read_weight in Eb as (A & B & C). repeat split; auto.
    destruct C as [->|[->| ->]]; discriminate.
  Qed.

  Lemma vr_ok : forall v k bs e v', nofuel v -> vr_read comb v k = ((bs, e), v') ->
    nofuel v' /\ vw v' <= vw v /\ (1 <= k -> e = None -> vw v' < vw v) /\ e <> Some EFuel.
  Proof.
    intros v k bs e v' NF. unfold vr_read, nofuel, vw in *.
    destruct (v_err v) as [e0|] eqn:Ee.
    - intro E; inversion E; subst. rewrite Ee. repeat split; auto. discriminate.
    - destruct (v_N v <=? 0)%Z eqn:N0.
      + intro E; inversion E; subst; simpl. repeat split; auto; discriminate.
      + destruct (base_read comb (v_base v) (clamp k (v_N v))) as [[bs0 e1] b1] eqn:Eb.
        apply base_read_weight in Eb as (A & B & C).
        destruct e1 as [e1|]; intro E; inversion E; subst; simpl.
        * destruct C as [C|[C|C]]; inversion C; subst; simpl;
            repeat split; auto; try discriminate; destruct (_ >? 0)%Z; discriminate.
        * repeat split; auto; try discriminate. intros K1 _. apply B; auto. apply clamp_ge1; auto. lia.
  Qed.

  (* ensureEOF *)
  Lemma ensure_eof_indep f1 f2 b h :
    bw b < f1 -> bw b < f2 -> ensure_eof comb f1 (b, h) = ensure_eof comb f2 (b, h).
  Proof.
    intros F1 F2. unfold ensure_eof.
    rewrite (read_full_indep (tee_read comb) (fun s => bw (fst s)) (fun _ => True) tee_ok f1 f2); auto.
  Qed.

  Lemma ensure_eof_weight fuel b h ok b' h' :
    ensure_eof comb fuel (b, h) = (ok, (b', h')) -> bw b < fuel -> bw b' <= bw b.
  Proof.
    unfold ensure_eof. destruct (read_full (tee_read comb) fuel (b, h) 1 []) as [[acc e] [b1 h1]] eqn:E.
    intros X Fu; inversion X; subst.
    destruct (read_full_fuel (tee_read comb) (fun s => bw (fst s)) (fun _ => True) tee_ok fuel (b, h) 1 [] _ _ _ I Fu E) as (_ & _ & C).
    exact C.
  Qed.

  (* the peek of ensureEOF itself never runs out of fuel *)
  Lemma ensure_eof_no_fuel fuel b h acc e st :
    bw b < fuel -> read_full (tee_read comb) fuel (b, h) 1 [] = ((acc, e), st) -> e <> Some EFuel.
  Proof.
    intros Fu E.
    destruct (read_full_fuel (tee_read comb) (fun s => bw (fst s)) (fun _ => True) tee_ok fuel (b, h) 1 [] _ _ _ I Fu E) as (A & _).
    exact A.
  Qed.

  Lemma vr_verify_indep f1 f2 dg v :
    vw v < f1 -> vw v < f2 -> vr_verify H comb f1 dg v = vr_verify H comb f2 dg v.
  Proof.
    intros F1 F2. unfold vr_verify. rewrite (ensure_eof_indep f1 f2); auto.
  Qed.

  Lemma vr_verify_no_fuel fuel dg v r v' :
    nofuel v -> vr_verify H comb fuel dg v = (r, v') -> r <> Some EFuel.
  Proof.
    unfold vr_verify, nofuel. intros NF. destruct (v_verified v); [intro E; inversion E; discriminate|].
    destruct (ensure_eof comb fuel (v_base v, v_hashed v)) as [ok [b1 h1]].
    destruct (v_err v) as [e0|].
    - destruct e0; try (intro E; inversion E; subst; try discriminate; congruence);
        destruct (negb ok); try (intro E; inversion E; discriminate);
        destruct (verified H dg h1); intro E; inversion E; discriminate.
    - destruct (v_N v >? 0)%Z; [intro E; inversion E; discriminate|].
      destruct (negb ok); try (intro E; inversion E; discriminate);
        destruct (verified H dg h1); intro E; inversion E; discriminate.
  Qed.

  Lemma new_vr_nofuel fixed src dg sz : nofuel (new_vr_gen fixed src dg sz) /\ vw (new_vr_gen fixed src dg sz) = bw src.
  Proof.
    unfold new_vr_gen, nofuel, vw. destruct (negb (valid_digest dg)); [split; [discriminate|reflexivity]|].
    destruct (fixed && (sz <? 0)%Z); split; try discriminate; reflexivity.
  Qed.

  (* ---------------------------------------------------------------- ReadAll *)
  Theorem read_all_no_fuel fixed fuel src dg sz :
    bw src < fuel -> fst (fst (read_all H comb fixed fuel src dg sz)) <> Some EFuel.
  Proof.
    intro Fu. unfold read_all. destruct (sz <? 0)%Z; [discriminate|].
    destruct (new_vr_nofuel fixed src dg sz) as [NF W].
    assert (FuV : vw (new_vr fixed src dg sz) < fuel) by (unfold new_vr; lia).
    destruct (read_full (vr_read comb) fuel (new_vr fixed src dg sz) (Z.to_nat sz) []) as [[buf e] v0] eqn:Er.
    destruct (read_full_fuel (vr_read comb) vw nofuel vr_ok _ _ _ _ _ _ _ NF FuV Er) as (A & B & C).
    destruct e as [e|]; [simpl; exact A|].
    destruct (vr_verify H comb fuel dg v0) as [r v1] eqn:Ev. simpl.
    eapply vr_verify_no_fuel; eauto.
  Qed.

  Theorem read_all_fuel_indep fixed f1 f2 src dg sz :
    bw src < f1 -> bw src < f2 ->
    read_all H comb fixed f1 src dg sz = read_all H comb fixed f2 src dg sz.
  Proof.
    intros F1 F2. unfold read_all. destruct (sz <? 0)%Z; [reflexivity|].
    destruct (new_vr_nofuel fixed src dg sz) as [NF W].
    assert (FuV : vw (new_vr fixed src dg sz) < f2) by (unfold new_vr; lia).
    rewrite (read_full_indep (vr_read comb) vw nofuel vr_ok f1 f2); auto; try (unfold new_vr; lia).
    destruct (read_full (vr_read comb) f2 (new_vr fixed src dg sz) (Z.to_nat sz) []) as [[buf e] v0] eqn:Er.
    destruct (read_full_fuel (vr_read comb) vw nofuel vr_ok _ _ _ _ _ _ _ NF FuV Er) as (A & B & C).
    destruct e; [reflexivity|]. unfold new_vr in C. rewrite (vr_verify_indep f1 f2); auto; lia.
  Qed.

  (* ---------------------------------------------------------------- CopyBuffer *)
  Lemma copy_loop_fuel bufsz : 1 <= bufsz -> forall fuel v out e out' v',
    nofuel v -> vw v < fuel -> copy_loop comb fuel v bufsz out = ((e, out'), v') ->
    e <> Some EFuel /\ nofuel v' /\ vw v' <= vw v.
  Proof.
    intro B1. induction fuel as [|f IH]; intros v out e out' v' NF Fu; [lia|]. simpl.
    destruct (vr_read comb v bufsz) as [[bs e0] v1] eqn:Er.
    destruct (vr_ok _ _ _ _ _ NF Er) as (P1 & M1 & M2 & NF1).
    destruct e0 as [e0|].
    - destruct e0; intro E; inversion E; subst; repeat split; auto; try discriminate; congruence.
    - intro E. assert (M3 : vw v1 < vw v) by (apply M2; auto).
      destruct (IH _ _ _ _ _ P1 ltac:(lia) E) as (A & B & C). repeat split; auto. lia.
  Qed.

  Lemma copy_loop_indep bufsz : 1 <= bufsz -> forall f1 f2 v out,
    nofuel v -> vw v < f1 -> vw v < f2 -> copy_loop comb f1 v bufsz out = copy_loop comb f2 v bufsz out.
  Proof.
    intro B1. induction f1 as [|f IH]; intros f2 v out NF F1 F2; [lia|]. destruct f2 as [|g]; [lia|]. simpl.
    destruct (vr_read comb v bufsz) as [[bs e0] v1] eqn:Er.
    destruct (vr_ok _ _ _ _ _ NF Er) as (P1 & M1 & M2 & NF1).
    destruct e0 as [e0|]; [reflexivity|].
    assert (M3 : vw v1 < vw v) by (apply M2; auto). apply IH; auto; lia.
  Qed.

  Theorem copy_buffer_no_fuel fixed fuel src bufsz dg sz :
    1 <= bufsz -> bw src < fuel -> fst (fst (copy_buffer H comb fixed fuel src bufsz dg sz)) <> Some EFuel.
  Proof.
    intros B1 Fu. unfold copy_buffer. destruct (new_vr_nofuel fixed src dg sz) as [NF W].
    assert (FuV : vw (new_vr fixed src dg sz) < fuel) by (unfold new_vr; lia).
    destruct (copy_loop comb fuel (new_vr fixed src dg sz) bufsz []) as [[e o] v0] eqn:Ec.
    destruct (copy_loop_fuel bufsz B1 _ _ _ _ _ _ NF FuV Ec) as (A & B & C).
    destruct e as [e|]; [simpl; exact A|].
    destruct (vr_verify H comb fuel dg v0) as [r v1] eqn:Ev. simpl.
    eapply vr_verify_no_fuel; eauto.
  Qed.

  Theorem copy_buffer_fuel_indep fixed f1 f2 src bufsz dg sz :
    1 <= bufsz -> bw src < f1 -> bw src < f2 ->
    copy_buffer H comb fixed f1 src bufsz dg sz = copy_buffer H comb fixed f2 src bufsz dg sz.
  Proof.
    intros B1 F1 F2. unfold copy_buffer. destruct (new_vr_nofuel fixed src dg sz) as [NF W].
    assert (FuV : vw (new_vr fixed src dg sz) < f2) by (unfold new_vr; lia).
    rewrite (copy_loop_indep bufsz B1 f1 f2); auto; try (unfold new_vr; lia).
    destruct (copy_loop comb f2 (new_vr fixed src dg sz) bufsz []) as [[e o] v0] eqn:Ec.
    destruct (copy_loop_fuel bufsz B1 _ _ _ _ _ _ NF FuV Ec) as (A & B & C).
    destruct e; [reflexivity|]. unfold new_vr in C. rewrite (vr_verify_indep f1 f2); auto; lia.
  Qed.
End Fuel.
