(* C15 -- lemmas about Model/Paging.v *)
From Oras Require Import Base.Prelude Generated.GC15 Model.Paging.
From Coq Require Import Permutation Sorted.

(* ---------- parseLink ---------- *)

Lemma parse_link_wellformed t rest :
  contains c_gt t = false ->
  parse_link (c_lt :: t ++ c_gt :: rest) = LTarget t.
Proof.
  intro H. unfold parse_link. rewrite N.eqb_refl.
  change (c_lt :: t ++ c_gt :: rest) with ((c_lt :: t) ++ c_gt :: rest).
  rewrite index_of_app_fresh.
  - simpl length. replace (S (length t) - 1)%nat with (length t) by lia.
    now rewrite firstn_app_exact.
  - simpl. rewrite H. reflexivity.
Qed.

Lemma parse_link_absent : parse_link [] = LNone.
Proof. reflexivity. Qed.

Lemma parse_link_no_lt c h : c <> c_lt -> parse_link (c :: h) = LErrLt.
Proof. intro H. unfold parse_link. apply N.eqb_neq in H. now rewrite H. Qed.

Lemma parse_link_no_gt h : contains c_gt h = false -> parse_link (c_lt :: h) = LErrGt.
Proof.
  intro H. unfold parse_link. rewrite N.eqb_refl.
  assert (E : index_of c_gt (c_lt :: h) = None).
  { apply index_of_none. simpl. exact H. }
  now rewrite E.
Qed.

(* ---------- queries ---------- *)

Lemma str_eqb_neq x y : x <> y -> str_eqb x y = false.
Proof.
  intro H. destruct (str_eqb x y) eqn:E; [|reflexivity].
  apply str_eqb_spec in E. contradiction.
Qed.

Lemma qget_qdel_same k q : qget k (qdel k q) = None.
Proof.
  induction q as [|[k' v] q IH]; simpl; [reflexivity|].
  destruct (str_eqb k' k) eqn:E; [exact IH|]. simpl. now rewrite E.
Qed.

Lemma qget_qdel_other k k' q : k <> k' -> qget k (qdel k' q) = qget k q.
Proof.
  intro H. induction q as [|[k2 v] q IH]; simpl; [reflexivity|].
  destruct (str_eqb k2 k') eqn:E.
  - apply str_eqb_spec in E. subst k2. rewrite (str_eqb_neq k' k); auto.
  - simpl. now rewrite IH.
Qed.

Lemma qget_app k q1 q2 :
  qget k (q1 ++ q2) = match qget k q1 with Some v => Some v | None => qget k q2 end.
Proof.
  induction q1 as [|[k' v] q1 IH]; simpl; [reflexivity|].
  destruct (str_eqb k' k); [reflexivity|exact IH].
Qed.

Lemma qget_qset_same k v q : qget k (qset k v q) = Some v.
Proof. unfold qset. rewrite qget_app, qget_qdel_same. simpl. now rewrite str_eqb_refl. Qed.

Lemma qget_qset_other k k' v q : k <> k' -> qget k (qset k' v q) = qget k q.
Proof.
  intro H. unfold qset. rewrite qget_app, (qget_qdel_other k k' q H).
  destruct (qget k q); [reflexivity|]. simpl. now rewrite (str_eqb_neq k' k) by (intro E; now symmetry in E).
Qed.



Lemma k_n_neq_last : k_n <> k_last. Proof. discriminate. Qed.
Lemma k_n_neq_at : k_n <> k_at. Proof. discriminate. Qed.
Lemma k_last_neq_at : k_last <> k_at. Proof. discriminate. Qed.

(* what the server reads out of the request the client builds *)
Lemma mk_request_last c u last :
  qget k_last (u_query (mk_request c u last)) =
  if sends_last (c_kind c) && negb (is_empty last) then Some (VS last)
  else qget k_last (u_query u).
Proof.
  unfold mk_request. simpl.
  destruct (sends_last (c_kind c) && negb (is_empty last)).
  - apply qget_qset_same.
  - destruct (0 <? c_n c)%Z; [|reflexivity].
    apply qget_qset_other. intro H. symmetry in H. now apply k_n_neq_last in H.
Qed.

Lemma mk_request_at c u last :
  qget k_at (u_query (mk_request c u last)) = qget k_at (u_query u).
Proof.
  unfold mk_request. simpl.
  assert (A : forall q, qget k_at (if (0 <? c_n c)%Z then qset k_n (VN (Z.to_N (c_n c))) q else q) = qget k_at q).
  { intro q. destruct (0 <? c_n c)%Z; [|reflexivity]. apply qget_qset_other.
    intro H. symmetry in H. now apply k_n_neq_at in H. }
  destruct (sends_last (c_kind c) && negb (is_empty last)).
  - rewrite qget_qset_other; [apply A|]. intro H. symmetry in H. now apply k_last_neq_at in H.
  - apply A.
Qed.

Lemma mk_request_n c u last :
  (0 < c_n c)%Z -> qget k_n (u_query (mk_request c u last)) = Some (VN (Z.to_N (c_n c))).
Proof.
  intro H. unfold mk_request. simpl. apply Z.ltb_lt in H. rewrite H.
  destruct (sends_last (c_kind c) && negb (is_empty last)).
  - rewrite qget_qset_other; [apply qget_qset_same|]. exact k_n_neq_last.
  - apply qget_qset_same.
Qed.

Lemma mk_request_path c u last : u_path (mk_request c u last) = u_path u.
Proof. reflexivity. Qed.

(* ---------- the registry's cursor ---------- *)

Lemma after_pos_suffix x L r : after_pos x L = Some r -> exists pre, L = pre ++ r.
Proof.
  revert r. induction L as [|it L IH]; simpl; intros r H; [discriminate|].
  destruct (str_eqb (fst it) x).
  - injection H as <-. now exists [it].
  - destruct (IH r H) as [pre ->]. now exists (it :: pre).
Qed.

Lemma drop_until_suffix x L : exists pre, L = pre ++ drop_until x L.
Proof.
  induction L as [|it L [pre IH]]; simpl.
  - now exists [].
  - destruct (str_ltb x (fst it)).
    + now exists [].
    + exists (it :: pre). simpl. now f_equal.
Qed.

Lemma after_suffix x L : exists pre, L = pre ++ after x L.
Proof.
  unfold after. destruct x as [|c x]; [now exists []|].
  destruct (after_pos (c :: x) L) as [r|] eqn:E.
  - now apply after_pos_suffix in E.
  - apply drop_until_suffix.
Qed.

Lemma after_pos_fresh x A it B :
  fst it = x -> ~ In x (map fst A) -> after_pos x (A ++ it :: B) = Some B.
Proof.
  intros Hx. induction A as [|a A IH]; simpl; intro Hn.
  - rewrite Hx. now rewrite str_eqb_refl.
  - rewrite str_eqb_neq; [|intro E; apply Hn; now left].
    apply IH. intro Hi. apply Hn. now right.
Qed.

Lemma last_name_snoc p it : last_name (p ++ [it]) = fst it.
Proof. unfold last_name. now rewrite rev_app_distr. Qed.

Lemma firstn_snoc {A} (m : nat) (l : list A) :
  (1 <= m)%nat -> (m <= length l)%nat -> exists p x, firstn m l = p ++ [x].
Proof.
  intros H1 H2.
  destruct (firstn m l) as [|y t] eqn:E using rev_ind.
  - exfalso. assert (length (firstn m l) = m) by (apply firstn_length_le; lia).
    rewrite E in H. simpl in H. lia.
  - now exists t, y.
Qed.

Lemma after_nonempty x L :
  x <> [] -> after x L = match after_pos x L with Some r => r | None => drop_until x L end.
Proof. destruct x; [contradiction|reflexivity]. Qed.

(* the cursor written into a link selects exactly the rest *)
Lemma after_page L pre rest m :
  L = pre ++ rest -> NoDup (map fst L) -> (forall it, In it L -> fst it <> []) ->
  (1 <= m)%nat -> (m < length rest)%nat ->
  after (last_name (firstn m rest)) L = skipn m rest.
Proof.
  intros HL Hnd Hne H1 H2.
  destruct (firstn_snoc m rest H1 ltac:(lia)) as (p & it & Ep).
  rewrite Ep, last_name_snoc.
  assert (Hrest : rest = (p ++ [it]) ++ skipn m rest) by (rewrite <- Ep; symmetry; apply firstn_skipn).
  assert (HL' : L = (pre ++ p) ++ it :: skipn m rest).
  { rewrite HL. rewrite Hrest at 1. rewrite <- !app_assoc. reflexivity. }
  assert (Hin : In it L) by (rewrite HL'; apply in_or_app; right; now left).
  rewrite after_nonempty by (now apply Hne).
  rewrite HL'. rewrite after_pos_fresh; auto.
  rewrite HL' in Hnd. rewrite map_app in Hnd. simpl in Hnd.
  apply NoDup_remove_2 in Hnd. intro Hi. apply Hnd. apply in_or_app. now left.
Qed.

(* ---------- filters ---------- *)

Lemma filter_idem {A} (f : A -> bool) l : filter f (filter f l) = filter f l.
Proof.
  induction l as [|x l IH]; simpl; [reflexivity|].
  destruct (f x) eqn:E; simpl; [rewrite E; now f_equal|exact IH].
Qed.

Lemma filter_referrers_idem l a : filter_referrers (filter_referrers l a) a = filter_referrers l a.
Proof. unfold filter_referrers. destruct (is_empty a); [reflexivity|apply filter_idem]. Qed.

Lemma filter_referrers_app l1 l2 a :
  filter_referrers (l1 ++ l2) a = filter_referrers l1 a ++ filter_referrers l2 a.
Proof. unfold filter_referrers. destruct (is_empty a); [reflexivity|apply filter_app]. Qed.

(* ---------- the client loop against the registry ---------- *)

Lemma NoDup_map_filter {A B} (g : A -> B) (f : A -> bool) l :
  NoDup (map g l) -> NoDup (map g (filter f l)).
Proof.
  induction l as [|x l IH]; simpl; intro H; [constructor|].
  inversion H as [|? ? Hn Hd]; subst.
  destruct (f x); simpl; [|now apply IH].
  constructor; [|now apply IH]. intro Hi. apply Hn.
  apply in_map_iff in Hi as (y & Ey & Hy). apply filter_In in Hy as [Hy _].
  apply in_map_iff. now exists y.
Qed.


Lemma firstn_plus {A} (m n : nat) (l : list A) :
  firstn (m + n) l = firstn m l ++ firstn n (skipn m l).
Proof.
  revert l. induction m as [|m IH]; intro l; simpl; [reflexivity|].
  destruct l as [|x l]; simpl; [now rewrite firstn_nil|]. now rewrite IH.
Qed.

Definition cursor_ok (cu : cursor) : Prop :=
  match cu with CLast => True | CToken k _ => k <> k_n /\ k <> k_last /\ k <> k_at end.

Lemma strip_app p x : strip p (p ++ x) = x.
Proof. unfold strip. rewrite firstn_app_exact, str_eqb_refl. apply skipn_app_exact. Qed.

Lemma ckey_neq_n cu : cursor_ok cu -> ckey cu <> k_n.
Proof. destruct cu; simpl; [intros _; intro H; symmetry in H; now apply k_n_neq_last in H|tauto]. Qed.
Lemma ckey_neq_at cu : cursor_ok cu -> ckey cu <> k_at.
Proof. destruct cu; simpl; [intros _; exact k_last_neq_at|tauto]. Qed.

(* reading back the cursor the registry wrote *)
Lemma cursor_read_link cu q x : cursor_read cu ((ckey cu, VS (cenc cu x)) :: q) = x.
Proof.
  destruct cu as [|k s]; unfold cursor_read, qget_s; cbn [ckey cenc qget]; rewrite str_eqb_refl; [reflexivity|].
  apply strip_app.
Qed.

(* a request without the registry's own cursor: the client's `last` decides *)
Lemma cursor_read_start cu q :
  cu = CLast \/ qget (ckey cu) q = None -> cursor_read cu q = qget_s k_last q.
Proof.
  destruct cu as [|k s]; [reflexivity|]. intros [H|H]; [discriminate|].
  unfold cursor_read. cbn [ckey] in H. now rewrite H.
Qed.

(* the client's next request still carries the cursor the registry wrote *)
Lemma cursor_read_request cu c p x q :
  cursor_ok cu ->
  cursor_read cu (u_query (mk_request c (mkUrl p ((ckey cu, VS (cenc cu x)) :: q)) [])) = x.
Proof.
  intro Hcu. unfold mk_request. cbn [is_empty negb u_query]. rewrite andb_false_r.
  destruct (0 <? c_n c)%Z; [|apply cursor_read_link].
  unfold qset. cbn [qdel]. rewrite (str_eqb_neq (ckey cu) k_n) by (now apply ckey_neq_n).
  cbn [app]. apply cursor_read_link.
Qed.

Lemma mk_request_other_pre c u last k :
  k <> k_n -> k <> k_last -> qget k (u_query (mk_request c u last)) = qget k (u_query u).
Proof.
  intros Hn Hl. unfold mk_request. simpl.
  assert (A : forall q, qget k (if (0 <? c_n c)%Z then qset k_n (VN (Z.to_N (c_n c))) q else q) = qget k q).
  { intro q. destruct (0 <? c_n c)%Z; [|reflexivity]. now apply qget_qset_other. }
  destruct (sends_last (c_kind c) && negb (is_empty last)).
  - rewrite qget_qset_other by exact Hl. apply A.
  - apply A.
Qed.

Lemma start_cursor cu c path q0 last0 :
  cursor_ok cu -> (forall k s, cu = CToken k s -> qget k q0 = None) ->
  cursor_read cu (u_query (mk_request c (mkUrl path q0) last0)) =
  qget_s k_last (u_query (mk_request c (mkUrl path q0) last0)).
Proof.
  intros Hcu H. apply cursor_read_start. destruct cu as [|k s]; [now left|right].
  cbn [ckey]. destruct Hcu as (Hn & Hl & _).
  rewrite mk_request_other_pre by assumption. cbn [u_query]. now apply (H k s).
Qed.

Lemma referrers_query_other a k : k <> k_at -> qget k (if is_empty a then [] else [(k_at, VS a)]) = None.
Proof.
  intro H. destruct (is_empty a); [reflexivity|]. cbn [qget].
  rewrite (str_eqb_neq k_at k); [reflexivity|]. intro E. apply H. now symmetry.
Qed.

Lemma mk_request_other c u last k :
  k <> k_n -> k <> k_last -> qget k (u_query (mk_request c u last)) = qget k (u_query u).
Proof.
  intros Hn Hl. unfold mk_request. simpl.
  assert (A : forall q, qget k (if (0 <? c_n c)%Z then qset k_n (VN (Z.to_N (c_n c))) q else q) = qget k q).
  { intro q. destruct (0 <? c_n c)%Z; [|reflexivity]. now apply qget_qset_other. }
  destruct (sends_last (c_kind c) && negb (is_empty last)).
  - rewrite qget_qset_other by exact Hl. apply A.
  - apply A.
Qed.

Lemma last_name_in (rest : list item) m :
  (1 <= m)%nat -> (m <= length rest)%nat -> In (last_name (firstn m rest)) (map fst rest).
Proof.
  intros H1 H2. destruct (firstn_snoc m rest H1 H2) as (p & it & E).
  rewrite E, last_name_snoc. apply in_map.
  rewrite <- (firstn_skipn m rest). rewrite E. apply in_or_app. left. apply in_or_app. right. now left.
Qed.

Section Listing.
  Variable L : list item.
  Variable cap : nat.
  Variable ds : nat -> decision.
  Variable render : nat -> url -> url -> str.
  Variable trailer : nat -> str.
  Variable resolve : url -> str -> option url.
  Variable c : cfg.
  Variable cu : cursor.                  (* the registry's continuation: `last` or an opaque token *)
  Variable npath : nat -> str -> str.    (* the path its next links point to *)
  Variable vis : item -> bool.           (* the entries it shows; pages may be empty although items remain *)
  Variable InvQ : url -> Prop.           (* an invariant of the requests of the run (True when not needed) *)

  (* the URL the registry's next link of answer i stands for *)
  Definition link_target (i : nat) (rq : url) (x : str) : url :=
    link_url cu (npath i (u_path rq)) (ds i) rq x.

  Hypothesis Hnodup : NoDup (map fst L).
  Hypothesis Hnonempty : forall it, In it L -> fst it <> [].
  (* any Link form that net/url resolves to the intended target (cursor x, the
     registry's extra parameters, the other parameters of the request) *)
  Hypothesis Hrender_gt : forall i base x, InvQ base -> In x (map fst L) ->
    contains c_gt (render i base (link_target i base x)) = false.
  Hypothesis Hresolve : forall i base x, InvQ base -> In x (map fst L) ->
    resolve base (render i base (link_target i base x)) = Some (link_target i base x).
  (* the request for the target of a link keeps the invariant *)
  Hypothesis Hinv : forall i base x, InvQ base -> In x (map fst L) ->
    InvQ (mk_request c (link_target i base x) []).
  Hypothesis Hextra : c_kind c = KReferrers -> forall i, qget k_at (d_extra (ds i)) = None.
  (* an opaque cursor key does not collide with n / last / artifactType *)
  Hypothesis Hcu : cursor_ok cu.

  Definition view (page : list item) : list item :=
    match c_kind c with KReferrers => filter_referrers (filter vis page) (c_at c) | _ => filter vis page end.

  Definition serve := reg_serve (c_kind c) cu npath vis L cap ds render trailer.
  Definition rest_of (rq : url) := after (cursor_read cu (u_query rq)) L.
  Definition m_of (i : nat) (rq : url) := page_len cap rq (ds i).
  Definition link_query (i : nat) (rq : url) : query :=
    u_query (link_url cu [] (ds i) rq (last_name (firstn (m_of i rq) (rest_of rq)))).

  Lemma view_app a b0 : view (a ++ b0) = view a ++ view b0.
  Proof. unfold view. rewrite filter_app. destruct (c_kind c); try reflexivity. apply filter_referrers_app. Qed.

  Lemma m_of_pos i rq : (1 <= m_of i rq)%nat.
  Proof. unfold m_of, page_len. lia. Qed.

  Lemma serve_link i rq :
    rs_link (serve i rq) =
    if (m_of i rq <? length (rest_of rq))%nat
    then c_lt :: render i rq (mkUrl (npath i (u_path rq)) (link_query i rq)) ++ c_gt :: trailer i
    else [].
  Proof.
    unfold rs_link, serve, reg_serve, reg_page. cbn [rs_links].
    fold (rest_of rq). fold (m_of i rq). unfold link_query.
    destruct (m_of i rq <? length (rest_of rq))%nat; reflexivity.
  Qed.

  Lemma handle_serve i rq :
    (Z.of_N (d_doc_len (ds i)) <= eff_limit (c_limit c))%Z ->
    (c_kind c = KReferrers -> qget_s k_at (u_query rq) = c_at c) ->
    handle c (serve i rq) = inr (view (firstn (m_of i rq) (rest_of rq))).
  Proof.
    intros Hfit Hat. unfold handle, serve, reg_serve, reg_page, body_fits. unfold ctype_bad. cbn [rs_status rs_ctype rs_json_ok rs_doc_len rs_items rs_fhdr rs_fann].
    rewrite str_eqb_refl.
    fold (rest_of rq). fold (m_of i rq).
    change (200 =? 200) with true. cbn [negb].
    assert (F : (Z.of_N (d_doc_len (ds i)) <=? eff_limit (c_limit c))%Z = true) by (apply Z.leb_le; exact Hfit).
    rewrite F. cbn [andb negb].
    unfold view, reg_filters.
    destruct (c_kind c) eqn:K; cbn [sends_last negb andb]; try reflexivity.
    rewrite (Hat eq_refl).
    destruct (is_empty (c_at c)) eqn:E; cbn [negb andb].
    - unfold filter_referrers. now rewrite E.
    - destruct (is_filter_applied (d_fhdr (ds i)) filterTypeArtifactType
                || is_filter_applied (d_fann (ds i)) filterTypeArtifactType) eqn:A.
      + assert (X : d_filter (ds i) || is_filter_applied (d_fhdr (ds i)) filterTypeArtifactType
                    || is_filter_applied (d_fann (ds i)) filterTypeArtifactType = true).
        { rewrite <- orb_assoc. rewrite A. apply orb_true_r. }
        now rewrite X.
      + rewrite <- orb_assoc. rewrite A. rewrite orb_false_r.
        destruct (d_filter (ds i)); [now rewrite filter_referrers_idem|reflexivity].
  Qed.

  Definition fits (i : nat) : Prop := (Z.of_N (d_doc_len (ds i)) <= eff_limit (c_limit c))%Z.

  Lemma handle_serve_oversize i rq : ~ fits i -> handle c (serve i rq) = inl ErrDecode.
  Proof.
    intro Hn. unfold handle, serve, reg_serve, reg_page, body_fits.
    unfold ctype_bad. cbn [rs_status rs_ctype rs_json_ok rs_doc_len]. rewrite str_eqb_refl.
    change (200 =? 200) with true. cbn [negb andb].
    assert (F : (Z.of_N (d_doc_len (ds i)) <=? eff_limit (c_limit c))%Z = false) by (apply Z.leb_gt; unfold fits in Hn; lia).
    rewrite F. cbn [negb]. destruct (c_kind c); reflexivity.
  Qed.

  Lemma concat_delivered p :
    concat (if delivered c (view p) then [view p] else []) = view p.
  Proof.
    unfold delivered. destruct (c_kind c); simpl; try apply app_nil_r.
    destruct (view p); simpl; [reflexivity|now rewrite app_nil_r].
  Qed.

  Lemma loop_listing :
    (forall i, (Z.of_N (d_doc_len (ds i)) <= eff_limit (c_limit c))%Z) ->
    forall fuel i k u last rest pre,
      rest_of (mk_request c u last) = rest ->
      L = pre ++ rest ->
      (c_kind c = KReferrers -> qget_s k_at (u_query (mk_request c u last)) = c_at c) ->
      InvQ (mk_request c u last) ->
      (length rest < fuel)%nat ->
      let t := loop serve resolve (fun _ => false) c fuel i k u last in
      t_out t = Done /\ concat (t_pages t) = view rest /\ (length (t_reqs t) <= S (length rest))%nat.
  Proof.
    intro Hfits.
    induction fuel as [|fuel IH]; intros i k u last rest pre Hrest HL Hat HI Hfuel; [lia|].
    cbn [loop]. cbv zeta.
    set (rq := mk_request c u last) in *.
    rewrite (handle_serve i rq (Hfits i) Hat). rewrite andb_false_r.
    rewrite serve_link. rewrite Hrest.
    set (m := m_of i rq).
    assert (Hm : (1 <= m)%nat) by apply m_of_pos.
    destruct (m <? length rest)%nat eqn:Emore.
    - (* a further page exists *)
      apply Nat.ltb_lt in Emore.
      assert (Hin : In (last_name (firstn m rest)) (map fst L)).
      { rewrite HL, map_app. apply in_or_app. right. apply last_name_in; lia. }
      assert (Etgt : mkUrl (npath i (u_path rq)) (link_query i rq) = link_target i rq (last_name (firstn m rest))).
      { unfold link_query, link_target, link_url. cbn [u_query]. fold m. now rewrite Hrest. }
      rewrite Etgt.
      rewrite parse_link_wellformed by (now apply Hrender_gt).
      rewrite Hresolve by (assumption).
      pose proof (Hinv i rq _ HI Hin) as HI'.
      set (tgt := link_target i rq (last_name (firstn m rest))).
      assert (Hlast : cursor_read cu (u_query (mk_request c tgt [])) = last_name (firstn m rest)).
      { unfold tgt, link_target, link_url. now apply cursor_read_request. }
      assert (Hrest' : rest_of (mk_request c tgt []) = skipn m rest).
      { unfold rest_of. rewrite Hlast. eapply after_page; eauto. }
      assert (HL' : L = (pre ++ firstn m rest) ++ skipn m rest).
      { rewrite <- app_assoc. now rewrite firstn_skipn. }
      assert (Hat' : c_kind c = KReferrers -> qget_s k_at (u_query (mk_request c tgt [])) = c_at c).
      { intro K. rewrite <- (Hat K). unfold qget_s. rewrite mk_request_at.
        unfold tgt, link_target, link_url. cbn [u_query qget].
        rewrite (str_eqb_neq (ckey cu) k_at) by (now apply ckey_neq_at).
        rewrite qget_app, (Hextra K).
        rewrite qget_qdel_other by (intro E; symmetry in E; now apply (ckey_neq_at cu Hcu) in E).
        rewrite qget_qdel_other; [|intro E; symmetry in E; now apply k_last_neq_at in E].
        reflexivity. }
      assert (Hlen : (length (skipn m rest) < fuel)%nat) by (rewrite skipn_length; lia).
      set (pg := if delivered c (view (firstn m rest)) then [view (firstn m rest)] else []).
      set (k' := if delivered c (view (firstn m rest)) then S k else k).
      destruct (IH (S i) k' tgt [] (skipn m rest) (pre ++ firstn m rest) Hrest' HL' Hat' HI' Hlen) as (O & P & R).
      unfold prepend. cbn [t_out t_pages t_reqs]. split; [exact O|]. split.
      + rewrite concat_app. rewrite P. unfold pg. rewrite concat_delivered.
        rewrite <- view_app. now rewrite firstn_skipn.
      + simpl length. rewrite skipn_length in R. lia.
    - (* the last page *)
      apply Nat.ltb_ge in Emore.
      rewrite parse_link_absent. cbn [t_out t_pages t_reqs]. split; [reflexivity|]. split.
      + rewrite concat_delivered. now rewrite firstn_all2.
      + simpl. lia.
  Qed.

  Lemma view_nil : view [] = [].
  Proof. unfold view, filter_referrers. destruct (c_kind c); try reflexivity. destruct (is_empty (c_at c)); reflexivity. Qed.

  (* without assuming that documents fit: the listing either completes, or stops with a
     decode error at the first document that does not fit, having delivered whole pages *)
  Lemma loop_listing_limit :
    forall fuel i k u last rest pre,
      rest_of (mk_request c u last) = rest ->
      L = pre ++ rest ->
      (c_kind c = KReferrers -> qget_s k_at (u_query (mk_request c u last)) = c_at c) ->
      InvQ (mk_request c u last) ->
      (length rest < fuel)%nat ->
      let t := loop serve resolve (fun _ => false) c fuel i k u last in
      (t_out t = Done /\ concat (t_pages t) = view rest /\
       forall j, (j < length (t_reqs t))%nat -> fits (i + j)) \/
      (t_out t = ErrDecode /\
       exists n j, concat (t_pages t) = view (firstn n rest) /\ length (t_reqs t) = S j /\
                   ~ fits (i + j) /\ forall j', (j' < j)%nat -> fits (i + j')).
  Proof.
    induction fuel as [|fuel IH]; intros i k u last rest pre Hrest HL Hat HI Hfuel; [lia|].
    cbn [loop]. cbv zeta.
    set (rq := mk_request c u last) in *.
    destruct (Z.le_gt_cases (Z.of_N (d_doc_len (ds i))) (eff_limit (c_limit c))) as [Hfit|Hbig].
    2:{ right. rewrite handle_serve_oversize by (unfold fits; lia). cbn [t_out t_pages t_reqs].
        split; [reflexivity|]. exists 0%nat, 0%nat. simpl. rewrite view_nil, Nat.add_0_r.
        repeat split; auto; try lia. unfold fits. lia. }
    rewrite (handle_serve i rq Hfit Hat). rewrite andb_false_r.
    rewrite serve_link. rewrite Hrest.
    set (m := m_of i rq).
    assert (Hm : (1 <= m)%nat) by apply m_of_pos.
    destruct (m <? length rest)%nat eqn:Emore.
    - apply Nat.ltb_lt in Emore.
      assert (Hin : In (last_name (firstn m rest)) (map fst L)).
      { rewrite HL, map_app. apply in_or_app. right. apply last_name_in; lia. }
      assert (Etgt : mkUrl (npath i (u_path rq)) (link_query i rq) = link_target i rq (last_name (firstn m rest))).
      { unfold link_query, link_target, link_url. cbn [u_query]. fold m. now rewrite Hrest. }
      rewrite Etgt.
      rewrite parse_link_wellformed by (now apply Hrender_gt).
      rewrite Hresolve by (assumption).
      pose proof (Hinv i rq _ HI Hin) as HI'.
      set (tgt := link_target i rq (last_name (firstn m rest))).
      assert (Hlast : cursor_read cu (u_query (mk_request c tgt [])) = last_name (firstn m rest)).
      { unfold tgt, link_target, link_url. now apply cursor_read_request. }
      assert (Hrest' : rest_of (mk_request c tgt []) = skipn m rest).
      { unfold rest_of. rewrite Hlast. eapply after_page; eauto. }
      assert (HL' : L = (pre ++ firstn m rest) ++ skipn m rest).
      { rewrite <- app_assoc. now rewrite firstn_skipn. }
      assert (Hat' : c_kind c = KReferrers -> qget_s k_at (u_query (mk_request c tgt [])) = c_at c).
      { intro K. rewrite <- (Hat K). unfold qget_s. rewrite mk_request_at.
        unfold tgt, link_target, link_url. cbn [u_query qget].
        rewrite (str_eqb_neq (ckey cu) k_at) by (now apply ckey_neq_at).
        rewrite qget_app, (Hextra K).
        rewrite qget_qdel_other by (intro E; symmetry in E; now apply (ckey_neq_at cu Hcu) in E).
        rewrite qget_qdel_other; [|intro E; symmetry in E; now apply k_last_neq_at in E].
        reflexivity. }
      assert (Hlen : (length (skipn m rest) < fuel)%nat) by (rewrite skipn_length; lia).
      set (pg := if delivered c (view (firstn m rest)) then [view (firstn m rest)] else []).
      set (k' := if delivered c (view (firstn m rest)) then S k else k).
      destruct (IH (S i) k' tgt [] (skipn m rest) (pre ++ firstn m rest) Hrest' HL' Hat' HI' Hlen)
        as [(O & P & R)|(O & n & j & P & R & N & B)];
        unfold prepend; cbn [t_out t_pages t_reqs].
      + left. split; [exact O|]. split.
        * rewrite concat_app. rewrite P. unfold pg. rewrite concat_delivered.
          rewrite <- view_app. now rewrite firstn_skipn.
        * intros [|j] Hj; [now rewrite Nat.add_0_r|]. rewrite Nat.add_succ_r. apply (R j). simpl in Hj. lia.
      + right. split; [exact O|]. exists (m + n)%nat, (S j). split; [|split; [|split]].
        * rewrite concat_app. rewrite P. unfold pg. rewrite concat_delivered.
          rewrite <- view_app. now rewrite firstn_plus.
        * simpl. now rewrite R.
        * now rewrite Nat.add_succ_r.
        * intros [|j'] Hj; [now rewrite Nat.add_0_r|]. rewrite Nat.add_succ_r. apply (B j'). lia.
    - apply Nat.ltb_ge in Emore. left.
      rewrite parse_link_absent. cbn [t_out t_pages t_reqs]. split; [reflexivity|]. split.
      + rewrite concat_delivered. now rewrite firstn_all2.
      + simpl. intros j Hj. assert (j = 0)%nat by lia. subst j. now rewrite Nat.add_0_r.
  Qed.
End Listing.

Lemma NoDup_suffix {A} (pre l : list A) : NoDup (pre ++ l) -> NoDup l.
Proof. induction pre as [|a pre IH]; simpl; intro H; [exact H|]. inversion H; auto. Qed.

(* Tags / Repositories: every item after [last], once, in the registry's order *)
Theorem listing_exactly_once :
  forall (L : list item) (cap : nat) (ds : nat -> decision)
         (render : nat -> url -> url -> str) (trailer : nat -> str)
         (resolve : url -> str -> option url) (c : cfg) (cu : cursor) (npath : nat -> str -> str) (vis : item -> bool)
         (path last0 : str) (fuel : nat),
    cursor_ok cu ->
    c_kind c <> KReferrers ->
    NoDup (map fst L) -> (forall it, In it L -> fst it <> []) ->
    (forall i base x, In x (map fst L) ->
       contains c_gt (render i base (link_target ds cu npath i base x)) = false) ->
    (forall i base x, In x (map fst L) ->
       resolve base (render i base (link_target ds cu npath i base x)) = Some (link_target ds cu npath i base x)) ->
    (forall i, (Z.of_N (d_doc_len (ds i)) <= eff_limit (c_limit c))%Z) ->
    (length (after last0 L) < fuel)%nat ->
    let t := loop (reg_serve (c_kind c) cu npath vis L cap ds render trailer) resolve (fun _ => false) c
                  fuel 0 0 (mkUrl path []) last0 in
    t_out t = Done /\
    concat (t_pages t) = filter vis (after last0 L) /\
    NoDup (map fst (concat (t_pages t))) /\
    (length (t_reqs t) <= S (length (after last0 L)))%nat.
Proof.
  intros L cap ds render trailer resolve c cu npath vis path last0 fuel Hcu K Hnd Hne Hgt Hres Hfit Hfuel.
  destruct (after_suffix last0 L) as [pre Hpre].
  assert (Hrest : rest_of L cu (mk_request c (mkUrl path []) last0) = after last0 L).
  { unfold rest_of. rewrite start_cursor by (auto; reflexivity). unfold qget_s. rewrite mk_request_last. cbn [u_query qget].
    assert (S : sends_last (c_kind c) = true) by (destruct (c_kind c); try reflexivity; contradiction).
    rewrite S. destruct last0; reflexivity. }
  destruct (loop_listing L cap ds render trailer resolve c cu npath vis (fun _ => True) Hnd Hne (fun i base x _ Hx => Hgt i base x Hx) (fun i base x _ Hx => Hres i base x Hx) (fun _ _ _ _ _ => I)
              ltac:(intro; contradiction) Hcu Hfit fuel 0%nat 0%nat (mkUrl path []) last0 (after last0 L) pre
              Hrest Hpre ltac:(intro; contradiction) I Hfuel) as (O & P & R).
  assert (V : view c vis (after last0 L) = filter vis (after last0 L)).
  { unfold view. destruct (c_kind c); try reflexivity; contradiction. }
  rewrite V in P. unfold serve in *. repeat split; auto.
  rewrite P. apply NoDup_map_filter. rewrite Hpre in Hnd. rewrite map_app in Hnd. now apply NoDup_suffix in Hnd.
Qed.

Definition referrers_query (a : str) : query := if is_empty a then [] else [(k_at, VS a)].

(* Referrers: exactly the referrers of the requested artifact type, once, in order,
   whether the registry filters (announced by header, by annotation, or silently) or not *)
Theorem referrers_exactly_once :
  forall (L : list item) (cap : nat) (ds : nat -> decision)
         (render : nat -> url -> url -> str) (trailer : nat -> str)
         (resolve : url -> str -> option url) (c : cfg) (cu : cursor) (npath : nat -> str -> str) (vis : item -> bool)
         (path : str) (fuel : nat),
    cursor_ok cu ->
    c_kind c = KReferrers ->
    NoDup (map fst L) -> (forall it, In it L -> fst it <> []) ->
    (forall i base x, In x (map fst L) ->
       contains c_gt (render i base (link_target ds cu npath i base x)) = false) ->
    (forall i base x, In x (map fst L) ->
       resolve base (render i base (link_target ds cu npath i base x)) = Some (link_target ds cu npath i base x)) ->
    (forall i, (Z.of_N (d_doc_len (ds i)) <= eff_limit (c_limit c))%Z) ->
    (forall i, qget k_at (d_extra (ds i)) = None) ->
    (length L < fuel)%nat ->
    let t := loop (reg_serve KReferrers cu npath vis L cap ds render trailer) resolve (fun _ => false) c
                  fuel 0 0 (mkUrl path (referrers_query (c_at c))) [] in
    t_out t = Done /\
    concat (t_pages t) = filter_referrers (filter vis L) (c_at c) /\
    (length (t_reqs t) <= S (length L))%nat.
Proof.
  intros L cap ds render trailer resolve c cu npath vis path fuel Hcu K Hnd Hne Hgt Hres Hfit Hex Hfuel.
  assert (Hrest : rest_of L cu (mk_request c (mkUrl path (referrers_query (c_at c))) []) = L).
  { unfold rest_of. rewrite start_cursor by (auto; intros k s E; apply referrers_query_other; rewrite E in Hcu; apply Hcu).
    unfold qget_s. rewrite mk_request_last. rewrite K. cbn [sends_last andb u_query].
    unfold referrers_query. destruct (is_empty (c_at c)); reflexivity. }
  assert (Hat : c_kind c = KReferrers ->
                qget_s k_at (u_query (mk_request c (mkUrl path (referrers_query (c_at c))) [])) = c_at c).
  { intros _. unfold qget_s. rewrite mk_request_at. cbn [u_query]. unfold referrers_query.
    destruct (c_at c) as [|x a]; [reflexivity|]. cbn [is_empty qget]. now rewrite str_eqb_refl. }
  pose proof (loop_listing L cap ds render trailer resolve c cu npath vis (fun _ => True) Hnd Hne (fun i base x _ Hx => Hgt i base x Hx) (fun i base x _ Hx => Hres i base x Hx) (fun _ _ _ _ _ => I)
              (fun _ => Hex) Hcu Hfit fuel 0%nat 0%nat (mkUrl path (referrers_query (c_at c))) [] L []
              Hrest eq_refl Hat I Hfuel) as H.
  unfold serve in H. rewrite K in H. unfold view in H. rewrite K in H. exact H.
Qed.

(* ---------- facts about the client loop against ANY server ---------- *)

Section ClientFacts.
  Variable serve : nat -> url -> response.
  Variable resolve : url -> str -> option url.
  Variable c : cfg.

  Lemma handle_err rs e : handle c rs = inl e -> e <> ErrCallback.
  Proof.
    unfold handle. intro H.
    destruct (negb (rs_status rs =? 200)).
    { injection H as <-. unfold status_error. destruct (c_kind c); try discriminate.
      destruct ((rs_status rs =? 404) && negb (rs_name_unknown rs)); discriminate. }
    destruct (ctype_bad c rs);
      [injection H as <-; discriminate|].
    destruct (negb (body_fits c rs)); [injection H as <-; discriminate|].
    destruct (c_kind c); try discriminate.
    destruct (is_empty (c_at c)); try discriminate.
    destruct (is_filter_applied (rs_fhdr rs) filterTypeArtifactType
              || is_filter_applied (rs_fann rs) filterTypeArtifactType); discriminate.
  Qed.

  (* no page is delivered by a response whose document does not fit the limit *)
  Lemma handle_ok_fits rs p :
    handle c rs = inr p ->
    rs_json_ok rs = true /\ (Z.of_N (rs_doc_len rs) <= eff_limit (c_limit c))%Z.
  Proof.
    unfold handle. intro H.
    destruct (negb (rs_status rs =? 200)); [discriminate|].
    destruct (ctype_bad c rs); [discriminate|].
    destruct (body_fits c rs) eqn:F; [|discriminate].
    unfold body_fits in F. apply andb_true_iff in F as [F1 F2]. apply Z.leb_le in F2. auto.
  Qed.

  Lemma handle_oversize rs :
    (eff_limit (c_limit c) < Z.of_N (rs_doc_len rs))%Z -> exists e, handle c rs = inl e.
  Proof.
    intro H. destruct (handle c rs) as [e|p] eqn:E; [now exists e|].
    apply handle_ok_fits in E. lia.
  Qed.

  (* callback discipline: the k-th invocation failing ends the listing with that error,
     nothing is delivered afterwards; otherwise the error is never ErrCallback *)
  Fixpoint ok_calls (cb_fail : nat -> bool) (k : nat) (pages : list (list item)) (o : outcome) : Prop :=
    match pages with
    | [] => o <> ErrCallback
    | _ :: ps => if cb_fail k then ps = [] /\ o = ErrCallback else ok_calls cb_fail (S k) ps o
    end.

  Lemma loop_calls cb_fail :
    forall fuel i k u last,
      let t := loop serve resolve cb_fail c fuel i k u last in
      ok_calls cb_fail k (t_pages t) (t_out t).
  Proof.
    induction fuel as [|fuel IH]; intros i k u last; cbn [loop]; cbv zeta; [simpl; discriminate|].
    destruct (handle c (serve i (mk_request c u last))) as [e|page] eqn:H.
    { simpl. now apply handle_err in H. }
    destruct (delivered c page) eqn:D; cbn [andb].
    - destruct (cb_fail k) eqn:F.
      + simpl. rewrite F. auto.
      + destruct (parse_link (rs_link (serve i (mk_request c u last)))); try (simpl; rewrite F; discriminate).
        destruct (resolve (mk_request c u last) t) as [u'|]; [|simpl; rewrite F; discriminate].
        unfold prepend. cbn [t_pages t_out app ok_calls]. rewrite F. apply IH.
    - destruct (parse_link (rs_link (serve i (mk_request c u last)))); try (simpl; discriminate).
      destruct (resolve (mk_request c u last) t) as [u'|]; [|simpl; discriminate].
      unfold prepend. cbn [t_pages t_out app]. apply IH.
  Qed.

  (* a failing callback truncates the undisturbed listing: same requests and pages up to
     and including the failing invocation, nothing after it *)
  Lemma loop_fail_prefix cb_fail :
    forall fuel i k u last,
      let t0 := loop serve resolve (fun _ => false) c fuel i k u last in
      let t1 := loop serve resolve cb_fail c fuel i k u last in
      (t1 = t0 /\ forall j, (j < length (t_pages t0))%nat -> cb_fail (k + j)%nat = false) \/
      (exists n m, t_out t1 = ErrCallback /\
                   t_reqs t1 = firstn (S n) (t_reqs t0) /\
                   t_pages t1 = firstn (S m) (t_pages t0) /\
                   (m < length (t_pages t0))%nat /\
                   cb_fail (k + m)%nat = true /\
                   forall j, (j < m)%nat -> cb_fail (k + j)%nat = false).
  Proof.
    induction fuel as [|fuel IH]; intros i k u last; cbn [loop]; cbv zeta.
    { left. split; [reflexivity|]. simpl. intros j Hj. lia. }
    set (rq := mk_request c u last).
    destruct (handle c (serve i rq)) as [e|page] eqn:H.
    { left. split; [reflexivity|]. simpl. intros j Hj. lia. }
    destruct (delivered c page) eqn:D; cbn [andb].
    - destruct (cb_fail k) eqn:F.
      + right. exists 0%nat, 0%nat. cbn [t_out t_reqs t_pages]. rewrite Nat.add_0_r.
        destruct (parse_link (rs_link (serve i rq))); try (simpl; repeat split; auto; lia).
        destruct (resolve rq t) as [u'|]; simpl; repeat split; auto; lia.
      + destruct (parse_link (rs_link (serve i rq)));
          try (left; split; [reflexivity|]; simpl; intros j Hj; assert (j = 0)%nat by lia; subst j; now rewrite Nat.add_0_r).
        destruct (resolve rq t) as [u'|];
          [|left; split; [reflexivity|]; simpl; intros j Hj; assert (j = 0)%nat by lia; subst j; now rewrite Nat.add_0_r].
        destruct (IH (S i) (S k) u' []) as [[E A]|(n & m & O & R & P & Lm & Fm & B)].
        * left. rewrite E. split; [reflexivity|]. unfold prepend. cbn [t_pages app length].
          intros [|j] Hj; [now rewrite Nat.add_0_r|].
          rewrite Nat.add_succ_r. apply (A j). lia.
        * right. exists (S n), (S m). unfold prepend. cbn [t_out t_reqs t_pages app].
          rewrite R, P. repeat split; auto.
          -- simpl. lia.
          -- now rewrite Nat.add_succ_r.
          -- intros [|j] Hj; [now rewrite Nat.add_0_r|]. rewrite Nat.add_succ_r. apply (B j). lia.
    - destruct (parse_link (rs_link (serve i rq)));
        try (left; split; [reflexivity|]; simpl; intros j Hj; lia).
      destruct (resolve rq t) as [u'|]; [|left; split; [reflexivity|]; simpl; intros j Hj; lia].
      destruct (IH (S i) k u' []) as [[E A]|(n & m & O & R & P & Lm & Fm & B)].
      + left. rewrite E. split; [reflexivity|]. unfold prepend. cbn [t_pages app]. exact A.
      + right. exists (S n), m. unfold prepend. cbn [t_out t_reqs t_pages app].
        rewrite R, P. repeat split; auto.
  Qed.

  (* referrers: empty pages are never delivered *)
  Lemma loop_no_empty_page cb_fail :
    c_kind c = KReferrers ->
    forall fuel i k u last,
      Forall (fun p => p <> []) (t_pages (loop serve resolve cb_fail c fuel i k u last)).
  Proof.
    intro K. induction fuel as [|fuel IH]; intros i k u last; cbn [loop]; cbv zeta; [constructor|].
    destruct (handle c (serve i (mk_request c u last))) as [e|page] eqn:H; [constructor|].
    assert (P : delivered c page = true -> page <> []).
    { unfold delivered. rewrite K. destruct page; [discriminate|discriminate]. }
    destruct (delivered c page) eqn:D; cbn [andb].
    - destruct (cb_fail k); [repeat constructor; auto|].
      destruct (parse_link (rs_link (serve i (mk_request c u last)))); try (repeat constructor; auto).
      destruct (resolve (mk_request c u last) t); [|repeat constructor; auto].
      unfold prepend. cbn [t_pages app]. constructor; auto.
    - destruct (parse_link (rs_link (serve i (mk_request c u last)))); try constructor.
      destruct (resolve (mk_request c u last) t); [|constructor].
      unfold prepend. cbn [t_pages app]. apply IH.
  Qed.
End ClientFacts.

(* ---------- the limit ---------- *)

Lemma eff_limit_pos n : (0 < eff_limit n)%Z.
Proof. unfold eff_limit. destruct (n <=? 0)%Z eqn:E; [reflexivity|]. apply Z.leb_gt in E. exact E. Qed.

Lemma eff_limit_default n : (n <= 0)%Z -> eff_limit n = defaultMaxMetadataBytes.
Proof. intro H. unfold eff_limit. apply Z.leb_le in H. now rewrite H. Qed.

Lemma eff_limit_set n : (0 < n)%Z -> eff_limit n = n.
Proof. intro H. unfold eff_limit. apply Z.leb_gt in H. now rewrite H. Qed.

(* whatever reads through limitReader obtains a prefix of the body of at most the limit *)
Lemma seen_spec limit body :
  (Z.of_nat (length (seen limit body)) <= eff_limit limit)%Z /\
  (exists rest, body = seen limit body ++ rest) /\
  ((Z.of_nat (length body) <= eff_limit limit)%Z -> seen limit body = body).
Proof.
  pose proof (eff_limit_pos limit) as Hp. unfold seen. split; [|split].
  - pose proof (firstn_le_length (Z.to_nat (eff_limit limit)) body). lia.
  - exists (skipn (Z.to_nat (eff_limit limit)) body). symmetry. apply firstn_skipn.
  - intro H. apply firstn_all2. lia.
Qed.

Lemma limit_size_spec limit size :
  limit_size_rejects limit size = true <-> (eff_limit limit < size)%Z.
Proof. unfold limit_size_rejects. apply Z.ltb_lt. Qed.

Section Bytes.
  Variable A : Type.
  (* json.Decoder.Decode on the bytes the reader lets it see *)
  Variable decode_stream : str -> option A.

  (* d is a self-delimiting document with value v: decoding stops at its end, and no proper
     prefix of it is accepted *)
  Definition is_document (d : str) (v : A) : Prop :=
    (forall tail, decode_stream (d ++ tail) = Some v) /\
    (forall k, (k < length d)%nat -> decode_stream (firstn k d) = None).

  Lemma limit_bytes d v pad limit :
    is_document d v ->
    (Z.of_nat (length (seen limit (d ++ pad))) <= eff_limit limit)%Z /\
    decode_stream (seen limit (d ++ pad)) =
      if (Z.of_nat (length d) <=? eff_limit limit)%Z then Some v else None.
  Proof.
    intros [D1 D2]. pose proof (eff_limit_pos limit) as Hp. unfold seen. split.
    - pose proof (firstn_le_length (Z.to_nat (eff_limit limit)) (d ++ pad)). lia.
    - rewrite firstn_app.
      destruct (Z.of_nat (length d) <=? eff_limit limit)%Z eqn:E.
      + apply Z.leb_le in E. rewrite firstn_all2 by lia. apply D1.
      + apply Z.leb_gt in E.
        replace (Z.to_nat (eff_limit limit) - length d)%nat with 0%nat by lia.
        simpl. rewrite app_nil_r. apply D2. lia.
  Qed.
End Bytes.

(* ---------- content/oci listTags ---------- *)

Lemma str_ltb_irrefl x : str_ltb x x = false.
Proof. induction x as [|c x IH]; simpl; [reflexivity|]. now rewrite N.ltb_irrefl. Qed.

Lemma str_ltb_total x y : str_ltb x y = true \/ x = y \/ str_ltb y x = true.
Proof.
  revert y. induction x as [|c x IH]; intros [|d y]; simpl; auto.
  destruct (N.ltb_spec c d); auto.
  destruct (N.ltb_spec d c); auto.
  assert (c = d) by lia. subst d.
  destruct (IH y) as [H1|[H1|H1]]; auto. subst. auto.
Qed.

Lemma str_ltb_trans x y z : str_ltb x y = true -> str_ltb y z = true -> str_ltb x z = true.
Proof.
  revert y z. induction x as [|c x IH]; intros [|d y] [|e z]; simpl; try discriminate; auto.
  destruct (N.ltb_spec c d), (N.ltb_spec d e), (N.ltb_spec c e); auto; try lia;
    destruct (N.ltb_spec d c), (N.ltb_spec e d), (N.ltb_spec e c); try discriminate; try lia; eauto.
Qed.

Lemma str_ltb_asym x y : str_ltb x y = true -> str_ltb y x = false.
Proof.
  intro H. destruct (str_ltb y x) eqn:E; [|reflexivity].
  pose proof (str_ltb_trans _ _ _ H E) as T. now rewrite str_ltb_irrefl in T.
Qed.

Definition sle (a b0 : str) : Prop := str_ltb b0 a = false.

Lemma sle_antisym a b0 : sle a b0 -> sle b0 a -> a = b0.
Proof. unfold sle. intros H1 H2. destruct (str_ltb_total a b0) as [H|[H|H]]; congruence. Qed.

Lemma sle_trans a b0 c0 : sle a b0 -> sle b0 c0 -> sle a c0.
Proof.
  unfold sle. intros H1 H2. destruct (str_ltb c0 a) eqn:E; [|reflexivity].
  destruct (str_ltb_total a b0) as [H|[H|H]]; try congruence.
  - pose proof (str_ltb_trans _ _ _ E H). congruence.
Qed.

Lemma sinsert_perm x l : Permutation (sinsert x l) (x :: l).
Proof.
  induction l as [|y l IH]; simpl; [reflexivity|].
  destruct (str_ltb y x); [|reflexivity].
  rewrite IH. apply perm_swap.
Qed.

Lemma ssort_perm l : Permutation (ssort l) l.
Proof.
  induction l as [|x l IH]; simpl; [reflexivity|].
  rewrite sinsert_perm. now constructor.
Qed.

Lemma sinsert_hd y x l : HdRel sle y l -> sle y x -> HdRel sle y (sinsert x l).
Proof.
  intros H1 H2. destruct l as [|z l]; simpl; [now constructor|].
  destruct (str_ltb z x); constructor; auto. now inversion H1.
Qed.

Lemma sinsert_sorted x l : Sorted sle l -> Sorted sle (sinsert x l).
Proof.
  induction l as [|y l IH]; simpl; intro H; [repeat constructor|].
  inversion H as [|? ? Hs Hh]; subst.
  destruct (str_ltb y x) eqn:E.
  - constructor; [now apply IH|]. apply sinsert_hd; auto. unfold sle. now apply str_ltb_asym.
  - constructor; [exact H|]. constructor. exact E.
Qed.

Lemma ssort_sorted l : Sorted sle (ssort l).
Proof. induction l as [|x l IH]; simpl; [constructor|now apply sinsert_sorted]. Qed.

Lemma sorted_perm_unique l1 l2 :
  Sorted sle l1 -> Sorted sle l2 -> Permutation l1 l2 -> l1 = l2.
Proof.
  revert l2. induction l1 as [|a l1 IH]; intros l2 S1 S2 P.
  - apply Permutation_nil in P. now subst.
  - destruct l2 as [|b0 l2]; [symmetry in P; now apply Permutation_nil in P|].
    apply Sorted_StronglySorted in S1; [|intros ? ? ?; apply sle_trans].
    apply Sorted_StronglySorted in S2; [|intros ? ? ?; apply sle_trans].
    inversion S1 as [|? ? S1' F1]; subst. inversion S2 as [|? ? S2' F2]; subst.
    assert (E : a = b0).
    { apply sle_antisym.
      - assert (I : In b0 (a :: l1)) by (eapply Permutation_in; [symmetry; exact P|now left]).
        destruct I as [->|I]; [unfold sle; apply str_ltb_irrefl|].
        rewrite Forall_forall in F1. now apply F1.
      - assert (I : In a (b0 :: l2)) by (eapply Permutation_in; [exact P|now left]).
        destruct I as [->|I]; [unfold sle; apply str_ltb_irrefl|].
        rewrite Forall_forall in F2. now apply F2. }
    subst b0. f_equal. apply IH.
    + now apply StronglySorted_Sorted.
    + now apply StronglySorted_Sorted.
    + now apply Permutation_cons_inv in P.
Qed.

(* listTags: ascending, exactly the non-digest references greater than last, each as often
   as the map holds it (once), whatever the iteration order of the map *)
Theorem list_tags_spec entries last :
  Sorted sle (list_tags entries last) /\
  Permutation (list_tags entries last) (map fst (filter (tag_listed last) entries)) /\
  (forall t, In t (list_tags entries last) <->
             exists d, In (t, d) entries /\ t <> d /\ (last = [] \/ str_ltb last t = true)).
Proof.
  unfold list_tags. split; [apply ssort_sorted|]. split; [apply ssort_perm|].
  intro t. split.
  - intro H. apply (Permutation_in _ (ssort_perm _)) in H.
    apply in_map_iff in H as ([t' d] & <- & H). apply filter_In in H as [Hi Hf].
    exists d. split; [exact Hi|]. unfold tag_listed in Hf. simpl in *.
    apply andb_true_iff in Hf as [F1 F2]. split.
    + intro E. subst d. now rewrite str_eqb_refl in F1.
    + apply orb_true_iff in F2 as [F2|F2]; [left; now destruct last|now right].
  - intros (d & Hi & Hd & Hl). apply (Permutation_in _ (Permutation_sym (ssort_perm _))).
    apply in_map_iff. exists (t, d). split; [reflexivity|]. apply filter_In. split; [exact Hi|].
    unfold tag_listed. simpl. rewrite (str_eqb_neq t d Hd). simpl.
    destruct Hl as [->|Hl]; [reflexivity|]. rewrite Hl. apply orb_true_r.
Qed.

Theorem list_tags_order_independent entries entries' last :
  Permutation entries entries' -> list_tags entries last = list_tags entries' last.
Proof.
  intro P. apply sorted_perm_unique.
  - apply (list_tags_spec entries last).
  - apply (list_tags_spec entries' last).
  - destruct (list_tags_spec entries last) as (_ & P1 & _).
    destruct (list_tags_spec entries' last) as (_ & P2 & _).
    rewrite P1, P2. apply Permutation_map.
    clear P1 P2. induction P; simpl.
    + constructor.
    + destruct (tag_listed last x); [now constructor|assumption].
    + destruct (tag_listed last x), (tag_listed last y); try reflexivity; try apply perm_swap.
    + etransitivity; eauto.
Qed.

Lemma filter_all {A} (f : A -> bool) l : (forall x, In x l -> f x = true) -> filter f l = l.
Proof.
  induction l as [|x l IH]; simpl; intro H; [reflexivity|].
  rewrite (H x) by now left. f_equal. apply IH. intros y Hy. apply H. now right.
Qed.

(* on a sorted registry the cursor semantics of the registry model is "greater than last",
   the same reading of [last] as listTags *)
Lemma after_sorted_unknown x L :
  StronglySorted (fun a b0 => str_ltb (fst a) (fst b0) = true) L ->
  x <> [] -> ~ In x (map fst L) ->
  after x L = filter (fun it => str_ltb x (fst it)) L.
Proof.
  intros S Hx Hn. rewrite after_nonempty by exact Hx.
  assert (E : after_pos x L = None).
  { clear S. induction L as [|it L IH]; simpl; [reflexivity|].
    rewrite str_eqb_neq; [|intro E; apply Hn; now left].
    apply IH. intro H. apply Hn. now right. }
  rewrite E. clear E Hn.
  induction L as [|it L IH]; simpl; [reflexivity|].
  inversion S as [|? ? S' F]; subst.
  destruct (str_ltb x (fst it)) eqn:E.
  - f_equal. symmetry. apply filter_all.
    intros it' Hi. rewrite Forall_forall in F. apply (str_ltb_trans _ _ _ E). now apply F.
  - now apply IH.
Qed.

(* ---------- summary lemmas used by Properties/C15.v ---------- *)

Lemma handle_not_done c rs : handle c rs <> inl Done.
Proof.
  unfold handle.
  destruct (negb (rs_status rs =? 200)).
  { unfold status_error. destruct (c_kind c); try discriminate.
    destruct ((rs_status rs =? 404) && negb (rs_name_unknown rs)); discriminate. }
  destruct (ctype_bad c rs); [discriminate|].
  destruct (negb (body_fits c rs)); [discriminate|].
  destruct (c_kind c); try discriminate.
  destruct (is_empty (c_at c)); try discriminate.
  destruct (is_filter_applied (rs_fhdr rs) filterTypeArtifactType
            || is_filter_applied (rs_fann rs) filterTypeArtifactType); discriminate.
Qed.

(* a listing that succeeds has decoded only documents that fit into the limit *)
Lemma loop_done_all_fit serve resolve cb_fail c :
  forall fuel i k u last,
    let t := loop serve resolve cb_fail c fuel i k u last in
    t_out t = Done ->
    forall j rq, nth_error (t_reqs t) j = Some rq ->
      rs_json_ok (serve (i + j)%nat rq) = true /\
      (Z.of_N (rs_doc_len (serve (i + j)%nat rq)) <= eff_limit (c_limit c))%Z.
Proof.
  induction fuel as [|fuel IH]; intros i k u last; cbn [loop]; cbv zeta; [discriminate|].
  set (rq0 := mk_request c u last).
  destruct (handle c (serve i rq0)) as [e|page] eqn:H.
  { cbn [t_out]. intros ->. exfalso. now apply (handle_not_done c (serve i rq0)). }
  pose proof (handle_ok_fits c _ _ H) as Fit.
  assert (Base : forall (t : trace) j rq, t_reqs t = [rq0] -> nth_error (t_reqs t) j = Some rq ->
            rs_json_ok (serve (i + j)%nat rq) = true /\
            (Z.of_N (rs_doc_len (serve (i + j)%nat rq)) <= eff_limit (c_limit c))%Z).
  { intros t j rq E. rewrite E. destruct j as [|[|j]]; simpl; try discriminate.
    intros [= <-]. now rewrite Nat.add_0_r. }
  destruct (delivered c page && cb_fail k); [discriminate|].
  destruct (parse_link (rs_link (serve i rq0))); try (intros _ j rq; now apply Base); try discriminate.
  destruct (resolve rq0 t) as [u'|]; [|discriminate].
  unfold prepend. cbn [t_out t_reqs]. intros O [|j] rq; simpl.
  - intros [= <-]. now rewrite Nat.add_0_r.
  - intro N. rewrite Nat.add_succ_r. apply (IH (S i) _ u' [] O j rq N).
Qed.

Lemma limit_spec :
  (forall n, (n <= 0)%Z -> eff_limit n = defaultMaxMetadataBytes) /\
  (forall n, (0 < n)%Z -> eff_limit n = n) /\
  (forall limit body,
     (Z.of_nat (length (seen limit body)) <= eff_limit limit)%Z /\
     (exists rest, body = seen limit body ++ rest) /\
     ((Z.of_nat (length body) <= eff_limit limit)%Z -> seen limit body = body)) /\
  (forall c rs p, handle c rs = inr p ->
     rs_json_ok rs = true /\ (Z.of_N (rs_doc_len rs) <= eff_limit (c_limit c))%Z) /\
  (forall c rs, (eff_limit (c_limit c) < Z.of_N (rs_doc_len rs))%Z -> exists e, handle c rs = inl e) /\
  (forall serve resolve cb_fail c fuel i k u last,
     let t := loop serve resolve cb_fail c fuel i k u last in
     t_out t = Done ->
     forall j rq, nth_error (t_reqs t) j = Some rq ->
       rs_json_ok (serve (i + j)%nat rq) = true /\
       (Z.of_N (rs_doc_len (serve (i + j)%nat rq)) <= eff_limit (c_limit c))%Z).
Proof.
  split; [exact eff_limit_default|]. split; [exact eff_limit_set|]. split; [exact seen_spec|].
  split; [exact handle_ok_fits|]. split; [exact handle_oversize|]. exact loop_done_all_fit.
Qed.

(* ---------- the listing without assuming that documents fit ---------- *)

Definition start_query (c : cfg) : query :=
  match c_kind c with KReferrers => referrers_query (c_at c) | _ => [] end.
Definition start_rest (c : cfg) (last0 : str) (L : list item) : list item :=
  match c_kind c with KReferrers => L | _ => after last0 L end.

Theorem listing_limit :
  forall (L : list item) (cap : nat) (ds : nat -> decision)
         (render : nat -> url -> url -> str) (trailer : nat -> str)
         (resolve : url -> str -> option url) (c : cfg) (cu : cursor) (npath : nat -> str -> str) (vis : item -> bool)
         (path last0 : str) (fuel : nat),
    cursor_ok cu ->
    NoDup (map fst L) -> (forall it, In it L -> fst it <> []) ->
    (forall i base x, In x (map fst L) ->
       contains c_gt (render i base (link_target ds cu npath i base x)) = false) ->
    (forall i base x, In x (map fst L) ->
       resolve base (render i base (link_target ds cu npath i base x)) = Some (link_target ds cu npath i base x)) ->
    (c_kind c = KReferrers -> forall i, qget k_at (d_extra (ds i)) = None) ->
    (length (start_rest c last0 L) < fuel)%nat ->
    let t := loop (reg_serve (c_kind c) cu npath vis L cap ds render trailer) resolve (fun _ => false) c
                  fuel 0 0 (mkUrl path (start_query c)) last0 in
    let fit := fun i => (Z.of_N (d_doc_len (ds i)) <= eff_limit (c_limit c))%Z in
    (t_out t = Done /\ concat (t_pages t) = view c vis (start_rest c last0 L) /\
     forall j, (j < length (t_reqs t))%nat -> fit j) \/
    (t_out t = ErrDecode /\
     exists n j, concat (t_pages t) = view c vis (firstn n (start_rest c last0 L)) /\
                 length (t_reqs t) = S j /\ ~ fit j /\ forall j', (j' < j)%nat -> fit j').
Proof.
  intros L cap ds render trailer resolve c cu npath vis path last0 fuel Hcu Hnd Hne Hgt Hres Hex Hfuel.
  assert (Hsuf : exists pre, L = pre ++ start_rest c last0 L).
  { unfold start_rest. destruct (c_kind c); try apply after_suffix. now exists []. }
  destruct Hsuf as [pre Hpre].
  assert (Hrest : rest_of L cu (mk_request c (mkUrl path (start_query c)) last0) = start_rest c last0 L).
  { unfold rest_of. rewrite start_cursor
      by (auto; intros k s E; unfold start_query; destruct (c_kind c); try reflexivity;
          apply referrers_query_other; rewrite E in Hcu; apply Hcu).
    unfold qget_s, start_rest, start_query. rewrite mk_request_last. cbn [u_query].
    destruct (c_kind c); cbn [sends_last andb qget].
    - destruct last0; reflexivity.
    - destruct last0; reflexivity.
    - unfold referrers_query. destruct (is_empty (c_at c)); reflexivity. }
  assert (Hat : c_kind c = KReferrers ->
                qget_s k_at (u_query (mk_request c (mkUrl path (start_query c)) last0)) = c_at c).
  { intros K. unfold qget_s, start_query. rewrite mk_request_at. rewrite K. cbn [u_query]. unfold referrers_query.
    destruct (c_at c) as [|x a]; [reflexivity|]. cbn [is_empty qget]. now rewrite str_eqb_refl. }
  exact (loop_listing_limit L cap ds render trailer resolve c cu npath vis (fun _ => True) Hnd Hne (fun i base x _ Hx => Hgt i base x Hx) (fun i base x _ Hx => Hres i base x Hx) (fun _ _ _ _ _ => I) Hex Hcu
           fuel 0%nat 0%nat (mkUrl path (start_query c)) last0 (start_rest c last0 L) pre Hrest Hpre Hat I Hfuel).
Qed.

(* ---------- referrers tag schema ---------- *)

Lemma clean_index_aux_spec seen items :
  NoDup (map fst (clean_index_aux seen items)) /\
  (forall x, In x (clean_index_aux seen items) -> In x items /\ fst x <> [] /\ ~ In (fst x) seen) /\
  (forall x, In x items -> fst x <> [] -> ~ In (fst x) seen -> In (fst x) (map fst (clean_index_aux seen items))).
Proof.
  revert seen. induction items as [|it r IH]; intro seen; simpl.
  - split; [constructor|]. split; [intros x []|intros x []].
  - destruct (is_empty (fst it) || existsb (str_eqb (fst it)) seen) eqn:E.
    + destruct (IH seen) as (N & A & B). split; [exact N|]. split.
      * intros x H. destruct (A x H) as (A1 & A2 & A3). auto.
      * intros x [<-|H] Hne Hs; [|now apply B].
        exfalso. apply orb_true_iff in E as [E|E].
        -- destruct (fst it); [now apply Hne|discriminate].
        -- apply existsb_exists in E as (y & Hy & Ey). apply str_eqb_spec in Ey. subst y. contradiction.
    + apply orb_false_iff in E as [E1 E2].
      assert (Hne : fst it <> []) by (destruct (fst it); [discriminate|discriminate]).
      assert (Hns : ~ In (fst it) seen).
      { intro H. assert (X : existsb (str_eqb (fst it)) seen = true).
        { apply existsb_exists. exists (fst it). split; [exact H|apply str_eqb_refl]. }
        congruence. }
      destruct (IH (fst it :: seen)) as (N & A & B). simpl. split.
      * constructor; [|exact N]. intro H. apply in_map_iff in H as (x & Ex & Hx).
        destruct (A x Hx) as (_ & _ & A3). apply A3. left. now symmetry.
      * split.
        -- intros x [<-|H]; [auto|]. destruct (A x H) as (A1 & A2 & A3).
           split; [now right|]. split; [exact A2|]. intro Hs. apply A3. now right.
        -- intros x [<-|H] Hx Hs; [now left|].
           destruct (list_eq_dec N.eq_dec (fst x) (fst it)) as [Eq|Nq]; [left; now symmetry|].
           right. apply B; auto. intros [Eq|Hs']; [apply Nq; now symmetry|contradiction].
Qed.

Lemma filter_referrers_NoDup l a : NoDup (map fst l) -> NoDup (map fst (filter_referrers l a)).
Proof. unfold filter_referrers. destruct (is_empty a); [auto|apply NoDup_map_filter]. Qed.

Lemma tag_schema_spec limit size items a cb_fail :
  let r := tag_schema limit true size items a cb_fail in
  ((eff_limit limit < size)%Z -> r = ([], ErrSize)) /\
  ((size <= eff_limit limit)%Z ->
     Forall (fun p => p <> []) (fst r) /\
     concat (fst r) = filter_referrers (clean_index items) a /\
     NoDup (map fst (concat (fst r))) /\
     (snd r = Done \/ (snd r = ErrCallback /\ cb_fail 0%nat = true /\ fst r <> [])) /\
     (cb_fail 0%nat = false -> snd r = Done)).
Proof.
  unfold tag_schema. cbn [negb]. split.
  - intro H. apply limit_size_spec in H. now rewrite H.
  - intro H. assert (E : limit_size_rejects limit size = false).
    { destruct (limit_size_rejects limit size) eqn:E; [|reflexivity]. apply limit_size_spec in E. lia. }
    rewrite E.
    pose proof (filter_referrers_NoDup (clean_index items) a (proj1 (clean_index_aux_spec [] items))) as ND.
    destruct (filter_referrers (clean_index items) a) as [|x f] eqn:F.
    + simpl. repeat split; auto; constructor.
    + destruct (cb_fail 0%nat) eqn:C; simpl; rewrite app_nil_r.
      * split; [repeat constructor; discriminate|]. split; [reflexivity|]. split; [exact ND|]. split; [|discriminate].
        right. split; [reflexivity|]. split; [reflexivity|discriminate].
      * split; [repeat constructor; discriminate|]. split; [reflexivity|]. split; [exact ND|]. split; [now left|reflexivity].
Qed.

(* what the cleaned index holds: every non-empty name of the index exactly once, with the
   attributes of its first entry; nothing else *)
Lemma clean_index_spec items :
  NoDup (map fst (clean_index items)) /\
  (forall x, In x (clean_index items) -> In x items /\ fst x <> []) /\
  (forall x, In x items -> fst x <> [] -> In (fst x) (map fst (clean_index items))) /\
  (NoDup (map fst items) -> (forall x, In x items -> fst x <> []) -> clean_index items = items).
Proof.
  unfold clean_index. destruct (clean_index_aux_spec [] items) as (N & A & B).
  split; [exact N|]. split; [intros x H; destruct (A x H) as (A1 & A2 & _); auto|].
  split; [intros x H Hne; apply B; auto|].
  assert (G : forall (l : list item) seen, NoDup (map fst l) -> (forall x, In x l -> fst x <> []) ->
              (forall x, In x l -> ~ In (fst x) seen) -> clean_index_aux seen l = l).
  { clear. induction l as [|it r IH]; intros seen Hnd Hne Hs; cbn [clean_index_aux]; [reflexivity|].
    inversion Hnd as [|? ? Hn Hd]; subst.
    assert (E1 : is_empty (fst it) = false).
    { destruct (fst it) eqn:E; [exfalso; apply (Hne it); [now left|exact E]|reflexivity]. }
    assert (E2 : existsb (str_eqb (fst it)) seen = false).
    { destruct (existsb (str_eqb (fst it)) seen) eqn:E; [|reflexivity].
      apply existsb_exists in E as (y & Hy & Ey). apply str_eqb_spec in Ey. subst y.
      exfalso. apply (Hs it); [now left|exact Hy]. }
    rewrite E1, E2. cbn [orb]. f_equal. simpl in Hnd. apply IH; auto.
    - intros x Hx. apply Hne. now right.
    - intros x Hx [Eq|Hi].
      + apply Hn. rewrite Eq. now apply in_map.
      + apply (Hs x); [now right|exact Hi]. }
  intros Hnd Hne. apply G; auto.
Qed.

Lemma tag_schema_absent limit size items a cb_fail :
  tag_schema limit false size items a cb_fail = ([], Done).
Proof. reflexivity. Qed.

(* ---------- any callback behaviour: what was delivered is a prefix ---------- *)

Lemma concat_firstn_skipn {A} (k : nat) (l : list (list A)) :
  concat l = concat (firstn k l) ++ concat (skipn k l).
Proof. rewrite <- concat_app. now rewrite firstn_skipn. Qed.

Theorem listing_prefix_any_callback :
  forall (L : list item) (cap : nat) (ds : nat -> decision)
         (render : nat -> url -> url -> str) (trailer : nat -> str)
         (resolve : url -> str -> option url) (c : cfg) (cu : cursor) (npath : nat -> str -> str) (vis : item -> bool)
         (cb_fail : nat -> bool) (path last0 : str) (fuel : nat),
    cursor_ok cu ->
    c_kind c <> KReferrers ->
    NoDup (map fst L) -> (forall it, In it L -> fst it <> []) ->
    (forall i base x, In x (map fst L) ->
       contains c_gt (render i base (link_target ds cu npath i base x)) = false) ->
    (forall i base x, In x (map fst L) ->
       resolve base (render i base (link_target ds cu npath i base x)) = Some (link_target ds cu npath i base x)) ->
    (forall i, (Z.of_N (d_doc_len (ds i)) <= eff_limit (c_limit c))%Z) ->
    (length (after last0 L) < fuel)%nat ->
    let t := loop (reg_serve (c_kind c) cu npath vis L cap ds render trailer) resolve cb_fail c
                  fuel 0 0 (mkUrl path []) last0 in
    (t_out t = Done /\ concat (t_pages t) = filter vis (after last0 L)) \/
    (t_out t = ErrCallback /\ exists rest', filter vis (after last0 L) = concat (t_pages t) ++ rest').
Proof.
  intros L cap ds render trailer resolve c cu npath vis cb_fail path last0 fuel Hcu K Hnd Hne Hgt Hres Hfit Hfuel.
  destruct (listing_exactly_once L cap ds render trailer resolve c cu npath vis path last0 fuel Hcu K Hnd Hne Hgt Hres Hfit Hfuel)
    as (O & P & _ & _).
  destruct (loop_fail_prefix (reg_serve (c_kind c) cu npath vis L cap ds render trailer) resolve c cb_fail
              fuel 0%nat 0%nat (mkUrl path []) last0) as [[E _]|(n & m & O1 & _ & P1 & _)].
  - left. cbv zeta. rewrite E. auto.
  - right. cbv zeta. split; [exact O1|]. rewrite P1. rewrite <- P.
    eexists. apply concat_firstn_skipn.
Qed.

(* ---------- Repository.Referrers: capability detection ---------- *)

Lemma wrap_spec st cbu (api : trace) ts :
  let w := referrers_wrap st cbu api ts in
  ((w_fell_back w = false /\ w_pages w = t_pages api /\ w_out w = t_out api) \/
   (w_fell_back w = true /\ w_pages w = fst (ts 0%nat) /\ w_out w = snd (ts 0%nat) /\
    (st = RUnknown -> t_pages api = [] /\ unsupported_class cbu (t_out api) = true))) /\
  (st <> RUnknown -> w_state w = st) /\
  (st = RUnknown ->
     (w_state w = RSupported <-> t_out api = Done) /\
     (w_state w = RUnsupported <-> w_fell_back w = true) /\
     (w_state w = RUnknown <-> (t_out api <> Done /\ w_fell_back w = false))) /\
  (st = RUnsupported -> w_fell_back w = true) /\
  (st = RSupported -> w_fell_back w = false).
Proof.
  unfold referrers_wrap. destruct st.
  - (* unknown *)
    assert (NP : no_pages api = true -> t_pages api = []).
    { unfold no_pages. destruct (t_pages api); [reflexivity|discriminate]. }
    destruct (t_out api) eqn:O; cbn [unsupported_class andb];
      try (destruct cbu; cbn [andb]); try destruct (no_pages api) eqn:N;
      cbn [w_fell_back w_pages w_out w_state];
      (split; [first [left; repeat split; reflexivity | right; repeat split; auto] |]);
      (split; [intro H; exfalso; now apply H|]);
      (split; [intros _; repeat split; intros; try discriminate; try reflexivity; try tauto;
               try (destruct H; discriminate); try (destruct H; congruence) |]);
      split; intro; discriminate.
  - cbn [w_fell_back w_pages w_out w_state]. split; [left; auto|].
    split; [reflexivity|]. split; [discriminate|]. split; [discriminate|reflexivity].
  - cbn [w_fell_back w_pages w_out w_state]. split; [right; repeat split; discriminate|].
    split; [reflexivity|]. split; [discriminate|]. split; [reflexivity|discriminate].
Qed.

(* a failing callback is the result of Referrers and nothing is delivered after it *)
Lemma wrap_callback_error serve resolve cb_fail c fuel u st cbu ts :
  st <> RUnsupported ->
  let api := loop serve resolve cb_fail c fuel 0 0 u [] in
  t_out api = ErrCallback ->
  let w := referrers_wrap st cbu api ts in
  w_out w = ErrCallback /\ w_pages w = t_pages api /\ w_fell_back w = false.
Proof.
  intros Hst api O. cbv zeta.
  pose proof (loop_calls serve resolve c cb_fail fuel 0%nat 0%nat u []) as C. cbv zeta in C.
  fold api in C. rewrite O in C.
  unfold referrers_wrap. destruct st; [|auto|contradiction].
  rewrite O. cbn [unsupported_class]. unfold no_pages.
  destruct (t_pages api) as [|p ps]; [simpl in C; contradiction|].
  rewrite andb_false_r. auto.
Qed.

(* Content-Type: compared verbatim with the index media type *)
Lemma handle_ctype c rs :
  c_kind c = KReferrers -> rs_status rs = 200 ->
  (rs_ctype rs <> mediaTypeImageIndex -> handle c rs = inl ErrCType) /\
  (forall p, handle c rs = inr p -> rs_ctype rs = mediaTypeImageIndex).
Proof.
  intros K S. unfold handle, ctype_bad. rewrite S, K. change (200 =? 200) with true. cbn [negb]. split.
  - intro H. now rewrite (str_eqb_neq _ _ H).
  - intros p H. destruct (str_eqb (rs_ctype rs) mediaTypeImageIndex) eqn:E; [now apply str_eqb_spec|discriminate].
Qed.

(* a 404 of the referrers endpoint is "unsupported" unless it says NAME_UNKNOWN *)
Lemma handle_404 c rs :
  c_kind c = KReferrers -> rs_status rs = 404 ->
  handle c rs = inl (if rs_name_unknown rs then ErrStatus else ErrUnsupported).
Proof.
  intros K S. unfold handle, status_error. rewrite S, K. simpl. now destruct (rs_name_unknown rs).
Qed.

(* ---------- witnesses (History): what the code did before the fix / does for rel="first" ---------- *)

Definition wit_L : list item := [(b "a", b "t"); (b "b", b "t"); (b "c", b "t")].
Definition wit_ds (i : nat) : decision := mkDec 1 [] false [] [] 10 0.
Definition wit_render (i : nat) (base tgt : url) : str := qget_s k_last (u_query tgt).
Definition wit_resolve (base : url) (t : str) : option url := Some (link_url CLast (u_path base) (wit_ds 0) base t).
Definition wit_cfg : cfg := mkCfg KReferrers 0 0 [].
Definition wit_u : url := mkUrl (b "/v2/r/referrers/d") [].
Definition wit_ts (cb_fail : nat -> bool) (k : nat) :=
  tag_schema 0 true 100 wit_L [] (fun j => cb_fail (k + j)%nat).

(* before the fix: the callback fails on its first invocation with an error of the
   unsupported class; Referrers swallowed it, ran the tag schema, invoked the callback again
   (same referrer "a" delivered twice) and returned success *)
Lemma wrap_prefix_refuted :
  exists (cb_fail : nat -> bool),
    let api := loop (reg_serve KReferrers CLast (fun _ p => p) (fun _ => true) wit_L 5 wit_ds wit_render (fun _ => [])) wit_resolve
                    cb_fail wit_cfg 9 0 0 wit_u [] in
    let w := referrers_wrap_prefix RUnknown true api (wit_ts cb_fail) in
    t_out api = ErrCallback /\ w_out w = Done /\ w_state w = RUnsupported /\
    ~ NoDup (map fst (concat (w_pages w))).
Proof.
  exists (fun k => (k =? 0)%nat). vm_compute. repeat split; try reflexivity.
  intro H. inversion H as [|x l Hn _]; subst. apply Hn. simpl. auto.
Qed.

(* the same scenario with the fixed wrapper *)
Lemma wrap_fixed_witness :
  let cb_fail := fun k => (k =? 0)%nat in
  let api := loop (reg_serve KReferrers CLast (fun _ p => p) (fun _ => true) wit_L 5 wit_ds wit_render (fun _ => [])) wit_resolve
                  cb_fail wit_cfg 9 0 0 wit_u [] in
  let w := referrers_wrap RUnknown true api (wit_ts cb_fail) in
  w_out w = ErrCallback /\ w_state w = RUnknown /\ map (map fst) (w_pages w) = [[b "a"]].
Proof. vm_compute. repeat split. Qed.

(* a registry that is legal per RFC 8288 but puts a rel="first" link-value before the next
   link: the client follows the first link-value, re-reads the first page and never ends *)
Definition relfirst_serve (i : nat) (rq : url) : response :=
  let rs := reg_serve KTags CLast (fun _ p => p) (fun _ => true) wit_L 5 wit_ds wit_render (fun _ => b "; rel=""next""") i rq in
  match rs_links rs with
  | [] => rs
  | l :: more =>
    mkResp (rs_status rs) (rs_name_unknown rs) (rs_ctype rs) (rs_json_ok rs) (rs_doc_len rs) (rs_total_len rs)
           (rs_items rs) ((b "<>; rel=""first"", " ++ l) :: more) (rs_fhdr rs) (rs_fann rs)
  end.

Lemma link_rel_first_refuted :
  exists fuel,
    let t := loop relfirst_serve wit_resolve (fun _ => false) (mkCfg KTags 0 0 []) fuel 0 0
                  (mkUrl (b "/v2/r/tags/list") []) [] in
    t_out t = OutOfFuel /\ ~ NoDup (map fst (concat (t_pages t))) /\
    (* although every response carried the right next link *)
    (forall rq, In rq (t_reqs t) -> exists pre, rs_link (relfirst_serve 0 rq) =
         pre ++ c_lt :: b "a" ++ c_gt :: b "; rel=""next""").
Proof.
  exists 4%nat. cbv zeta. split; [vm_compute; reflexivity|]. split.
  - vm_compute. intro H. inversion H as [|x l Hn _]; subst. apply Hn. simpl. auto.
  - intros rq H. vm_compute in H.
    repeat (destruct H as [<-|H]; [exists (b "<>; rel=""first"", "); vm_compute; reflexivity|]).
    contradiction.
Qed.

(* ---------- pingReferrers ---------- *)

Ltac ping_fin :=
  repeat split; intros; try discriminate; try tauto; auto;
  try (match goal with H : _ \/ _ |- _ => destruct H; discriminate end);
  try (match goal with H : _ /\ _ |- _ => destruct H; contradiction end).

(* a known capability is returned as is; from the unknown state the answer "unsupported" is
   given exactly for the responses that Referrers itself reads as "no referrers API", and
   "supported" only for responses it accepts as referrers responses *)
Lemma ping_spec st rs c :
  c_kind c = KReferrers ->
  (st = RSupported -> ping st rs = (st, Some true)) /\
  (st = RUnsupported -> ping st rs = (st, Some false)) /\
  (st = RUnknown ->
     (snd (ping st rs) = Some false <->
        (handle c rs = inl ErrUnsupported \/ handle c rs = inl ErrCType)) /\
     (snd (ping st rs) = Some true <-> (rs_status rs = 200 /\ rs_ctype rs = mediaTypeImageIndex)) /\
     (fst (ping st rs) = RUnsupported <-> snd (ping st rs) = Some false) /\
     (fst (ping st rs) = RSupported <-> snd (ping st rs) = Some true) /\
     (fst (ping st rs) = RUnknown <-> snd (ping st rs) = None)).
Proof.
  intro K. split; [intros ->; reflexivity|]. split; [intros ->; reflexivity|]. intros ->.
  unfold ping, handle, status_error, ctype_bad. rewrite K.
  destruct (rs_status rs =? 200) eqn:S2.
  - apply N.eqb_eq in S2. cbn [negb].
    destruct (str_eqb (rs_ctype rs) mediaTypeImageIndex) eqn:E; cbn [negb fst snd].
    + apply str_eqb_spec in E.
      destruct (negb (body_fits c rs));
        [|destruct (is_empty (c_at c));
          [|destruct (is_filter_applied (rs_fhdr rs) filterTypeArtifactType
                      || is_filter_applied (rs_fann rs) filterTypeArtifactType)]]; ping_fin.
    + assert (N : rs_ctype rs <> mediaTypeImageIndex) by (intro H; rewrite H, str_eqb_refl in E; discriminate).
      ping_fin.
  - cbn [negb]. assert (N2 : rs_status rs <> 200) by (intro H; rewrite H in S2; discriminate).
    destruct (rs_status rs =? 404) eqn:S4; cbn [andb].
    + destruct (rs_name_unknown rs); cbn [negb fst snd]; ping_fin.
    + cbn [fst snd]. ping_fin.
Qed.

(* ---------- Referrers end to end ---------- *)

(* unknown capability, registry with the referrers API: the listing of C15_filter, and the
   capability becomes "supported" *)
Theorem referrers_unknown_with_api :
  forall (L : list item) (cap : nat) (ds : nat -> decision)
         (render : nat -> url -> url -> str) (trailer : nat -> str)
         (resolve : url -> str -> option url) (c : cfg) (cu : cursor) (npath : nat -> str -> str) (vis : item -> bool)
         (path : str) (fuel : nat) cbu ts,
    cursor_ok cu ->
    c_kind c = KReferrers ->
    NoDup (map fst L) -> (forall it, In it L -> fst it <> []) ->
    (forall i base x, In x (map fst L) ->
       contains c_gt (render i base (link_target ds cu npath i base x)) = false) ->
    (forall i base x, In x (map fst L) ->
       resolve base (render i base (link_target ds cu npath i base x)) = Some (link_target ds cu npath i base x)) ->
    (forall i, (Z.of_N (d_doc_len (ds i)) <= eff_limit (c_limit c))%Z) ->
    (forall i, qget k_at (d_extra (ds i)) = None) ->
    (length L < fuel)%nat ->
    let api := loop (reg_serve KReferrers cu npath vis L cap ds render trailer) resolve (fun _ => false) c
                    fuel 0 0 (mkUrl path (referrers_query (c_at c))) [] in
    let w := referrers_wrap RUnknown cbu api ts in
    w_out w = Done /\ concat (w_pages w) = filter_referrers (filter vis L) (c_at c) /\
    w_state w = RSupported /\ w_fell_back w = false.
Proof.
  intros L cap ds render trailer resolve c cu npath vis path fuel cbu ts Hcu K Hnd Hne Hgt Hres Hfit Hex Hfuel.
  destruct (referrers_exactly_once L cap ds render trailer resolve c cu npath vis path fuel Hcu K Hnd Hne Hgt Hres Hfit Hex Hfuel)
    as (O & P & _).
  cbv zeta. unfold referrers_wrap. rewrite O. cbn [w_out w_pages w_state w_fell_back]. auto.
Qed.

(* unknown capability, registry without the referrers API (every request answered 404
   without NAME_UNKNOWN) that holds the referrers index under the referrers tag: one request
   to the API, then the tag schema; the capability becomes "unsupported" *)
Theorem referrers_unknown_without_api :
  forall (serve : nat -> url -> response) (resolve : url -> str -> option url) (c : cfg)
         (cb_fail : nat -> bool) (u : url) (fuel : nat) cbu found size items,
    c_kind c = KReferrers -> (0 < fuel)%nat ->
    (forall i rq, rs_status (serve i rq) = 404 /\ rs_name_unknown (serve i rq) = false) ->
    let api := loop serve resolve cb_fail c fuel 0 0 u [] in
    let ts := fun k => tag_schema (c_limit c) found size items (c_at c) (fun j => cb_fail (k + j)%nat) in
    let w := referrers_wrap RUnknown cbu api ts in
    length (w_reqs w) = 1%nat /\ w_fell_back w = true /\ w_state w = RUnsupported /\
    w_pages w = fst (ts 0%nat) /\ w_out w = snd (ts 0%nat).
Proof.
  intros serve resolve c cb_fail u fuel cbu found size items K Hf H404. cbv zeta.
  destruct fuel as [|fuel]; [lia|]. cbn [loop]. cbv zeta.
  destruct (H404 0%nat (mk_request c u [])) as [S N].
  assert (E : handle c (serve 0%nat (mk_request c u [])) = inl ErrUnsupported).
  { rewrite (handle_404 c _ K S). now rewrite N. }
  rewrite E. unfold referrers_wrap. cbn [t_out unsupported_class no_pages t_pages andb t_reqs w_reqs w_fell_back w_state w_pages w_out length].
  auto.
Qed.

(* ---------- concrete instances showing that the hypotheses of the theorems are satisfiable ---------- *)

Definition ex_L : list item := [(b "a", b "t1"); (b "b", b "t2"); (b "c", b "t1"); (b "d", b "t1")].
Definition ex_ds (i : nat) : decision :=
  mkDec (1 + Nat.modulo i 2) [(b "x", VS (b "1"))] (Nat.even i) [] (if Nat.even i then [] else b "foo,artifactType") 10 1.
(* link text = the cursor; the toy resolver rebuilds the target from it *)
Definition ex_render (i : nat) (base tgt : url) : str := qget_s k_last (u_query tgt).
Definition ex_resolve (base : url) (t : str) : option url := Some (link_url CLast (u_path base) (ex_ds 0) base t).
Definition ex_cfg (k : kind) : cfg := mkCfg k 3 100 (b "t1").


Lemma example_hypotheses :
  NoDup (map fst ex_L) /\ (forall it, In it ex_L -> fst it <> []) /\
  (forall i base x, In x (map fst ex_L) ->
     contains c_gt (ex_render i base (link_target ex_ds CLast (fun _ p => p) i base x)) = false) /\
  (forall i base x, In x (map fst ex_L) ->
     ex_resolve base (ex_render i base (link_target ex_ds CLast (fun _ p => p) i base x)) = Some (link_target ex_ds CLast (fun _ p => p) i base x)) /\
  (forall i, (Z.of_N (d_doc_len (ex_ds i)) <= eff_limit (c_limit (ex_cfg KTags)))%Z) /\
  (forall i, qget k_at (d_extra (ex_ds i)) = None).
Proof.
  split. { repeat constructor; simpl; intuition discriminate. }
  split. { simpl. intros it H. repeat (destruct H as [<-|H]; [discriminate|]). contradiction. }
  split. { intros i base x H. unfold ex_render, link_target, link_url, qget_s. cbn [u_query qget ckey cenc]. rewrite str_eqb_refl.
           simpl in H. repeat (destruct H as [<-|H]; [reflexivity|]). contradiction. }
  split. { intros i base x _. unfold ex_resolve, ex_render, link_target, link_url, qget_s. cbn [u_query qget ckey cenc].
           rewrite str_eqb_refl. reflexivity. }
  split. { intro i. vm_compute. discriminate. }
  intro i. reflexivity.
Qed.

(* an opaque cursor: key "token", value "p;" ++ name, next pages under <path>/~p *)
(* entry "c" is not shown: with one-item pages its page is empty although a link follows *)
Definition ex_vis (it : item) : bool := negb (str_eqb (fst it) (b "c")).
Definition ex_cu : cursor := CToken (b "token") (b "p;").
Definition ex_npath (i : nat) (p : str) : str := b "/v2/r/tags/list/~p".
Definition ex_render_tok (i : nat) (base tgt : url) : str := qget_s (b "token") (u_query tgt).
Definition ex_resolve_tok (base : url) (t : str) : option url :=
  Some (link_url ex_cu (ex_npath 0 []) (ex_ds 0) base (strip (b "p;") t)).

Lemma example_token_hypotheses :
  cursor_ok ex_cu /\
  (forall i base x, In x (map fst ex_L) ->
     contains c_gt (ex_render_tok i base (link_target ex_ds ex_cu ex_npath i base x)) = false) /\
  (forall i base x, In x (map fst ex_L) ->
     ex_resolve_tok base (ex_render_tok i base (link_target ex_ds ex_cu ex_npath i base x)) = Some (link_target ex_ds ex_cu ex_npath i base x)).
Proof.
  split. { simpl. repeat split; discriminate. }
  split. { intros i base x H. unfold ex_render_tok, link_target, link_url, qget_s. cbn [u_query qget ckey cenc ex_cu].
           rewrite str_eqb_refl. simpl in H. repeat (destruct H as [<-|H]; [reflexivity|]). contradiction. }
  intros i base x _. unfold ex_resolve_tok, ex_render_tok, link_target, link_url, qget_s. cbn [u_query qget ckey cenc ex_cu].
  rewrite str_eqb_refl. rewrite strip_app. reflexivity.
Qed.

(* a toy stream decoder: the value is everything up to the first '}' *)
Fixpoint ex_decode (s : str) : option str :=
  match s with
  | [] => None
  | ch :: s' => if ch =? 125 then Some [ch]
               else match ex_decode s' with Some v => Some (ch :: v) | None => None end
  end.


Lemma example_document : is_document str ex_decode (b "{ab}") (b "{ab}").
Proof.
  split.
  - intro tail. reflexivity.
  - intros k H. simpl in H. do 4 (destruct k as [|k]; [reflexivity|]). lia.
Qed.

(* ---------- witness: the lossy query of the code before fix 635f618 ---------- *)

(* a pair survives url.ParseQuery only without ';' (59) in its value *)
Definition wit_parses (kv : str * qval) : bool :=
  match snd kv with VS v => negb (contains 59 v) | VN _ => true end.

(* the registry continues with token=p;b; with a page size configured the request built by
   the old code has lost the cursor (the registry starts again from the top), the fixed code
   keeps it; without a page size both forward the link untouched *)
Lemma lossy_query_refuted :
  let link := mkUrl (b "/v2/r/tags/list") [(b "token", VS (b "p;b")); (b "x", VS (b "1"))] in
  let cu := CToken (b "token") (b "p;") in
  cursor_read cu (u_query (mk_request_prefix wit_parses (mkCfg KTags 2 0 []) link [])) = [] /\
  cursor_read cu (u_query (mk_request (mkCfg KTags 2 0 []) link [])) = b "b" /\
  mk_request_prefix wit_parses (mkCfg KTags 0 0 []) link [] = link.
Proof. vm_compute. repeat split. Qed.

(* ---------- the digest probe of FetchReference ---------- *)

(* never more than the limit is read; with the Content-Length of the body (the callers require a
   known one) exactly the bodies over the limit are refused and a body that is not refused is
   read completely -- never truncated *)
Lemma digest_probe_spec limit clen body :
  (Z.of_nat (length (fst (digest_probe limit clen body))) <= eff_limit limit)%Z /\
  (clen = Z.of_nat (length body) ->
     (snd (digest_probe limit clen body) = true <-> (eff_limit limit < Z.of_nat (length body))%Z) /\
     (snd (digest_probe limit clen body) = true -> fst (digest_probe limit clen body) = []) /\
     (snd (digest_probe limit clen body) = false -> fst (digest_probe limit clen body) = body)).
Proof.
  pose proof (eff_limit_pos limit) as Hp. unfold digest_probe.
  destruct (eff_limit limit <? clen)%Z eqn:E; cbn [fst snd].
  - apply Z.ltb_lt in E. split; [simpl; lia|]. intros ->. repeat split; auto; discriminate.
  - apply Z.ltb_ge in E. split.
    + pose proof (firstn_le_length (Z.to_nat (eff_limit limit)) body). lia.
    + intros ->. split; [split; [discriminate|lia]|]. split; [discriminate|].
      intros _. apply firstn_all2. lia.
Qed.

(* the first version of the fix read one byte more than MaxMetadataBytes of a larger body *)
Lemma digest_probe_v1_refuted :
  exists limit body, (eff_limit limit < Z.of_nat (length (fst (digest_probe_v1 limit body))))%Z.
Proof. exists 3%Z, (b "abcdef"). vm_compute. reflexivity. Qed.

(* ---------- the collecting helpers ---------- *)

(* registry.Tags / registry.Repositories: the whole list the registry shows, once, in order *)
Theorem collect_all_listing :
  forall (L : list item) (cap : nat) (ds : nat -> decision)
         (render : nat -> url -> url -> str) (trailer : nat -> str)
         (resolve : url -> str -> option url) (c : cfg) (cu : cursor) (npath : nat -> str -> str) (vis : item -> bool)
         (path : str) (fuel : nat),
    cursor_ok cu ->
    c_kind c <> KReferrers ->
    NoDup (map fst L) -> (forall it, In it L -> fst it <> []) ->
    (forall i base x, In x (map fst L) ->
       contains c_gt (render i base (link_target ds cu npath i base x)) = false) ->
    (forall i base x, In x (map fst L) ->
       resolve base (render i base (link_target ds cu npath i base x)) = Some (link_target ds cu npath i base x)) ->
    (forall i, (Z.of_N (d_doc_len (ds i)) <= eff_limit (c_limit c))%Z) ->
    (length L < fuel)%nat ->
    collect_all (loop (reg_serve (c_kind c) cu npath vis L cap ds render trailer) resolve (fun _ => false) c
                      fuel 0 0 (mkUrl path []) []) = (Done, filter vis L).
Proof.
  intros L cap ds render trailer resolve c cu npath vis path fuel Hcu K Hnd Hne Hgt Hres Hfit Hfuel.
  destruct (listing_exactly_once L cap ds render trailer resolve c cu npath vis path [] fuel
              Hcu K Hnd Hne Hgt Hres Hfit Hfuel) as (O & P & _).
  unfold collect_all. cbv zeta in O, P. rewrite O, P. reflexivity.
Qed.

(* registry.Referrers / Repository.Predecessors (artifact type as asked) *)
Theorem collect_all_referrers :
  forall (L : list item) (cap : nat) (ds : nat -> decision)
         (render : nat -> url -> url -> str) (trailer : nat -> str)
         (resolve : url -> str -> option url) (c : cfg) (cu : cursor) (npath : nat -> str -> str) (vis : item -> bool)
         (path : str) (fuel : nat),
    cursor_ok cu ->
    c_kind c = KReferrers ->
    NoDup (map fst L) -> (forall it, In it L -> fst it <> []) ->
    (forall i base x, In x (map fst L) ->
       contains c_gt (render i base (link_target ds cu npath i base x)) = false) ->
    (forall i base x, In x (map fst L) ->
       resolve base (render i base (link_target ds cu npath i base x)) = Some (link_target ds cu npath i base x)) ->
    (forall i, (Z.of_N (d_doc_len (ds i)) <= eff_limit (c_limit c))%Z) ->
    (forall i, qget k_at (d_extra (ds i)) = None) ->
    (length L < fuel)%nat ->
    collect_all (loop (reg_serve KReferrers cu npath vis L cap ds render trailer) resolve (fun _ => false) c
                      fuel 0 0 (mkUrl path (referrers_query (c_at c))) []) =
    (Done, filter_referrers (filter vis L) (c_at c)).
Proof.
  intros L cap ds render trailer resolve c cu npath vis path fuel Hcu K Hnd Hne Hgt Hres Hfit Hex Hfuel.
  destruct (referrers_exactly_once L cap ds render trailer resolve c cu npath vis path fuel
              Hcu K Hnd Hne Hgt Hres Hfit Hex Hfuel) as (O & P & _).
  unfold collect_all. cbv zeta in O, P. rewrite O, P. reflexivity.
Qed.

(* ---------- exactly once, with the link hypotheses only for requests satisfying an invariant ---------- *)

Theorem listing_exactly_once_inv :
  forall (L : list item) (cap : nat) (ds : nat -> decision)
         (render : nat -> url -> url -> str) (trailer : nat -> str)
         (resolve : url -> str -> option url) (c : cfg) (cu : cursor) (npath : nat -> str -> str) (vis : item -> bool)
         (InvQ : url -> Prop) (path last0 : str) (fuel : nat),
    cursor_ok cu ->
    c_kind c <> KReferrers ->
    NoDup (map fst L) -> (forall it, In it L -> fst it <> []) ->
    (forall i base x, InvQ base -> In x (map fst L) ->
       contains c_gt (render i base (link_target ds cu npath i base x)) = false) ->
    (forall i base x, InvQ base -> In x (map fst L) ->
       resolve base (render i base (link_target ds cu npath i base x)) = Some (link_target ds cu npath i base x)) ->
    (forall i base x, InvQ base -> In x (map fst L) ->
       InvQ (mk_request c (link_target ds cu npath i base x) [])) ->
    InvQ (mk_request c (mkUrl path []) last0) ->
    (forall i, (Z.of_N (d_doc_len (ds i)) <= eff_limit (c_limit c))%Z) ->
    (length (after last0 L) < fuel)%nat ->
    let t := loop (reg_serve (c_kind c) cu npath vis L cap ds render trailer) resolve (fun _ => false) c
                  fuel 0 0 (mkUrl path []) last0 in
    t_out t = Done /\
    concat (t_pages t) = filter vis (after last0 L) /\
    (length (t_reqs t) <= S (length (after last0 L)))%nat.
Proof.
  intros L cap ds render trailer resolve c cu npath vis InvQ path last0 fuel Hcu K Hnd Hne Hgt Hres Hinv H0 Hfit Hfuel.
  destruct (after_suffix last0 L) as [pre Hpre].
  assert (Hrest : rest_of L cu (mk_request c (mkUrl path []) last0) = after last0 L).
  { unfold rest_of. rewrite start_cursor by (auto; reflexivity). unfold qget_s. rewrite mk_request_last. cbn [u_query qget].
    assert (S : sends_last (c_kind c) = true) by (destruct (c_kind c); try reflexivity; contradiction).
    rewrite S. destruct last0; reflexivity. }
  destruct (loop_listing L cap ds render trailer resolve c cu npath vis InvQ Hnd Hne Hgt Hres Hinv
              ltac:(intro; contradiction) Hcu Hfit fuel 0%nat 0%nat (mkUrl path []) last0 (after last0 L) pre
              Hrest Hpre ltac:(intro; contradiction) H0 Hfuel) as (O & P & R).
  assert (V : view c vis (after last0 L) = filter vis (after last0 L)).
  { unfold view. destruct (c_kind c); try reflexivity; contradiction. }
  rewrite V in P. unfold serve in *. repeat split; auto.
Qed.

Theorem referrers_exactly_once_inv :
  forall (L : list item) (cap : nat) (ds : nat -> decision)
         (render : nat -> url -> url -> str) (trailer : nat -> str)
         (resolve : url -> str -> option url) (c : cfg) (cu : cursor) (npath : nat -> str -> str) (vis : item -> bool)
         (InvQ : url -> Prop) (path : str) (fuel : nat),
    cursor_ok cu ->
    c_kind c = KReferrers ->
    NoDup (map fst L) -> (forall it, In it L -> fst it <> []) ->
    (forall i base x, InvQ base -> In x (map fst L) ->
       contains c_gt (render i base (link_target ds cu npath i base x)) = false) ->
    (forall i base x, InvQ base -> In x (map fst L) ->
       resolve base (render i base (link_target ds cu npath i base x)) = Some (link_target ds cu npath i base x)) ->
    (forall i base x, InvQ base -> In x (map fst L) ->
       InvQ (mk_request c (link_target ds cu npath i base x) [])) ->
    InvQ (mk_request c (mkUrl path (referrers_query (c_at c))) []) ->
    (forall i, (Z.of_N (d_doc_len (ds i)) <= eff_limit (c_limit c))%Z) ->
    (forall i, qget k_at (d_extra (ds i)) = None) ->
    (length L < fuel)%nat ->
    let t := loop (reg_serve KReferrers cu npath vis L cap ds render trailer) resolve (fun _ => false) c
                  fuel 0 0 (mkUrl path (referrers_query (c_at c))) [] in
    t_out t = Done /\
    concat (t_pages t) = filter_referrers (filter vis L) (c_at c) /\
    (length (t_reqs t) <= S (length L))%nat.
Proof.
  intros L cap ds render trailer resolve c cu npath vis InvQ path fuel Hcu K Hnd Hne Hgt Hres Hinv H0 Hfit Hex Hfuel.
  assert (Hrest : rest_of L cu (mk_request c (mkUrl path (referrers_query (c_at c))) []) = L).
  { unfold rest_of. rewrite start_cursor by (auto; intros k s E; apply referrers_query_other; rewrite E in Hcu; apply Hcu).
    unfold qget_s. rewrite mk_request_last. rewrite K. cbn [sends_last andb u_query].
    unfold referrers_query. destruct (is_empty (c_at c)); reflexivity. }
  assert (Hat : c_kind c = KReferrers ->
                qget_s k_at (u_query (mk_request c (mkUrl path (referrers_query (c_at c))) [])) = c_at c).
  { intros _. unfold qget_s. rewrite mk_request_at. cbn [u_query]. unfold referrers_query.
    destruct (c_at c) as [|x a]; [reflexivity|]. cbn [is_empty qget]. now rewrite str_eqb_refl. }
  pose proof (loop_listing L cap ds render trailer resolve c cu npath vis InvQ Hnd Hne Hgt Hres Hinv
              (fun _ => Hex) Hcu Hfit fuel 0%nat 0%nat (mkUrl path (referrers_query (c_at c))) [] L []
              Hrest eq_refl Hat H0 Hfuel) as H.
  unfold serve in H. rewrite K in H. unfold view in H. rewrite K in H. exact H.
Qed.
