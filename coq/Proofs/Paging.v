(* C15 -- lemmas about Model/Paging.v *)
From Oras Require Import Base.Prelude Generated.GC15 Model.Paging.

(* ---------- parseLink ---------- *)

Lemma parse_link_wellformed t rest :
  contains c_gt t = false ->
  parse_link (c_lt :: t ++ c_gt :: rest) = LTarget t.
Proof.
  intro H. unfold parse_link. rewrite N.eqb_refl.
  change (c_lt :: t ++ c_gt :: rest) with ((c_lt :: t) ++ c_gt :: rest).
  rewrite index_of_app_fresh.
  - simpl length. replace (S (length t) - 1)%nat with (length t) by lia.
    now rewrite firstn_app_exact.
  - simpl. rewrite H. reflexivity.
Qed.
