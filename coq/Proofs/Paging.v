(* C15 -- lemmas about Model/Paging.v *)
From Oras Require Import Base.Prelude Generated.GC15 Model.Paging.
From Coq Require Import Permutation Sorted.

(* ---------- parseLink ---------- *)

Lemma parse_link_wellformed t rest :
  contains c_gt t = false ->
  parse_link (c_lt :: t ++ c_gt :: rest) = LTarget t.
Proof.
  intro H. unfold parse_link. rewrite N.eqb_refl.
  change (c_lt :: t ++ c_gt :: rest) with ((c_lt :: t) ++ c_gt :: rest).
  rewrite index_of_app_fresh.
  - simpl length. replace (S (length t) - 1)%nat with (length t) by lia.
    now rewrite firstn_app_exact.
  - simpl. rewrite H. reflexivity.
Qed.

Lemma parse_link_absent : parse_link [] = LNone.
Proof. reflexivity. Qed.

Lemma parse_link_no_lt c h : c <> c_lt -> parse_link (c :: h) = LErrLt.
Proof. intro H. unfold parse_link. apply N.eqb_neq in H. now rewrite H. Qed.

Lemma parse_link_no_gt h : contains c_gt h = false -> parse_link (c_lt :: h) = LErrGt.
Proof.
  intro H. unfold parse_link. rewrite N.eqb_refl.
  assert (E : index_of c_gt (c_lt :: h) = None).
  { apply index_of_none. simpl. exact H. }
  now rewrite E.
Qed.

(* ---------- queries ---------- *)

Lemma str_eqb_neq x y : x <> y -> str_eqb x y = false.
Proof.
  intro H. destruct (str_eqb x y) eqn:E; [|reflexivity].
  apply str_eqb_spec in E. contradiction.
Qed.

Lemma qget_qdel_same k q : qget k (qdel k q) = None.
Proof.
  induction q as [|[k' v] q IH]; simpl; [reflexivity|].
  destruct (str_eqb k' k) eqn:E; [exact IH|]. simpl. now rewrite E.
Qed.

Lemma qget_qdel_other k k' q : k <> k' -> qget k (qdel k' q) = qget k q.
Proof.
  intro H. induction q as [|[k2 v] q IH]; simpl; [reflexivity|].
  destruct (str_eqb k2 k') eqn:E.
  - apply str_eqb_spec in E. subst k2. rewrite (str_eqb_neq k' k); auto.
  - simpl. now rewrite IH.
Qed.

Lemma qget_qset_same k v q : qget k (qset k v q) = Some v.
Proof. unfold qset. simpl. now rewrite str_eqb_refl. Qed.

Lemma qget_qset_other k k' v q : k <> k' -> qget k (qset k' v q) = qget k q.
Proof.
  intro H. unfold qset. simpl. rewrite (str_eqb_neq k' k); auto.
  now apply qget_qdel_other.
Qed.

Lemma qget_app k q1 q2 :
  qget k (q1 ++ q2) = match qget k q1 with Some v => Some v | None => qget k q2 end.
Proof.
  induction q1 as [|[k' v] q1 IH]; simpl; [reflexivity|].
  destruct (str_eqb k' k); [reflexivity|exact IH].
Qed.

Lemma k_n_neq_last : k_n <> k_last. Proof. discriminate. Qed.
Lemma k_n_neq_at : k_n <> k_at. Proof. discriminate. Qed.
Lemma k_last_neq_at : k_last <> k_at. Proof. discriminate. Qed.

(* what the server reads out of the request the client builds *)
Lemma mk_request_last c u last :
  qget k_last (u_query (mk_request c u last)) =
  if sends_last (c_kind c) && negb (is_empty last) then Some (VS last)
  else qget k_last (u_query u).
Proof.
  unfold mk_request. simpl.
  destruct (sends_last (c_kind c) && negb (is_empty last)).
  - apply qget_qset_same.
  - destruct (0 <? c_n c)%Z; [|reflexivity].
    apply qget_qset_other. intro H. symmetry in H. now apply k_n_neq_last in H.
Qed.

Lemma mk_request_at c u last :
  qget k_at (u_query (mk_request c u last)) = qget k_at (u_query u).
Proof.
  unfold mk_request. simpl.
  assert (A : forall q, qget k_at (if (0 <? c_n c)%Z then qset k_n (VN (Z.to_N (c_n c))) q else q) = qget k_at q).
  { intro q. destruct (0 <? c_n c)%Z; [|reflexivity]. apply qget_qset_other.
    intro H. symmetry in H. now apply k_n_neq_at in H. }
  destruct (sends_last (c_kind c) && negb (is_empty last)).
  - rewrite qget_qset_other; [apply A|]. intro H. symmetry in H. now apply k_last_neq_at in H.
  - apply A.
Qed.

Lemma mk_request_n c u last :
  (0 < c_n c)%Z -> qget k_n (u_query (mk_request c u last)) = Some (VN (Z.to_N (c_n c))).
Proof.
  intro H. unfold mk_request. simpl. apply Z.ltb_lt in H. rewrite H.
  destruct (sends_last (c_kind c) && negb (is_empty last)).
  - rewrite qget_qset_other; [apply qget_qset_same|]. exact k_n_neq_last.
  - apply qget_qset_same.
Qed.

Lemma mk_request_path c u last : u_path (mk_request c u last) = u_path u.
Proof. reflexivity. Qed.

(* ---------- the registry's cursor ---------- *)

Lemma after_pos_suffix x L r : after_pos x L = Some r -> exists pre, L = pre ++ r.
Proof.
  revert r. induction L as [|it L IH]; simpl; intros r H; [discriminate|].
  destruct (str_eqb (fst it) x).
  - injection H as <-. now exists [it].
  - destruct (IH r H) as [pre ->]. now exists (it :: pre).
Qed.

Lemma drop_until_suffix x L : exists pre, L = pre ++ drop_until x L.
Proof.
  induction L as [|it L [pre IH]]; simpl.
  - now exists [].
  - destruct (str_ltb x (fst it)).
    + now exists [].
    + exists (it :: pre). simpl. now f_equal.
Qed.

Lemma after_suffix x L : exists pre, L = pre ++ after x L.
Proof.
  unfold after. destruct x as [|c x]; [now exists []|].
  destruct (after_pos (c :: x) L) as [r|] eqn:E.
  - now apply after_pos_suffix in E.
  - apply drop_until_suffix.
Qed.

Lemma after_pos_fresh x A it B :
  fst it = x -> ~ In x (map fst A) -> after_pos x (A ++ it :: B) = Some B.
Proof.
  intros Hx. induction A as [|a A IH]; simpl; intro Hn.
  - rewrite Hx. now rewrite str_eqb_refl.
  - rewrite str_eqb_neq; [|intro E; apply Hn; now left].
    apply IH. intro Hi. apply Hn. now right.
Qed.

Lemma last_name_snoc p it : last_name (p ++ [it]) = fst it.
Proof. unfold last_name. now rewrite rev_app_distr. Qed.

Lemma firstn_snoc {A} (m : nat) (l : list A) :
  (1 <= m)%nat -> (m <= length l)%nat -> exists p x, firstn m l = p ++ [x].
Proof.
  intros H1 H2.
  destruct (firstn m l) as [|y t] eqn:E using rev_ind.
  - exfalso. assert (length (firstn m l) = m) by (apply firstn_length_le; lia).
    rewrite E in H. simpl in H. lia.
  - now exists t, y.
Qed.

Lemma after_nonempty x L :
  x <> [] -> after x L = match after_pos x L with Some r => r | None => drop_until x L end.
Proof. destruct x; [contradiction|reflexivity]. Qed.

(* the cursor written into a link selects exactly the rest *)
Lemma after_page L pre rest m :
  L = pre ++ rest -> NoDup (map fst L) -> (forall it, In it L -> fst it <> []) ->
  (1 <= m)%nat -> (m < length rest)%nat ->
  after (last_name (firstn m rest)) L = skipn m rest.
Proof.
  intros HL Hnd Hne H1 H2.
  destruct (firstn_snoc m rest H1 ltac:(lia)) as (p & it & Ep).
  rewrite Ep, last_name_snoc.
  assert (Hrest : rest = (p ++ [it]) ++ skipn m rest) by (rewrite <- Ep; symmetry; apply firstn_skipn).
  assert (HL' : L = (pre ++ p) ++ it :: skipn m rest).
  { rewrite HL. rewrite Hrest at 1. rewrite <- !app_assoc. reflexivity. }
  assert (Hin : In it L) by (rewrite HL'; apply in_or_app; right; now left).
  rewrite after_nonempty by (now apply Hne).
  rewrite HL'. rewrite after_pos_fresh; auto.
  rewrite HL' in Hnd. rewrite map_app in Hnd. simpl in Hnd.
  apply NoDup_remove_2 in Hnd. intro Hi. apply Hnd. apply in_or_app. now left.
Qed.

(* ---------- filters ---------- *)

Lemma filter_idem {A} (f : A -> bool) l : filter f (filter f l) = filter f l.
Proof.
  induction l as [|x l IH]; simpl; [reflexivity|].
  destruct (f x) eqn:E; simpl; [rewrite E; now f_equal|exact IH].
Qed.

Lemma filter_referrers_idem l a : filter_referrers (filter_referrers l a) a = filter_referrers l a.
Proof. unfold filter_referrers. destruct (is_empty a); [reflexivity|apply filter_idem]. Qed.

Lemma filter_referrers_app l1 l2 a :
  filter_referrers (l1 ++ l2) a = filter_referrers l1 a ++ filter_referrers l2 a.
Proof. unfold filter_referrers. destruct (is_empty a); [reflexivity|apply filter_app]. Qed.

(* ---------- the client loop against the registry ---------- *)

(* the URL a registry's next link stands for: same path, cursor x, the registry's extra
   parameters, then the other parameters of the request *)
Definition link_target (d : decision) (rq : url) (x : str) : url :=
  mkUrl (u_path rq) ((k_last, VS x) :: d_extra d ++ qdel k_last (u_query rq)).

Lemma last_name_in (rest : list item) m :
  (1 <= m)%nat -> (m <= length rest)%nat -> In (last_name (firstn m rest)) (map fst rest).
Proof.
  intros H1 H2. destruct (firstn_snoc m rest H1 H2) as (p & it & E).
  rewrite E, last_name_snoc. apply in_map.
  rewrite <- (firstn_skipn m rest). rewrite E. apply in_or_app. left. apply in_or_app. right. now left.
Qed.

Section Listing.
  Variable L : list item.
  Variable cap : nat.
  Variable ds : nat -> decision.
  Variable render : nat -> url -> url -> str.
  Variable trailer : nat -> str.
  Variable resolve : url -> str -> option url.
  Variable c : cfg.

  Hypothesis Hnodup : NoDup (map fst L).
  Hypothesis Hnonempty : forall it, In it L -> fst it <> [].
  (* any Link form that net/url resolves to the intended target (cursor x, the
     registry's extra parameters, the other parameters of the request) *)
  Hypothesis Hrender_gt : forall i base x, In x (map fst L) ->
    contains c_gt (render i base (link_target (ds i) base x)) = false.
  Hypothesis Hresolve : forall i base x, In x (map fst L) ->
    resolve base (render i base (link_target (ds i) base x)) = Some (link_target (ds i) base x).
  (* every document fits into MaxMetadataBytes *)
  Hypothesis Hfits : forall i, (Z.of_N (d_doc_len (ds i)) <= eff_limit (c_limit c))%Z.
  (* the link does not change the artifactType the request asked for *)
  Hypothesis Hextra : c_kind c = KReferrers -> forall i, qget k_at (d_extra (ds i)) = None.

  Definition view (page : list item) : list item :=
    match c_kind c with KReferrers => filter_referrers page (c_at c) | _ => page end.

  Definition serve := reg_serve (c_kind c) L cap ds render trailer.
  Definition rest_of (rq : url) := after (qget_s k_last (u_query rq)) L.
  Definition m_of (i : nat) (rq : url) := page_len cap rq (ds i).
  Definition link_query (i : nat) (rq : url) : query :=
    (k_last, VS (last_name (firstn (m_of i rq) (rest_of rq)))) :: d_extra (ds i) ++ qdel k_last (u_query rq).

  Lemma view_app a b0 : view (a ++ b0) = view a ++ view b0.
  Proof. unfold view. destruct (c_kind c); try reflexivity. apply filter_referrers_app. Qed.

  Lemma m_of_pos i rq : (1 <= m_of i rq)%nat.
  Proof. unfold m_of, page_len. lia. Qed.

  Lemma serve_link i rq :
    rs_link (serve i rq) =
    if (m_of i rq <? length (rest_of rq))%nat
    then c_lt :: render i rq (mkUrl (u_path rq) (link_query i rq)) ++ c_gt :: trailer i
    else [].
  Proof. reflexivity. Qed.

  Lemma handle_serve i rq :
    (c_kind c = KReferrers -> qget_s k_at (u_query rq) = c_at c) ->
    handle c (serve i rq) = inr (view (firstn (m_of i rq) (rest_of rq))).
  Proof.
    intro Hat. unfold handle, serve, reg_serve, reg_page, body_fits. cbn [rs_status rs_ctype_ok rs_json_ok rs_doc_len rs_items rs_fhdr rs_fann].
    fold (rest_of rq). fold (m_of i rq).
    change (200 =? 200) with true. cbn [negb].
    assert (F : (Z.of_N (d_doc_len (ds i)) <=? eff_limit (c_limit c))%Z = true) by (apply Z.leb_le; apply Hfits).
    rewrite F. cbn [andb negb].
    unfold view, reg_filters.
    destruct (c_kind c) eqn:K; cbn [sends_last negb andb]; try reflexivity.
    rewrite (Hat eq_refl).
    destruct (is_empty (c_at c)) eqn:E; cbn [negb andb].
    - unfold filter_referrers. now rewrite E.
    - destruct (is_filter_applied (d_fhdr (ds i)) filterTypeArtifactType
                || is_filter_applied (d_fann (ds i)) filterTypeArtifactType) eqn:A.
      + assert (X : d_filter (ds i) || is_filter_applied (d_fhdr (ds i)) filterTypeArtifactType
                    || is_filter_applied (d_fann (ds i)) filterTypeArtifactType = true).
        { rewrite <- orb_assoc. rewrite A. apply orb_true_r. }
        now rewrite X.
      + rewrite <- orb_assoc. rewrite A. rewrite orb_false_r.
        destruct (d_filter (ds i)); [now rewrite filter_referrers_idem|reflexivity].
  Qed.

  Lemma concat_delivered p :
    concat (if delivered c (view p) then [view p] else []) = view p.
  Proof.
    unfold delivered. destruct (c_kind c); simpl; try apply app_nil_r.
    destruct (view p); simpl; [reflexivity|now rewrite app_nil_r].
  Qed.

  Lemma loop_listing :
    forall fuel i k u last rest pre,
      rest_of (mk_request c u last) = rest ->
      L = pre ++ rest ->
      (c_kind c = KReferrers -> qget_s k_at (u_query (mk_request c u last)) = c_at c) ->
      (length rest < fuel)%nat ->
      let t := loop serve resolve (fun _ => false) c fuel i k u last in
      t_out t = Done /\ concat (t_pages t) = view rest /\ (length (t_reqs t) <= S (length rest))%nat.
  Proof.
    induction fuel as [|fuel IH]; intros i k u last rest pre Hrest HL Hat Hfuel; [lia|].
    cbn [loop]. cbv zeta.
    set (rq := mk_request c u last) in *.
    rewrite (handle_serve i rq Hat). rewrite andb_false_r.
    rewrite serve_link. rewrite Hrest.
    set (m := m_of i rq).
    assert (Hm : (1 <= m)%nat) by apply m_of_pos.
    destruct (m <? length rest)%nat eqn:Emore.
    - (* a further page exists *)
      apply Nat.ltb_lt in Emore.
      assert (Hin : In (last_name (firstn m rest)) (map fst L)).
      { rewrite HL, map_app. apply in_or_app. right. apply last_name_in; lia. }
      assert (Etgt : mkUrl (u_path rq) (link_query i rq) = link_target (ds i) rq (last_name (firstn m rest))).
      { unfold link_query, link_target. fold m. now rewrite Hrest. }
      rewrite Etgt.
      rewrite parse_link_wellformed by (now apply Hrender_gt).
      rewrite Hresolve by exact Hin.
      set (tgt := link_target (ds i) rq (last_name (firstn m rest))).
      assert (Hlast : qget k_last (u_query (mk_request c tgt [])) = Some (VS (last_name (firstn m rest)))).
      { rewrite mk_request_last. cbn [is_empty negb]. rewrite andb_false_r.
        unfold tgt, link_target. cbn [u_query qget]. now rewrite str_eqb_refl. }
      assert (Hrest' : rest_of (mk_request c tgt []) = skipn m rest).
      { unfold rest_of, qget_s. rewrite Hlast. eapply after_page; eauto. }
      assert (HL' : L = (pre ++ firstn m rest) ++ skipn m rest).
      { rewrite <- app_assoc. now rewrite firstn_skipn. }
      assert (Hat' : c_kind c = KReferrers -> qget_s k_at (u_query (mk_request c tgt [])) = c_at c).
      { intro K. rewrite <- (Hat K). unfold qget_s. rewrite mk_request_at.
        unfold tgt, link_target. cbn [u_query qget].
        rewrite (str_eqb_neq k_last k_at) by exact k_last_neq_at.
        rewrite qget_app, (Hextra K). rewrite qget_qdel_other; [|intro E; symmetry in E; now apply k_last_neq_at in E].
        reflexivity. }
      assert (Hlen : (length (skipn m rest) < fuel)%nat) by (rewrite skipn_length; lia).
      set (pg := if delivered c (view (firstn m rest)) then [view (firstn m rest)] else []).
      set (k' := if delivered c (view (firstn m rest)) then S k else k).
      destruct (IH (S i) k' tgt [] (skipn m rest) (pre ++ firstn m rest) Hrest' HL' Hat' Hlen) as (O & P & R).
      unfold prepend. cbn [t_out t_pages t_reqs]. split; [exact O|]. split.
      + rewrite concat_app. rewrite P. unfold pg. rewrite concat_delivered.
        rewrite <- view_app. now rewrite firstn_skipn.
      + simpl length. rewrite skipn_length in R. lia.
    - (* the last page *)
      apply Nat.ltb_ge in Emore.
      rewrite parse_link_absent. cbn [t_out t_pages t_reqs]. split; [reflexivity|]. split.
      + rewrite concat_delivered. now rewrite firstn_all2.
      + simpl. lia.
  Qed.
End Listing.

Lemma NoDup_suffix {A} (pre l : list A) : NoDup (pre ++ l) -> NoDup l.
Proof. induction pre as [|a pre IH]; simpl; intro H; [exact H|]. inversion H; auto. Qed.

(* Tags / Repositories: every item after [last], once, in the registry's order *)
Theorem listing_exactly_once :
  forall (L : list item) (cap : nat) (ds : nat -> decision)
         (render : nat -> url -> url -> str) (trailer : nat -> str)
         (resolve : url -> str -> option url) (c : cfg) (path last0 : str) (fuel : nat),
    c_kind c <> KReferrers ->
    NoDup (map fst L) -> (forall it, In it L -> fst it <> []) ->
    (forall i base x, In x (map fst L) ->
       contains c_gt (render i base (link_target (ds i) base x)) = false) ->
    (forall i base x, In x (map fst L) ->
       resolve base (render i base (link_target (ds i) base x)) = Some (link_target (ds i) base x)) ->
    (forall i, (Z.of_N (d_doc_len (ds i)) <= eff_limit (c_limit c))%Z) ->
    (length (after last0 L) < fuel)%nat ->
    let t := loop (reg_serve (c_kind c) L cap ds render trailer) resolve (fun _ => false) c
                  fuel 0 0 (mkUrl path []) last0 in
    t_out t = Done /\
    concat (t_pages t) = after last0 L /\
    NoDup (map fst (concat (t_pages t))) /\
    (length (t_reqs t) <= S (length (after last0 L)))%nat.
Proof.
  intros L cap ds render trailer resolve c path last0 fuel K Hnd Hne Hgt Hres Hfit Hfuel.
  destruct (after_suffix last0 L) as [pre Hpre].
  assert (Hrest : rest_of L (mk_request c (mkUrl path []) last0) = after last0 L).
  { unfold rest_of, qget_s. rewrite mk_request_last. cbn [u_query qget].
    assert (S : sends_last (c_kind c) = true) by (destruct (c_kind c); try reflexivity; contradiction).
    rewrite S. destruct last0; reflexivity. }
  destruct (loop_listing L cap ds render trailer resolve c Hnd Hne Hgt Hres Hfit
              ltac:(intro; contradiction) fuel 0%nat 0%nat (mkUrl path []) last0 (after last0 L) pre
              Hrest Hpre ltac:(intro; contradiction) Hfuel) as (O & P & R).
  assert (V : view c (after last0 L) = after last0 L).
  { unfold view. destruct (c_kind c); try reflexivity; contradiction. }
  rewrite V in P. unfold serve in *. repeat split; auto.
  rewrite P. rewrite Hpre in Hnd. rewrite map_app in Hnd. now apply NoDup_suffix in Hnd.
Qed.

Definition referrers_query (a : str) : query := if is_empty a then [] else [(k_at, VS a)].

(* Referrers: exactly the referrers of the requested artifact type, once, in order,
   whether the registry filters (announced by header, by annotation, or silently) or not *)
Theorem referrers_exactly_once :
  forall (L : list item) (cap : nat) (ds : nat -> decision)
         (render : nat -> url -> url -> str) (trailer : nat -> str)
         (resolve : url -> str -> option url) (c : cfg) (path : str) (fuel : nat),
    c_kind c = KReferrers ->
    NoDup (map fst L) -> (forall it, In it L -> fst it <> []) ->
    (forall i base x, In x (map fst L) ->
       contains c_gt (render i base (link_target (ds i) base x)) = false) ->
    (forall i base x, In x (map fst L) ->
       resolve base (render i base (link_target (ds i) base x)) = Some (link_target (ds i) base x)) ->
    (forall i, (Z.of_N (d_doc_len (ds i)) <= eff_limit (c_limit c))%Z) ->
    (forall i, qget k_at (d_extra (ds i)) = None) ->
    (length L < fuel)%nat ->
    let t := loop (reg_serve KReferrers L cap ds render trailer) resolve (fun _ => false) c
                  fuel 0 0 (mkUrl path (referrers_query (c_at c))) [] in
    t_out t = Done /\
    concat (t_pages t) = filter_referrers L (c_at c) /\
    (length (t_reqs t) <= S (length L))%nat.
Proof.
  intros L cap ds render trailer resolve c path fuel K Hnd Hne Hgt Hres Hfit Hex Hfuel.
  assert (Hrest : rest_of L (mk_request c (mkUrl path (referrers_query (c_at c))) []) = L).
  { unfold rest_of, qget_s. rewrite mk_request_last. rewrite K. cbn [sends_last andb u_query].
    unfold referrers_query. destruct (is_empty (c_at c)); reflexivity. }
  assert (Hat : c_kind c = KReferrers ->
                qget_s k_at (u_query (mk_request c (mkUrl path (referrers_query (c_at c))) [])) = c_at c).
  { intros _. unfold qget_s. rewrite mk_request_at. cbn [u_query]. unfold referrers_query.
    destruct (c_at c) as [|x a]; [reflexivity|]. cbn [is_empty qget]. now rewrite str_eqb_refl. }
  pose proof (loop_listing L cap ds render trailer resolve c Hnd Hne Hgt Hres Hfit
              (fun _ => Hex) fuel 0%nat 0%nat (mkUrl path (referrers_query (c_at c))) [] L []
              Hrest eq_refl Hat Hfuel) as H.
  unfold serve in H. rewrite K in H. unfold view in H. rewrite K in H. exact H.
Qed.
