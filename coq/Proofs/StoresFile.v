(* C06 -- the clauses of the property for the file store (audit F2). *)
From Oras Require Import Base.Prelude Model.Stores Model.StoresConc Model.StoresConcFile
     Proofs.Stores Proofs.StoresConc Proofs.StoresConcFile.

Local Arguments res_tag : simpl never.
Local Arguments g_index : simpl never.
Local Arguments gkey_eqb : simpl never.
Local Arguments verify : simpl never.
Local Arguments is_manifest : simpl never.
Local Arguments limit_reader : simpl never.

(* ---------- presence only grows (there is no Delete) ---------- *)
Lemma fle_index_after fx ov d s : fle s (fst (file_index_after fx ov d s)).
Proof.
  unfold file_index_after.
  assert (Hi : forall s0, fle s0 (fst (file_index d s0))) by (intro s0; apply fle_core; symmetry; apply fcore_index).
  destruct (is_manifest (d_mt d)); [|apply Hi].
  destruct (file_fetch d s) as [c1|]; [|apply fle_refl]. destruct (d_dig d =? b_hash c1); [|apply fle_refl].
  pose proof (fle_restore fx ov (b_tl c1) s) as Hr.
  destruct (file_restore fx ov (b_tl c1) s) as [s2 [e|]]; cbn [fst] in *; [exact Hr|].
  eapply fle_trans; [exact Hr | apply Hi].
Qed.

Lemma file_step_fle fx ig ov s o : fle s (fst (file_step fx ig ov s o)).
Proof.
  destruct o; try apply fle_refl.
  - rewrite file_step_push_split. pose proof (fle_push_store fx ig ov s d c) as H.
    destruct (file_push_store fx ig ov s d c) as [s1 [x|]]; cbn [fst] in *; [exact H|].
    eapply fle_trans; [exact H | apply fle_index_after].
  - cbn [file_step]. destruct (file_fetch d s); apply fle_refl.
  - cbn [file_step]. destruct r; try apply fle_refl; (destruct (file_exists d s); [|apply fle_refl]; intros d0 X; exact X).
  - cbn [file_step]. destruct r; try apply fle_refl; destruct (get ref_eqb _ (r_index (f_res s))); apply fle_refl.
Qed.

Lemma file_run_fle fx ig ov h : forall s, fle s (fst (runf (file_step fx ig ov) s h)).
Proof.
  induction h as [|o h IH]; intro s; [apply fle_refl|]. rewrite runf_cons. cbn [fst].
  eapply fle_trans; [apply file_step_fle | apply IH].
Qed.

Lemma file_exists_fetch d s : file_inv s -> file_exists d s = true -> exists c, file_fetch d s = Some c.
Proof.
  intros [A B C]. unfold file_exists, file_fetch. intro H. apply andb_true_iff in H as [Hn Hp]. rewrite Hn.
  destruct (get N.eqb (d_dig d) (f_d2p s)) as [p|] eqn:E.
  - destruct (A _ _ E) as (_ & c & Hc & _). eauto.
  - simpl in Hp. destruct (get gkey_eqb (gk d) (f_cas s)); [eauto|discriminate].
Qed.

(* a successful Push makes the descriptor present (unless the content was discarded by IgnoreNoName) *)
Lemma file_push_ok_exists ig ov s d c :
  file_inv s -> no_alias (Push d c) -> (ig = false \/ d_name d <> 0) ->
  snd (file_step true ig ov s (Push d c)) = FO OOk ->
  file_exists d (fst (file_step true ig ov s (Push d c))) = true.
Proof.
  intros Hinv [Hna Ht] Hig. rewrite file_step_push_split. unfold file_push_store.
  destruct (d_name d =? 0) eqn:En.
  - apply N.eqb_eq in En. destruct Hig as [->|Hn]; [|congruence].
    destruct (get gkey_eqb (gk d) (f_cas s)) eqn:Ec; [discriminate|].
    destruct (verify d (limit_reader d c)); [|discriminate]. intros _.
    eapply fle_index_after. unfold file_exists, name_ok. cbn [f_names f_d2p f_cas]. rewrite En. simpl.
    rewrite (get_put_eq gkey_eqb gkey_eqb_spec). apply orb_true_r.
  - unfold file_named_push. rewrite Hna.
    destruct (mem N.eqb (d_name d) (f_names s)); [discriminate|]. destruct (bad_name (d_name d)); [discriminate|].
    destruct (ov && is_some (get N.eqb (d_name d) (f_disk s))); [discriminate|].
    destruct ((k_dig (gk d) =? b_hash c) && (k_size (gk d) =? b_len c)); [|discriminate]. intros _.
    eapply fle_index_after. unfold file_exists, name_ok. cbn [f_names f_d2p f_cas].
    apply andb_true_iff. split.
    + apply orb_true_iff. right. apply memN_In. now left.
    + change (k_dig (gk d)) with (d_dig d). rewrite (get_put_eq N.eqb Neqb_spec). reflexivity.
Qed.

(* Fetch returns the pushed content for ever: after a successful Push, whatever follows,
   Fetch of that descriptor succeeds and the bytes hash to its digest *)
Theorem file_fetch_returns_pushed ig ov h1 d c h2 :
  Forall no_alias h1 -> no_alias (Push d c) -> Forall no_alias h2 -> (ig = false \/ d_name d <> 0) ->
  let s := fst (runf (file_step true ig ov) file_init h1) in
  snd (file_step true ig ov s (Push d c)) = FO OOk ->
  let s2 := fst (runf (file_step true ig ov) (fst (file_step true ig ov s (Push d c))) h2) in
  exists len, snd (file_step true ig ov s2 (Fetch d)) = FO (OBytes (d_dig d) len).
Proof.
  intros H1 Hp H2 Hig s Hok s2.
  pose proof (file_run_inv ig ov h1 _ H1 file_inv_init) as Hinv. fold s in Hinv.
  pose proof (file_push_ok_exists ig ov s d c Hinv Hp Hig Hok) as He.
  pose proof (file_step_inv ig ov s (Push d c) Hp Hinv) as Hinv1.
  pose proof (file_run_inv ig ov h2 _ H2 Hinv1) as Hinv2. fold s2 in Hinv2.
  pose proof (file_run_fle true ig ov h2 _ d He) as He2. fold s2 in He2.
  destruct (file_exists_fetch d s2 Hinv2 He2) as (c2 & Hf).
  destruct (file_fetch_inv _ _ _ Hinv2 Hf) as [Hh _].
  exists (b_len c2). cbn [file_step]. rewrite Hf. cbn [snd]. now rewrite Hh.
Qed.

(* the fallback content map is immutable: an unnamed re-push is already-exists and changes nothing *)
Lemma file_cas_immutable fx ig ov s o k c :
  get gkey_eqb k (f_cas s) = Some c -> get gkey_eqb k (f_cas (fst (file_step fx ig ov s o))) = Some c.
Proof.
  intro H.
  assert (Hnp : forall s0 k0 n c0, f_cas (fst (file_named_push fx ov s0 k0 n c0)) = f_cas s0).
  { intros. unfold file_named_push. destruct (mem N.eqb n (f_names s0)); auto. destruct (bad_name n); auto.
    destruct (ov && _); auto. destruct (_ && _); reflexivity. }
  assert (Hr : forall tl s0, f_cas (fst (file_restore fx ov tl s0)) = f_cas s0).
  { induction tl as [|[k0 n] tl IH]; intro s0; [reflexivity|]. cbn [file_restore].
    destruct ((n =? 0) || mem N.eqb n (f_names s0)); [apply IH|].
    destruct (file_fetch _ s0) as [c2|]; [|apply IH].
    match goal with |- context [file_named_push fx ov s0 k0 n ?cc] => pose proof (Hnp s0 k0 n cc) as X;
      destruct (file_named_push fx ov s0 k0 n cc) as [s1 [e|]] end; cbn [fst] in X.
    - destruct e as [o0|[| |]]; try exact X. rewrite IH. exact X.
    - rewrite IH. exact X. }
  assert (Hi : forall d0 s0, f_cas (fst (file_index d0 s0)) = f_cas s0).
  { intros. unfold file_index. destruct (is_manifest (d_mt d0)); [|reflexivity].
    destruct (file_fetch d0 s0) as [c1|]; [|reflexivity]. destruct (d_dig d0 =? b_hash c1); reflexivity. }
  assert (Hia : forall d0 s0, f_cas (fst (file_index_after fx ov d0 s0)) = f_cas s0).
  { intros. unfold file_index_after. destruct (is_manifest (d_mt d0)); [|apply Hi].
    destruct (file_fetch d0 s0) as [c1|]; [|reflexivity]. destruct (d_dig d0 =? b_hash c1); [|reflexivity].
    pose proof (Hr (b_tl c1) s0) as X. destruct (file_restore fx ov (b_tl c1) s0) as [s2 [e|]]; cbn [fst] in *; [exact X|].
    rewrite Hi. exact X. }
  destruct o; try exact H.
  - rewrite file_step_push_split. unfold file_push_store. destruct (d_name d =? 0).
    + destruct ig.
      * destruct (is_manifest (d_mt d)); [|exact H]. destruct (verify d c0); [|exact H].
        pose proof (Hr (b_tl c0) s) as X. destruct (file_restore fx ov (b_tl c0) s) as [s2 [e|]]; cbn [fst] in *; now rewrite X.
      * destruct (get gkey_eqb (gk d) (f_cas s)) eqn:E; [exact H|].
        destruct (verify d (limit_reader d c0)); [|exact H]. rewrite Hia. cbn [f_cas].
        rewrite (get_put_neq gkey_eqb gkey_eqb_spec); auto. intro; subst. congruence.
    + pose proof (Hnp s (gk d) (d_name d) c0) as X.
      destruct (file_named_push fx ov s (gk d) (d_name d) c0) as [s1 [e|]]; cbn [fst] in *; [now rewrite X|].
      rewrite Hia. now rewrite X.
  - cbn [file_step]. destruct (file_fetch d s); exact H.
  - cbn [file_step]. destruct r; try exact H; destruct (file_exists d s); exact H.
  - cbn [file_step]. destruct r; try exact H; destruct (get ref_eqb _ (r_index (f_res s))); exact H.
Qed.

Theorem file_unnamed_repush_refused fx ov d c h2 s c' :
  d_name d = 0 ->
  snd (file_step fx false ov s (Push d c)) = FO OOk ->
  let s2 := fst (runf (file_step fx false ov) (fst (file_step fx false ov s (Push d c))) h2) in
  file_step fx false ov s2 (Push d c') = (s2, FO (OErr EAlreadyExists)).
Proof.
  intros Hn Hok s2.
  assert (H1 : exists c1, get gkey_eqb (gk d) (f_cas (fst (file_step fx false ov s (Push d c)))) = Some c1).
  { revert Hok. cbn [file_step]. rewrite Hn. cbn [N.eqb].
    destruct (get gkey_eqb (gk d) (f_cas s)) eqn:E; [discriminate|].
    destruct (verify d (limit_reader d c)); [|discriminate]. intros _.
    exists (limit_reader d c).
    match goal with |- get _ _ (f_cas (fst (file_index_after fx ov d ?s1))) = _ =>
      pose proof (file_cas_immutable fx false ov s1 (Fetch d) (gk d) (limit_reader d c)) as X end.
    clear X.
    assert (Hia : forall s0, f_cas (fst (file_index_after fx ov d s0)) = f_cas s0).
    { intro s0. pose proof (fcore_index_after fx ov d) as _. 
      unfold file_index_after, file_index. destruct (is_manifest (d_mt d)); [|reflexivity].
      destruct (file_fetch d s0) as [c1|]; [|reflexivity]. destruct (d_dig d =? b_hash c1); [|reflexivity].
      assert (Hr : forall tl s1, f_cas (fst (file_restore fx ov tl s1)) = f_cas s1).
      { induction tl as [|[k0 n] tl IH]; intro s1; [reflexivity|]. cbn [file_restore].
        destruct ((n =? 0) || mem N.eqb n (f_names s1)); [apply IH|].
        destruct (file_fetch _ s1) as [c2|]; [|apply IH].
        match goal with |- context [file_named_push fx ov s1 k0 n ?cc] =>
          assert (X : f_cas (fst (file_named_push fx ov s1 k0 n cc)) = f_cas s1)
            by (unfold file_named_push; destruct (mem N.eqb n (f_names s1)); auto; destruct (bad_name n); auto;
                destruct (ov && _); auto; destruct (_ && _); reflexivity);
          destruct (file_named_push fx ov s1 k0 n cc) as [s3 [e|]] end; cbn [fst] in X.
        - destruct e as [o0|[| |]]; try exact X. rewrite IH. exact X.
        - rewrite IH. exact X. }
      pose proof (Hr (b_tl c1) s0) as X. destruct (file_restore fx ov (b_tl c1) s0) as [s2' [e|]]; cbn [fst] in *; [exact X|].
      destruct (file_fetch d s2') as [c3|]; [|exact X]. destruct (d_dig d =? b_hash c3); exact X. }
    rewrite Hia. cbn [f_cas]. apply (get_put_eq gkey_eqb gkey_eqb_spec). }
  destruct H1 as (c1 & H1).
  assert (H2 : get gkey_eqb (gk d) (f_cas s2) = Some c1).
  { unfold s2. clear s2 Hok. revert H1. generalize (fst (file_step fx false ov s (Push d c))).
    induction h2 as [|o h2 IH]; intros s0 H0; [exact H0|]. rewrite runf_cons. cbn [fst]. apply IH.
    now apply file_cas_immutable. }
  cbn [file_step]. rewrite Hn. cbn [N.eqb]. now rewrite H2.
Qed.

(* Resolve returns the descriptor most recently tagged *)
Lemma file_res_frame fx ig ov s o r :
  tags_ref r o = false ->
  get ref_eqb r (r_index (f_res (fst (file_step fx ig ov s o)))) = get ref_eqb r (r_index (f_res s)).
Proof.
  intro Ht. destruct o.
  - assert (X : f_res (fst (file_step fx ig ov s (Push d c))) = f_res s).
    { assert (Hnp : forall s0 k0 n c0, f_res (fst (file_named_push fx ov s0 k0 n c0)) = f_res s0).
      { intros. unfold file_named_push. destruct (mem N.eqb n (f_names s0)); auto. destruct (bad_name n); auto.
        destruct (ov && _); auto. destruct (_ && _); reflexivity. }
      assert (Hr : forall tl s0, f_res (fst (file_restore fx ov tl s0)) = f_res s0).
      { induction tl as [|[k0 n] tl IH]; intro s0; [reflexivity|]. cbn [file_restore].
        destruct ((n =? 0) || mem N.eqb n (f_names s0)); [apply IH|].
        destruct (file_fetch _ s0) as [c2|]; [|apply IH].
        match goal with |- context [file_named_push fx ov s0 k0 n ?cc] => pose proof (Hnp s0 k0 n cc) as X;
          destruct (file_named_push fx ov s0 k0 n cc) as [s1 [e|]] end; cbn [fst] in X.
        - destruct e as [o0|[| |]]; try exact X. rewrite IH. exact X.
        - rewrite IH. exact X. }
      assert (Hi : forall d0 s0, f_res (fst (file_index d0 s0)) = f_res s0).
      { intros. unfold file_index. destruct (is_manifest (d_mt d0)); [|reflexivity].
        destruct (file_fetch d0 s0) as [c1|]; [|reflexivity]. destruct (d_dig d0 =? b_hash c1); reflexivity. }
      assert (Hia : forall d0 s0, f_res (fst (file_index_after fx ov d0 s0)) = f_res s0).
      { intros. unfold file_index_after. destruct (is_manifest (d_mt d0)); [|apply Hi].
        destruct (file_fetch d0 s0) as [c1|]; [|reflexivity]. destruct (d_dig d0 =? b_hash c1); [|reflexivity].
        pose proof (Hr (b_tl c1) s0) as X. destruct (file_restore fx ov (b_tl c1) s0) as [s2 [e|]]; cbn [fst] in *; [exact X|].
        rewrite Hi. exact X. }
      rewrite file_step_push_split. unfold file_push_store. destruct (d_name d =? 0).
      - destruct ig.
        + destruct (is_manifest (d_mt d)); [|reflexivity]. destruct (verify d c); [|reflexivity].
          pose proof (Hr (b_tl c) s) as X. destruct (file_restore fx ov (b_tl c) s) as [s2 [e|]]; exact X.
        + destruct (get gkey_eqb (gk d) (f_cas s)); [reflexivity|].
          destruct (verify d (limit_reader d c)); [|reflexivity]. now rewrite Hia.
      - pose proof (Hnp s (gk d) (d_name d) c) as X.
        destruct (file_named_push fx ov s (gk d) (d_name d) c) as [s1 [e|]]; cbn [fst] in *; [exact X|].
        now rewrite Hia. }
    now rewrite X.
  - cbn [file_step]. destruct (file_fetch d s); reflexivity.
  - reflexivity.
  - cbn [tags_ref] in Ht.
    assert (Hne : r <> r0) by (intro; subst; rewrite (eqb_refl ref_eqb ref_eqb_spec) in Ht; discriminate).
    cbn [file_step]. destruct r0; try reflexivity; (destruct (file_exists d s); [|reflexivity]; cbn [fst f_res];
      rewrite r_index_tag; now apply (get_put_neq ref_eqb ref_eqb_spec)).
  - cbn [file_step]. destruct r0; try reflexivity; destruct (get ref_eqb _ (r_index (f_res s))); reflexivity.
  - reflexivity.
  - reflexivity.
  - reflexivity.
  - reflexivity.
Qed.

Theorem file_resolve_latest fx ig ov s d r h2 :
  r <> REmpty ->
  snd (file_step fx ig ov s (Tag d r)) = FO OOk -> forallb (fun o => negb (tags_ref r o)) h2 = true ->
  snd (file_step fx ig ov (fst (runf (file_step fx ig ov) (fst (file_step fx ig ov s (Tag d r))) h2)) (Resolve r))
  = FO (ODesc d).
Proof.
  intros Hr Hok Hfr.
  assert (Hget : get ref_eqb r (r_index (f_res (fst (file_step fx ig ov s (Tag d r))))) = Some d).
  { revert Hok. cbn [file_step]. destruct r; try congruence;
      (destruct (file_exists d s); [|discriminate]; intros _; cbn [fst f_res]; rewrite r_index_tag;
       apply (get_put_eq ref_eqb ref_eqb_spec)). }
  revert Hget. generalize (fst (file_step fx ig ov s (Tag d r))). clear Hok s.
  induction h2 as [|o h2 IH]; intros s Hget.
  - cbn [runf fst file_step]. destruct r; try congruence; now rewrite Hget.
  - simpl in Hfr. apply andb_true_iff in Hfr as [H1 H2]. rewrite runf_cons. cbn [fst].
    apply IH; auto. rewrite file_res_frame; auto. now destruct (tags_ref r o).
Qed.

(* ---------- content never pushed is absent ---------- *)
Definition dig_absent (g : N) (s : file_store) : Prop :=
  get N.eqb g (f_d2p s) = None /\ forall k c, get gkey_eqb k (f_cas s) = Some c -> k_dig k <> g.

Lemma dig_absent_fetch g s d : dig_absent g s -> d_dig d = g -> file_fetch d s = None /\ file_exists d s = false.
Proof.
  intros [A C] Hd. unfold file_fetch, file_exists. rewrite Hd, A.
  destruct (get gkey_eqb (gk d) (f_cas s)) as [c|] eqn:E.
  - exfalso. apply (C _ _ E). exact Hd.
  - split; [now destruct (name_ok d s) | simpl; apply andb_false_r].
Qed.

Lemma dig_absent_named_push fx ov g s k n c :
  dig_absent g s -> k_dig k <> g -> dig_absent g (fst (file_named_push fx ov s k n c)).
Proof.
  intros [A C] Hk. unfold file_named_push.
  destruct (mem N.eqb n (f_names s)); [split; auto|]. destruct (bad_name n); [split; auto|].
  destruct (ov && _); [split; auto|]. destruct (_ && _); cbn [fst]; split; cbn [f_d2p f_cas]; auto.
  rewrite (get_put_neq N.eqb Neqb_spec); auto.
Qed.

Lemma dig_absent_restore fx ov g tl : forall s, dig_absent g s -> dig_absent g (fst (file_restore fx ov tl s)).
Proof.
  induction tl as [|[k n] tl IH]; intros s H; [exact H|]. cbn [file_restore].
  destruct ((n =? 0) || mem N.eqb n (f_names s)); [now apply IH|].
  destruct (file_fetch (mkDesc (k_mt k) (k_dig k) (k_size k) 0) s) as [c2|] eqn:Ef; [|now apply IH].
  assert (Hk : k_dig k <> g).
  { intro E. destruct (dig_absent_fetch g s (mkDesc (k_mt k) (k_dig k) (k_size k) 0) H E) as [X _]. congruence. }
  match goal with |- context [file_named_push fx ov s k n ?cc] =>
    pose proof (dig_absent_named_push fx ov g s k n cc H Hk) as H1;
    destruct (file_named_push fx ov s k n cc) as [s1 [e|]] end; cbn [fst] in H1.
  - destruct e as [o|[| |]]; try exact H1. now apply IH.
  - now apply IH.
Qed.

Lemma dig_absent_graph g s gr :
  dig_absent g s -> dig_absent g (mkFile (f_names s) (f_d2p s) (f_disk s) (f_cas s) (f_res s) gr).
Proof. intros [A C]. split; auto. Qed.

Lemma dig_absent_index g d s : dig_absent g s -> dig_absent g (fst (file_index d s)).
Proof.
  intro H. unfold file_index. destruct (is_manifest (d_mt d)); [|now apply dig_absent_graph].
  destruct (file_fetch d s) as [c1|]; [|exact H]. destruct (d_dig d =? b_hash c1); [now apply dig_absent_graph | exact H].
Qed.

Lemma dig_absent_index_after fx ov g d s : dig_absent g s -> dig_absent g (fst (file_index_after fx ov d s)).
Proof.
  intro H. unfold file_index_after. destruct (is_manifest (d_mt d)); [|now apply dig_absent_index].
  destruct (file_fetch d s) as [c1|]; [|exact H]. destruct (d_dig d =? b_hash c1); [|exact H].
  pose proof (dig_absent_restore fx ov g (b_tl c1) s H) as Hr.
  destruct (file_restore fx ov (b_tl c1) s) as [s2 [e|]]; cbn [fst] in *; [exact Hr | now apply dig_absent_index].
Qed.

Lemma dig_absent_step fx ig ov g s o :
  (forall d c, o = Push d c -> d_dig d <> g) -> dig_absent g s -> dig_absent g (fst (file_step fx ig ov s o)).
Proof.
  intros Hno H. destruct o; try exact H.
  - assert (Hd : d_dig d <> g) by (eapply Hno; reflexivity).
    rewrite file_step_push_split. unfold file_push_store. destruct (d_name d =? 0).
    + destruct ig.
      * destruct (is_manifest (d_mt d)); [|exact H]. destruct (verify d c); [|exact H].
        pose proof (dig_absent_restore fx ov g (b_tl c) s H) as Hr.
        destruct (file_restore fx ov (b_tl c) s) as [s2 [e|]]; exact Hr.
      * destruct (get gkey_eqb (gk d) (f_cas s)) eqn:E; [exact H|].
        destruct (verify d (limit_reader d c)); [|exact H]. apply dig_absent_index_after.
        destruct H as [A C]. split; cbn [f_d2p f_cas]; auto. intros k c0.
        destruct (eqb_dec gkey_eqb gkey_eqb_spec k (gk d)) as [->|Hne].
        -- intros _. exact Hd.
        -- rewrite (get_put_neq gkey_eqb gkey_eqb_spec) by exact Hne. apply C.
    + pose proof (dig_absent_named_push fx ov g s (gk d) (d_name d) c H Hd) as H1.
      destruct (file_named_push fx ov s (gk d) (d_name d) c) as [s1 [e|]]; cbn [fst] in *; [exact H1|].
      now apply dig_absent_index_after.
  - cbn [file_step]. destruct (file_fetch d s); exact H.
  - cbn [file_step]. destruct r; try exact H; (destruct (file_exists d s); [|exact H]; destruct H; split; auto).
  - cbn [file_step]. destruct r; try exact H; destruct (get ref_eqb _ (r_index (f_res s))); exact H.
Qed.

(* tagging or fetching content that was never pushed reports not-found (titled successors,
   IgnoreNoName, DisableOverwrite and the aliasing name included) *)
Theorem file_absent_notfound fx ig ov h g :
  (forall d c, In (Push d c) h -> d_dig d <> g) ->
  let s := fst (runf (file_step fx ig ov) file_init h) in
  forall d r, d_dig d = g ->
    snd (file_step fx ig ov s (Fetch d)) = FO (OErr ENotFound) /\
    snd (file_step fx ig ov s (Exists d)) = FO (OBool false) /\
    (r <> REmpty -> snd (file_step fx ig ov s (Tag d r)) = FO (OErr ENotFound)).
Proof.
  intros Hno s.
  assert (H : dig_absent g s).
  { unfold s. clear s. assert (H0 : dig_absent g file_init) by (split; [reflexivity | intros k c X; discriminate]).
    revert H0 Hno. generalize file_init. induction h as [|o h IH]; intros s0 H0 Hno; [exact H0|].
    rewrite runf_cons. cbn [fst]. apply IH; [|intros; eapply Hno; right; eauto].
    apply dig_absent_step; auto. intros d c ->. apply (Hno d c). now left. }
  intros d r Hd. destruct (dig_absent_fetch g s d H Hd) as [Hf He].
  cbn [file_step]. rewrite Hf, He. repeat split; auto. intro Hr. destruct r; auto. congruence.
Qed.
