(* C06 -- the clauses of the property for the file store (audit F2). *)
From Oras Require Import Base.Prelude Model.Stores Model.StoresConc Model.StoresConcFile
     Proofs.Stores Proofs.StoresConc Proofs.StoresConcFile.

Local Arguments res_tag : simpl never.
Local Arguments g_index : simpl never.
Local Arguments gkey_eqb : simpl never.
Local Arguments verify : simpl never.
Local Arguments is_manifest : simpl never.
Local Arguments limit_reader : simpl never.

(* ---------- presence only grows (there is no Delete) ---------- *)
(* whatever file_index and file_restore preserve, the steps after a store preserve *)
Lemma file_index_after_rel (R : file_store -> file_store -> Prop) fx ov d s :
  (forall a, R a a) -> (forall a b c, R a b -> R b c -> R a c) ->
  (forall d0 a, R a (fst (file_index d0 a))) -> (forall tl a, R a (fst (file_restore fx ov tl a))) ->
  R s (fst (file_index_after fx ov d s)).
Proof.
  intros Hrefl Htr Hi Hr. unfold file_index_after. pose proof (Hi d s) as H2.
  destruct (file_index d s) as [s2 r]. cbn [fst] in H2.
  destruct r as [o|e]; [|exact H2]. destruct o; try exact H2.
  destruct (is_manifest (d_mt d)); [|exact H2].
  destruct (file_fetch d s2) as [c1|]; [|exact H2]. destruct (d_dig d =? b_hash c1); [|exact H2].
  pose proof (Hr (b_tl c1) s2) as H3. destruct (file_restore fx ov (b_tl c1) s2) as [s3 [e|]]; cbn [fst] in *;
    eapply Htr; eauto.
Qed.

Lemma fle_index_after fx ov d s : fle s (fst (file_index_after fx ov d s)).
Proof.
  apply file_index_after_rel.
  - apply fle_refl.
  - apply fle_trans.
  - intros d0 a. apply fle_core. symmetry. apply fcore_index.
  - intros tl a. apply fle_restore.
Qed.

Lemma file_step_fle fx ig ov s o : fle s (fst (file_step fx ig ov s o)).
Proof.
  destruct o; try apply fle_refl.
  - rewrite file_step_push_split. pose proof (fle_push_store fx ig ov s d c) as H.
    destruct (file_push_store fx ig ov s d c) as [s1 [x|]]; cbn [fst] in *; [exact H|].
    eapply fle_trans; [exact H | apply fle_index_after].
  - cbn [file_step]. destruct (file_fetch d s); apply fle_refl.
  - cbn [file_step]. destruct r; try apply fle_refl; (destruct (file_exists d s); [|apply fle_refl]; intros d0 X; exact X).
  - cbn [file_step]. destruct r; try apply fle_refl; destruct (get ref_eqb _ (r_index (f_res s))); apply fle_refl.
Qed.

Lemma file_run_fle fx ig ov h : forall s, fle s (fst (runf (file_step fx ig ov) s h)).
Proof.
  induction h as [|o h IH]; intro s; [apply fle_refl|]. rewrite runf_cons. cbn [fst].
  eapply fle_trans; [apply file_step_fle | apply IH].
Qed.

Lemma file_exists_fetch d s : file_inv s -> file_exists d s = true -> exists c, file_fetch d s = Some c.
Proof.
  intros [A B C]. unfold file_exists, file_fetch. intro H. apply andb_true_iff in H as [Hn Hp]. rewrite Hn.
  destruct (get N.eqb (d_dig d) (f_d2p s)) as [p|] eqn:E.
  - destruct (A _ _ E) as (_ & c & Hc & _). eauto.
  - simpl in Hp. destruct (get gkey_eqb (gk d) (f_cas s)); [eauto|discriminate].
Qed.

(* a successful Push makes the descriptor present (unless the content was discarded by IgnoreNoName) *)
Lemma file_push_ok_exists ig ov s d c :
  file_inv s -> no_alias (Push d c) -> (ig = false \/ d_name d <> 0) ->
  snd (file_step true ig ov s (Push d c)) = FO OOk ->
  file_exists d (fst (file_step true ig ov s (Push d c))) = true.
Proof.
  intros Hinv [Hna Ht] Hig. rewrite file_step_push_split. unfold file_push_store.
  destruct (d_name d =? 0) eqn:En.
  - apply N.eqb_eq in En. destruct Hig as [->|Hn]; [|congruence].
    destruct (get gkey_eqb (gk d) (f_cas s)) eqn:Ec; [discriminate|].
    destruct (verify d (limit_reader d c)); [|discriminate]. intros _.
    eapply fle_index_after. unfold file_exists, name_ok. cbn [f_names f_d2p f_cas]. rewrite En. simpl.
    rewrite (get_put_eq gkey_eqb gkey_eqb_spec). apply orb_true_r.
  - unfold file_named_push. rewrite Hna.
    destruct (mem N.eqb (d_name d) (f_names s)); [discriminate|]. destruct (bad_name (d_name d)); [discriminate|].
    destruct (ov && is_some (get N.eqb (d_name d) (f_disk s))); [discriminate|].
    destruct ((k_dig (gk d) =? b_hash c) && (k_size (gk d) =? b_len c)); [|discriminate]. intros _.
    eapply fle_index_after. unfold file_exists, name_ok. cbn [f_names f_d2p f_cas].
    apply andb_true_iff. split.
    + apply orb_true_iff. right. apply memN_In. now left.
    + change (k_dig (gk d)) with (d_dig d). rewrite (get_put_eq N.eqb Neqb_spec). reflexivity.
Qed.

(* Fetch returns the pushed content for ever: after a successful Push, whatever follows,
   Fetch of that descriptor succeeds and the bytes hash to its digest *)
Theorem file_fetch_returns_pushed ig ov h1 d c h2 :
  Forall no_alias h1 -> no_alias (Push d c) -> Forall no_alias h2 -> (ig = false \/ d_name d <> 0) ->
  let s := fst (runf (file_step true ig ov) file_init h1) in
  snd (file_step true ig ov s (Push d c)) = FO OOk ->
  let s2 := fst (runf (file_step true ig ov) (fst (file_step true ig ov s (Push d c))) h2) in
  exists len, snd (file_step true ig ov s2 (Fetch d)) = FO (OBytes (d_dig d) len).
Proof.
  intros H1 Hp H2 Hig s Hok s2.
  pose proof (file_run_inv ig ov h1 _ H1 file_inv_init) as Hinv. fold s in Hinv.
  pose proof (file_push_ok_exists ig ov s d c Hinv Hp Hig Hok) as He.
  pose proof (file_step_inv ig ov s (Push d c) Hp Hinv) as Hinv1.
  pose proof (file_run_inv ig ov h2 _ H2 Hinv1) as Hinv2. fold s2 in Hinv2.
  pose proof (file_run_fle true ig ov h2 _ d He) as He2. fold s2 in He2.
  destruct (file_exists_fetch d s2 Hinv2 He2) as (c2 & Hf).
  destruct (file_fetch_inv _ _ _ Hinv2 Hf) as [Hh _].
  exists (b_len c2). cbn [file_step]. rewrite Hf. cbn [snd]. now rewrite Hh.
Qed.

(* the fallback content map is immutable: an unnamed re-push is already-exists and changes nothing *)
Lemma file_cas_immutable fx ig ov s o k c :
  get gkey_eqb k (f_cas s) = Some c -> get gkey_eqb k (f_cas (fst (file_step fx ig ov s o))) = Some c.
Proof.
  intro H.
  assert (Hnp : forall s0 k0 n c0, f_cas (fst (file_named_push fx ov s0 k0 n c0)) = f_cas s0).
  { intros. unfold file_named_push. destruct (mem N.eqb n (f_names s0)); auto. destruct (bad_name n); auto.
    destruct (ov && _); auto. destruct (_ && _); reflexivity. }
  assert (Hr : forall tl s0, f_cas (fst (file_restore fx ov tl s0)) = f_cas s0).
  { induction tl as [|[k0 n] tl IH]; intro s0; [reflexivity|]. cbn [file_restore].
    destruct ((n =? 0) || mem N.eqb n (f_names s0)); [apply IH|].
    destruct (file_fetch _ s0) as [c2|]; [|apply IH].
    match goal with |- context [file_named_push fx ov s0 k0 n ?cc] => pose proof (Hnp s0 k0 n cc) as X;
      destruct (file_named_push fx ov s0 k0 n cc) as [s1 [e|]] end; cbn [fst] in X.
    - destruct e as [o0|[| |]]; try exact X. rewrite IH. exact X.
    - rewrite IH. exact X. }
  assert (Hi : forall d0 s0, f_cas (fst (file_index d0 s0)) = f_cas s0).
  { intros. unfold file_index. destruct (is_manifest (d_mt d0)); [|reflexivity].
    destruct (file_fetch d0 s0) as [c1|]; [|reflexivity]. destruct (d_dig d0 =? b_hash c1); reflexivity. }
  assert (Hia : forall d0 s0, f_cas (fst (file_index_after fx ov d0 s0)) = f_cas s0).
  { intros d0 s0. apply (file_index_after_rel (fun a b => f_cas b = f_cas a)); auto. intros; congruence. }
  destruct o; try exact H.
  - rewrite file_step_push_split. unfold file_push_store. destruct (d_name d =? 0).
    + destruct ig.
      * destruct (is_manifest (d_mt d)); [|exact H]. destruct (verify d c0); [|exact H].
        pose proof (Hr (b_tl c0) s) as X. destruct (file_restore fx ov (b_tl c0) s) as [s2 [e|]]; cbn [fst] in *; now rewrite X.
      * destruct (get gkey_eqb (gk d) (f_cas s)) eqn:E; [exact H|].
        destruct (verify d (limit_reader d c0)); [|exact H]. rewrite Hia. cbn [f_cas].
        rewrite (get_put_neq gkey_eqb gkey_eqb_spec); auto. intro; subst. congruence.
    + pose proof (Hnp s (gk d) (d_name d) c0) as X.
      destruct (file_named_push fx ov s (gk d) (d_name d) c0) as [s1 [e|]]; cbn [fst] in *; [now rewrite X|].
      rewrite Hia. now rewrite X.
  - cbn [file_step]. destruct (file_fetch d s); exact H.
  - cbn [file_step]. destruct r; try exact H; destruct (file_exists d s); exact H.
  - cbn [file_step]. destruct r; try exact H; destruct (get ref_eqb _ (r_index (f_res s))); exact H.
Qed.

Theorem file_unnamed_repush_refused fx ov d c h2 s c' :
  d_name d = 0 ->
  snd (file_step fx false ov s (Push d c)) = FO OOk ->
  let s2 := fst (runf (file_step fx false ov) (fst (file_step fx false ov s (Push d c))) h2) in
  file_step fx false ov s2 (Push d c') = (s2, FO (OErr EAlreadyExists)).
Proof.
  intros Hn Hok s2.
  assert (H1 : exists c1, get gkey_eqb (gk d) (f_cas (fst (file_step fx false ov s (Push d c)))) = Some c1).
  { revert Hok. cbn [file_step]. rewrite Hn. cbn [N.eqb].
    destruct (get gkey_eqb (gk d) (f_cas s)) eqn:E; [discriminate|].
    destruct (verify d (limit_reader d c)); [|discriminate]. intros _.
    exists (limit_reader d c).
    match goal with |- get _ _ (f_cas (fst (file_index_after fx ov d ?s1))) = _ =>
      pose proof (file_cas_immutable fx false ov s1 (Fetch d) (gk d) (limit_reader d c)) as X end.
    clear X.
    assert (Hia : forall s0, f_cas (fst (file_index_after fx ov d s0)) = f_cas s0).
    { intro s0. apply (file_index_after_rel (fun a b => f_cas b = f_cas a)); auto.
      - intros; congruence.
      - intros d0 a. unfold file_index. destruct (is_manifest (d_mt d0)); [|reflexivity].
        destruct (file_fetch d0 a) as [c1|]; [|reflexivity]. destruct (d_dig d0 =? b_hash c1); reflexivity.
      - induction tl as [|[k0 n] tl IH]; intro s1; [reflexivity|]. cbn [file_restore].
        destruct ((n =? 0) || mem N.eqb n (f_names s1)); [apply IH|].
        destruct (file_fetch _ s1) as [c2|]; [|apply IH].
        match goal with |- context [file_named_push fx ov s1 k0 n ?cc] =>
          assert (X : f_cas (fst (file_named_push fx ov s1 k0 n cc)) = f_cas s1)
            by (unfold file_named_push; destruct (mem N.eqb n (f_names s1)); auto; destruct (bad_name n); auto;
                destruct (ov && _); auto; destruct (_ && _); reflexivity);
          destruct (file_named_push fx ov s1 k0 n cc) as [s3 [e|]] end; cbn [fst] in X.
        + destruct e as [o0|[| |]]; try exact X. rewrite IH. exact X.
        + rewrite IH. exact X. }
    rewrite Hia. cbn [f_cas]. apply (get_put_eq gkey_eqb gkey_eqb_spec). }
  destruct H1 as (c1 & H1).
  assert (H2 : get gkey_eqb (gk d) (f_cas s2) = Some c1).
  { unfold s2. clear s2 Hok. revert H1. generalize (fst (file_step fx false ov s (Push d c))).
    induction h2 as [|o h2 IH]; intros s0 H0; [exact H0|]. rewrite runf_cons. cbn [fst]. apply IH.
    now apply file_cas_immutable. }
  cbn [file_step]. rewrite Hn. cbn [N.eqb]. now rewrite H2.
Qed.

(* Resolve returns the descriptor most recently tagged *)
Lemma file_res_frame fx ig ov s o r :
  tags_ref r o = false ->
  get ref_eqb r (r_index (f_res (fst (file_step fx ig ov s o)))) = get ref_eqb r (r_index (f_res s)).
Proof.
  intro Ht. destruct o.
  - assert (X : f_res (fst (file_step fx ig ov s (Push d c))) = f_res s).
    { assert (Hnp : forall s0 k0 n c0, f_res (fst (file_named_push fx ov s0 k0 n c0)) = f_res s0).
      { intros. unfold file_named_push. destruct (mem N.eqb n (f_names s0)); auto. destruct (bad_name n); auto.
        destruct (ov && _); auto. destruct (_ && _); reflexivity. }
      assert (Hr : forall tl s0, f_res (fst (file_restore fx ov tl s0)) = f_res s0).
      { induction tl as [|[k0 n] tl IH]; intro s0; [reflexivity|]. cbn [file_restore].
        destruct ((n =? 0) || mem N.eqb n (f_names s0)); [apply IH|].
        destruct (file_fetch _ s0) as [c2|]; [|apply IH].
        match goal with |- context [file_named_push fx ov s0 k0 n ?cc] => pose proof (Hnp s0 k0 n cc) as X;
          destruct (file_named_push fx ov s0 k0 n cc) as [s1 [e|]] end; cbn [fst] in X.
        - destruct e as [o0|[| |]]; try exact X. rewrite IH. exact X.
        - rewrite IH. exact X. }
      assert (Hi : forall d0 s0, f_res (fst (file_index d0 s0)) = f_res s0).
      { intros. unfold file_index. destruct (is_manifest (d_mt d0)); [|reflexivity].
        destruct (file_fetch d0 s0) as [c1|]; [|reflexivity]. destruct (d_dig d0 =? b_hash c1); reflexivity. }
      assert (Hia : forall d0 s0, f_res (fst (file_index_after fx ov d0 s0)) = f_res s0).
      { intros d0 s0. apply (file_index_after_rel (fun a b => f_res b = f_res a)); auto. intros; congruence. }
      rewrite file_step_push_split. unfold file_push_store. destruct (d_name d =? 0).
      - destruct ig.
        + destruct (is_manifest (d_mt d)); [|reflexivity]. destruct (verify d c); [|reflexivity].
          pose proof (Hr (b_tl c) s) as X. destruct (file_restore fx ov (b_tl c) s) as [s2 [e|]]; exact X.
        + destruct (get gkey_eqb (gk d) (f_cas s)); [reflexivity|].
          destruct (verify d (limit_reader d c)); [|reflexivity]. now rewrite Hia.
      - pose proof (Hnp s (gk d) (d_name d) c) as X.
        destruct (file_named_push fx ov s (gk d) (d_name d) c) as [s1 [e|]]; cbn [fst] in *; [exact X|].
        now rewrite Hia. }
    now rewrite X.
  - cbn [file_step]. destruct (file_fetch d s); reflexivity.
  - reflexivity.
  - cbn [tags_ref] in Ht.
    assert (Hne : r <> r0) by (intro; subst; rewrite (eqb_refl ref_eqb ref_eqb_spec) in Ht; discriminate).
    cbn [file_step]. destruct r0; try reflexivity; (destruct (file_exists d s); [|reflexivity]; cbn [fst f_res];
      rewrite r_index_tag; now apply (get_put_neq ref_eqb ref_eqb_spec)).
  - cbn [file_step]. destruct r0; try reflexivity; destruct (get ref_eqb _ (r_index (f_res s))); reflexivity.
  - reflexivity.
  - reflexivity.
  - reflexivity.
  - reflexivity.
Qed.

Theorem file_resolve_latest fx ig ov s d r h2 :
  r <> REmpty ->
  snd (file_step fx ig ov s (Tag d r)) = FO OOk -> forallb (fun o => negb (tags_ref r o)) h2 = true ->
  snd (file_step fx ig ov (fst (runf (file_step fx ig ov) (fst (file_step fx ig ov s (Tag d r))) h2)) (Resolve r))
  = FO (ODesc d).
Proof.
  intros Hr Hok Hfr.
  assert (Hget : get ref_eqb r (r_index (f_res (fst (file_step fx ig ov s (Tag d r))))) = Some d).
  { revert Hok. cbn [file_step]. destruct r; try congruence;
      (destruct (file_exists d s); [|discriminate]; intros _; cbn [fst f_res]; rewrite r_index_tag;
       apply (get_put_eq ref_eqb ref_eqb_spec)). }
  revert Hget. generalize (fst (file_step fx ig ov s (Tag d r))). clear Hok s.
  induction h2 as [|o h2 IH]; intros s Hget.
  - cbn [runf fst file_step]. destruct r; try congruence; now rewrite Hget.
  - simpl in Hfr. apply andb_true_iff in Hfr as [H1 H2]. rewrite runf_cons. cbn [fst].
    apply IH; auto. rewrite file_res_frame; auto. now destruct (tags_ref r o).
Qed.

(* ---------- content never pushed is absent ---------- *)
Definition dig_absent (g : N) (s : file_store) : Prop :=
  get N.eqb g (f_d2p s) = None /\ forall k c, get gkey_eqb k (f_cas s) = Some c -> k_dig k <> g.

Lemma dig_absent_fetch g s d : dig_absent g s -> d_dig d = g -> file_fetch d s = None /\ file_exists d s = false.
Proof.
  intros [A C] Hd. unfold file_fetch, file_exists. rewrite Hd, A.
  destruct (get gkey_eqb (gk d) (f_cas s)) as [c|] eqn:E.
  - exfalso. apply (C _ _ E). exact Hd.
  - split; [now destruct (name_ok d s) | simpl; apply andb_false_r].
Qed.

Lemma dig_absent_named_push fx ov g s k n c :
  dig_absent g s -> k_dig k <> g -> dig_absent g (fst (file_named_push fx ov s k n c)).
Proof.
  intros [A C] Hk. unfold file_named_push.
  destruct (mem N.eqb n (f_names s)); [split; auto|]. destruct (bad_name n); [split; auto|].
  destruct (ov && _); [split; auto|]. destruct (_ && _); cbn [fst]; split; cbn [f_d2p f_cas]; auto.
  rewrite (get_put_neq N.eqb Neqb_spec); auto.
Qed.

Lemma dig_absent_restore fx ov g tl : forall s, dig_absent g s -> dig_absent g (fst (file_restore fx ov tl s)).
Proof.
  induction tl as [|[k n] tl IH]; intros s H; [exact H|]. cbn [file_restore].
  destruct ((n =? 0) || mem N.eqb n (f_names s)); [now apply IH|].
  destruct (file_fetch (mkDesc (k_mt k) (k_dig k) (k_size k) 0) s) as [c2|] eqn:Ef; [|now apply IH].
  assert (Hk : k_dig k <> g).
  { intro E. destruct (dig_absent_fetch g s (mkDesc (k_mt k) (k_dig k) (k_size k) 0) H E) as [X _]. congruence. }
  match goal with |- context [file_named_push fx ov s k n ?cc] =>
    pose proof (dig_absent_named_push fx ov g s k n cc H Hk) as H1;
    destruct (file_named_push fx ov s k n cc) as [s1 [e|]] end; cbn [fst] in H1.
  - destruct e as [o|[| |]]; try exact H1. now apply IH.
  - now apply IH.
Qed.

Lemma dig_absent_graph g s gr :
  dig_absent g s -> dig_absent g (mkFile (f_names s) (f_d2p s) (f_disk s) (f_cas s) (f_res s) gr).
Proof. intros [A C]. split; auto. Qed.

Lemma dig_absent_index g d s : dig_absent g s -> dig_absent g (fst (file_index d s)).
Proof.
  intro H. unfold file_index. destruct (is_manifest (d_mt d)); [|now apply dig_absent_graph].
  destruct (file_fetch d s) as [c1|]; [|exact H]. destruct (d_dig d =? b_hash c1); [now apply dig_absent_graph | exact H].
Qed.

Lemma dig_absent_index_after fx ov g d s : dig_absent g s -> dig_absent g (fst (file_index_after fx ov d s)).
Proof.
  apply (file_index_after_rel (fun a b => dig_absent g a -> dig_absent g b)); auto.
  - intros d0 a. apply dig_absent_index.
  - intros tl a. apply dig_absent_restore.
Qed.

Lemma dig_absent_step fx ig ov g s o :
  (forall d c, o = Push d c -> d_dig d <> g) -> dig_absent g s -> dig_absent g (fst (file_step fx ig ov s o)).
Proof.
  intros Hno H. destruct o; try exact H.
  - assert (Hd : d_dig d <> g) by (eapply Hno; reflexivity).
    rewrite file_step_push_split. unfold file_push_store. destruct (d_name d =? 0).
    + destruct ig.
      * destruct (is_manifest (d_mt d)); [|exact H]. destruct (verify d c); [|exact H].
        pose proof (dig_absent_restore fx ov g (b_tl c) s H) as Hr.
        destruct (file_restore fx ov (b_tl c) s) as [s2 [e|]]; exact Hr.
      * destruct (get gkey_eqb (gk d) (f_cas s)) eqn:E; [exact H|].
        destruct (verify d (limit_reader d c)); [|exact H]. apply dig_absent_index_after.
        destruct H as [A C]. split; cbn [f_d2p f_cas]; auto. intros k c0.
        destruct (eqb_dec gkey_eqb gkey_eqb_spec k (gk d)) as [->|Hne].
        -- intros _. exact Hd.
        -- rewrite (get_put_neq gkey_eqb gkey_eqb_spec) by exact Hne. apply C.
    + pose proof (dig_absent_named_push fx ov g s (gk d) (d_name d) c H Hd) as H1.
      destruct (file_named_push fx ov s (gk d) (d_name d) c) as [s1 [e|]]; cbn [fst] in *; [exact H1|].
      now apply dig_absent_index_after.
  - cbn [file_step]. destruct (file_fetch d s); exact H.
  - cbn [file_step]. destruct r; try exact H; (destruct (file_exists d s); [|exact H]; destruct H; split; auto).
  - cbn [file_step]. destruct r; try exact H; destruct (get ref_eqb _ (r_index (f_res s))); exact H.
Qed.

(* tagging or fetching content that was never pushed reports not-found (titled successors,
   IgnoreNoName, DisableOverwrite and the aliasing name included) *)
Theorem file_absent_notfound fx ig ov h g :
  (forall d c, In (Push d c) h -> d_dig d <> g) ->
  let s := fst (runf (file_step fx ig ov) file_init h) in
  forall d r, d_dig d = g ->
    snd (file_step fx ig ov s (Fetch d)) = FO (OErr ENotFound) /\
    snd (file_step fx ig ov s (Exists d)) = FO (OBool false) /\
    (r <> REmpty -> snd (file_step fx ig ov s (Tag d r)) = FO (OErr ENotFound)).
Proof.
  intros Hno s.
  assert (H : dig_absent g s).
  { unfold s. clear s. assert (H0 : dig_absent g file_init) by (split; [reflexivity | intros k c X; discriminate]).
    revert H0 Hno. generalize file_init. induction h as [|o h IH]; intros s0 H0 Hno; [exact H0|].
    rewrite runf_cons. cbn [fst]. apply IH; [|intros; eapply Hno; right; eauto].
    apply dig_absent_step; auto. intros d c ->. apply (Hno d c). now left. }
  intros d r Hd. destruct (dig_absent_fetch g s d H Hd) as [Hf He].
  cbn [file_step]. rewrite Hf, He. repeat split; auto. intro Hr. destruct r; auto. congruence.
Qed.

(* ================================================================== *)
(* Predecessors of the file store                                       *)
(* ================================================================== *)
Lemma mem_keys_put (k k0 : gkey) (v : desc) m :
  mem gkey_eqb k (map fst (put gkey_eqb k0 v m)) = gkey_eqb k k0 || mem gkey_eqb k (map fst m).
Proof.
  induction m as [|[k' v'] m IH]; simpl.
  - now rewrite orb_false_r.
  - destruct (gkey_eqb k0 k') eqn:E; simpl.
    + apply gkey_eqb_spec in E. subst k'. destruct (gkey_eqb k k0); reflexivity.
    + rewrite IH. destruct (gkey_eqb k k'), (gkey_eqb k k0); reflexivity.
Qed.

Section FileGraph.
  (* collision freedom: the bytes a digest stands for *)
  Variable B : N -> blob.

  Definition wfB_op (o : op) : Prop :=
    match o with
    | Push d c => (verify d c = true -> c = B (d_dig d)) /\
                  (verify d (limit_reader d c) = true -> limit_reader d c = B (d_dig d))
    | _ => True
    end.

  Record file_B (s : file_store) : Prop := mkFB {
    fb_disk : forall p c, get N.eqb p (f_disk s) = Some c -> c = B (b_hash c);
    fb_cas : forall k c, get gkey_eqb k (f_cas s) = Some c -> c = B (b_hash c) }.

  (* the successor list of every indexed node is the one of the bytes of its digest *)
  Definition S_file (g : graph) : gkey -> option (list gkey) :=
    fun k => if mem gkey_eqb k (map fst (g_nodes g)) then Some (succ_of k (B (k_dig k))) else None.

  Definition file_ginv (s : file_store) : Prop := graph_inv (S_file (f_graph s)) (f_graph s).

  Lemma file_ginv_init : file_ginv file_init.
  Proof. unfold file_ginv. eapply graph_inv_ext; [|exact graph_inv_init]. intro k. reflexivity. Qed.

  Lemma g_index_file g d ss :
    graph_inv (S_file g) g -> ss = succ_of (gk d) (B (d_dig d)) ->
    graph_inv (S_file (g_index d ss g)) (g_index d ss g).
  Proof.
    intros Hg ->. eapply graph_inv_ext; [|apply g_index_inv'; [exact Hg|]].
    - intro k. unfold upd, S_file. rewrite g_index_nodes, mem_keys_put.
      destruct (gkey_eqb k (gk d)) eqn:E; [|reflexivity]. apply gkey_eqb_spec in E. subst k. reflexivity.
    - unfold S_file. destruct (mem gkey_eqb (gk d) (map fst (g_nodes g))); [right|left]; reflexivity.
  Qed.

  Lemma file_fetch_B d s c : file_inv s -> file_B s -> file_fetch d s = Some c -> c = B (d_dig d).
  Proof.
    intros Hi [A C] Hf. destruct (file_fetch_inv _ _ _ Hi Hf) as [Hh _]. rewrite <- Hh.
    unfold file_fetch in Hf. destruct (name_ok d s); [|discriminate].
    destruct (get N.eqb (d_dig d) (f_d2p s)); eauto.
  Qed.

  Lemma file_index_ginv d s :
    file_inv s -> file_B s -> file_ginv s -> file_ginv (fst (file_index d s)).
  Proof.
    intros Hi Hb Hg. unfold file_index, file_ginv in *. destruct (is_manifest (d_mt d)) eqn:Em.
    - destruct (file_fetch d s) as [c1|] eqn:Ef; cbn [fst]; [|exact Hg].
      destruct (d_dig d =? b_hash c1); cbn [fst f_graph]; [|exact Hg].
      apply g_index_file; auto. now rewrite (file_fetch_B _ _ _ Hi Hb Ef).
    - cbn [fst f_graph]. apply g_index_file; auto. unfold succ_of. change (k_mt (gk d)) with (d_mt d). now rewrite Em.
  Qed.

  (* steps that do not touch the graph *)
  Lemma file_named_push_graph_same fx ov s k n c : f_graph (fst (file_named_push fx ov s k n c)) = f_graph s.
  Proof.
    unfold file_named_push. destruct (mem N.eqb n (f_names s)); auto. destruct (bad_name n); auto.
    destruct (ov && _); auto. destruct (_ && _); reflexivity.
  Qed.

  Lemma file_restore_graph_same fx ov tl : forall s, f_graph (fst (file_restore fx ov tl s)) = f_graph s.
  Proof.
    induction tl as [|[k n] tl IH]; intro s; [reflexivity|]. cbn [file_restore].
    destruct ((n =? 0) || mem N.eqb n (f_names s)); [apply IH|].
    destruct (file_fetch _ s) as [c2|]; [|apply IH].
    match goal with |- context [file_named_push fx ov s k n ?cc] =>
      pose proof (file_named_push_graph_same fx ov s k n cc) as X;
      destruct (file_named_push fx ov s k n cc) as [s1 [e|]] end; cbn [fst] in X.
    - destruct e as [o|[| |]]; try exact X. rewrite IH. exact X.
    - rewrite IH. exact X.
  Qed.

  (* stored blobs stay the bytes of their digests *)
  Lemma file_named_push_B ov s k n c :
    file_B s -> c = B (b_hash c) -> file_B (fst (file_named_push true ov s k n c)).
  Proof.
    intros [A C] Hc. unfold file_named_push.
    destruct (mem N.eqb n (f_names s)); [split; auto|]. destruct (bad_name n); [split; auto|].
    destruct (ov && _); [split; auto|]. destruct (_ && _); cbn [fst]; split; cbn [f_disk f_cas]; auto.
    - intros p c0. destruct (N.eq_dec p (path_of n)) as [->|Hne].
      + rewrite (get_put_eq N.eqb Neqb_spec). intro E. now injection E as <-.
      + rewrite (get_put_neq N.eqb Neqb_spec) by exact Hne. apply A.
    - intros p c0 E. destruct (N.eq_dec p (path_of n)) as [->|Hne].
      + rewrite (get_del_eq N.eqb) in E. discriminate.
      + rewrite (get_del_neq N.eqb Neqb_spec) in E by exact Hne. eapply A; eauto.
  Qed.

  Lemma file_restore_B ov tl : forall s,
    file_inv s -> file_B s -> (forall k n, In (k, n) tl -> path_of n = n) ->
    file_B (fst (file_restore true ov tl s)).
  Proof.
    induction tl as [|[k n] tl IH]; intros s Hi Hb Ht; [exact Hb|].
    assert (Ht' : forall k0 n0, In (k0, n0) tl -> path_of n0 = n0) by (intros; eapply Ht; right; eauto).
    cbn [file_restore]. destruct ((n =? 0) || mem N.eqb n (f_names s)) eqn:En; [now apply IH|].
    destruct (file_fetch (mkDesc (k_mt k) (k_dig k) (k_size k) 0) s) as [c2|] eqn:Ef; [|now apply IH].
    assert (Hc2 : c2 = B (b_hash c2)).
    { pose proof (file_fetch_B _ _ _ Hi Hb Ef) as X. destruct (file_fetch_inv _ _ _ Hi Ef) as [Hh _].
      cbn [d_dig] in *. now rewrite Hh. }
    destruct (file_fetch_inv _ _ _ Hi Ef) as [_ Hok].
    set (c2' := match get N.eqb (k_dig k) (f_d2p s) with
                | Some p => if (p =? path_of n) && negb (b_len c2 =? 0) then mkBlob 0 0 [] 0 [] else c2
                | None => c2 end).
    assert (Hc2' : c2' = c2).
    { unfold c2'. destruct (get N.eqb (k_dig k) (f_d2p s)) as [p|] eqn:Ep; auto.
      destruct Hi as [A _ _]. destruct (A _ _ Ep) as [Hp _].
      rewrite (Ht k n (or_introl eq_refl)).
      destruct (p =? n) eqn:Epn; auto. apply N.eqb_eq in Epn. subst p.
      apply orb_false_iff in En as [_ En]. apply memN_In in Hp. congruence. }
    rewrite Hc2'.
    pose proof (file_named_push_B ov s k n c2 Hb Hc2) as H1.
    pose proof (file_named_push_inv ov s k n c2 Hi (Ht k n (or_introl eq_refl)) Hok) as H2.
    destruct (file_named_push true ov s k n c2) as [s1 [e|]]; cbn [fst] in *.
    - destruct e as [o|[| |]]; try exact H1. now apply IH.
    - now apply IH.
  Qed.

  Lemma file_index_B d s : file_B s -> file_B (fst (file_index d s)).
  Proof.
    intros [A C]. unfold file_index. destruct (is_manifest (d_mt d)); [|split; auto].
    destruct (file_fetch d s) as [c1|]; [|split; auto]. destruct (d_dig d =? b_hash c1); split; auto.
  Qed.

  Lemma file_index_graph_only d s : fcore (fst (file_index d s)) = fcore s.
  Proof. apply fcore_index. Qed.

  Record file_G (s : file_store) : Prop := mkFG { fg_inv : file_inv s; fg_B : file_B s; fg_g : file_ginv s }.

  Lemma file_index_after_G ov d s : file_G s -> file_G (fst (file_index_after true ov d s)).
  Proof.
    intros [Hi Hb Hg]. unfold file_index_after.
    pose proof (file_index_inv d s Hi) as Hi2. pose proof (file_index_B d s Hb) as Hb2.
    pose proof (file_index_ginv d s Hi Hb Hg) as Hg2.
    destruct (file_index d s) as [s2 r]. cbn [fst] in *.
    assert (H2 : file_G s2) by (constructor; auto).
    destruct r as [o|e]; [|exact H2]. destruct o; try exact H2.
    destruct (is_manifest (d_mt d)); [|exact H2].
    destruct (file_fetch d s2) as [c1|] eqn:Ef; [|exact H2]. destruct (d_dig d =? b_hash c1); [|exact H2].
    destruct (file_fetch_inv _ _ _ Hi2 Ef) as [_ [Hok _]].
    pose proof (file_restore_inv ov (b_tl c1) s2 Hi2 Hok) as Hi3.
    pose proof (file_restore_B ov (b_tl c1) s2 Hi2 Hb2 Hok) as Hb3.
    pose proof (file_restore_graph_same true ov (b_tl c1) s2) as Hgr.
    destruct (file_restore true ov (b_tl c1) s2) as [s3 [e|]]; cbn [fst] in *;
      (constructor; auto; unfold file_ginv; rewrite Hgr; exact Hg2).
  Qed.

  Lemma file_step_G ig ov s o : no_alias o -> wfB_op o -> file_G s -> file_G (fst (file_step true ig ov s o)).
  Proof.
    intros Hna Hw HG. pose proof HG as [Hi Hb Hg]. destruct o; cbn [file_step]; try exact HG.
    - destruct Hna as [Hna Ht]. destruct Hw as [Hw1 Hw2].
      destruct (d_name d =? 0) eqn:En.
      + destruct ig.
        * destruct (is_manifest (d_mt d)); [|exact HG]. destruct (verify d c); [|exact HG].
          pose proof (file_restore_inv ov (b_tl c) s Hi (proj1 Ht)) as Hi3.
          pose proof (file_restore_B ov (b_tl c) s Hi Hb (proj1 Ht)) as Hb3.
          pose proof (file_restore_graph_same true ov (b_tl c) s) as Hgr.
          destruct (file_restore true ov (b_tl c) s) as [s3 [e|]]; cbn [fst] in *;
            (constructor; auto; unfold file_ginv; rewrite Hgr; exact Hg).
        * destruct (get gkey_eqb (gk d) (f_cas s)) eqn:Ec; [exact HG|].
          destruct (verify d (limit_reader d c)) eqn:V; [|exact HG].
          apply file_index_after_G. constructor.
          -- pose proof (file_step_inv false ov s (Push d c) (conj Hna Ht) Hi) as H. cbn [file_step] in H.
             rewrite En, Ec, V in H.
             destruct Hi as [A B0 C]. constructor; cbn [f_names f_d2p f_disk f_cas]; auto. intros k c0.
             destruct (eqb_dec gkey_eqb gkey_eqb_spec k (gk d)) as [->|Hne].
             ++ rewrite (get_put_eq gkey_eqb gkey_eqb_spec). intro E. injection E as <-.
                apply verify_spec in V as [V _]. split; [exact V | now apply titles_ok_limit].
             ++ rewrite (get_put_neq gkey_eqb gkey_eqb_spec) by exact Hne. apply C.
          -- destruct Hb as [A C]. constructor; cbn [f_disk f_cas]; auto. intros k c0.
             destruct (eqb_dec gkey_eqb gkey_eqb_spec k (gk d)) as [->|Hne].
             ++ rewrite (get_put_eq gkey_eqb gkey_eqb_spec). intro E. injection E as <-.
                rewrite (Hw2 eq_refl) at 1. f_equal. apply verify_spec in V as [V' _]. now rewrite V'.
             ++ rewrite (get_put_neq gkey_eqb gkey_eqb_spec) by exact Hne. apply C.
          -- exact Hg.
      + assert (Hc : (k_dig (gk d) =? b_hash c) && (k_size (gk d) =? b_len c) = true -> c = B (b_hash c)).
        { intro V. change ((d_dig d =? b_hash c) && (d_size d =? b_len c) = true) in V.
          rewrite (Hw1 V) at 1. f_equal. apply verify_spec in V as [V' _]. now rewrite V'. }
        pose proof (file_named_push_inv ov s (gk d) (d_name d) c Hi Hna Ht) as Hi1.
        pose proof (file_named_push_graph_same true ov s (gk d) (d_name d) c) as Hgr.
        assert (Hb1 : file_B (fst (file_named_push true ov s (gk d) (d_name d) c))).
        { unfold file_named_push.
          destruct (mem N.eqb (d_name d) (f_names s)); [exact Hb|]. destruct (bad_name (d_name d)); [exact Hb|].
          destruct (ov && _); [exact Hb|].
          destruct ((k_dig (gk d) =? b_hash c) && (k_size (gk d) =? b_len c)) eqn:V; cbn [fst].
          - specialize (Hc eq_refl). destruct Hb as [A C]. split; cbn [f_disk f_cas]; auto. intros p c0.
            destruct (N.eq_dec p (path_of (d_name d))) as [->|Hne].
            + rewrite (get_put_eq N.eqb Neqb_spec). intro E. now injection E as <-.
            + rewrite (get_put_neq N.eqb Neqb_spec) by exact Hne. apply A.
          - destruct Hb as [A C]. split; cbn [f_disk f_cas]; auto. intros p c0 E.
            destruct (N.eq_dec p (path_of (d_name d))) as [->|Hne].
            + rewrite (get_del_eq N.eqb) in E. discriminate.
            + rewrite (get_del_neq N.eqb Neqb_spec) in E by exact Hne. eapply A; eauto. }
        destruct (file_named_push true ov s (gk d) (d_name d) c) as [s1 [e|]]; cbn [fst] in *.
        * constructor; auto. unfold file_ginv. rewrite Hgr. exact Hg.
        * apply file_index_after_G. constructor; auto. unfold file_ginv. rewrite Hgr. exact Hg.
    - destruct (file_fetch d s); exact HG.
    - destruct r; try exact HG; (destruct (file_exists d s); [|exact HG]; cbn [fst];
        destruct Hi as [A0 B0 C0]; destruct Hb as [A1 C1]; constructor; [constructor; auto | constructor; auto | exact Hg]).
    - destruct r; try exact HG; destruct (get ref_eqb _ (r_index (f_res s))); exact HG.
  Qed.

  Lemma file_run_G ig ov h : forall s,
    Forall no_alias h -> Forall wfB_op h -> file_G s -> file_G (fst (runf (file_step true ig ov) s h)).
  Proof.
    induction h as [|o h IH]; intros s Hna Hw H; [exact H|]. rewrite runf_cons. cbn [fst].
    inversion Hna; inversion Hw; subst. apply IH; auto. now apply file_step_G.
  Qed.

  Lemma file_G_init : file_G file_init.
  Proof.
    constructor; [exact file_inv_init | constructor; simpl; intros; discriminate | exact file_ginv_init].
  Qed.

  (* Predecessors answers exactly the indexed nodes whose bytes list the node as a successor *)
  Theorem file_preds_exact ig ov h n k :
    Forall no_alias h -> Forall wfB_op h ->
    let s := fst (runf (file_step true ig ov) file_init h) in
    In k (map gk (g_predecessors n (f_graph s))) <->
    In k (map fst (g_nodes (f_graph s))) /\ In (gk n) (succ_of k (B (k_dig k))).
  Proof.
    intros Hna Hw s. pose proof (file_run_G ig ov h _ Hna Hw file_G_init) as [_ _ Hg]. fold s in Hg.
    rewrite (g_predecessors_spec _ _ _ _ Hg). unfold S_file. split.
    - intros (l & A & C). destruct (mem gkey_eqb k (map fst (g_nodes (f_graph s)))) eqn:E; [|discriminate].
      injection A as <-. split; auto. now apply (mem_In gkey_eqb gkey_eqb_spec).
    - intros [A C]. apply (mem_In gkey_eqb gkey_eqb_spec) in A. rewrite A. eauto.
  Qed.
End FileGraph.

(* ---------- a successful Push is indexed, and stays indexed ---------- *)
Definition indexed (k : gkey) (s : file_store) : Prop := mem gkey_eqb k (map fst (g_nodes (f_graph s))) = true.

Lemma indexed_g_index k d ss s :
  indexed k s \/ k = gk d ->
  indexed k (mkFile (f_names s) (f_d2p s) (f_disk s) (f_cas s) (f_res s) (g_index d ss (f_graph s))).
Proof.
  unfold indexed. cbn [f_graph]. rewrite g_index_nodes, mem_keys_put. intros [H| ->].
  - rewrite H. apply orb_true_r.
  - now rewrite (eqb_refl gkey_eqb gkey_eqb_spec).
Qed.

Lemma indexed_file_index k d s : indexed k s -> indexed k (fst (file_index d s)).
Proof.
  intro H. unfold file_index. destruct (is_manifest (d_mt d)).
  - destruct (file_fetch d s) as [c1|]; [|exact H]. destruct (d_dig d =? b_hash c1); [|exact H].
    cbn [fst]. apply indexed_g_index. now left.
  - cbn [fst]. apply indexed_g_index. now left.
Qed.

Lemma indexed_index_after fx ov k d s : indexed k s -> indexed k (fst (file_index_after fx ov d s)).
Proof.
  intro H. apply (file_index_after_rel (fun a b => indexed k a -> indexed k b)); auto.
  - intros d0 a. apply indexed_file_index.
  - intros tl a Ha. unfold indexed. now rewrite file_restore_graph_same.
Qed.

Lemma indexed_step fx ig ov k s o : indexed k s -> indexed k (fst (file_step fx ig ov s o)).
Proof.
  intro H. destruct o; try exact H.
  - rewrite file_step_push_split. unfold file_push_store. destruct (d_name d =? 0).
    + destruct ig.
      * destruct (is_manifest (d_mt d)); [|exact H]. destruct (verify d c); [|exact H].
        pose proof (file_restore_graph_same fx ov (b_tl c) s) as X.
        destruct (file_restore fx ov (b_tl c) s) as [s2 [e|]]; cbn [fst] in *; unfold indexed; now rewrite X.
      * destruct (get gkey_eqb (gk d) (f_cas s)); [exact H|].
        destruct (verify d (limit_reader d c)); [|exact H]. apply indexed_index_after. exact H.
    + pose proof (file_named_push_graph_same fx ov s (gk d) (d_name d) c) as X.
      destruct (file_named_push fx ov s (gk d) (d_name d) c) as [s1 [e|]]; cbn [fst] in *.
      * unfold indexed. now rewrite X.
      * apply indexed_index_after. unfold indexed. now rewrite X.
  - cbn [file_step]. destruct (file_fetch d s); exact H.
  - cbn [file_step]. destruct r; try exact H; destruct (file_exists d s); exact H.
  - cbn [file_step]. destruct r; try exact H; destruct (get ref_eqb _ (r_index (f_res s))); exact H.
Qed.

Lemma indexed_run fx ig ov k h : forall s, indexed k s -> indexed k (fst (runf (file_step fx ig ov) s h)).
Proof.
  induction h as [|o h IH]; intros s H; [exact H|]. rewrite runf_cons. cbn [fst]. apply IH. now apply indexed_step.
Qed.

Lemma index_after_ok_indexed fx ov d s :
  snd (file_index_after fx ov d s) = FO OOk -> indexed (gk d) (fst (file_index_after fx ov d s)).
Proof.
  unfold file_index_after.
  assert (Hi : snd (file_index d s) = FO OOk -> indexed (gk d) (fst (file_index d s))).
  { unfold file_index. destruct (is_manifest (d_mt d)).
    - destruct (file_fetch d s) as [c1|]; [|discriminate]. destruct (d_dig d =? b_hash c1); [|discriminate].
      intros _. cbn [fst]. apply indexed_g_index. now right.
    - intros _. cbn [fst]. apply indexed_g_index. now right. }
  destruct (file_index d s) as [s2 r]. cbn [fst snd] in Hi.
  destruct r as [o|e]; [|discriminate]. destruct o; try discriminate. specialize (Hi eq_refl).
  destruct (is_manifest (d_mt d)); [|intros _; exact Hi].
  destruct (file_fetch d s2) as [c1|]; [|discriminate]. destruct (d_dig d =? b_hash c1); [|discriminate].
  pose proof (file_restore_graph_same fx ov (b_tl c1) s2) as X.
  destruct (file_restore fx ov (b_tl c1) s2) as [s3 [e|]]; cbn [fst snd] in *; intros _; unfold indexed; now rewrite X.
Qed.

Lemma file_named_push_some_err fx ov s k n c s1 e :
  file_named_push fx ov s k n c = (s1, Some e) -> e <> FO OOk.
Proof.
  unfold file_named_push. destruct (mem N.eqb n (f_names s)); [intro H; injection H as <- <-; discriminate|].
  destruct (bad_name n); [intro H; injection H as <- <-; discriminate|].
  destruct (ov && _); [intro H; injection H as <- <-; discriminate|].
  destruct (_ && _); intro H; [discriminate | injection H as <- <-; discriminate].
Qed.

(* a Push that succeeded (and was not discarded by IgnoreNoName) is in the graph for ever *)
Theorem file_push_ok_indexed fx ig ov s d c h2 :
  (ig = false \/ d_name d <> 0) ->
  snd (file_step fx ig ov s (Push d c)) = FO OOk ->
  indexed (gk d) (fst (runf (file_step fx ig ov) (fst (file_step fx ig ov s (Push d c))) h2)).
Proof.
  intros Hig Hok. apply indexed_run. revert Hok. rewrite file_step_push_split. unfold file_push_store.
  destruct (d_name d =? 0) eqn:En.
  - apply N.eqb_eq in En. destruct Hig as [->|Hn]; [|congruence].
    destruct (get gkey_eqb (gk d) (f_cas s)); [discriminate|].
    destruct (verify d (limit_reader d c)); [|discriminate]. apply index_after_ok_indexed.
  - destruct (file_named_push fx ov s (gk d) (d_name d) c) as [s1 [e|]] eqn:Enp; cbn [fst snd].
    + intro X. exfalso. apply (file_named_push_some_err _ _ _ _ _ _ _ _ Enp). exact X.
    + apply index_after_ok_indexed.
Qed.

(* non-vacuity: a layer and a manifest listing it, with the bytes function they come from *)
Definition fgx_B (g : N) : blob := if g =? 9 then mkBlob 9 20 [(6, 1, 5)] 9 [(6, 1, 5)] else mkBlob 1 5 [] 1 [].
Definition fgx_hist : list op :=
  [Push w_named w_good; Push (mkDesc 1 9 20 0) (mkBlob 9 20 [(6, 1, 5)] 9 [(6, 1, 5)]); Preds w_layer].
Lemma fgx_wf : Forall (wfB_op fgx_B) fgx_hist /\ Forall no_alias fgx_hist.
Proof.
  split.
  - repeat constructor; intros _; reflexivity.
  - repeat constructor; try reflexivity; intros k n [].
Qed.
Lemma fgx_run : snd (runf (file_step true false false) file_init fgx_hist) = [FO OOk; FO OOk; FO (OPreds [(1, 9, 20)])].
Proof. vm_compute. reflexivity. Qed.
