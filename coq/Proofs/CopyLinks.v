(* The generated link schema of content.Successors is exactly the property's link relation, and
   closure over CopySpec's [reach] is closure over those links. *)
From Oras Require Import Base.Prelude Generated.GC01 Model.CopySpec Model.CopyTop Model.CopyLinks Proofs.CopySpec.
Local Open Scope nat_scope.

(* x is linked from the manifest with fields f by one of the link kinds of its media type *)
Definition linked (f : mfields) (x : node) : Prop :=
  exists k, In k (spec_kinds (f_mt f)) /\ In x (links_of k f).

Lemma schema_is_spec f x : linked f x <-> In x (successors f).
Proof.
  unfold linked, successors, successors_by, spec_kinds, successors_schema. simpl.
  destruct (String.eqb (f_mt f) "docker.MediaTypeManifest") eqn:E1; simpl.
  { rewrite app_nil_r, in_app_iff. split.
    - intros [k [[<-|[<-|[]]] H]]; auto.
    - intros [H|H]; [exists LConfig | exists LLayers]; simpl; auto. }
  destruct (String.eqb (f_mt f) "ocispec.MediaTypeImageManifest") eqn:E2; simpl.
  { rewrite app_nil_r, !in_app_iff. split.
    - intros [k [[<-|[<-|[<-|[]]]] H]]; auto.
    - intros [H|[H|H]]; [exists LSubject | exists LConfig | exists LLayers]; simpl; auto. }
  destruct (String.eqb (f_mt f) "docker.MediaTypeManifestList") eqn:E3; simpl.
  { rewrite app_nil_r. split.
    - intros [k [[<-|[]] H]]; auto.
    - intro H. exists LManifests. simpl; auto. }
  destruct (String.eqb (f_mt f) "ocispec.MediaTypeImageIndex") eqn:E4; simpl.
  { rewrite app_nil_r, in_app_iff. split.
    - intros [k [[<-|[<-|[]]] H]]; auto.
    - intros [H|H]; [exists LSubject | exists LManifests]; simpl; auto. }
  destruct (String.eqb (f_mt f) "spec.MediaTypeArtifactManifest") eqn:E5; simpl.
  { rewrite app_nil_r, in_app_iff. split.
    - intros [k [[<-|[<-|[]]] H]]; auto.
    - intros [H|H]; [exists LSubject | exists LBlobs]; simpl; auto. }
  split; [intros [k [[] _]] | intros []].
Qed.

(* the media types for which Successors decodes something are exactly IsManifest's *)
Lemma schema_labels_are_manifests :
  forall mt, is_manifest_mt mt = true <-> lookup_schema successors_schema mt <> None.
Proof.
  intro mt. unfold is_manifest_mt, isManifest_cases, successors_schema. simpl.
  destruct (String.eqb mt "docker.MediaTypeManifest"); simpl; [split; [discriminate|reflexivity]|].
  destruct (String.eqb mt "docker.MediaTypeManifestList") eqn:E2; simpl.
  { destruct (String.eqb mt "ocispec.MediaTypeImageManifest"); simpl; split; try discriminate; reflexivity. }
  destruct (String.eqb mt "ocispec.MediaTypeImageManifest"); simpl; [split; [discriminate|reflexivity]|].
  destruct (String.eqb mt "ocispec.MediaTypeImageIndex"); simpl; [split; [discriminate|reflexivity]|].
  destruct (String.eqb mt "spec.MediaTypeArtifactManifest"); simpl; [split; [discriminate|reflexivity]|].
  split; [discriminate | intro H; now elim H].
Qed.

(* no media type is both a manifest and a foreign layer *)
Lemma manifest_not_foreign : forall mt, is_manifest_mt mt = true -> is_foreign_mt mt = false.
Proof.
  intro mt. unfold is_manifest_mt, is_foreign_mt, isManifest_cases, isForeignLayer_cases. simpl.
  repeat match goal with |- context [String.eqb mt ?s] =>
    let E := fresh "E" in destruct (String.eqb mt s) eqn:E; [apply String.eqb_eq in E; subst mt; vm_compute; congruence|] end.
  simpl. discriminate.
Qed.

Section Links.
Variable n : nat.
Variable flds : node -> mfields.
Variable dkey : node -> nat.

(* reachability along the property's links, foreign layers cut *)
Inductive lreach : node -> node -> Prop :=
| lreach_refl a : lreach a a
| lreach_step a x b : linked (flds a) x -> is_foreign_mt (f_mt (flds x)) = false ->
                      lreach x b -> lreach a b.

Lemma lreach_reach a b : lreach a b -> reach (graph_of n flds dkey) a b.
Proof.
  induction 1 as [a|a x b Hl Hf _ IH]; [constructor|].
  apply reach_step with x; [|exact IH].
  unfold succ'. simpl. apply filter_In. split.
  - now apply schema_is_spec.
  - now rewrite Hf.
Qed.

Lemma reach_lreach a b : reach (graph_of n flds dkey) a b -> lreach a b.
Proof.
  induction 1 as [a|a x b Hx _ IH]; [constructor|].
  unfold succ' in Hx. simpl in Hx. apply filter_In in Hx as [Hs Hf].
  apply lreach_step with x; [now apply schema_is_spec | now apply negb_true_iff in Hf | exact IH].
Qed.

Lemma closure_links c d0 tr st :
  closed_nodes (graph_of n flds dkey) d0 -> mt_consistent (graph_of n flds dkey) ->
  accepts (graph_of n flds dkey) c d0 tr = Some st -> returned st = Some true ->
  forall x, lreach (c_root c) x -> has (graph_of n flds dkey) (dst st) x = true.
Proof.
  intros Hc Hm Ha Hr x Hx.
  exact (closure_lemma (graph_of n flds dkey) c d0 tr st Hc Hm Ha Hr x (lreach_reach _ _ Hx)).
Qed.
End Links.

(* Copy as a whole: whatever root the prologue arrives at (resolution, MapRoot, platform selection),
   a successful run from that root replicates its graph and makes the effective reference resolve
   to it; and with a platform the root is the first matching entry of the mapped manifest list *)
Lemma copy_top_lemma (g : graph) (dflt opt : Z) (refpusher mount : bool) (cached0 d0 : list node)
      (tags0 : str -> option node) (srcRef dstRef : str)
      (resolved : option node) (user_map : option (node -> option node)) (platform : option plat)
      (entries_of : node -> option (list (node * option plat))) (root : node) tr st :
  copy_root resolved user_map platform entries_of = Some root ->
  closed_nodes g d0 -> mt_consistent g ->
  accepts g (copy_cfg dflt opt refpusher mount root cached0) d0 tr = Some st ->
  returned st = Some true ->
  tags_after tags0 (eff_ref srcRef dstRef) st (eff_ref srcRef dstRef) = Some root /\
  (forall n, reach g root n -> has g (dst st) n = true).
Proof.
  intros _ Hc Hm Ha Hr. split.
  - exact (copy_tagged_lemma g dflt opt refpusher mount root cached0 d0 tags0 srcRef dstRef tr st Ha Hr).
  - exact (closure_lemma g _ d0 tr st Hc Hm Ha Hr).
Qed.

Lemma copy_root_platform resolved platform_want entries_of r es root :
  resolved = Some r -> entries_of r = Some es ->
  copy_root resolved None (Some platform_want) entries_of = Some root ->
  select_manifest es platform_want = Some root.
Proof.
  intros -> He. unfold copy_root, prologue. now rewrite He.
Qed.

Lemma copy_root_fails_unresolved user_map platform entries_of :
  copy_root None user_map platform entries_of = None.
Proof. reflexivity. Qed.

(* prologue reads vs the copy: a node read in the prologue and not cached is read again by copyGraph
   only if it is the (mapped) root's own content or its config -- the two mechanisms of the known finding
   prologue-read-twice; a manifest root resolved through a ReferenceFetcher is cached and not read again *)
Lemma prologue_manifest_root_cached root0 pt :
  cache_after_resolve true true false root0 = [root0] /\
  ~ In root0 (filter (fun x => negb (memb x [root0])) (match pt with PTList => [root0] | _ => [] end)).
Proof.
  split; [reflexivity|]. destruct pt; simpl; auto. rewrite Nat.eqb_refl. simpl. auto.
Qed.

Lemma prologue_fetches_nodes reffetch root0 mapped pt cache x :
  In x (prologue_fetches reffetch root0 mapped pt cache) ->
  x = root0 \/ x = mapped \/ (exists ok, pt = PTImage x ok).
Proof.
  unfold prologue_fetches. intro H. apply in_app_iff in H as [H|H].
  - destruct reffetch; [destruct H as [<-|[]]; auto | contradiction].
  - apply filter_In in H as [H _].
    destruct pt as [| |cb ok|]; simpl in H; try contradiction.
    + destruct H as [<-|[]]; auto.
    + destruct ok; simpl in H.
      * destruct H as [<-|[<-|[]]]; eauto.
      * destruct H as [<-|[]]; auto.
Qed.

(* ---- several roots (ExtendedCopyGraph: c_root :: c_xroots, one shared walk) ---- *)
Lemma step_ret_true_xroots g c st e st' : step g c st e = Some st' -> returned st = None ->
  returned st' = Some true -> forall r, In r (c_xroots c) -> ph st' r = Done.
Proof.
  intros H Hn Hr r Hin. unfold step in H. rewrite Hn in H.
  destruct e; try (repeat match type of H with
    | context [match ?x with _ => _ end] => destruct x; try discriminate H end;
    injection H as <-; simpl in Hr; congruence).
  destruct ok.
  - destruct (is_done (ph st (c_root c)) && forallb (fun n => is_idle_or_done (ph st n)) (seq 0 (g_n g)) &&
              forallb (fun r => is_done (ph st r)) (c_xroots c)) eqn:G; [|discriminate].
    injection H as <-. simpl.
    apply andb_true_iff in G as [_ G]. rewrite forallb_forall in G. specialize (G r Hin).
    destruct (ph st r); simpl in G; congruence.
  - destruct (existsb (fun n => is_dead (ph st n)) (seq 0 (g_n g))); [|discriminate].
    injection H as <-. simpl in Hr. discriminate.
Qed.

Lemma run_ret_true_xroots g c tr : forall st st', run g c st tr = Some st' ->
  returned st = None -> returned st' = Some true -> forall r, In r (c_xroots c) -> ph st' r = Done.
Proof.
  induction tr as [|e tr IH]; simpl; intros st st' H Hn Hr.
  - injection H as <-. congruence.
  - destruct (step g c st e) as [s1|] eqn:E; [|discriminate].
    destruct (returned s1) as [b|] eqn:R1.
    + destruct tr as [|e' tr']; simpl in H.
      * injection H as <-. eapply step_ret_true_xroots; eauto.
      * rewrite (step_after_ret g c s1 e' b R1) in H. discriminate.
    + eapply IH; eauto.
Qed.

(* success of a walk from several roots: the graph of EVERY root is in the destination *)
Lemma closure_all_roots g c d0 tr st :
  closed_nodes g d0 -> mt_consistent g ->
  accepts g c d0 tr = Some st -> returned st = Some true ->
  forall r n, In r (c_root c :: c_xroots c) -> reach g r n -> has g (dst st) n = true.
Proof.
  intros Hc Hm Ha Hr r n [<-|Hin] Hn.
  - exact (closure_lemma g c d0 tr st Hc Hm Ha Hr n Hn).
  - unfold accepts in Ha.
    pose proof (run_inv g c d0 tr _ _ (init_inv g c d0) Ha) as I.
    pose proof (run_ret_true_xroots g c tr _ _ Ha eq_refl Hr r Hin) as Hd.
    eapply reach_closed; eauto using (i_closed g c d0 st I Hc).
    apply (i_present g c d0 st I). now rewrite Hd.
Qed.

(* ---- removeForeignLayers: the in-place loop is the filter that CopySpec.succ' uses ---- *)

Lemma set_nth_length l k v : length (set_nth l k v) = length l.
Proof. revert k; induction l as [|x l IH]; intros [|k]; simpl; auto. Qed.

Lemma firstn_set_nth_ge l k v j : j <= k -> firstn j (set_nth l k v) = firstn j l.
Proof.
  revert k j; induction l as [|x l IH]; intros [|k] [|j] H; simpl; auto; try lia.
  f_equal. apply IH. lia.
Qed.

Lemma skipn_set_nth_lt l k v i : k < i -> skipn i (set_nth l k v) = skipn i l.
Proof.
  revert k i; induction l as [|x l IH]; intros [|k] [|i] H; simpl; auto; try lia.
  apply IH. lia.
Qed.

Lemma firstn_S_set_nth l j v : j < length l -> firstn (S j) (set_nth l j v) = firstn j l ++ [v].
Proof.
  revert j; induction l as [|x l IH]; intros [|j] H; simpl in *; try lia; auto.
  f_equal. apply IH. lia.
Qed.

Lemma firstn_S_nth (l : list node) j d : nth_error l j = Some d -> firstn (S j) l = firstn j l ++ [d].
Proof.
  revert j; induction l as [|x l IH]; intros [|j] H; simpl in *; try discriminate.
  - now injection H as ->.
  - f_equal. now apply IH.
Qed.

Lemma nth_error_skipn (l : list node) i d : nth_error l i = Some d -> skipn i l = d :: skipn (S i) l.
Proof.
  revert i; induction l as [|x l IH]; intros [|i] H; simpl in *; try discriminate.
  - now injection H as ->.
  - now apply IH.
Qed.

Lemma skipn_S_tl (l : list node) i : skipn (S i) l = tl (skipn i l).
Proof.
  revert i; induction l as [|x l IH]; intros [|i]; simpl; auto.
  rewrite <- IH. reflexivity.
Qed.

Lemma rfl_spec foreign : forall fuel i j arr orig,
  j <= i -> length arr = length orig -> i + fuel = length orig ->
  skipn i arr = skipn i orig ->
  firstn j arr = filter (fun x => negb (foreign x)) (firstn i orig) ->
  rfl foreign fuel i j arr = filter (fun x => negb (foreign x)) orig.
Proof.
  induction fuel as [|f IH]; intros i j arr orig Hji Hlen Hfuel Hskip Hfirst; simpl.
  - assert (i = length orig) by lia. subst i. now rewrite firstn_all in Hfirst.
  - destruct (nth_error arr i) as [d|] eqn:Hn.
    + assert (Ho : nth_error orig i = Some d).
      { rewrite <- (firstn_skipn i orig), nth_error_app2 by (rewrite firstn_length; lia).
        rewrite firstn_length, Nat.min_l by lia. rewrite Nat.sub_diag, <- Hskip.
        rewrite (nth_error_skipn arr i d Hn). reflexivity. }
      assert (Hs' : forall a, length a = length orig -> skipn i a = skipn i orig ->
                     skipn (S i) a = skipn (S i) orig).
      { intros a _ Ha. now rewrite !skipn_S_tl, Ha. }
      assert (Hf' : filter (fun x => negb (foreign x)) (firstn (S i) orig) =
                    filter (fun x => negb (foreign x)) (firstn i orig) ++ (if foreign d then [] else [d])).
      { rewrite (firstn_S_nth orig i d Ho), filter_app. simpl. destruct (foreign d); reflexivity. }
      destruct (foreign d) eqn:Fd.
      * apply IH; try lia; auto.
        rewrite Hf', app_nil_r. exact Hfirst.
      * destruct (Nat.eqb i j) eqn:Eij.
        -- apply Nat.eqb_eq in Eij. subst j.
           apply IH; try lia; auto.
           rewrite Hf', (firstn_S_nth arr i d Hn), Hfirst. reflexivity.
        -- apply Nat.eqb_neq in Eij. assert (j < i) by lia.
           apply IH; try lia.
           ++ now rewrite set_nth_length.
           ++ rewrite skipn_set_nth_lt by lia. apply Hs'; auto.
           ++ rewrite Hf', firstn_S_set_nth by lia. now rewrite Hfirst.
    + apply nth_error_None in Hn. lia.
Qed.

Lemma remove_foreign_inplace_is_filter foreign descs :
  remove_foreign_inplace foreign descs = filter (fun x => negb (foreign x)) descs.
Proof.
  unfold remove_foreign_inplace. apply rfl_spec; simpl; auto.
Qed.

Lemma succ'_is_remove_foreign g n :
  succ' g n = remove_foreign_inplace (g_foreign g) (g_succ g n).
Proof. now rewrite remove_foreign_inplace_is_filter. Qed.

(* ---- the outcome does not depend on the schedule (mt_consistent graphs) ... ---- *)
Lemma outcome_schedule_independent g c d0 (rank : node -> nat) tr1 tr2 st1 st2 :
  (forall n x, In x (succ' g n) -> rank x < rank n) ->
  c_xroots c = [] -> closed_nodes g d0 -> mt_consistent g ->
  accepts g c d0 tr1 = Some st1 -> returned st1 = Some true ->
  accepts g c d0 tr2 = Some st2 -> returned st2 = Some true ->
  forall n, has g (dst st1) n = has g (dst st2) n.
Proof.
  intros Hr Hx Hc Hm A1 R1 A2 R2 n.
  rewrite (copy_result_lemma g c d0 rank Hr tr1 st1 (S (rank (c_root c))) Hx Hc Hm (Nat.lt_succ_diag_r _) A1 R1 n).
  rewrite (copy_result_lemma g c d0 rank Hr tr2 st2 (S (rank (c_root c))) Hx Hc Hm (Nat.lt_succ_diag_r _) A2 R2 n).
  reflexivity.
Qed.

(* ... and does depend on it otherwise: the graph of the in-call F12 witness, copied into an empty
   digest-keyed destination in the other probe order (manifest 2 probed before blob 3 is pushed), ends
   with everything present *)
Definition tr_twin2_ok : list event :=
 [ExB 5; ExE 5 false; SFB 5; SFE 5; SFC 5;
  ExB 2; ExE 2 false; SFB 2; SFE 2; SFC 2;
  ExB 0; ExE 0 false; Cb CPre 0; SFB 0; SFE 0; PuB 0 false; PuE 0 false POk; SFC 0; Cb CPost 0;
  ExB 1; ExE 1 false; Cb CPre 1; SFB 1; SFE 1; PuB 1 false; PuE 1 false POk; SFC 1; Cb CPost 1;
  Cb CPre 2; PuB 2 false; PuE 2 false POk; Cb CPost 2;
  ExB 4; ExE 4 false; SFB 4; SFE 4; SFC 4;
  ExB 3; ExE 3 true; Cb CSkip 3;
  Cb CPre 4; PuB 4 false; PuE 4 false POk; Cb CPost 4;
  Cb CPre 5; PuB 5 false; PuE 5 false POk; TagB 5; TagE 5; Cb CPost 5; Ret true].

Lemma outcome_schedule_dependent_without_mt_consistency :
  exists g c (rank : node -> nat) tr1 tr2 st1 st2 n,
    (forall m x, In x (succ' g m) -> rank x < rank m) /\ c_xroots c = [] /\ closed_nodes g [] /\
    accepts g c [] tr1 = Some st1 /\ returned st1 = Some true /\
    accepts g c [] tr2 = Some st2 /\ returned st2 = Some true /\
    has g (dst st1) n <> has g (dst st2) n.
Proof.
  exists g_twin2, c_twin2, (fun n => n), tr_twin2, tr_twin2_ok. eexists. eexists. exists 1.
  split.
  { intros m x. destruct m as [|[|[|[|[|[|m]]]]]]; simpl; intuition lia. }
  split; [reflexivity|]. split; [intros m x []|].
  split; [vm_compute; reflexivity|]. split; [reflexivity|].
  split; [vm_compute; reflexivity|]. split; [reflexivity|].
  vm_compute. discriminate.
Qed.

(* platform selection on an image manifest keeps the root or fails; on a list it is select_manifest *)
Lemma select_target_image r ok p want x :
  select_target r (PVImage ok p) want = Some x <-> x = r /\ ok = true /\ plat_match p want = true.
Proof.
  simpl. destruct ok; destruct (plat_match p want); simpl; split; intro H.
  - injection H as <-. auto.
  - destruct H as [-> _]. reflexivity.
  - discriminate.
  - destruct H as [_ [_ H]]. discriminate.
  - discriminate.
  - destruct H as [_ [H _]]. discriminate.
  - discriminate.
  - destruct H as [_ [H _]]. discriminate.
Qed.

Lemma select_target_other r want : select_target r PVOther want = None.
Proof. reflexivity. Qed.
