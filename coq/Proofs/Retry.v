(* Lemmas about Model/Retry.v (C17). *)
From Coq Require Import QArith Qabs.
From Oras Require Import Base.Prelude Generated.GC17 Model.Retry.
Open Scope Z_scope.

(* ------------------------------------------------------------------ *)
(* GenericPolicy.Retry                                                  *)

Lemma clamp_bounds lo hi x : lo <= hi -> lo <= clamp lo hi x <= hi.
Proof.
  intro H. unfold clamp.
  destruct (x <? lo) eqn:E1.
  - destruct (lo >? hi) eqn:E2; lia.
  - destruct (x >? hi) eqn:E2; lia.
Qed.

Lemma clamp_id lo hi x : lo <= x <= hi -> clamp lo hi x = x.
Proof.
  intro H. unfold clamp.
  destruct (x <? lo) eqn:E1; [lia|]. destruct (x >? hi) eqn:E2; lia.
Qed.

(* each pause GenericPolicy.Retry computes lies within [MinWait, MaxWait],
   for any predicate, any backoff function, any attempt and any answer *)
Lemma generic_retry_bounds p attempt o d :
  p_min p <= p_max p -> generic_retry p attempt o = DWait d -> p_min p <= d <= p_max p.
Proof.
  intros H. unfold generic_retry.
  destruct (attempt >=? p_max_retry p); [discriminate|].
  destruct (p_pred p o); try discriminate.
  destruct (p_backoff p attempt o) as [x|]; [|discriminate].
  intro E. injection E as <-. now apply clamp_bounds.
Qed.

Lemma generic_retry_wait_lt p attempt o d :
  generic_retry p attempt o = DWait d -> attempt < p_max_retry p /\ p_pred p o = PRetry.
Proof.
  unfold generic_retry. destruct (attempt >=? p_max_retry p) eqn:E; [discriminate|].
  destruct (p_pred p o); try discriminate. intros _. split; [lia|reflexivity].
Qed.

Lemma generic_retry_nonretryable p attempt o :
  p_pred p o <> PRetry ->
  generic_retry p attempt o = DStop \/ generic_retry p attempt o = DFail.
Proof.
  unfold generic_retry. intro H. destruct (attempt >=? p_max_retry p); [now left|].
  destruct (p_pred p o); auto. congruence.
Qed.

Lemma generic_retry_exhausted p attempt o :
  p_max_retry p <= attempt -> generic_retry p attempt o = DStop.
Proof.
  unfold generic_retry. intro H. destruct (attempt >=? p_max_retry p) eqn:E; [reflexivity|lia].
Qed.

Lemma generic_retry_no_panic p attempt o :
  (forall a o', p_backoff p a o' <> BPanic) -> generic_retry p attempt o <> DPanic.
Proof.
  intro H. unfold generic_retry. destruct (attempt >=? p_max_retry p); [discriminate|].
  destruct (p_pred p o); try discriminate.
  destruct (p_backoff p attempt o) eqn:E; [discriminate|]. now apply H in E.
Qed.

(* ------------------------------------------------------------------ *)
(* DefaultPredicate (generated status branch) and DefaultPolicy constants *)

Lemma default_predicate_status_spec c :
  default_predicate_status c = true <-> (c = 408 \/ c = 429 \/ c = 0 \/ 500 <= c).
Proof.
  unfold default_predicate_status.
  rewrite !orb_true_iff, !Z.eqb_eq, Z.geb_le. tauto.
Qed.

(* the documented rule for transport errors: only timeouts (of net.Error values) are retried *)
Lemma default_predicate_error_spec ne to tmp :
  default_predicate_error ne to tmp = ne && to.
Proof. destruct ne, to, tmp; reflexivity. Qed.

Lemma default_predicate_error_outcome ne to tmp :
  default_predicate (OErr ne to tmp) = PRetry <-> (ne = true /\ to = true).
Proof.
  unfold default_predicate. cbn [err_flags]. rewrite default_predicate_error_spec.
  destruct ne, to; cbn; split; intro H; try discriminate; auto; destruct H; discriminate.
Qed.

Lemma default_policy_wellformed :
  0 < default_min_wait /\ default_min_wait <= default_max_wait /\ 0 <= default_max_retry.
Proof. unfold default_min_wait, default_max_wait, default_max_retry. lia. Qed.

(* ------------------------------------------------------------------ *)
(* ExponentialBackoff                                                   *)

Lemma exp_backoff_fixed_total oob rnd e attempt o :
  exists d, exp_backoff_fixed oob rnd e attempt o = BRet d.
Proof.
  unfold exp_backoff_fixed, exp_backoff_gen.
  destruct (retry_after_secs o >? 0); [eauto|].
  destruct (f2i oob (exp_n e attempt) >? 0); eauto.
Qed.

(* the source as it is now (the guard flag is re-read from policy.go) *)
Lemma exp_backoff_total oob rnd e attempt o :
  exists d, exp_backoff oob rnd e attempt o = BRet d.
Proof.
  unfold exp_backoff.
  replace exp_backoff_guarded with true by reflexivity.
  apply exp_backoff_fixed_total.
Qed.

Lemma exp_backoff_never_panics oob rnd e attempt o :
  exp_backoff oob rnd e attempt o <> BPanic.
Proof. destruct (exp_backoff_total oob rnd e attempt o) as [d ->]. discriminate. Qed.

(* the original source: a zero jitter panics, whatever the conversion of out-of-range
   floats and whatever the random source *)
Lemma exp_backoff_prefix_panics :
  forall oob rnd, exp_backoff_prefix oob rnd (mkE 250000000 (2 # 1) (0 # 1)) 0 (OErr true true true) = BPanic.
Proof. intros. reflexivity. Qed.

Lemma exp_backoff_prefix_refuted :
  exists e attempt o, forall oob rnd, exp_backoff_prefix oob rnd e attempt o = BPanic.
Proof.
  exists (mkE 250000000 (2 # 1) (0 # 1)), 0, (OErr true true true). exact exp_backoff_prefix_panics.
Qed.

(* Retry-After on 429: the backoff is exactly that many seconds *)
Lemma exp_backoff_retry_after guarded oob rnd e attempt h ch n :
  h <> [] -> parse_int64 h = n -> 0 < n -> n * 1000000000 < two63 ->
  exp_backoff_gen guarded oob rnd e attempt (OStatus 429 h ch) = BRet (n * 1000000000).
Proof.
  intros Hh Hp Hn Hr. unfold exp_backoff_gen. cbn [retry_after_secs].
  replace (429 =? 429) with true by reflexivity.
  destruct h as [|c h']; [congruence|]. rewrite Hp.
  destruct (n >? 0) eqn:E; [|lia]. f_equal.
  unfold wrap64. unfold two63 in *. unfold two64.
  rewrite Z.mod_small by lia. lia.
Qed.

(* ... and GenericPolicy.Retry honours it within [MinWait, MaxWait] *)
Lemma retry_after_honoured guarded oob rnd e maxretry minw maxw pred attempt h ch n :
  h <> [] -> parse_int64 h = n -> 0 < n -> n * 1000000000 < two63 ->
  attempt < maxretry -> pred (OStatus 429 h ch) = PRetry ->
  generic_retry (mkPolicy maxretry minw maxw pred (exp_backoff_gen guarded oob rnd e)) attempt (OStatus 429 h ch)
  = DWait (clamp minw maxw (n * 1000000000)).
Proof.
  intros Hh Hp Hn Hr Ha Hpred. unfold generic_retry. cbn [p_max_retry p_pred p_backoff p_min p_max].
  destruct (attempt >=? maxretry) eqn:E; [lia|]. rewrite Hpred.
  now rewrite (exp_backoff_retry_after guarded oob rnd e attempt h ch n Hh Hp Hn Hr).
Qed.

(* ------------------------------------------------------------------ *)
(* Trace projections                                                    *)

Lemma attempts_app tr1 tr2 : attempts (tr1 ++ tr2) = attempts tr1 ++ attempts tr2.
Proof. induction tr1 as [|[t g|t d] tr IH]; simpl; congruence. Qed.

Lemma pauses_app tr1 tr2 : pauses (tr1 ++ tr2) = pauses tr1 ++ pauses tr2.
Proof. induction tr1 as [|[t g|t d] tr IH]; simpl; congruence. Qed.

(* ------------------------------------------------------------------ *)
(* One iteration of the loop: every way it can end                      *)

Definition maxr (p : policy) : Z := Z.max 0 (p_max_retry p).

Inductive step_spec (p : policy) (cn : cancel) (bd : body) (st : bstate) (sc : list beh)
          (t attempt : Z) (tr : list event) : step_res -> Prop :=
| SSstop bh sc' got st1 o t1 :
    next_beh sc = (bh, sc') -> serve cn bd st bh t = (got, st1, o, t1) ->
    (generic_retry p attempt o = DStop \/
     (exists d, generic_retry p attempt o = DWait d /\
                (d < 0 \/ rewind bd st1 = RwNoGetBody \/ rewind bd st1 = RwGetBodyErr))) ->
    step_spec p cn bd st sc t attempt tr
              (Done (mkOut (result_of_outcome o) st1 sc' t1 (tr ++ [EAttempt t got])))
| SSfail bh sc' got st1 o t1 :
    next_beh sc = (bh, sc') -> serve cn bd st bh t = (got, st1, o, t1) ->
    generic_retry p attempt o = DFail ->
    step_spec p cn bd st sc t attempt tr
              (Done (mkOut (fail_result o) st1 sc' t1 (tr ++ [EAttempt t got])))
| SSpanic bh sc' got st1 o t1 :
    next_beh sc = (bh, sc') -> serve cn bd st bh t = (got, st1, o, t1) ->
    generic_retry p attempt o = DPanic ->
    step_spec p cn bd st sc t attempt tr
              (Done (mkOut RPanic st1 sc' t1 (tr ++ [EAttempt t got])))
| SScancel bh sc' got st1 o t1 d st2 :
    next_beh sc = (bh, sc') -> serve cn bd st bh t = (got, st1, o, t1) ->
    generic_retry p attempt o = DWait d -> 0 <= d -> rewind bd st1 = RwOk st2 ->
    cancelled_before cn (t1 + d) = true ->
    step_spec p cn bd st sc t attempt tr
              (Done (mkOut RCtx st2 sc' (cancel_clock cn t1) ((tr ++ [EAttempt t got]) ++ [EPause t1 d])))
| SSnext bh sc' got st1 o t1 d st2 :
    next_beh sc = (bh, sc') -> serve cn bd st bh t = (got, st1, o, t1) ->
    generic_retry p attempt o = DWait d -> 0 <= d -> rewind bd st1 = RwOk st2 ->
    cancelled_before cn (t1 + d) = false ->
    step_spec p cn bd st sc t attempt tr
              (Next st2 sc' (t1 + d) ((tr ++ [EAttempt t got]) ++ [EPause t1 d])).

Lemma rt_step_spec p cn bd st sc t attempt tr :
  step_spec p cn bd st sc t attempt tr (rt_step p cn bd st sc t attempt tr).
Proof.
  unfold rt_step.
  destruct (next_beh sc) as [bh sc'] eqn:Hn.
  destruct (serve cn bd st bh t) as [[[got st1] o] t1] eqn:Hs.
  destruct (generic_retry p attempt o) as [| |d|] eqn:Hg.
  - eapply SSstop; eauto.
  - eapply SSfail; eauto.
  - destruct (d <? 0) eqn:Hd.
    + eapply SSstop; eauto. right. exists d. split; [exact Hg|left; lia].
    + destruct (rewind bd st1) as [st2| |] eqn:Hr.
      * destruct (cancelled_before cn (t1 + d)) eqn:Hc.
        -- eapply SScancel; eauto. lia.
        -- eapply SSnext; eauto. lia.
      * eapply SSstop; eauto. right. exists d. split; [exact Hg|auto].
      * eapply SSstop; eauto. right. exists d. split; [exact Hg|auto].
  - eapply SSpanic; eauto.
Qed.

(* ------------------------------------------------------------------ *)
(* Invariant rule for the loop; the fuel of round_trip always suffices   *)

Section LoopInv.
  Variables (p : policy) (cn : cancel) (bd : body).
  Variable Inv : bstate -> list beh -> Z -> Z -> list event -> Prop.
  Variable Post : rt_out -> Prop.
  Hypothesis step_ok :
    forall st sc t a tr, Inv st sc t a tr -> 0 <= a <= maxr p ->
      match rt_step p cn bd st sc t a tr with
      | Done o => Post o
      | Next st' sc' t' tr' => Inv st' sc' t' (a + 1) tr'
      end.

  Lemma rt_loop_inv fuel : forall st sc t a tr,
    Inv st sc t a tr -> 0 <= a <= maxr p -> maxr p - a < Z.of_nat fuel ->
    Post (rt_loop fuel p cn bd st sc t a tr).
  Proof.
    induction fuel as [|fuel IH]; intros st sc t a tr HI Ha Hf.
    - simpl in Hf. lia.
    - cbn [rt_loop]. specialize (step_ok st sc t a tr HI Ha).
      pose proof (rt_step_spec p cn bd st sc t a tr) as Hspec.
      destruct (rt_step p cn bd st sc t a tr) as [o|st' sc' t' tr'] eqn:E; [exact step_ok|].
      inversion Hspec; subst.
      match goal with H : generic_retry _ _ _ = DWait _ |- _ =>
        apply generic_retry_wait_lt in H; destruct H as [Hlt _] end.
      apply IH; [exact step_ok| unfold maxr in *; lia | unfold maxr in *; lia].
  Qed.

  Lemma round_trip_inv st sc t :
    Inv st sc t 0 [] -> Post (round_trip p cn bd st sc t).
  Proof.
    intro HI. unfold round_trip. apply rt_loop_inv; [exact HI| unfold maxr; lia|].
    unfold rt_fuel, maxr. destruct (p_max_retry p) as [|q|q]; simpl; lia.
  Qed.
End LoopInv.

(* the model artefact RFuel never shows up *)
Lemma round_trip_no_fuel p cn bd st sc t : o_res (round_trip p cn bd st sc t) <> RFuel.
Proof.
  apply (round_trip_inv p cn bd (fun _ _ _ _ _ => True) (fun o => o_res o <> RFuel)); [|exact I].
  intros st0 sc0 t0 a tr _ _.
  pose proof (rt_step_spec p cn bd st0 sc0 t0 a tr) as H.
  inversion H; subst; cbn [o_res]; try discriminate; try exact I.
  all: destruct o; discriminate.
Qed.

(* ------------------------------------------------------------------ *)
(* Bounded attempts, paced pauses, no panic                             *)

Lemma round_trip_attempts p cn bd st sc t :
  let n := Z.of_nat (length (attempts (o_trace (round_trip p cn bd st sc t)))) in
  1 <= n <= maxr p + 1.
Proof.
  apply (round_trip_inv p cn bd
           (fun _ _ _ a tr => Z.of_nat (length (attempts tr)) = a)
           (fun o => 1 <= Z.of_nat (length (attempts (o_trace o))) <= maxr p + 1)); [|reflexivity].
  intros st0 sc0 t0 a tr HI Ha.
  pose proof (rt_step_spec p cn bd st0 sc0 t0 a tr) as H.
  inversion H; subst; cbn [o_trace];
    rewrite ?attempts_app, ?app_length; cbn [attempts length app]; lia.
Qed.

Lemma round_trip_pauses p cn bd st sc t :
  p_min p <= p_max p ->
  Forall (fun td => p_min p <= snd td <= p_max p /\ 0 <= snd td)
         (pauses (o_trace (round_trip p cn bd st sc t))).
Proof.
  intro Hmm.
  apply (round_trip_inv p cn bd
           (fun _ _ _ _ tr => Forall (fun td => p_min p <= snd td <= p_max p /\ 0 <= snd td) (pauses tr))
           (fun o => Forall (fun td => p_min p <= snd td <= p_max p /\ 0 <= snd td) (pauses (o_trace o))));
    [|constructor].
  intros st0 sc0 t0 a tr HI Ha.
  pose proof (rt_step_spec p cn bd st0 sc0 t0 a tr) as H.
  inversion H; subst; cbn [o_trace];
    rewrite ?pauses_app; cbn [pauses]; rewrite ?app_nil_r; try exact HI.
  - apply Forall_app. split; [exact HI|]. constructor; [|constructor]. cbn [snd].
    split; [eapply generic_retry_bounds; eauto|assumption].
  - apply Forall_app. split; [exact HI|]. constructor; [|constructor]. cbn [snd].
    split; [eapply generic_retry_bounds; eauto|assumption].
Qed.

Lemma round_trip_no_panic p cn bd st sc t :
  (forall a o, p_backoff p a o <> BPanic) -> o_res (round_trip p cn bd st sc t) <> RPanic.
Proof.
  intro Hb.
  apply (round_trip_inv p cn bd (fun _ _ _ _ _ => True) (fun o => o_res o <> RPanic)); [|exact I].
  intros st0 sc0 t0 a tr _ _.
  pose proof (rt_step_spec p cn bd st0 sc0 t0 a tr) as H.
  inversion H; subst; cbn [o_res]; try discriminate; try exact I.
  - destruct o; discriminate.
  - destruct o; discriminate.
  - exfalso. eapply generic_retry_no_panic; eauto.
Qed.

(* a non-retryable answer is returned at once *)
Lemma round_trip_nonretryable p cn bd st sc t bh sc' got st1 o t1 :
  next_beh sc = (bh, sc') -> serve cn bd st bh t = (got, st1, o, t1) ->
  p_pred p o <> PRetry ->
  exists r, (r = result_of_outcome o \/ r = fail_result o) /\
            round_trip p cn bd st sc t = mkOut r st1 sc' t1 [EAttempt t got].
Proof.
  intros Hn Hs Hp. unfold round_trip, rt_fuel. cbn [rt_loop]. unfold rt_step. rewrite Hn, Hs.
  destruct (generic_retry_nonretryable p 0 o Hp) as [-> | ->];
    eexists; (split; [|reflexivity]); auto.
Qed.

(* ------------------------------------------------------------------ *)
(* Bodies                                                               *)

Definition received (bd : body) (bh : beh) : str := fst (take_body (b_read bh) (bdata bd)).
Definition wf_body (bd : body) : Prop := bk bd = KNone -> bdata bd = [].

Lemma received_prefix bd bh : exists rest, bdata bd = received bd bh ++ rest.
Proof.
  unfold received, take_body. destruct (b_read bh) as [k|]; cbn [fst].
  - exists (skipn k (bdata bd)). symmetry. apply firstn_skipn.
  - exists []. now rewrite app_nil_r.
Qed.

Lemma received_all bd bh : b_read bh = None -> received bd bh = bdata bd.
Proof. unfold received, take_body. now intros ->. Qed.

Lemma serve_got cn bd st bh t got st1 o t1 :
  serve cn bd st bh t = (got, st1, o, t1) ->
  got = fst (take_body (b_read bh) (s_rest st)) /\
  s_rest st1 = snd (take_body (b_read bh) (s_rest st)) /\ s_calls st1 = s_calls st.
Proof.
  unfold serve. destruct (take_body (b_read bh) (s_rest st)) as [g r].
  destruct (cancelled_before cn (t + b_lat bh)); intro E; injection E as <- <- _ _; auto.
Qed.

Lemma take_body_nil r : take_body r [] = ([], []).
Proof. destruct r as [k|]; [|reflexivity]. unfold take_body. now rewrite firstn_nil, skipn_nil. Qed.

Lemma rewind_fresh bd st st2 :
  wf_body bd -> (bk bd = KNone -> s_rest st = []) -> rewind bd st = RwOk st2 -> s_rest st2 = bdata bd.
Proof.
  unfold rewind, wf_body. intros Hwf Hn. destruct (bk bd) as [| | |k].
  - intro E. injection E as <-. rewrite Hn, Hwf; reflexivity.
  - intro E. now injection E as <-.
  - discriminate.
  - destruct (s_calls st <? k)%nat; [|discriminate]. intro E. now injection E as <-.
Qed.

Lemma next_beh_skipn k : forall sc,
  next_beh (skipn k sc) = (nth k sc default_beh, skipn (S k) sc).
Proof.
  induction k as [|k IH]; intros [|x sc]; try reflexivity.
  cbn [skipn nth]. rewrite IH. reflexivity.
Qed.

Definition bodies_ok (bd : body) (sc : list beh) (base : nat) (l : list (Z * str)) : Prop :=
  forall i t got, nth_error l i = Some (t, got) -> got = received bd (nth (base + i) sc default_beh).

Lemma bodies_ok_snoc bd sc base l t got :
  bodies_ok bd sc base l -> got = received bd (nth (base + length l) sc default_beh) ->
  bodies_ok bd sc base (l ++ [(t, got)]).
Proof.
  intros H Hg i t' got' Hi.
  destruct (Nat.lt_ge_cases i (length l)) as [Hlt|Hge].
  - rewrite nth_error_app1 in Hi by exact Hlt. eauto.
  - rewrite nth_error_app2 in Hi by exact Hge.
    destruct (i - length l)%nat as [|m] eqn:Em.
    + cbn in Hi. injection Hi as <- <-. replace i with (length l) by lia. exact Hg.
    + cbn in Hi. destruct m; discriminate.
Qed.

(* what the registry receives on every attempt of one send, and where the script
   and the request body are afterwards.  [base] = requests the server saw before *)
Lemma round_trip_bodies_gen p cn bd sc0 base st t :
  wf_body bd -> s_rest st = bdata bd ->
  let out := round_trip p cn bd st (skipn base sc0) t in
  bodies_ok bd sc0 base (attempts (o_trace out)) /\
  o_script out = skipn (base + length (attempts (o_trace out))) sc0 /\
  (bk bd = KNone -> s_rest (o_st out) = []).
Proof.
  intros Hwf Hfresh.
  apply (round_trip_inv p cn bd
     (fun st' sc' _ _ tr => s_rest st' = bdata bd /\ sc' = skipn (base + length (attempts tr)) sc0 /\
                            bodies_ok bd sc0 base (attempts tr))
     (fun o => bodies_ok bd sc0 base (attempts (o_trace o)) /\
               o_script o = skipn (base + length (attempts (o_trace o))) sc0 /\
               (bk bd = KNone -> s_rest (o_st o) = []))).
  2:{ cbn [attempts length]. rewrite Nat.add_0_r. repeat split; auto.
      intros i t' got Hi. destruct i; discriminate. }
  intros st0 sc1 t0 a tr (Hr & Hsc & Hb) Ha.
  pose proof (rt_step_spec p cn bd st0 sc1 t0 a tr) as H.
  assert (Hstep : forall bh sc' got st1 o t1,
             next_beh sc1 = (bh, sc') -> serve cn bd st0 bh t0 = (got, st1, o, t1) ->
             bodies_ok bd sc0 base (attempts tr ++ [(t0, got)]) /\
             sc' = skipn (base + length (attempts tr ++ [(t0, got)])) sc0 /\
             (bk bd = KNone -> s_rest st1 = [])).
  { intros bh sc' got st1 o t1 Hn Hs.
    subst sc1. rewrite next_beh_skipn in Hn. injection Hn as <- <-.
    apply serve_got in Hs. destruct Hs as (Hg & Hrest & _). rewrite Hr in Hg, Hrest.
    split; [|split].
    - apply bodies_ok_snoc; [exact Hb|exact Hg].
    - rewrite app_length. cbn [length].
      replace (base + (length (attempts tr) + 1))%nat with (S (base + length (attempts tr))) by lia.
      reflexivity.
    - intro Hk. rewrite Hrest, (Hwf Hk), take_body_nil. reflexivity. }
  inversion H; subst; cbn [o_trace o_script o_st];
    rewrite ?attempts_app; cbn [attempts]; rewrite ?app_nil_r;
    match goal with Hn : next_beh _ = _, Hs : serve _ _ _ _ _ = _ |- _ =>
      destruct (Hstep _ _ _ _ _ _ Hn Hs) as (B1 & B2 & B3) end.
  - auto.
  - auto.
  - auto.
  - repeat split; auto. intro Hk.
    match goal with Hrw : rewind _ _ = RwOk _ |- _ =>
      unfold rewind in Hrw; rewrite Hk in Hrw; injection Hrw as <- end. auto.
  - repeat split; auto.
    match goal with Hrw : rewind _ _ = RwOk _ |- _ =>
      eapply rewind_fresh; [exact Hwf| |exact Hrw] end. exact B3.
Qed.

Lemma round_trip_bodies p cn bd sc st t :
  wf_body bd -> s_rest st = bdata bd ->
  forall i t' got, nth_error (attempts (o_trace (round_trip p cn bd st sc t))) i = Some (t', got) ->
    got = received bd (nth i sc default_beh).
Proof.
  intros Hwf Hf.
  destruct (round_trip_bodies_gen p cn bd sc 0%nat st t Hwf Hf) as (H & _).
  exact H.
Qed.

(* a body that cannot be replayed is sent once; the call ends with that answer
   (or the policy's panic), never with a second attempt *)
Lemma round_trip_not_replayable p cn bd st sc t :
  (forall st', rewind bd st' = RwNoGetBody \/ rewind bd st' = RwGetBodyErr) ->
  exists bh sc' got st1 o t1,
    next_beh sc = (bh, sc') /\ serve cn bd st bh t = (got, st1, o, t1) /\
    o_trace (round_trip p cn bd st sc t) = [EAttempt t got] /\
    (o_res (round_trip p cn bd st sc t) = result_of_outcome o \/
     o_res (round_trip p cn bd st sc t) = fail_result o \/
     o_res (round_trip p cn bd st sc t) = RPanic).
Proof.
  intro Hrw. unfold round_trip, rt_fuel. cbn [rt_loop].
  pose proof (rt_step_spec p cn bd st sc t 0 []) as H.
  inversion H; subst; cbn [o_trace o_res app].
  - exists bh, sc', got, st1, o, t1. auto.
  - exists bh, sc', got, st1, o, t1. auto 6.
  - exists bh, sc', got, st1, o, t1. auto 6.
  - match goal with Hr : rewind _ _ = RwOk _ |- _ => destruct (Hrw st1) as [E|E]; rewrite E in Hr; discriminate end.
  - match goal with Hr : rewind _ _ = RwOk _ |- _ => destruct (Hrw st1) as [E|E]; rewrite E in Hr; discriminate end.
Qed.

Lemma oneshot_not_replayable bd : bk bd = KOneShot ->
  forall st', rewind bd st' = RwNoGetBody \/ rewind bd st' = RwGetBodyErr.
Proof. intros H st'. left. unfold rewind. now rewrite H. Qed.

(* ------------------------------------------------------------------ *)
(* Cancellation                                                         *)

Lemma serve_time_cancel tc dl bd st bh t got st1 o t1 :
  t <= tc -> serve (Some (tc, dl)) bd st bh t = (got, st1, o, t1) ->
  t1 <= tc /\ (t1 = tc -> t + b_lat bh <= tc \/ o = ctx_outcome dl).
Proof.
  unfold serve. intros Ht. destruct (take_body (b_read bh) (s_rest st)) as [g r].
  cbn [cancelled_before cancel_outcome cancel_clock].
  destruct (tc <? t + b_lat bh) eqn:E; intro H; injection H as _ _ <- <-.
  - split; [lia|auto].
  - split; [lia|intro; left; lia].
Qed.

Definition cancel_post (tc : Z) (o : rt_out) : Prop :=
  Forall (fun a => fst a <= tc) (attempts (o_trace o)) /\
  o_time o <= tc /\
  Forall (fun pd => fst pd <= tc /\
                    (fst pd + snd pd <= tc \/ (o_res o = RCtx /\ o_time o = tc)))
         (pauses (o_trace o)).

(* no attempt starts after the context ended; the call is over by then; and a
   context that ends during a pause ends the call with the context's error *)
Lemma round_trip_cancel p bd st sc t tc dl :
  t <= tc -> cancel_post tc (round_trip p (Some (tc, dl)) bd st sc t).
Proof.
  intro Ht.
  apply (round_trip_inv p (Some (tc, dl)) bd
     (fun _ _ t' _ tr => t' <= tc /\ Forall (fun a => fst a <= tc) (attempts tr) /\
                         Forall (fun pd => fst pd <= tc /\ fst pd + snd pd <= tc) (pauses tr))
     (cancel_post tc)).
  2:{ repeat split; auto; constructor. }
  intros st0 sc0 t0 a tr (Ht0 & Ha & Hp) _.
  pose proof (rt_step_spec p (Some (tc, dl)) bd st0 sc0 t0 a tr) as H.
  assert (Hweak : Forall (fun pd => fst pd <= tc /\ (fst pd + snd pd <= tc \/ (RCtx = RCtx /\ tc = tc)))
                         (pauses tr)).
  { eapply Forall_impl; [|exact Hp]. intros pd (A & B). auto. }
  unfold cancel_post.
  inversion H; subst; cbn [o_trace o_time o_res];
    rewrite ?attempts_app, ?pauses_app; cbn [attempts pauses]; rewrite ?app_nil_r;
    match goal with Hs : serve _ _ _ _ _ = _ |- _ =>
      destruct (serve_time_cancel _ _ _ _ _ _ _ _ _ _ Ht0 Hs) as (T1 & _) end.
  - repeat split; auto.
    + apply Forall_app. split; [exact Ha|]. constructor; [exact Ht0|constructor].
    + eapply Forall_impl; [|exact Hp]. intros pd (A & B). auto.
  - repeat split; auto.
    + apply Forall_app. split; [exact Ha|]. constructor; [exact Ht0|constructor].
    + eapply Forall_impl; [|exact Hp]. intros pd (A & B). auto.
  - repeat split; auto.
    + apply Forall_app. split; [exact Ha|]. constructor; [exact Ht0|constructor].
    + eapply Forall_impl; [|exact Hp]. intros pd (A & B). auto.
  - cbn [cancel_clock]. rewrite Z.max_r by exact T1.
    repeat split; auto; try lia.
    + apply Forall_app. split; [exact Ha|]. constructor; [exact Ht0|constructor].
    + apply Forall_app. split.
      * eapply Forall_impl; [|exact Hp]. intros pd (A & B). auto.
      * constructor; [|constructor]. cbn [fst snd]. auto.
  - match goal with Hc : cancelled_before _ _ = false |- _ => cbn [cancelled_before] in Hc end.
    repeat split; try lia.
    + apply Forall_app. split; [exact Ha|]. constructor; [exact Ht0|constructor].
    + apply Forall_app. split; [exact Hp|]. constructor; [|constructor]. cbn [fst snd]. lia.
Qed.

(* without a cancellation no call ends with the context's error unless the base
   transport itself reported one *)

(* ------------------------------------------------------------------ *)
(* auth.Client.Do on top                                                *)

Lemma auth_do_at_attempts warm p cn bd sc t0 :
  let a := auth_do_at warm p cn bd sc t0 in
  1 <= Z.of_nat (length (attempts (a_first a))) <= maxr p + 1 /\
  Z.of_nat (length (attempts (a_second a))) <= maxr p + 1 /\
  Z.of_nat (length (attempts (a_third a))) <= maxr p + 1.
Proof.
  unfold auth_do_at.
  pose proof (round_trip_attempts p cn bd (init_state bd) sc t0) as H1. cbv zeta in H1.
  set (o1 := round_trip p cn bd (init_state bd) sc t0) in *.
  assert (Hm : 0 <= maxr p + 1) by (unfold maxr; lia).
  destruct (challenged (o_res o1));
    [|cbn [a_first a_second a_third attempts length]; repeat split; try apply H1; exact Hm].
  destruct (rewind bd (o_st o1)) as [st2| |]; cbn [a_first a_second a_third attempts length];
    try (repeat split; try apply H1; exact Hm).
  pose proof (round_trip_attempts p cn bd st2 (o_script o1) (o_time o1)) as H2. cbv zeta in H2.
  set (o2 := round_trip p cn bd st2 (o_script o1) (o_time o1)) in *.
  destruct (warm && bearer_challenged (o_res o1) && unauthorized (o_res o2));
    [|cbn [a_first a_second a_third attempts length]; repeat split; try apply H1; try apply H2; exact Hm].
  destruct (rewind bd (o_st o2)) as [st3| |]; cbn [a_first a_second a_third attempts length];
    try (repeat split; try apply H1; try apply H2; exact Hm).
  pose proof (round_trip_attempts p cn bd st3 (o_script o2) (o_time o2)) as H3. cbv zeta in H3.
  repeat split; try apply H1; try apply H2; apply H3.
Qed.

Lemma auth_do_attempts warm p cn bd sc :
  let a := auth_do warm p cn bd sc in
  1 <= Z.of_nat (length (attempts (a_first a))) <= maxr p + 1 /\
  Z.of_nat (length (attempts (a_second a))) <= maxr p + 1 /\
  Z.of_nat (length (attempts (a_third a))) <= maxr p + 1.
Proof. exact (auth_do_at_attempts warm p cn bd sc 0). Qed.

Lemma bodies_ok_app bd sc base l1 l2 :
  bodies_ok bd sc base l1 -> bodies_ok bd sc (base + length l1) l2 -> bodies_ok bd sc base (l1 ++ l2).
Proof.
  intros B1 B2 i t got Hi.
  destruct (Nat.lt_ge_cases i (length l1)) as [Hlt|Hge].
  - rewrite nth_error_app1 in Hi by exact Hlt. exact (B1 i t got Hi).
  - rewrite nth_error_app2 in Hi by exact Hge. apply B2 in Hi.
    replace (base + i)%nat with (base + length l1 + (i - length l1))%nat by lia. exact Hi.
Qed.

(* every request of every send carries the body the script position asks for *)
Lemma auth_do_bodies warm p cn bd sc :
  wf_body bd ->
  let a := auth_do warm p cn bd sc in
  bodies_ok bd sc 0 (attempts (a_first a) ++ attempts (a_second a) ++ attempts (a_third a)).
Proof.
  intro Hwf. unfold auth_do, auth_do_at.
  destruct (round_trip_bodies_gen p cn bd sc 0%nat (init_state bd) 0 Hwf eq_refl) as (B1 & S1 & N1).
  cbn [skipn] in *.
  set (o1 := round_trip p cn bd (init_state bd) sc 0) in *.
  destruct (challenged (o_res o1)); [|cbn [a_first a_second a_third attempts]; rewrite !app_nil_r; exact B1].
  destruct (rewind bd (o_st o1)) as [st2| |] eqn:Hrw; cbn [a_first a_second a_third attempts];
    try (rewrite !app_nil_r; exact B1).
  assert (Hf : s_rest st2 = bdata bd) by (eapply rewind_fresh; eauto).
  cbn [Nat.add] in S1. rewrite S1.
  destruct (round_trip_bodies_gen p cn bd sc (length (attempts (o_trace o1))) st2 (o_time o1) Hwf Hf)
    as (B2 & S2 & N2).
  set (o2 := round_trip p cn bd st2 (skipn (length (attempts (o_trace o1))) sc) (o_time o1)) in *.
  destruct (warm && bearer_challenged (o_res o1) && unauthorized (o_res o2)).
  2:{ cbn [a_first a_second a_third attempts]. rewrite app_nil_r. apply bodies_ok_app; assumption. }
  destruct (rewind bd (o_st o2)) as [st3| |] eqn:Hrw2; cbn [a_first a_second a_third attempts];
    try (rewrite app_nil_r; apply bodies_ok_app; assumption).
  assert (Hf3 : s_rest st3 = bdata bd) by (eapply rewind_fresh; eauto).
  rewrite S2.
  destruct (round_trip_bodies_gen p cn bd sc
              (length (attempts (o_trace o1)) + length (attempts (o_trace o2))) st3 (o_time o2) Hwf Hf3)
    as (B3 & _ & _).
  apply bodies_ok_app; [exact B1|]. apply bodies_ok_app; [exact B2|exact B3].
Qed.

(* a body that cannot be replayed reaches the registry once; a challenge then
   ends the call with the rewind error instead of a truncated re-send *)
Lemma auth_do_not_replayable warm p cn bd sc :
  (forall st', rewind bd st' = RwNoGetBody \/ rewind bd st' = RwGetBodyErr) ->
  let a := auth_do warm p cn bd sc in
  length (attempts (a_first a)) = 1%nat /\ a_second a = [] /\ a_third a = [] /\
  (a_res a = RNotRewindable \/ a_res a = RGetBodyFailed \/
   a_res a = o_res (round_trip p cn bd (init_state bd) sc 0)) /\
  (challenged (o_res (round_trip p cn bd (init_state bd) sc 0)) = true ->
   a_res a = RNotRewindable \/ a_res a = RGetBodyFailed).
Proof.
  intro Hrw. unfold auth_do, auth_do_at.
  destruct (round_trip_not_replayable p cn bd (init_state bd) sc 0 Hrw)
    as (bh & sc' & got & st1 & o & t1 & _ & _ & Htr & _).
  set (o1 := round_trip p cn bd (init_state bd) sc 0) in *.
  destruct (challenged (o_res o1)).
  - destruct (Hrw (o_st o1)) as [E|E]; rewrite E; cbn [a_first a_second a_third a_res rewind_error];
      rewrite Htr; cbn [attempts length]; repeat split; auto.
  - cbn [a_first a_second a_third a_res]. rewrite Htr. cbn [attempts length]. repeat split; auto.
    discriminate.
Qed.

Lemma manifest_push_replayable bd :
  bk (manifest_push_body true bd) <> KOneShot /\ bdata (manifest_push_body true bd) = bdata bd.
Proof. unfold manifest_push_body. destruct (bk bd) eqn:E; cbn; rewrite ?E; split; congruence. Qed.

Lemma round_trip_no_panic_no_fuel p cn bd st sc t :
  (forall a o, p_backoff p a o <> BPanic) ->
  o_res (round_trip p cn bd st sc t) <> RPanic /\ o_res (round_trip p cn bd st sc t) <> RFuel.
Proof.
  intro H. split; [exact (round_trip_no_panic p cn bd st sc t H)
                  | exact (round_trip_no_fuel p cn bd st sc t)].
Qed.

Lemma default_policy_never_panics oob rnd a o : p_backoff (default_policy oob rnd) a o <> BPanic.
Proof. exact (exp_backoff_never_panics oob rnd default_eparams a o). Qed.

(* ------------------------------------------------------------------ *)
(* The acceptor used by the correspondence run admits every value the model of
   ExponentialBackoff can produce (so an observed pause it rejects is outside the
   model), for a random source within its range and a float conversion that is
   not positive below -2^63. *)

Lemma tol_a_pos e attempt : 2 <= tol_a e attempt.
Proof. unfold tol_a. lia. Qed.
Lemma tol_n_pos e attempt : 2 <= tol_n e attempt.
Proof. unfold tol_n. lia. Qed.

Lemma f2i_in_range oob q : - two63 <= qtrunc q < two63 -> f2i oob q = qtrunc q.
Proof.
  intro H. unfold f2i. cbv zeta.
  destruct ((- two63 <=? qtrunc q) && (qtrunc q <? two63)) eqn:E; [reflexivity|].
  apply andb_false_iff in E. destruct E as [E|E]; [apply Z.leb_gt in E|apply Z.ltb_ge in E]; lia.
Qed.

Lemma f2i_nonpos oob q :
  (forall q', qtrunc q' < - two63 -> oob q' <= 0) -> qtrunc q <= 0 -> f2i oob q <= 0.
Proof.
  intros Hoob H. unfold f2i. cbv zeta.
  destruct ((- two63 <=? qtrunc q) && (qtrunc q <? two63)) eqn:E; [exact H|].
  apply Hoob. apply andb_false_iff in E.
  destruct E as [E|E]; [apply Z.leb_gt in E|apply Z.ltb_ge in E]; unfold two63 in *; lia.
Qed.

Lemma wrap64_id z : - two63 <= z < two63 -> wrap64 z = z.
Proof. intro H. unfold wrap64, two64, two63 in *. rewrite Z.mod_small by lia. lia. Qed.

Lemma exp_class_sound guarded oob rnd e attempt o :
  (forall n, 0 < n -> 0 <= rnd n < n) ->
  (forall q, qtrunc q < - two63 -> oob q <= 0) ->
  match exp_class guarded e attempt o with
  | ECPanic => exp_backoff_gen guarded oob rnd e attempt o = BPanic
  | ECRange lo hi => exists d, exp_backoff_gen guarded oob rnd e attempt o = BRet d /\ lo <= d <= hi
  | ECUnjudged => True
  end.
Proof.
  intros Hrnd Hoob. unfold exp_class, exp_backoff_gen. cbv zeta.
  destruct (retry_after_secs o >? 0); [eexists; split; [reflexivity|lia]|].
  pose proof (tol_a_pos e attempt) as Hta. pose proof (tol_n_pos e attempt) as Htn.
  set (a := qtrunc (exp_a e attempt)) in *. set (n := qtrunc (exp_n e attempt)) in *.
  set (ta := tol_a e attempt) in *. set (tn := tol_n e attempt) in *.
  destruct (qnear (exp_n e attempt) 1); [exact I|].
  destruct (two63 - tn <=? n) eqn:E1; [exact I|]. apply Z.leb_gt in E1.
  destruct (n <=? 0) eqn:E2.
  - apply Z.leb_le in E2.
    assert (Hn : f2i oob (exp_n e attempt) <= 0) by (apply f2i_nonpos; assumption).
    destruct (f2i oob (exp_n e attempt) >? 0) eqn:E3; [lia|].
    destruct guarded; [|reflexivity].
    destruct ((- two63 + ta <? a) && (a + ta <? two63)) eqn:E4; [|exact I].
    apply andb_true_iff in E4. destruct E4 as [E4 E5]. apply Z.ltb_lt in E4, E5.
    rewrite f2i_in_range by (fold a; lia). fold a. eexists; split; [reflexivity|lia].
  - apply Z.leb_gt in E2.
    destruct ((- two63 + ta <? a) && (a + n + ta + tn <? two63)) eqn:E4; [|exact I].
    apply andb_true_iff in E4. destruct E4 as [E4 E5]. apply Z.ltb_lt in E4, E5.
    rewrite (f2i_in_range oob (exp_n e attempt)) by (fold n; unfold two63 in *; lia).
    rewrite (f2i_in_range oob (exp_a e attempt)) by (fold a; lia). fold a n.
    destruct (n >? 0) eqn:E3; [|lia].
    specialize (Hrnd n E2). rewrite wrap64_id by lia.
    eexists; split; [reflexivity|lia].
Qed.

Lemma clamp_mono lo hi x y : x <= y -> clamp lo hi x <= clamp lo hi y.
Proof.
  intro H. unfold clamp.
  destruct (x <? lo) eqn:A; destruct (y <? lo) eqn:B;
    repeat match goal with |- context [?u >? ?v] => destruct (u >? v) eqn:? end; lia.
Qed.

(* how the harness projects a decision: a negative duration reads as "no retry" *)
Definition project_decision (d : decision) : obs_decision :=
  match d with
  | DStop => ODStop | DFail => ODFail | DPanic => ODPanic
  | DWait x => if x <? 0 then ODStop else ODWait x
  end.

Lemma accept_decision_complete guarded oob rnd e maxretry minw maxw attempt o :
  (forall n, 0 < n -> 0 <= rnd n < n) ->
  (forall q, qtrunc q < - two63 -> oob q <= 0) ->
  accept_decision guarded maxretry minw maxw e attempt o
    (project_decision
       (generic_retry (mkPolicy maxretry minw maxw default_predicate (exp_backoff_gen guarded oob rnd e))
                      attempt o)) <> VNo.
Proof.
  intros Hrnd Hoob. unfold accept_decision, generic_retry. cbn [p_max_retry p_pred p_backoff p_min p_max].
  destruct (attempt >=? maxretry); [discriminate|].
  destruct (default_predicate o); try discriminate.
  pose proof (exp_class_sound guarded oob rnd e attempt o Hrnd Hoob) as Hs.
  destruct (exp_class guarded e attempt o) as [|lo hi|]; [|destruct Hs as (d & -> & Hd)|discriminate].
  - rewrite Hs. discriminate.
  - cbn [project_decision].
    pose proof (clamp_mono minw maxw lo d (proj1 Hd)) as M1.
    pose proof (clamp_mono minw maxw d hi (proj2 Hd)) as M2.
    destruct (clamp minw maxw d <? 0) eqn:E.
    + apply Z.ltb_lt in E. destruct (clamp minw maxw lo <? 0) eqn:E2; [discriminate|].
      apply Z.ltb_ge in E2. lia.
    + destruct ((clamp minw maxw lo <=? clamp minw maxw d) && (clamp minw maxw d <=? clamp minw maxw hi)) eqn:E2;
        [discriminate|].
      apply andb_false_iff in E2. destruct E2 as [E2|E2]; apply Z.leb_gt in E2; lia.
Qed.

(* cancellation through the auth client: no request of any send starts after the
   context ended, and the call is over by then *)
Lemma auth_do_cancel warm p bd sc tc dl :
  0 <= tc ->
  let a := auth_do warm p (Some (tc, dl)) bd sc in
  Forall (fun x => fst x <= tc) (attempts (a_first a) ++ attempts (a_second a) ++ attempts (a_third a)) /\
  a_time a <= tc.
Proof.
  intro Htc. unfold auth_do, auth_do_at.
  destruct (round_trip_cancel p bd (init_state bd) sc 0 tc dl Htc) as (A1 & T1 & _).
  set (o1 := round_trip p (Some (tc, dl)) bd (init_state bd) sc 0) in *.
  destruct (challenged (o_res o1));
    [|cbn [a_first a_second a_third a_time attempts]; rewrite !app_nil_r; split; assumption].
  destruct (rewind bd (o_st o1)) as [st2| |]; cbn [a_first a_second a_third a_time attempts];
    try (rewrite !app_nil_r; split; assumption).
  destruct (round_trip_cancel p bd st2 (o_script o1) (o_time o1) tc dl T1) as (A2 & T2 & _).
  set (o2 := round_trip p (Some (tc, dl)) bd st2 (o_script o1) (o_time o1)) in *.
  destruct (warm && bearer_challenged (o_res o1) && unauthorized (o_res o2)).
  2:{ cbn [a_first a_second a_third a_time attempts]. rewrite app_nil_r.
      split; [apply Forall_app; split; assumption|assumption]. }
  destruct (rewind bd (o_st o2)) as [st3| |]; cbn [a_first a_second a_third a_time attempts];
    try (rewrite app_nil_r; split; [apply Forall_app; split; assumption|assumption]).
  destruct (round_trip_cancel p bd st3 (o_script o2) (o_time o2) tc dl T2) as (A3 & T3 & _).
  split; [|assumption].
  apply Forall_app; split; [assumption|]. apply Forall_app; split; assumption.
Qed.

(* ------------------------------------------------------------------ *)
(* auth.Client.Do started anywhere in a script, and blobStore.Push on top *)

Lemma auth_do_at_bodies_gen warm p cn bd sc0 base t0 :
  wf_body bd ->
  let a := auth_do_at warm p cn bd (skipn base sc0) t0 in
  bodies_ok bd sc0 base (auth_attempts a).
Proof.
  intro Hwf. unfold auth_do_at, auth_attempts.
  destruct (round_trip_bodies_gen p cn bd sc0 base (init_state bd) t0 Hwf eq_refl) as (B1 & S1 & N1).
  set (o1 := round_trip p cn bd (init_state bd) (skipn base sc0) t0) in *.
  destruct (challenged (o_res o1)); [|cbn [a_first a_second a_third attempts]; rewrite !app_nil_r; exact B1].
  destruct (rewind bd (o_st o1)) as [st2| |] eqn:Hrw; cbn [a_first a_second a_third attempts];
    try (rewrite !app_nil_r; exact B1).
  assert (Hf : s_rest st2 = bdata bd) by (eapply rewind_fresh; eauto).
  rewrite S1.
  destruct (round_trip_bodies_gen p cn bd sc0 (base + length (attempts (o_trace o1))) st2 (o_time o1) Hwf Hf)
    as (B2 & S2 & N2).
  set (o2 := round_trip p cn bd st2 (skipn (base + length (attempts (o_trace o1))) sc0) (o_time o1)) in *.
  destruct (warm && bearer_challenged (o_res o1) && unauthorized (o_res o2)).
  2:{ cbn [a_first a_second a_third attempts]. rewrite app_nil_r. apply bodies_ok_app; assumption. }
  destruct (rewind bd (o_st o2)) as [st3| |] eqn:Hrw2; cbn [a_first a_second a_third attempts];
    try (rewrite app_nil_r; apply bodies_ok_app; assumption).
  assert (Hf3 : s_rest st3 = bdata bd) by (eapply rewind_fresh; eauto).
  rewrite S2.
  destruct (round_trip_bodies_gen p cn bd sc0
              (base + length (attempts (o_trace o1)) + length (attempts (o_trace o2))) st3 (o_time o2) Hwf Hf3)
    as (B3 & _ & _).
  apply bodies_ok_app; [exact B1|]. apply bodies_ok_app; [exact B2|exact B3].
Qed.

Lemma plain_do_at_bodies_gen p cn bd sc0 base t0 :
  wf_body bd ->
  bodies_ok bd sc0 base (auth_attempts (plain_do_at p cn bd (skipn base sc0) t0)).
Proof.
  intro Hwf. unfold plain_do_at, auth_attempts. cbn [a_first a_second a_third attempts].
  rewrite !app_nil_r.
  destruct (round_trip_bodies_gen p cn bd sc0 base (init_state bd) t0 Hwf eq_refl) as (B1 & _ & _).
  exact B1.
Qed.

(* blob push: every request of the PUT -- first attempt, retries, re-send after a challenge --
   carries the blob as far as the registry reads it; the script position of the PUT's
   requests starts after the POST's *)
Lemma blob_push_bodies authc p cn bd sc :
  wf_body bd ->
  match u_put (blob_push authc p cn bd sc) with
  | Some put => bodies_ok bd sc (length (auth_attempts (u_post (blob_push authc p cn bd sc)))) (auth_attempts put)
  | None => True
  end.
Proof.
  intro Hwf. unfold blob_push.
  set (post := if authc then auth_do_at false p cn no_body sc 0 else plain_do_at p cn no_body sc 0).
  destruct (accepted (a_res post)); cbn [u_put u_post]; [|exact I].
  destruct (authc && negb match attempts (a_second post) with [] => false | _ :: _ => true end).
  - apply auth_do_at_bodies_gen. exact Hwf.
  - apply plain_do_at_bodies_gen. exact Hwf.
Qed.

(* a one-shot blob is sent once by the PUT; nothing truncated is ever re-sent *)
Lemma blob_push_not_replayable authc p cn bd sc :
  (forall st', rewind bd st' = RwNoGetBody \/ rewind bd st' = RwGetBodyErr) ->
  match u_put (blob_push authc p cn bd sc) with
  | Some put => length (auth_attempts put) = 1%nat
  | None => True
  end.
Proof.
  intro Hrw. unfold blob_push.
  set (post := if authc then auth_do_at false p cn no_body sc 0 else plain_do_at p cn no_body sc 0).
  destruct (accepted (a_res post)); cbn [u_put]; [|exact I].
  set (sc' := skipn (length (auth_attempts post)) sc).
  destruct (round_trip_not_replayable p cn bd (init_state bd) sc' (a_time post) Hrw)
    as (bh & sc'' & got & st1 & o & t1 & _ & _ & Htr & _).
  destruct (authc && negb match attempts (a_second post) with [] => false | _ :: _ => true end).
  - unfold auth_do_at, auth_attempts.
    set (o1 := round_trip p cn bd (init_state bd) sc' (a_time post)) in *.
    destruct (challenged (o_res o1)).
    + destruct (Hrw (o_st o1)) as [E|E]; rewrite E; cbn [a_first a_second a_third attempts];
        rewrite Htr; reflexivity.
    + cbn [a_first a_second a_third attempts]. rewrite Htr. reflexivity.
  - unfold plain_do_at, auth_attempts. cbn [a_first a_second a_third attempts]. rewrite Htr. reflexivity.
Qed.
