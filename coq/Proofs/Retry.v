From Coq Require Import QArith Qabs.
From Oras Require Import Base.Prelude Generated.GC17 Model.Retry.
Open Scope Z_scope.

Lemma clamp_bounds lo hi x : lo <= hi -> lo <= clamp lo hi x <= hi.
Proof.
  intro H. unfold clamp.
  destruct (x <? lo) eqn:E1.
  - destruct (lo >? hi) eqn:E2; lia.
  - destruct (x >? hi) eqn:E2; lia.
Qed.

(* each pause GenericPolicy.Retry computes lies within [MinWait, MaxWait],
   for any predicate, any backoff function, any attempt and any answer *)
Lemma generic_retry_bounds p attempt o d :
  p_min p <= p_max p -> generic_retry p attempt o = DWait d -> p_min p <= d <= p_max p.
Proof.
  intros H. unfold generic_retry.
  destruct (attempt >=? p_max_retry p); [discriminate|].
  destruct (p_pred p o); try discriminate.
  destruct (p_backoff p attempt o) as [x|]; [|discriminate].
  intro E. injection E as <-. now apply clamp_bounds.
Qed.
