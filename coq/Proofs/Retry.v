(* Lemmas about Model/Retry.v (C17). *)
From Coq Require Import QArith Qabs.
From Oras Require Import Base.Prelude Base.RetryTypes Generated.GC17 Model.Retry.
Open Scope Z_scope.

(* ------------------------------------------------------------------ *)
(* GenericPolicy.Retry                                                  *)

Lemma clamp_bounds lo hi x : lo <= hi -> lo <= clamp lo hi x <= hi.
Proof.
  intro H. unfold clamp.
  destruct (x <? lo) eqn:E1.
  - destruct (lo >? hi) eqn:E2; lia.
  - destruct (x >? hi) eqn:E2; lia.
Qed.

Lemma clamp_id lo hi x : lo <= x <= hi -> clamp lo hi x = x.
Proof.
  intro H. unfold clamp.
  destruct (x <? lo) eqn:E1; [lia|]. destruct (x >? hi) eqn:E2; lia.
Qed.

(* the generated decision function (translated from the source) in closed form *)
Lemma generic_retry_eq p attempt o :
  generic_retry p attempt o =
  if attempt >=? p_max_retry p then DStop
  else match p_pred p o with
       | PFail => DFail
       | PStop => DStop
       | PRetry => match p_backoff p attempt o with
                   | BPanic => DPanic
                   | BRet x => DWait (clamp (p_min p) (p_max p) x)
                   end
       end.
Proof. reflexivity. Qed.

(* each pause GenericPolicy.Retry computes lies within [MinWait, MaxWait],
   for any predicate, any backoff function, any attempt and any answer *)
Lemma generic_retry_bounds p attempt o d :
  p_min p <= p_max p -> generic_retry p attempt o = DWait d -> p_min p <= d <= p_max p.
Proof.
  intros H. unfold generic_retry, generated_retry.
  destruct (attempt >=? p_max_retry p); [discriminate|].
  destruct (p_pred p o); try discriminate.
  destruct (p_backoff p attempt o) as [x|]; [|discriminate].
  intro E. injection E as <-. now apply clamp_bounds.
Qed.

Lemma generic_retry_wait_lt p attempt o d :
  generic_retry p attempt o = DWait d -> attempt < p_max_retry p /\ p_pred p o = PRetry.
Proof.
  unfold generic_retry, generated_retry. destruct (attempt >=? p_max_retry p) eqn:E; [discriminate|].
  destruct (p_pred p o); try discriminate. intros _. split; [lia|reflexivity].
Qed.

Lemma generic_retry_nonretryable p attempt o :
  p_pred p o <> PRetry ->
  generic_retry p attempt o = DStop \/ generic_retry p attempt o = DFail.
Proof.
  unfold generic_retry, generated_retry. intro H. destruct (attempt >=? p_max_retry p); [now left|].
  destruct (p_pred p o); auto. congruence.
Qed.

Lemma generic_retry_exhausted p attempt o :
  p_max_retry p <= attempt -> generic_retry p attempt o = DStop.
Proof.
  unfold generic_retry, generated_retry. intro H. destruct (attempt >=? p_max_retry p) eqn:E; [reflexivity|lia].
Qed.

Lemma generic_retry_no_panic p attempt o :
  (forall a o', p_backoff p a o' <> BPanic) -> generic_retry p attempt o <> DPanic.
Proof.
  intro H. unfold generic_retry, generated_retry. destruct (attempt >=? p_max_retry p); [discriminate|].
  destruct (p_pred p o); try discriminate.
  destruct (p_backoff p attempt o) eqn:E; [discriminate|]. now apply H in E.
Qed.

(* ------------------------------------------------------------------ *)
(* DefaultPredicate (generated status branch) and DefaultPolicy constants *)

Lemma default_predicate_status_spec c :
  default_predicate_status c = true <-> (c = 408 \/ c = 429 \/ c = 0 \/ 500 <= c).
Proof.
  unfold default_predicate_status.
  rewrite !orb_true_iff, !Z.eqb_eq, Z.geb_le. tauto.
Qed.

(* the documented rule for transport errors: only timeouts (of net.Error values) are retried *)
Lemma default_predicate_error_spec ne to tmp :
  default_predicate_error ne to tmp = ne && to.
Proof. destruct ne, to, tmp; reflexivity. Qed.

Lemma default_predicate_error_outcome ne to tmp :
  default_predicate (OErr ne to tmp) = PRetry <-> (ne = true /\ to = true).
Proof.
  unfold default_predicate. cbn [err_flags]. rewrite default_predicate_error_spec.
  destruct ne, to; cbn; split; intro H; try discriminate; auto; destruct H; discriminate.
Qed.

Lemma default_policy_wellformed :
  0 < default_min_wait /\ default_min_wait <= default_max_wait /\ 0 <= default_max_retry.
Proof. unfold default_min_wait, default_max_wait, default_max_retry. lia. Qed.

(* ------------------------------------------------------------------ *)
(* ExponentialBackoff                                                   *)

Lemma exp_backoff_fixed_total oob rnd e attempt o :
  exists d, exp_backoff_fixed oob rnd e attempt o = BRet d.
Proof.
  unfold exp_backoff_fixed, exp_backoff_gen.
  destruct (generated_backoff_retry_after_ok (retry_after_secs o)); [eauto|].
  destruct (f2i oob (exp_n e attempt) >? 0); eauto.
Qed.

(* the source as it is now (the guard flag is re-read from policy.go) *)
Lemma exp_backoff_total oob rnd e attempt o :
  exists d, exp_backoff oob rnd e attempt o = BRet d.
Proof.
  unfold exp_backoff.
  replace exp_backoff_guarded with true by reflexivity.
  apply exp_backoff_fixed_total.
Qed.

Lemma exp_backoff_never_panics oob rnd e attempt o :
  exp_backoff oob rnd e attempt o <> BPanic.
Proof. destruct (exp_backoff_total oob rnd e attempt o) as [d ->]. discriminate. Qed.

(* the original source: a zero jitter panics, whatever the conversion of out-of-range
   floats and whatever the random source *)
Lemma exp_backoff_prefix_panics :
  forall oob rnd, exp_backoff_prefix oob rnd (mkE 250000000 (2 # 1) (0 # 1)) 0 (OErr true true true) = BPanic.
Proof. intros. reflexivity. Qed.

Lemma exp_backoff_prefix_refuted :
  exists e attempt o, forall oob rnd, exp_backoff_prefix oob rnd e attempt o = BPanic.
Proof.
  exists (mkE 250000000 (2 # 1) (0 # 1)), 0, (OErr true true true). exact exp_backoff_prefix_panics.
Qed.

(* Retry-After on 429: the backoff is exactly that many seconds *)
Lemma exp_backoff_retry_after guarded oob rnd e attempt h ch n :
  h <> [] -> parse_int64 h = n -> 0 < n -> n * 1000000000 < two63 ->
  exp_backoff_gen guarded oob rnd e attempt (OStatus 429 h ch) = BRet (n * 1000000000).
Proof.
  intros Hh Hp Hn Hr. unfold exp_backoff_gen. cbn [retry_after_secs].
  replace (429 =? generated_backoff_retry_after_status) with true by reflexivity.
  destruct h as [|c h']; [congruence|]. rewrite Hp.
  unfold generated_backoff_retry_after_ok, generated_backoff_retry_after_unit.
  destruct (n >? 0) eqn:E; [|lia]. f_equal.
  unfold wrap64. unfold two63 in *. unfold two64.
  rewrite Z.mod_small by lia. lia.
Qed.

(* ... and GenericPolicy.Retry honours it within [MinWait, MaxWait] *)
Lemma retry_after_honoured guarded oob rnd e maxretry minw maxw pred attempt h ch n :
  h <> [] -> parse_int64 h = n -> 0 < n -> n * 1000000000 < two63 ->
  attempt < maxretry -> pred (OStatus 429 h ch) = PRetry ->
  generic_retry (mkPolicy maxretry minw maxw pred (exp_backoff_gen guarded oob rnd e)) attempt (OStatus 429 h ch)
  = DWait (clamp minw maxw (n * 1000000000)).
Proof.
  intros Hh Hp Hn Hr Ha Hpred. unfold generic_retry, generated_retry. cbn [p_max_retry p_pred p_backoff p_min p_max].
  destruct (attempt >=? maxretry) eqn:E; [lia|]. rewrite Hpred.
  now rewrite (exp_backoff_retry_after guarded oob rnd e attempt h ch n Hh Hp Hn Hr).
Qed.

(* ------------------------------------------------------------------ *)
(* Trace projections                                                    *)

Lemma attempts_app tr1 tr2 : attempts (tr1 ++ tr2) = attempts tr1 ++ attempts tr2.
Proof. induction tr1 as [|[t g|t d] tr IH]; simpl; congruence. Qed.

Lemma pauses_app tr1 tr2 : pauses (tr1 ++ tr2) = pauses tr1 ++ pauses tr2.
Proof. induction tr1 as [|[t g|t d] tr IH]; simpl; congruence. Qed.

(* ------------------------------------------------------------------ *)
(* One iteration of the loop: every way it can end                      *)

Definition maxr (p : policy) : Z := Z.max 0 (p_max_retry p).

Inductive step_spec (p : policy) (cn : cancel) (bd : body) (st : bstate) (sc : list beh)
          (t attempt : Z) (tr : list event) : step_res -> Prop :=
| SSstop bh sc' got st1 o t1 :
    next_beh sc = (bh, sc') -> serve cn bd st bh t = (got, st1, o, t1) ->
    (generic_retry p attempt o = DStop \/
     (exists d, generic_retry p attempt o = DWait d /\
                (d < 0 \/ rt_rewind bd st1 = RwNoGetBody \/ rt_rewind bd st1 = RwGetBodyErr))) ->
    step_spec p cn bd st sc t attempt tr
              (Done (mkOut (result_of_outcome o) st1 sc' t1 (tr ++ [EAttempt t got])))
| SSfail bh sc' got st1 o t1 :
    next_beh sc = (bh, sc') -> serve cn bd st bh t = (got, st1, o, t1) ->
    generic_retry p attempt o = DFail ->
    step_spec p cn bd st sc t attempt tr
              (Done (mkOut (fail_result o) st1 sc' t1 (tr ++ [EAttempt t got])))
| SSpanic bh sc' got st1 o t1 :
    next_beh sc = (bh, sc') -> serve cn bd st bh t = (got, st1, o, t1) ->
    generic_retry p attempt o = DPanic ->
    step_spec p cn bd st sc t attempt tr
              (Done (mkOut RPanic st1 sc' t1 (tr ++ [EAttempt t got])))
| SScancel bh sc' got st1 o t1 d st2 :
    next_beh sc = (bh, sc') -> serve cn bd st bh t = (got, st1, o, t1) ->
    generic_retry p attempt o = DWait d -> 0 <= d -> rt_rewind bd st1 = RwOk st2 ->
    pause_cancelled cn (t1 + d) = true ->
    step_spec p cn bd st sc t attempt tr
              (Done (mkOut RCtx st2 sc' (cancel_clock cn t1) ((tr ++ [EAttempt t got]) ++ [EPause t1 d])))
| SSnext bh sc' got st1 o t1 d st2 :
    next_beh sc = (bh, sc') -> serve cn bd st bh t = (got, st1, o, t1) ->
    generic_retry p attempt o = DWait d -> 0 <= d -> rt_rewind bd st1 = RwOk st2 ->
    pause_cancelled cn (t1 + d) = false ->
    step_spec p cn bd st sc t attempt tr
              (Next st2 sc' (t1 + d) ((tr ++ [EAttempt t got]) ++ [EPause t1 d])).

Lemma rt_step_spec p cn bd st sc t attempt tr :
  step_spec p cn bd st sc t attempt tr (rt_step p cn bd st sc t attempt tr).
Proof.
  unfold rt_step.
  destruct (next_beh sc) as [bh sc'] eqn:Hn.
  destruct (serve cn bd st bh t) as [[[got st1] o] t1] eqn:Hs.
  destruct (generic_retry p attempt o) as [| |d|] eqn:Hg.
  - eapply SSstop; eauto.
  - eapply SSfail; eauto.
  - destruct (d <? 0) eqn:Hd.
    + eapply SSstop; eauto. right. exists d. split; [exact Hg|left; lia].
    + destruct (rt_rewind bd st1) as [st2| |] eqn:Hr.
      * destruct (pause_cancelled cn (t1 + d)) eqn:Hc.
        -- eapply SScancel; eauto. lia.
        -- eapply SSnext; eauto. lia.
      * eapply SSstop; eauto. right. exists d. split; [exact Hg|auto].
      * eapply SSstop; eauto. right. exists d. split; [exact Hg|auto].
  - eapply SSpanic; eauto.
Qed.

(* ------------------------------------------------------------------ *)
(* Invariant rule for the loop; the fuel of round_trip always suffices   *)

Section LoopInv.
  Variables (p : policy) (cn : cancel) (bd : body).
  Variable Inv : bstate -> list beh -> Z -> Z -> list event -> Prop.
  Variable Post : rt_out -> Prop.
  Hypothesis step_ok :
    forall st sc t a tr, Inv st sc t a tr -> 0 <= a <= maxr p ->
      match rt_step p cn bd st sc t a tr with
      | Done o => Post o
      | Next st' sc' t' tr' => Inv st' sc' t' (a + 1) tr'
      end.

  Lemma rt_loop_inv fuel : forall st sc t a tr,
    Inv st sc t a tr -> 0 <= a <= maxr p -> maxr p - a < Z.of_nat fuel ->
    Post (rt_loop fuel p cn bd st sc t a tr).
  Proof.
    induction fuel as [|fuel IH]; intros st sc t a tr HI Ha Hf.
    - simpl in Hf. lia.
    - cbn [rt_loop]. specialize (step_ok st sc t a tr HI Ha).
      pose proof (rt_step_spec p cn bd st sc t a tr) as Hspec.
      destruct (rt_step p cn bd st sc t a tr) as [o|st' sc' t' tr'] eqn:E; [exact step_ok|].
      inversion Hspec; subst.
      match goal with H : generic_retry _ _ _ = DWait _ |- _ =>
        apply generic_retry_wait_lt in H; destruct H as [Hlt _] end.
      apply IH; [exact step_ok| unfold maxr in *; lia | unfold maxr in *; lia].
  Qed.

  Lemma round_trip_inv st sc t :
    Inv st sc t 0 [] -> Post (round_trip p cn bd st sc t).
  Proof.
    intro HI. unfold round_trip. apply rt_loop_inv; [exact HI| unfold maxr; lia|].
    unfold rt_fuel, maxr. destruct (p_max_retry p) as [|q|q]; simpl; lia.
  Qed.
End LoopInv.

(* the model artefact RFuel never shows up *)
Lemma round_trip_no_fuel p cn bd st sc t : o_res (round_trip p cn bd st sc t) <> RFuel.
Proof.
  apply (round_trip_inv p cn bd (fun _ _ _ _ _ => True) (fun o => o_res o <> RFuel)); [|exact I].
  intros st0 sc0 t0 a tr _ _.
  pose proof (rt_step_spec p cn bd st0 sc0 t0 a tr) as H.
  inversion H; subst; cbn [o_res]; try discriminate; try exact I.
  all: destruct o; discriminate.
Qed.

(* ------------------------------------------------------------------ *)
(* Bounded attempts, paced pauses, no panic                             *)

Lemma round_trip_attempts p cn bd st sc t :
  let n := Z.of_nat (length (attempts (o_trace (round_trip p cn bd st sc t)))) in
  1 <= n <= maxr p + 1.
Proof.
  apply (round_trip_inv p cn bd
           (fun _ _ _ a tr => Z.of_nat (length (attempts tr)) = a)
           (fun o => 1 <= Z.of_nat (length (attempts (o_trace o))) <= maxr p + 1)); [|reflexivity].
  intros st0 sc0 t0 a tr HI Ha.
  pose proof (rt_step_spec p cn bd st0 sc0 t0 a tr) as H.
  inversion H; subst; cbn [o_trace];
    rewrite ?attempts_app, ?app_length; cbn [attempts length app]; lia.
Qed.

Lemma round_trip_pauses p cn bd st sc t :
  p_min p <= p_max p ->
  Forall (fun td => p_min p <= snd td <= p_max p /\ 0 <= snd td)
         (pauses (o_trace (round_trip p cn bd st sc t))).
Proof.
  intro Hmm.
  apply (round_trip_inv p cn bd
           (fun _ _ _ _ tr => Forall (fun td => p_min p <= snd td <= p_max p /\ 0 <= snd td) (pauses tr))
           (fun o => Forall (fun td => p_min p <= snd td <= p_max p /\ 0 <= snd td) (pauses (o_trace o))));
    [|constructor].
  intros st0 sc0 t0 a tr HI Ha.
  pose proof (rt_step_spec p cn bd st0 sc0 t0 a tr) as H.
  inversion H; subst; cbn [o_trace];
    rewrite ?pauses_app; cbn [pauses]; rewrite ?app_nil_r; try exact HI.
  - apply Forall_app. split; [exact HI|]. constructor; [|constructor]. cbn [snd].
    split; [eapply generic_retry_bounds; eauto|assumption].
  - apply Forall_app. split; [exact HI|]. constructor; [|constructor]. cbn [snd].
    split; [eapply generic_retry_bounds; eauto|assumption].
Qed.

Lemma round_trip_no_panic p cn bd st sc t :
  (forall a o, p_backoff p a o <> BPanic) -> o_res (round_trip p cn bd st sc t) <> RPanic.
Proof.
  intro Hb.
  apply (round_trip_inv p cn bd (fun _ _ _ _ _ => True) (fun o => o_res o <> RPanic)); [|exact I].
  intros st0 sc0 t0 a tr _ _.
  pose proof (rt_step_spec p cn bd st0 sc0 t0 a tr) as H.
  inversion H; subst; cbn [o_res]; try discriminate; try exact I.
  - destruct o; discriminate.
  - destruct o; discriminate.
  - exfalso. eapply generic_retry_no_panic; eauto.
Qed.

(* a non-retryable answer is returned at once *)
Lemma round_trip_nonretryable p cn bd st sc t bh sc' got st1 o t1 :
  next_beh sc = (bh, sc') -> serve cn bd st bh t = (got, st1, o, t1) ->
  p_pred p o <> PRetry ->
  exists r, (r = result_of_outcome o \/ r = fail_result o) /\
            round_trip p cn bd st sc t = mkOut r st1 sc' t1 [EAttempt t got].
Proof.
  intros Hn Hs Hp. unfold round_trip, rt_fuel. cbn [rt_loop]. unfold rt_step. rewrite Hn, Hs.
  destruct (generic_retry_nonretryable p 0 o Hp) as [-> | ->];
    eexists; (split; [|reflexivity]); auto.
Qed.

(* ------------------------------------------------------------------ *)
(* Bodies                                                               *)

Definition received (bd : body) (bh : beh) : str := fst (take_body (b_read bh) (bdata bd)).
Definition wf_body (bd : body) : Prop := bk bd = KNone \/ bk bd = KNoBody -> bdata bd = [].

Lemma received_prefix bd bh : exists rest, bdata bd = received bd bh ++ rest.
Proof.
  unfold received, take_body. destruct (b_read bh) as [k|]; cbn [fst].
  - exists (skipn k (bdata bd)). symmetry. apply firstn_skipn.
  - exists []. now rewrite app_nil_r.
Qed.

Lemma received_all bd bh : b_read bh = None -> received bd bh = bdata bd.
Proof. unfold received, take_body. now intros ->. Qed.

Lemma serve_got cn bd st bh t got st1 o t1 :
  serve cn bd st bh t = (got, st1, o, t1) ->
  got = fst (take_body (b_read bh) (s_rest st)) /\
  s_rest st1 = snd (take_body (b_read bh) (s_rest st)) /\ s_calls st1 = s_calls st.
Proof.
  unfold serve. destruct (take_body (b_read bh) (s_rest st)) as [g r].
  destruct (ended_at cn t || cancelled_before cn (t + b_lat bh)); intro E; injection E as <- <- _ _; auto.
Qed.

Lemma take_body_nil r : take_body r [] = ([], []).
Proof. destruct r as [k|]; [|reflexivity]. unfold take_body. now rewrite firstn_nil, skipn_nil. Qed.

(* the generated rewind decisions (translated from the sources) by body kind *)
Lemma rewind_eq bd st : rewind bd st = rewind_closed bd st.
Proof.
  unfold rewind, rewind_closed, body_nil, body_nobody, getbody_nil, getbody_fails.
  destruct (bk bd) as [| | | |k]; try reflexivity. destruct (s_calls st <? k)%nat; reflexivity.
Qed.
Lemma rt_rewind_eq bd st : rt_rewind bd st = rt_rewind_closed bd st.
Proof.
  unfold rt_rewind, rt_rewind_closed, rewind_closed, body_nil, body_nobody, getbody_nil, getbody_fails.
  destruct (bk bd) as [| | | |k]; try reflexivity. destruct (s_calls st <? k)%nat; reflexivity.
Qed.

Lemma rt_rewind_ok bd st st2 : rt_rewind bd st = RwOk st2 -> rewind bd st = RwOk st2.
Proof. rewrite rt_rewind_eq, rewind_eq. unfold rt_rewind_closed. destruct (bk bd); auto; discriminate. Qed.

Lemma rt_rewind_not_replayable bd :
  (forall st', rewind bd st' = RwNoGetBody \/ rewind bd st' = RwGetBodyErr) ->
  forall st', rt_rewind bd st' = RwNoGetBody \/ rt_rewind bd st' = RwGetBodyErr.
Proof.
  intros H st'. specialize (H st'). rewrite rewind_eq in H. rewrite rt_rewind_eq.
  unfold rt_rewind_closed. destruct (bk bd); auto.
Qed.

Lemma rewind_fresh bd st st2 :
  wf_body bd -> (bk bd = KNone \/ bk bd = KNoBody -> s_rest st = []) -> rewind bd st = RwOk st2 -> s_rest st2 = bdata bd.
Proof.
  rewrite rewind_eq. unfold rewind_closed, wf_body. intros Hwf Hn. destruct (bk bd) as [| | | |k].
  - intro E. injection E as <-. rewrite Hn, Hwf; auto.
  - intro E. injection E as <-. rewrite Hn, Hwf; auto.
  - intro E. now injection E as <-.
  - discriminate.
  - destruct (s_calls st <? k)%nat; [|discriminate]. intro E. now injection E as <-.
Qed.

Lemma next_beh_skipn k : forall sc,
  next_beh (skipn k sc) = (nth k sc default_beh, skipn (S k) sc).
Proof.
  induction k as [|k IH]; intros [|x sc]; try reflexivity.
  cbn [skipn nth]. rewrite IH. reflexivity.
Qed.

Definition bodies_ok (bd : body) (sc : list beh) (base : nat) (l : list (Z * str)) : Prop :=
  forall i t got, nth_error l i = Some (t, got) -> got = received bd (nth (base + i) sc default_beh).

Lemma bodies_ok_snoc bd sc base l t got :
  bodies_ok bd sc base l -> got = received bd (nth (base + length l) sc default_beh) ->
  bodies_ok bd sc base (l ++ [(t, got)]).
Proof.
  intros H Hg i t' got' Hi.
  destruct (Nat.lt_ge_cases i (length l)) as [Hlt|Hge].
  - rewrite nth_error_app1 in Hi by exact Hlt. eauto.
  - rewrite nth_error_app2 in Hi by exact Hge.
    destruct (i - length l)%nat as [|m] eqn:Em.
    + cbn in Hi. injection Hi as <- <-. replace i with (length l) by lia. exact Hg.
    + cbn in Hi. destruct m; discriminate.
Qed.

(* what the registry receives on every attempt of one send, and where the script
   and the request body are afterwards.  [base] = requests the server saw before *)
Lemma round_trip_bodies_gen p cn bd sc0 base st t :
  wf_body bd -> s_rest st = bdata bd ->
  let out := round_trip p cn bd st (skipn base sc0) t in
  bodies_ok bd sc0 base (attempts (o_trace out)) /\
  o_script out = skipn (base + length (attempts (o_trace out))) sc0 /\
  (bk bd = KNone \/ bk bd = KNoBody -> s_rest (o_st out) = []).
Proof.
  intros Hwf Hfresh.
  apply (round_trip_inv p cn bd
     (fun st' sc' _ _ tr => s_rest st' = bdata bd /\ sc' = skipn (base + length (attempts tr)) sc0 /\
                            bodies_ok bd sc0 base (attempts tr))
     (fun o => bodies_ok bd sc0 base (attempts (o_trace o)) /\
               o_script o = skipn (base + length (attempts (o_trace o))) sc0 /\
               (bk bd = KNone \/ bk bd = KNoBody -> s_rest (o_st o) = []))).
  2:{ cbn [attempts length]. rewrite Nat.add_0_r. repeat split; auto.
      intros i t' got Hi. destruct i; discriminate. }
  intros st0 sc1 t0 a tr (Hr & Hsc & Hb) Ha.
  pose proof (rt_step_spec p cn bd st0 sc1 t0 a tr) as H.
  assert (Hstep : forall bh sc' got st1 o t1,
             next_beh sc1 = (bh, sc') -> serve cn bd st0 bh t0 = (got, st1, o, t1) ->
             bodies_ok bd sc0 base (attempts tr ++ [(t0, got)]) /\
             sc' = skipn (base + length (attempts tr ++ [(t0, got)])) sc0 /\
             (bk bd = KNone \/ bk bd = KNoBody -> s_rest st1 = [])).
  { intros bh sc' got st1 o t1 Hn Hs.
    subst sc1. rewrite next_beh_skipn in Hn. injection Hn as <- <-.
    apply serve_got in Hs. destruct Hs as (Hg & Hrest & _). rewrite Hr in Hg, Hrest.
    split; [|split].
    - apply bodies_ok_snoc; [exact Hb|exact Hg].
    - rewrite app_length. cbn [length].
      replace (base + (length (attempts tr) + 1))%nat with (S (base + length (attempts tr))) by lia.
      reflexivity.
    - intro Hk. rewrite Hrest, (Hwf Hk), take_body_nil. reflexivity. }
  inversion H; subst; cbn [o_trace o_script o_st];
    rewrite ?attempts_app; cbn [attempts]; rewrite ?app_nil_r;
    match goal with Hn : next_beh _ = _, Hs : serve _ _ _ _ _ = _ |- _ =>
      destruct (Hstep _ _ _ _ _ _ Hn Hs) as (B1 & B2 & B3) end.
  - auto.
  - auto.
  - auto.
  - repeat split; auto. intro Hk.
    match goal with Hrw : rt_rewind _ _ = RwOk _ |- _ =>
      apply rt_rewind_ok in Hrw; rewrite rewind_eq in Hrw; unfold rewind_closed in Hrw;
      destruct Hk as [Hk|Hk]; rewrite Hk in Hrw; injection Hrw as <- end; auto.
  - repeat split; auto.
    match goal with Hrw : rt_rewind _ _ = RwOk _ |- _ =>
      apply rt_rewind_ok in Hrw; eapply rewind_fresh; [exact Hwf| |exact Hrw] end. exact B3.
Qed.

Lemma round_trip_bodies p cn bd sc st t :
  wf_body bd -> s_rest st = bdata bd ->
  forall i t' got, nth_error (attempts (o_trace (round_trip p cn bd st sc t))) i = Some (t', got) ->
    got = received bd (nth i sc default_beh).
Proof.
  intros Hwf Hf.
  destruct (round_trip_bodies_gen p cn bd sc 0%nat st t Hwf Hf) as (H & _).
  exact H.
Qed.

(* a body that cannot be replayed is sent once; the call ends with that answer
   (or the policy's panic), never with a second attempt *)
Lemma round_trip_not_replayable p cn bd st sc t :
  (forall st', rewind bd st' = RwNoGetBody \/ rewind bd st' = RwGetBodyErr) ->
  exists bh sc' got st1 o t1,
    next_beh sc = (bh, sc') /\ serve cn bd st bh t = (got, st1, o, t1) /\
    o_trace (round_trip p cn bd st sc t) = [EAttempt t got] /\
    (o_res (round_trip p cn bd st sc t) = result_of_outcome o \/
     o_res (round_trip p cn bd st sc t) = fail_result o \/
     o_res (round_trip p cn bd st sc t) = RPanic).
Proof.
  intro Hrw. unfold round_trip, rt_fuel. cbn [rt_loop].
  pose proof (rt_step_spec p cn bd st sc t 0 []) as H.
  inversion H; subst; cbn [o_trace o_res app].
  - exists bh, sc', got, st1, o, t1. auto.
  - exists bh, sc', got, st1, o, t1. auto 6.
  - exists bh, sc', got, st1, o, t1. auto 6.
  - match goal with Hr : rt_rewind _ _ = RwOk _ |- _ =>
      destruct (rt_rewind_not_replayable bd Hrw st1) as [E|E]; rewrite E in Hr; discriminate end.
  - match goal with Hr : rt_rewind _ _ = RwOk _ |- _ =>
      destruct (rt_rewind_not_replayable bd Hrw st1) as [E|E]; rewrite E in Hr; discriminate end.
Qed.

Lemma oneshot_not_replayable bd : bk bd = KOneShot ->
  forall st', rewind bd st' = RwNoGetBody \/ rewind bd st' = RwGetBodyErr.
Proof. intros H st'. left. rewrite rewind_eq. unfold rewind_closed. now rewrite H. Qed.

(* ------------------------------------------------------------------ *)
(* Cancellation                                                         *)

(* the select of the current source: a pause ending at x ends the call iff the context has
   ended by then (the generated flag says the timer branch re-checks ctx.Err()) *)
Lemma pause_cancelled_spec tc dl x : pause_cancelled (Some (tc, dl)) x = (tc <=? x).
Proof.
  unfold pause_cancelled, pause_cancelled_gen.
  replace rt_checks_ctx_after_timer with true by reflexivity. reflexivity.
Qed.

(* the original select: the loop could go on at an instant at which the context had ended *)
Lemma pause_cancelled_prefix_refuted :
  exists cn x, ended_at cn x = true /\ pause_cancelled_gen false cn x = false.
Proof. exists (Some (5, true)), 5. split; reflexivity. Qed.

Lemma serve_time_cancel tc dl bd st bh t got st1 o t1 :
  serve (Some (tc, dl)) bd st bh t = (got, st1, o, t1) ->
  t1 <= Z.max t tc /\ (t < tc -> t1 <= tc) /\ (tc <= t -> t1 = Z.max t tc).
Proof.
  unfold serve. destruct (take_body (b_read bh) (s_rest st)) as [g r].
  cbn [ended_at cancelled_before cancel_outcome cancel_clock].
  destruct (tc <=? t) eqn:E1; destruct (tc <? t + b_lat bh) eqn:E2; cbn [orb];
    intro H; injection H as _ _ _ <-; lia.
Qed.

Lemma tl_snoc {A} (l : list A) x : tl (l ++ [x]) = match l with [] => [] | _ => tl l ++ [x] end.
Proof. destruct l; reflexivity. Qed.

(* context ending at tc, call started at t *)
Definition cancel_post (tc t : Z) (o : rt_out) : Prop :=
  Forall (fun a => fst a < tc) (tl (attempts (o_trace o))) /\
  o_time o <= Z.max t tc /\
  Forall (fun pd => fst pd + snd pd < tc \/ (o_res o = RCtx /\ o_time o = Z.max (fst pd) tc))
         (pauses (o_trace o)) /\
  (tc <= t -> length (attempts (o_trace o)) = 1%nat).

(* every attempt but the first of a send starts strictly before the context ends; the call is
   over when the context ends; a pause the context ends in (or has ended before: zero pauses,
   contexts that were over from the start) ends the call with the context's error; a context
   that is over when the call starts allows the first attempt only.  No hypothesis on the
   policy (MinWait = 0 included), the start instant or the script. *)
Lemma round_trip_cancel p bd st sc t tc dl :
  cancel_post tc t (round_trip p (Some (tc, dl)) bd st sc t).
Proof.
  apply (round_trip_inv p (Some (tc, dl)) bd
     (fun _ _ t' _ tr => ((tr = [] /\ t' = t) \/ (attempts tr <> [] /\ t' < tc /\ t < tc)) /\
                         Forall (fun a => fst a < tc) (tl (attempts tr)) /\
                         Forall (fun pd => fst pd + snd pd < tc) (pauses tr))
     (cancel_post tc t)).
  2:{ repeat split; auto; constructor. }
  intros st0 sc0 t0 a tr (Hpos & Ha & Hp) _.
  pose proof (rt_step_spec p (Some (tc, dl)) bd st0 sc0 t0 a tr) as H.
  assert (Hold : forall (o : rt_out), Forall (fun pd => fst pd + snd pd < tc \/
                    (o_res o = RCtx /\ o_time o = Z.max (fst pd) tc)) (pauses tr)).
  { intro o. eapply Forall_impl; [|exact Hp]. intros pd A. auto. }
  assert (Hatt : forall got, Forall (fun a => fst a < tc) (tl (attempts tr ++ [(t0, got)]))).
  { intro got. rewrite tl_snoc. destruct Hpos as [[-> _]|(Hne & Hlt & _)].
    - constructor.
    - destruct (attempts tr) eqn:E; [congruence|]. rewrite <- E in *.
      apply Forall_app. split; [exact Ha|]. constructor; [exact Hlt|constructor]. }
  assert (Hlen : forall got, tc <= t -> length (attempts tr ++ [(t0, got)]) = 1%nat).
  { intros got Hge. destruct Hpos as [[-> _]|(_ & _ & Hlt)]; [reflexivity|lia]. }
  unfold cancel_post.
  inversion H; subst; cbn [o_trace o_time o_res];
    rewrite ?attempts_app, ?pauses_app; cbn [attempts pauses]; rewrite ?app_nil_r;
    match goal with Hs : serve _ _ _ _ _ = _ |- _ =>
      destruct (serve_time_cancel _ _ _ _ _ _ _ _ _ _ Hs) as (T1 & T2 & T3) end.
  - repeat split; auto; try (eapply Forall_impl; [|exact Hp]; intros pd A; left; exact A).
    destruct Hpos as [[_ ->]|(_ & Hlt & _)]; [exact T1|specialize (T2 Hlt); lia].
  - repeat split; auto; try (eapply Forall_impl; [|exact Hp]; intros pd A; left; exact A).
    destruct Hpos as [[_ ->]|(_ & Hlt & _)]; [exact T1|specialize (T2 Hlt); lia].
  - repeat split; auto; try (eapply Forall_impl; [|exact Hp]; intros pd A; left; exact A).
    destruct Hpos as [[_ ->]|(_ & Hlt & _)]; [exact T1|specialize (T2 Hlt); lia].
  - cbn [cancel_clock]. repeat split; auto.
    + destruct Hpos as [[_ ->]|(_ & Hlt & _)]; [lia|specialize (T2 Hlt); lia].
    + apply Forall_app. split; [eapply Forall_impl; [|exact Hp]; intros pd A; left; exact A|].
      constructor; [|constructor]. cbn [fst snd]. right. split; reflexivity.
  - assert (Hc : t1 + d < tc).
    { match goal with Hx : pause_cancelled _ _ = false |- _ =>
        rewrite pause_cancelled_spec in Hx; apply Z.leb_gt in Hx; exact Hx end. }
    assert (Htlt : t < tc).
    { destruct Hpos as [[_ ->]|(_ & _ & Hlt)]; [|exact Hlt].
      destruct (Z.lt_ge_cases t tc) as [L|G]; [exact L|]. specialize (T3 G). lia. }
    split; [|split].
    + right. split; [|split; [assumption|exact Htlt]].
      destruct (attempts tr); discriminate.
    + apply Hatt.
    + apply Forall_app. split; [exact Hp|]. constructor; [|constructor]. cbn [fst snd]. exact Hc.
Qed.

(* without a cancellation no call ends with the context's error unless the base
   transport itself reported one *)

(* ------------------------------------------------------------------ *)
(* auth.Client.Do on top                                                *)

Lemma auth_do_at_attempts warm p cn bd sc t0 :
  let a := auth_do_at warm p cn bd sc t0 in
  1 <= Z.of_nat (length (attempts (a_first a))) <= maxr p + 1 /\
  Z.of_nat (length (attempts (a_second a))) <= maxr p + 1 /\
  Z.of_nat (length (attempts (a_third a))) <= maxr p + 1.
Proof.
  unfold auth_do_at.
  pose proof (round_trip_attempts p cn bd (init_state bd) sc t0) as H1. cbv zeta in H1.
  set (o1 := round_trip p cn bd (init_state bd) sc t0) in *.
  assert (Hm : 0 <= maxr p + 1) by (unfold maxr; lia).
  destruct (challenged (o_res o1));
    [|cbn [a_first a_second a_third attempts length]; repeat split; try apply H1; exact Hm].
  destruct (rewind bd (o_st o1)) as [st2| |]; cbn [a_first a_second a_third attempts length];
    try (repeat split; try apply H1; exact Hm).
  pose proof (round_trip_attempts p cn bd st2 (o_script o1) (o_time o1)) as H2. cbv zeta in H2.
  set (o2 := round_trip p cn bd st2 (o_script o1) (o_time o1)) in *.
  destruct (warm && bearer_challenged (o_res o1) && unauthorized (o_res o2));
    [|cbn [a_first a_second a_third attempts length]; repeat split; try apply H1; try apply H2; exact Hm].
  destruct (rewind bd (o_st o2)) as [st3| |]; cbn [a_first a_second a_third attempts length];
    try (repeat split; try apply H1; try apply H2; exact Hm).
  pose proof (round_trip_attempts p cn bd st3 (o_script o2) (o_time o2)) as H3. cbv zeta in H3.
  repeat split; try apply H1; try apply H2; apply H3.
Qed.

Lemma auth_do_attempts warm p cn bd sc :
  let a := auth_do warm p cn bd sc in
  1 <= Z.of_nat (length (attempts (a_first a))) <= maxr p + 1 /\
  Z.of_nat (length (attempts (a_second a))) <= maxr p + 1 /\
  Z.of_nat (length (attempts (a_third a))) <= maxr p + 1.
Proof. exact (auth_do_at_attempts warm p cn bd sc 0). Qed.

Lemma bodies_ok_app bd sc base l1 l2 :
  bodies_ok bd sc base l1 -> bodies_ok bd sc (base + length l1) l2 -> bodies_ok bd sc base (l1 ++ l2).
Proof.
  intros B1 B2 i t got Hi.
  destruct (Nat.lt_ge_cases i (length l1)) as [Hlt|Hge].
  - rewrite nth_error_app1 in Hi by exact Hlt. exact (B1 i t got Hi).
  - rewrite nth_error_app2 in Hi by exact Hge. apply B2 in Hi.
    replace (base + i)%nat with (base + length l1 + (i - length l1))%nat by lia. exact Hi.
Qed.

(* every request of every send carries the body the script position asks for *)
Lemma auth_do_bodies warm p cn bd sc :
  wf_body bd ->
  let a := auth_do warm p cn bd sc in
  bodies_ok bd sc 0 (attempts (a_first a) ++ attempts (a_second a) ++ attempts (a_third a)).
Proof.
  intro Hwf. unfold auth_do, auth_do_at.
  destruct (round_trip_bodies_gen p cn bd sc 0%nat (init_state bd) 0 Hwf eq_refl) as (B1 & S1 & N1).
  cbn [skipn] in *.
  set (o1 := round_trip p cn bd (init_state bd) sc 0) in *.
  destruct (challenged (o_res o1)); [|cbn [a_first a_second a_third attempts]; rewrite !app_nil_r; exact B1].
  destruct (rewind bd (o_st o1)) as [st2| |] eqn:Hrw; cbn [a_first a_second a_third attempts];
    try (rewrite !app_nil_r; exact B1).
  assert (Hf : s_rest st2 = bdata bd) by (eapply rewind_fresh; eauto).
  cbn [Nat.add] in S1. rewrite S1.
  destruct (round_trip_bodies_gen p cn bd sc (length (attempts (o_trace o1))) st2 (o_time o1) Hwf Hf)
    as (B2 & S2 & N2).
  set (o2 := round_trip p cn bd st2 (skipn (length (attempts (o_trace o1))) sc) (o_time o1)) in *.
  destruct (warm && bearer_challenged (o_res o1) && unauthorized (o_res o2)).
  2:{ cbn [a_first a_second a_third attempts]. rewrite app_nil_r. apply bodies_ok_app; assumption. }
  destruct (rewind bd (o_st o2)) as [st3| |] eqn:Hrw2; cbn [a_first a_second a_third attempts];
    try (rewrite app_nil_r; apply bodies_ok_app; assumption).
  assert (Hf3 : s_rest st3 = bdata bd) by (eapply rewind_fresh; eauto).
  rewrite S2.
  destruct (round_trip_bodies_gen p cn bd sc
              (length (attempts (o_trace o1)) + length (attempts (o_trace o2))) st3 (o_time o2) Hwf Hf3)
    as (B3 & _ & _).
  apply bodies_ok_app; [exact B1|]. apply bodies_ok_app; [exact B2|exact B3].
Qed.

(* a body that cannot be replayed reaches the registry once; a challenge then
   ends the call with the rewind error instead of a truncated re-send *)
Lemma auth_do_not_replayable warm p cn bd sc :
  (forall st', rewind bd st' = RwNoGetBody \/ rewind bd st' = RwGetBodyErr) ->
  let a := auth_do warm p cn bd sc in
  length (attempts (a_first a)) = 1%nat /\ a_second a = [] /\ a_third a = [] /\
  (a_res a = RNotRewindable \/ a_res a = RGetBodyFailed \/
   a_res a = o_res (round_trip p cn bd (init_state bd) sc 0)) /\
  (challenged (o_res (round_trip p cn bd (init_state bd) sc 0)) = true ->
   a_res a = RNotRewindable \/ a_res a = RGetBodyFailed).
Proof.
  intro Hrw. unfold auth_do, auth_do_at.
  destruct (round_trip_not_replayable p cn bd (init_state bd) sc 0 Hrw)
    as (bh & sc' & got & st1 & o & t1 & _ & _ & Htr & _).
  set (o1 := round_trip p cn bd (init_state bd) sc 0) in *.
  destruct (challenged (o_res o1)).
  - destruct (Hrw (o_st o1)) as [E|E]; rewrite E; cbn [a_first a_second a_third a_res rewind_error];
      rewrite Htr; cbn [attempts length]; repeat split; auto.
  - cbn [a_first a_second a_third a_res]. rewrite Htr. cbn [attempts length]. repeat split; auto.
    discriminate.
Qed.

Lemma manifest_push_replayable bd :
  bk (manifest_push_body true bd) <> KOneShot /\ bdata (manifest_push_body true bd) = bdata bd.
Proof. unfold manifest_push_body. destruct (bk bd) eqn:E; cbn; rewrite ?E; split; congruence. Qed.

Lemma round_trip_no_panic_no_fuel p cn bd st sc t :
  (forall a o, p_backoff p a o <> BPanic) ->
  o_res (round_trip p cn bd st sc t) <> RPanic /\ o_res (round_trip p cn bd st sc t) <> RFuel.
Proof.
  intro H. split; [exact (round_trip_no_panic p cn bd st sc t H)
                  | exact (round_trip_no_fuel p cn bd st sc t)].
Qed.

Lemma default_policy_never_panics oob rnd a o : p_backoff (default_policy oob rnd) a o <> BPanic.
Proof. exact (exp_backoff_never_panics oob rnd default_eparams a o). Qed.

(* ------------------------------------------------------------------ *)
(* The acceptor used by the correspondence run admits every value the model of
   ExponentialBackoff can produce (so an observed pause it rejects is outside the
   model), for a random source within its range and a float conversion that is
   not positive below -2^63. *)

Lemma tol_a_pos e attempt : 2 <= tol_a e attempt.
Proof. unfold tol_a. lia. Qed.
Lemma tol_n_pos e attempt : 2 <= tol_n e attempt.
Proof. unfold tol_n. lia. Qed.

Lemma f2i_in_range oob q : - two63 <= qtrunc q < two63 -> f2i oob q = qtrunc q.
Proof.
  intro H. unfold f2i. cbv zeta.
  destruct ((- two63 <=? qtrunc q) && (qtrunc q <? two63)) eqn:E; [reflexivity|].
  apply andb_false_iff in E. destruct E as [E|E]; [apply Z.leb_gt in E|apply Z.ltb_ge in E]; lia.
Qed.

Lemma f2i_nonpos oob q :
  (forall q', qtrunc q' < - two63 -> oob q' <= 0) -> qtrunc q <= 0 -> f2i oob q <= 0.
Proof.
  intros Hoob H. unfold f2i. cbv zeta.
  destruct ((- two63 <=? qtrunc q) && (qtrunc q <? two63)) eqn:E; [exact H|].
  apply Hoob. apply andb_false_iff in E.
  destruct E as [E|E]; [apply Z.leb_gt in E|apply Z.ltb_ge in E]; unfold two63 in *; lia.
Qed.

Lemma wrap64_id z : - two63 <= z < two63 -> wrap64 z = z.
Proof. intro H. unfold wrap64, two64, two63 in *. rewrite Z.mod_small by lia. lia. Qed.

Lemma exp_class_sound guarded oob rnd e attempt o :
  (forall n, 0 < n -> 0 <= rnd n < n) ->
  (forall q, qtrunc q < - two63 -> oob q <= 0) ->
  match exp_class guarded e attempt o with
  | ECPanic => exp_backoff_gen guarded oob rnd e attempt o = BPanic
  | ECRange lo hi => exists d, exp_backoff_gen guarded oob rnd e attempt o = BRet d /\ lo <= d <= hi
  | ECUnjudged => True
  end.
Proof.
  intros Hrnd Hoob. unfold exp_class, exp_backoff_gen. cbv zeta.
  destruct (generated_backoff_retry_after_ok (retry_after_secs o)); [eexists; split; [reflexivity|lia]|].
  pose proof (tol_a_pos e attempt) as Hta. pose proof (tol_n_pos e attempt) as Htn.
  set (a := qtrunc (exp_a e attempt)) in *. set (n := qtrunc (exp_n e attempt)) in *.
  set (ta := tol_a e attempt) in *. set (tn := tol_n e attempt) in *.
  destruct (qnear (exp_n e attempt) 1); [exact I|].
  destruct (two63 - tn <=? n) eqn:E1; [exact I|]. apply Z.leb_gt in E1.
  destruct (n <=? 0) eqn:E2.
  - apply Z.leb_le in E2.
    assert (Hn : f2i oob (exp_n e attempt) <= 0) by (apply f2i_nonpos; assumption).
    destruct (f2i oob (exp_n e attempt) >? 0) eqn:E3; [lia|].
    destruct guarded; [|reflexivity].
    destruct ((- two63 + ta <? a) && (a + ta <? two63)) eqn:E4; [|exact I].
    apply andb_true_iff in E4. destruct E4 as [E4 E5]. apply Z.ltb_lt in E4, E5.
    rewrite f2i_in_range by (fold a; lia). fold a. eexists; split; [reflexivity|lia].
  - apply Z.leb_gt in E2.
    destruct ((- two63 + ta <? a) && (a + n + ta + tn <? two63)) eqn:E4; [|exact I].
    apply andb_true_iff in E4. destruct E4 as [E4 E5]. apply Z.ltb_lt in E4, E5.
    rewrite (f2i_in_range oob (exp_n e attempt)) by (fold n; unfold two63 in *; lia).
    rewrite (f2i_in_range oob (exp_a e attempt)) by (fold a; lia). fold a n.
    destruct (n >? 0) eqn:E3; [|lia].
    specialize (Hrnd n E2). rewrite wrap64_id by lia.
    eexists; split; [reflexivity|lia].
Qed.

Lemma clamp_mono lo hi x y : x <= y -> clamp lo hi x <= clamp lo hi y.
Proof.
  intro H. unfold clamp.
  destruct (x <? lo) eqn:A; destruct (y <? lo) eqn:B;
    repeat match goal with |- context [?u >? ?v] => destruct (u >? v) eqn:? end; lia.
Qed.

(* how the harness projects a decision: a negative duration reads as "no retry" *)
Definition project_decision (d : decision) : obs_decision :=
  match d with
  | DStop => ODStop | DFail => ODFail | DPanic => ODPanic
  | DWait x => if x <? 0 then ODStop else ODWait x
  end.

Lemma accept_decision_complete guarded oob rnd e maxretry minw maxw attempt o :
  (forall n, 0 < n -> 0 <= rnd n < n) ->
  (forall q, qtrunc q < - two63 -> oob q <= 0) ->
  accept_decision guarded maxretry minw maxw e attempt o
    (project_decision
       (generic_retry (mkPolicy maxretry minw maxw default_predicate (exp_backoff_gen guarded oob rnd e))
                      attempt o)) <> VNo.
Proof.
  intros Hrnd Hoob. unfold accept_decision. rewrite generic_retry_eq. cbn [p_max_retry p_pred p_backoff p_min p_max].
  destruct (attempt >=? maxretry); [discriminate|].
  destruct (default_predicate o); try discriminate.
  pose proof (exp_class_sound guarded oob rnd e attempt o Hrnd Hoob) as Hs.
  destruct (exp_class guarded e attempt o) as [|lo hi|]; [|destruct Hs as (d & -> & Hd)|discriminate].
  - rewrite Hs. discriminate.
  - cbn [project_decision].
    pose proof (clamp_mono minw maxw lo d (proj1 Hd)) as M1.
    pose proof (clamp_mono minw maxw d hi (proj2 Hd)) as M2.
    destruct (clamp minw maxw d <? 0) eqn:E.
    + apply Z.ltb_lt in E. destruct (clamp minw maxw lo <? 0) eqn:E2; [discriminate|].
      apply Z.ltb_ge in E2. lia.
    + destruct ((clamp minw maxw lo <=? clamp minw maxw d) && (clamp minw maxw d <=? clamp minw maxw hi)) eqn:E2;
        [discriminate|].
      apply andb_false_iff in E2. destruct E2 as [E2|E2]; apply Z.leb_gt in E2; lia.
Qed.

(* cancellation through the auth client and the blob push *)

Definition all_pauses (a : auth_out) : list (Z * Z) :=
  pauses (a_first a) ++ pauses (a_second a) ++ pauses (a_third a).

(* [res], [time]: how the whole call ended *)
Definition sends_cancel_post (tc t0 : Z) (res : result) (time : Z) (a : auth_out) : Prop :=
  Forall (fun x => fst x < tc) (tl (attempts (a_first a))) /\
  Forall (fun x => fst x < tc) (tl (attempts (a_second a))) /\
  Forall (fun x => fst x < tc) (tl (attempts (a_third a))) /\
  a_time a <= Z.max t0 tc /\
  Forall (fun pd => fst pd + snd pd < tc \/ (res = RCtx /\ time = Z.max (fst pd) tc)) (all_pauses a).

Lemma cancel_post_pauses_done tc t o :
  cancel_post tc t o -> o_res o <> RCtx ->
  Forall (fun pd => fst pd + snd pd < tc) (pauses (o_trace o)).
Proof.
  intros (_ & _ & Hp & _) Hne. eapply Forall_impl; [|exact Hp].
  intros pd [A|[A _]]; [exact A|congruence].
Qed.

Lemma pauses_done_weaken tc (res : result) (time : Z) l :
  Forall (fun pd : Z * Z => fst pd + snd pd < tc) l ->
  Forall (fun pd => fst pd + snd pd < tc \/ (res = RCtx /\ time = Z.max (fst pd) tc)) l.
Proof. intro H. eapply Forall_impl; [|exact H]. intros pd A. left. exact A. Qed.

Lemma challenged_not_ctx r : challenged r = true -> r <> RCtx.
Proof. destruct r; cbn; congruence. Qed.
Lemma unauthorized_not_ctx r : unauthorized r = true -> r <> RCtx.
Proof. destruct r; cbn; congruence. Qed.
Lemma accepted_not_ctx r : accepted r = true -> r <> RCtx.
Proof. destruct r; cbn; congruence. Qed.

Lemma plain_do_at_cancel p bd sc t0 tc dl :
  let a := plain_do_at p (Some (tc, dl)) bd sc t0 in
  sends_cancel_post tc t0 (a_res a) (a_time a) a.
Proof.
  unfold plain_do_at, sends_cancel_post, all_pauses. cbn [a_first a_second a_third a_res a_time attempts pauses tl].
  destruct (round_trip_cancel p bd (init_state bd) sc t0 tc dl) as (A1 & T1 & P1 & _).
  rewrite !app_nil_r. repeat split; auto.
Qed.

Lemma auth_do_at_cancel warm p bd sc t0 tc dl :
  let a := auth_do_at warm p (Some (tc, dl)) bd sc t0 in
  sends_cancel_post tc t0 (a_res a) (a_time a) a.
Proof.
  unfold auth_do_at, sends_cancel_post, all_pauses.
  pose proof (round_trip_cancel p bd (init_state bd) sc t0 tc dl) as C1.
  set (o1 := round_trip p (Some (tc, dl)) bd (init_state bd) sc t0) in *.
  destruct (challenged (o_res o1)) eqn:Hch.
  2:{ cbn [a_first a_second a_third a_res a_time attempts pauses tl]. rewrite !app_nil_r.
      destruct C1 as (A1 & T1 & P1 & _). repeat split; auto. }
  pose proof (cancel_post_pauses_done _ _ _ C1 (challenged_not_ctx _ Hch)) as D1.
  destruct C1 as (A1 & T1 & _ & _).
  destruct (rewind bd (o_st o1)) as [st2| |];
    cbn [a_first a_second a_third a_res a_time attempts pauses tl]; rewrite ?app_nil_r;
    try (repeat split; auto; apply pauses_done_weaken; exact D1).
  pose proof (round_trip_cancel p bd st2 (o_script o1) (o_time o1) tc dl) as C2.
  set (o2 := round_trip p (Some (tc, dl)) bd st2 (o_script o1) (o_time o1)) in *.
  destruct (warm && bearer_challenged (o_res o1) && unauthorized (o_res o2)) eqn:Hw.
  2:{ cbn [a_first a_second a_third a_res a_time attempts pauses tl]. rewrite !app_nil_r.
      destruct C2 as (A2 & T2 & P2 & _). repeat split; auto; [lia|].
      apply Forall_app. split; [apply pauses_done_weaken; exact D1|exact P2]. }
  apply andb_true_iff in Hw. destruct Hw as [_ Hun].
  pose proof (cancel_post_pauses_done _ _ _ C2 (unauthorized_not_ctx _ Hun)) as D2.
  destruct C2 as (A2 & T2 & _ & _).
  destruct (rewind bd (o_st o2)) as [st3| |];
    cbn [a_first a_second a_third a_res a_time attempts pauses tl]; rewrite ?app_nil_r;
    try (repeat split; auto; [lia|apply Forall_app; split; apply pauses_done_weaken; assumption]).
  destruct (round_trip_cancel p bd st3 (o_script o2) (o_time o2) tc dl) as (A3 & T3 & P3 & _).
  repeat split; auto; [lia|].
  apply Forall_app. split; [apply pauses_done_weaken; exact D1|].
  apply Forall_app. split; [apply pauses_done_weaken; exact D2|exact P3].
Qed.

Lemma auth_do_cancel warm p bd sc tc dl :
  let a := auth_do warm p (Some (tc, dl)) bd sc in
  sends_cancel_post tc 0 (a_res a) (a_time a) a.
Proof. exact (auth_do_at_cancel warm p bd sc 0 tc dl). Qed.

Lemma sends_pauses_done tc t0 a :
  sends_cancel_post tc t0 (a_res a) (a_time a) a -> a_res a <> RCtx ->
  Forall (fun pd => fst pd + snd pd < tc) (all_pauses a).
Proof.
  intros (_ & _ & _ & _ & Hp) Hne. eapply Forall_impl; [|exact Hp].
  intros pd [A|[A _]]; [exact A|congruence].
Qed.

(* blob push under a context ending at tc: POST and PUT requests other than the first of a
   send start before tc, the push is over at tc, and a pause the context ends in ends the
   push with the context's error *)
Lemma blob_push_cancel authc warm0 p bd sc tc dl :
  let u := blob_push_gen authc warm0 p (Some (tc, dl)) bd sc in
  sends_cancel_post tc 0 (u_res u) (u_time u) (u_post u) /\
  u_time u <= Z.max 0 tc /\
  match u_put u with
  | Some put => exists t1, t1 <= Z.max 0 tc /\ sends_cancel_post tc t1 (u_res u) (u_time u) put
  | None => True
  end.
Proof.
  unfold blob_push_gen.
  assert (Hpost : let post := if authc then auth_do_at false p (Some (tc, dl)) no_body sc 0
                              else plain_do_at p (Some (tc, dl)) no_body sc 0 in
                  sends_cancel_post tc 0 (a_res post) (a_time post) post).
  { destruct authc; [apply auth_do_at_cancel|apply plain_do_at_cancel]. }
  cbv zeta in Hpost.
  set (post := if authc then auth_do_at false p (Some (tc, dl)) no_body sc 0
               else plain_do_at p (Some (tc, dl)) no_body sc 0) in *.
  destruct (accepted (a_res post)) eqn:Hacc; cbn [u_res u_time u_post u_put].
  2:{ split; [exact Hpost|]. split; [|exact I]. destruct Hpost as (_ & _ & _ & T & _). exact T. }
  pose proof (sends_pauses_done _ _ _ Hpost (accepted_not_ctx _ Hacc)) as Dp.
  destruct Hpost as (A1 & A2 & A3 & Tp & _).
  set (sc' := skipn (length (auth_attempts post)) sc).
  assert (Hput : let put := if authc && negb (warm0 || match attempts (a_second post) with [] => false | _ :: _ => true end)
                            then auth_do_at false p (Some (tc, dl)) bd sc' (a_time post)
                            else plain_do_at p (Some (tc, dl)) bd sc' (a_time post) in
                 sends_cancel_post tc (a_time post) (a_res put) (a_time put) put).
  { destruct (authc && negb (warm0 || match attempts (a_second post) with [] => false | _ :: _ => true end));
      [apply auth_do_at_cancel|apply plain_do_at_cancel]. }
  cbv zeta in Hput.
  set (put := if authc && negb (warm0 || match attempts (a_second post) with [] => false | _ :: _ => true end)
              then auth_do_at false p (Some (tc, dl)) bd sc' (a_time post)
              else plain_do_at p (Some (tc, dl)) bd sc' (a_time post)) in *.
  split; [|split].
  - repeat split; auto. apply pauses_done_weaken. exact Dp.
  - destruct Hput as (_ & _ & _ & T & _). lia.
  - exists (a_time post). split; [exact Tp|exact Hput].
Qed.

(* ------------------------------------------------------------------ *)
(* auth.Client.Do started anywhere in a script, and blobStore.Push on top *)

Lemma auth_do_at_bodies_gen warm p cn bd sc0 base t0 :
  wf_body bd ->
  let a := auth_do_at warm p cn bd (skipn base sc0) t0 in
  bodies_ok bd sc0 base (auth_attempts a).
Proof.
  intro Hwf. unfold auth_do_at, auth_attempts.
  destruct (round_trip_bodies_gen p cn bd sc0 base (init_state bd) t0 Hwf eq_refl) as (B1 & S1 & N1).
  set (o1 := round_trip p cn bd (init_state bd) (skipn base sc0) t0) in *.
  destruct (challenged (o_res o1)); [|cbn [a_first a_second a_third attempts]; rewrite !app_nil_r; exact B1].
  destruct (rewind bd (o_st o1)) as [st2| |] eqn:Hrw; cbn [a_first a_second a_third attempts];
    try (rewrite !app_nil_r; exact B1).
  assert (Hf : s_rest st2 = bdata bd) by (eapply rewind_fresh; eauto).
  rewrite S1.
  destruct (round_trip_bodies_gen p cn bd sc0 (base + length (attempts (o_trace o1))) st2 (o_time o1) Hwf Hf)
    as (B2 & S2 & N2).
  set (o2 := round_trip p cn bd st2 (skipn (base + length (attempts (o_trace o1))) sc0) (o_time o1)) in *.
  destruct (warm && bearer_challenged (o_res o1) && unauthorized (o_res o2)).
  2:{ cbn [a_first a_second a_third attempts]. rewrite app_nil_r. apply bodies_ok_app; assumption. }
  destruct (rewind bd (o_st o2)) as [st3| |] eqn:Hrw2; cbn [a_first a_second a_third attempts];
    try (rewrite app_nil_r; apply bodies_ok_app; assumption).
  assert (Hf3 : s_rest st3 = bdata bd) by (eapply rewind_fresh; eauto).
  rewrite S2.
  destruct (round_trip_bodies_gen p cn bd sc0
              (base + length (attempts (o_trace o1)) + length (attempts (o_trace o2))) st3 (o_time o2) Hwf Hf3)
    as (B3 & _ & _).
  apply bodies_ok_app; [exact B1|]. apply bodies_ok_app; [exact B2|exact B3].
Qed.

Lemma plain_do_at_bodies_gen p cn bd sc0 base t0 :
  wf_body bd ->
  bodies_ok bd sc0 base (auth_attempts (plain_do_at p cn bd (skipn base sc0) t0)).
Proof.
  intro Hwf. unfold plain_do_at, auth_attempts. cbn [a_first a_second a_third attempts].
  rewrite !app_nil_r.
  destruct (round_trip_bodies_gen p cn bd sc0 base (init_state bd) t0 Hwf eq_refl) as (B1 & _ & _).
  exact B1.
Qed.

(* blob push: every request of the PUT -- first attempt, retries, re-send after a challenge --
   carries the blob as far as the registry reads it; the script position of the PUT's
   requests starts after the POST's *)
Lemma blob_push_bodies authc warm0 p cn bd sc :
  wf_body bd ->
  match u_put (blob_push_gen authc warm0 p cn bd sc) with
  | Some put => bodies_ok bd sc (length (auth_attempts (u_post (blob_push_gen authc warm0 p cn bd sc)))) (auth_attempts put)
  | None => True
  end.
Proof.
  intro Hwf. unfold blob_push_gen.
  set (post := if authc then auth_do_at false p cn no_body sc 0 else plain_do_at p cn no_body sc 0).
  destruct (accepted (a_res post)); cbn [u_put u_post]; [|exact I].
  destruct (authc && negb (warm0 || match attempts (a_second post) with [] => false | _ :: _ => true end)).
  - apply auth_do_at_bodies_gen. exact Hwf.
  - apply plain_do_at_bodies_gen. exact Hwf.
Qed.

(* a one-shot blob is sent once by the PUT; nothing truncated is ever re-sent *)
Lemma blob_push_not_replayable authc warm0 p cn bd sc :
  (forall st', rewind bd st' = RwNoGetBody \/ rewind bd st' = RwGetBodyErr) ->
  match u_put (blob_push_gen authc warm0 p cn bd sc) with
  | Some put => length (auth_attempts put) = 1%nat
  | None => True
  end.
Proof.
  intro Hrw. unfold blob_push_gen.
  set (post := if authc then auth_do_at false p cn no_body sc 0 else plain_do_at p cn no_body sc 0).
  destruct (accepted (a_res post)); cbn [u_put]; [|exact I].
  set (sc' := skipn (length (auth_attempts post)) sc).
  destruct (round_trip_not_replayable p cn bd (init_state bd) sc' (a_time post) Hrw)
    as (bh & sc'' & got & st1 & o & t1 & _ & _ & Htr & _).
  destruct (authc && negb (warm0 || match attempts (a_second post) with [] => false | _ :: _ => true end)).
  - unfold auth_do_at, auth_attempts.
    set (o1 := round_trip p cn bd (init_state bd) sc' (a_time post)) in *.
    destruct (challenged (o_res o1)).
    + destruct (Hrw (o_st o1)) as [E|E]; rewrite E; cbn [a_first a_second a_third attempts];
        rewrite Htr; reflexivity.
    + cbn [a_first a_second a_third attempts]. rewrite Htr. reflexivity.
  - unfold plain_do_at, auth_attempts. cbn [a_first a_second a_third attempts]. rewrite Htr. reflexivity.
Qed.

(* ------------------------------------------------------------------ *)
(* "Non-retryable answers are returned at once", on the whole trace (no cancellation):
   every answer but the last was retryable for the policy's predicate, and the call returns
   the last answer (or the predicate's error for it, or the backoff's panic) *)

Lemma serve_none bd st bh t :
  exists got st1, serve None bd st bh t = (got, st1, b_out bh, t + b_lat bh).
Proof.
  unfold serve. destruct (take_body (b_read bh) (s_rest st)) as [g r]. cbn. eauto.
Qed.

Lemma pause_cancelled_none x : pause_cancelled None x = false.
Proof. unfold pause_cancelled, pause_cancelled_gen. destruct rt_checks_ctx_after_timer; reflexivity. Qed.

Definition last_answer (sc : list beh) (n : nat) : outcome := b_out (nth (n - 1) sc default_beh).

Lemma round_trip_stops_at_first_nonretryable p bd st sc t :
  let out := round_trip p None bd st sc t in
  let n := length (attempts (o_trace out)) in
  (forall i, (S i < n)%nat -> p_pred p (b_out (nth i sc default_beh)) = PRetry) /\
  (1 <= n)%nat /\
  (o_res out = result_of_outcome (last_answer sc n) \/ o_res out = fail_result (last_answer sc n) \/
   o_res out = RPanic).
Proof.
  apply (round_trip_inv p None bd
     (fun _ sc' _ _ tr => sc' = skipn (length (attempts tr)) sc /\
                          forall i, (i < length (attempts tr))%nat -> p_pred p (b_out (nth i sc default_beh)) = PRetry)
     (fun o => let n := length (attempts (o_trace o)) in
               (forall i, (S i < n)%nat -> p_pred p (b_out (nth i sc default_beh)) = PRetry) /\
               (1 <= n)%nat /\
               (o_res o = result_of_outcome (last_answer sc n) \/ o_res o = fail_result (last_answer sc n) \/
                o_res o = RPanic))).
  2:{ split; [reflexivity|]. intros i Hi. cbn in Hi. lia. }
  intros st0 sc0 t0 a tr (Hsc & Hpre) _.
  pose proof (rt_step_spec p None bd st0 sc0 t0 a tr) as H.
  assert (Hlen : forall got, length (attempts tr ++ [(t0, got)]) = S (length (attempts tr)))
    by (intro got; rewrite app_length; cbn; lia).
  inversion H; subst; cbn [o_trace o_res];
    rewrite ?attempts_app; cbn [attempts]; rewrite ?app_nil_r; cbv zeta; rewrite ?Hlen;
    match goal with Hn : next_beh _ = _, Hs : serve _ _ _ _ _ = _ |- _ =>
      rewrite next_beh_skipn in Hn; injection Hn as <- <-;
      destruct (serve_none bd st0 (nth (length (attempts tr)) sc default_beh) t0) as (g' & s' & Hs');
      rewrite Hs' in Hs; injection Hs as <- <- <- <- end;
    unfold last_answer; replace (S (length (attempts tr)) - 1)%nat with (length (attempts tr)) by lia.
  - split; [intros i Hi; apply Hpre; lia|]. split; [lia|]. auto.
  - split; [intros i Hi; apply Hpre; lia|]. split; [lia|]. auto.
  - split; [intros i Hi; apply Hpre; lia|]. split; [lia|]. auto.
  - match goal with Hc : pause_cancelled None _ = true |- _ => rewrite pause_cancelled_none in Hc; discriminate end.
  - split.
    + reflexivity.
    + intros i Hi.
      destruct (Nat.eq_dec i (length (attempts tr))) as [->|Hne]; [|apply Hpre; lia].
      match goal with Hg : generic_retry _ _ _ = DWait _ |- _ => apply generic_retry_wait_lt in Hg; apply Hg end.
Qed.

(* an ill-formed policy (MinWait > MaxWait): every pause is MaxWait *)
Lemma generic_retry_min_gt_max p attempt o d :
  p_max p < p_min p -> generic_retry p attempt o = DWait d -> d = p_max p.
Proof.
  intro H. unfold generic_retry, generated_retry.
  destruct (attempt >=? p_max_retry p); [discriminate|].
  destruct (p_pred p o); try discriminate.
  destruct (p_backoff p attempt o) as [x|]; [|discriminate].
  intro E. injection E as <-. unfold clamp.
  destruct (x <? p_min p) eqn:E1.
  - destruct (p_min p >? p_max p) eqn:E2; lia.
  - destruct (x >? p_max p) eqn:E2; lia.
Qed.

(* ------------------------------------------------------------------ *)
(* The token request of a Bearer challenge, and auth.Client.Do with it spelled out *)

Lemma fetch_token_attempts p cn tb tsc t0 :
  1 <= Z.of_nat (length (attempts (k_trace (fetch_token p cn tb tsc t0)))) <= maxr p + 1.
Proof. unfold fetch_token. cbn [k_trace]. apply round_trip_attempts. Qed.

(* every attempt of the token request carries the whole form (as far as the service reads it) *)
Lemma fetch_token_bodies_gen p cn tb tsc0 kbase t0 :
  wf_body tb -> bodies_ok tb tsc0 kbase (attempts (k_trace (fetch_token p cn tb (skipn kbase tsc0) t0))).
Proof.
  intro Hwf. unfold fetch_token. cbn [k_trace].
  destruct (round_trip_bodies_gen p cn tb tsc0 kbase (init_state tb) t0 Hwf eq_refl) as (B & _). exact B.
Qed.

Lemma fetch_token_bodies p cn tb tsc t0 :
  wf_body tb -> bodies_ok tb tsc 0 (attempts (k_trace (fetch_token p cn tb tsc t0))).
Proof. exact (fetch_token_bodies_gen p cn tb tsc 0%nat t0). Qed.

Lemma token_ok_not_ctx r : token_ok r = true -> r <> RCtx.
Proof. destruct r; cbn; congruence. Qed.
Lemma token_error_ctx r : r = RCtx -> token_error r = RCtx.
Proof. intros ->. reflexivity. Qed.

Lemma auth_do_tok_at_attempts p cn bd sc tb tsc t0 :
  let a := auth_do_tok_at p cn bd sc tb tsc t0 in
  1 <= Z.of_nat (length (attempts (ak_first a))) <= maxr p + 1 /\
  Z.of_nat (length (attempts (ak_token a))) <= maxr p + 1 /\
  Z.of_nat (length (attempts (ak_second a))) <= maxr p + 1.
Proof.
  unfold auth_do_tok_at.
  pose proof (round_trip_attempts p cn bd (init_state bd) sc t0) as H1. cbv zeta in H1.
  set (o1 := round_trip p cn bd (init_state bd) sc t0) in *.
  assert (Hm : 0 <= maxr p + 1) by (unfold maxr; lia).
  destruct (challenged (o_res o1));
    [|cbn [ak_first ak_token ak_second attempts length]; repeat split; try apply H1; exact Hm].
  assert (Hk : Z.of_nat (length (attempts (k_trace
             (if bearer_challenged (o_res o1) then fetch_token p cn tb tsc (o_time o1)
              else mkTok true (o_res o1) [] (o_time o1) tsc)))) <= maxr p + 1).
  { destruct (bearer_challenged (o_res o1)); [apply fetch_token_attempts|cbn; exact Hm]. }
  set (k := if bearer_challenged (o_res o1) then fetch_token p cn tb tsc (o_time o1)
            else mkTok true (o_res o1) [] (o_time o1) tsc) in *.
  destruct (k_ok k); [|cbn [ak_first ak_token ak_second attempts length]; repeat split; try apply H1; auto].
  destruct (rewind bd (o_st o1)) as [st2| |]; cbn [ak_first ak_token ak_second attempts length];
    try (repeat split; try apply H1; auto).
  pose proof (round_trip_attempts p cn bd st2 (o_script o1) (k_time k)) as H2. cbv zeta in H2. apply H2.
Qed.

Lemma auth_do_tok_attempts p cn bd sc tb tsc :
  let a := auth_do_tok p cn bd sc tb tsc in
  1 <= Z.of_nat (length (attempts (ak_first a))) <= maxr p + 1 /\
  Z.of_nat (length (attempts (ak_token a))) <= maxr p + 1 /\
  Z.of_nat (length (attempts (ak_second a))) <= maxr p + 1.
Proof. exact (auth_do_tok_at_attempts p cn bd sc tb tsc 0). Qed.

(* the registry's requests: first send and re-send carry the whole body; the token service's
   requests carry the whole form ([base], [kbase]: requests the registry / the token service
   saw before) *)
Lemma auth_do_tok_at_bodies_gen p cn bd sc0 base tb tsc0 kbase t0 :
  wf_body bd -> wf_body tb ->
  let a := auth_do_tok_at p cn bd (skipn base sc0) tb (skipn kbase tsc0) t0 in
  bodies_ok bd sc0 base (attempts (ak_first a) ++ attempts (ak_second a)) /\
  bodies_ok tb tsc0 kbase (attempts (ak_token a)).
Proof.
  intros Hwf Hwt. unfold auth_do_tok_at.
  destruct (round_trip_bodies_gen p cn bd sc0 base (init_state bd) t0 Hwf eq_refl) as (B1 & S1 & N1).
  set (sc := skipn base sc0) in *. set (tsc := skipn kbase tsc0) in *.
  set (o1 := round_trip p cn bd (init_state bd) sc t0) in *.
  assert (Hnil : bodies_ok tb tsc0 kbase []) by (intros i t g Hi; destruct i; discriminate).
  destruct (challenged (o_res o1));
    [|cbn [ak_first ak_token ak_second attempts]; rewrite app_nil_r; split; assumption].
  assert (Hk : bodies_ok tb tsc0 kbase (attempts (k_trace
             (if bearer_challenged (o_res o1) then fetch_token p cn tb tsc (o_time o1)
              else mkTok true (o_res o1) [] (o_time o1) tsc)))).
  { destruct (bearer_challenged (o_res o1)); [apply fetch_token_bodies_gen; exact Hwt|exact Hnil]. }
  set (k := if bearer_challenged (o_res o1) then fetch_token p cn tb tsc (o_time o1)
            else mkTok true (o_res o1) [] (o_time o1) tsc) in *.
  destruct (k_ok k); [|cbn [ak_first ak_token ak_second attempts]; rewrite app_nil_r; split; assumption].
  destruct (rewind bd (o_st o1)) as [st2| |] eqn:Hrw; cbn [ak_first ak_token ak_second attempts];
    try (rewrite app_nil_r; split; assumption).
  assert (Hf : s_rest st2 = bdata bd) by (eapply rewind_fresh; eauto).
  rewrite S1.
  destruct (round_trip_bodies_gen p cn bd sc0 (base + length (attempts (o_trace o1))) st2 (k_time k) Hwf Hf)
    as (B2 & _ & _).
  split; [apply bodies_ok_app; assumption|exact Hk].
Qed.

Lemma auth_do_tok_bodies p cn bd sc tb tsc :
  wf_body bd -> wf_body tb ->
  let a := auth_do_tok p cn bd sc tb tsc in
  bodies_ok bd sc 0 (attempts (ak_first a) ++ attempts (ak_second a)) /\
  bodies_ok tb tsc 0 (attempts (ak_token a)).
Proof. exact (auth_do_tok_at_bodies_gen p cn bd sc 0%nat tb tsc 0%nat 0). Qed.

(* a body that cannot be replayed: one request to the registry, whatever the token service does *)
Lemma auth_do_tok_at_not_replayable p cn bd sc tb tsc t0 :
  (forall st', rewind bd st' = RwNoGetBody \/ rewind bd st' = RwGetBodyErr) ->
  let a := auth_do_tok_at p cn bd sc tb tsc t0 in
  length (attempts (ak_first a)) = 1%nat /\ ak_second a = [].
Proof.
  intro Hrw. unfold auth_do_tok_at.
  destruct (round_trip_not_replayable p cn bd (init_state bd) sc t0 Hrw)
    as (bh & sc' & got & st1 & o & t1 & _ & _ & Htr & _).
  set (o1 := round_trip p cn bd (init_state bd) sc t0) in *.
  destruct (challenged (o_res o1)); [|cbn [ak_first ak_second]; rewrite Htr; auto].
  destruct (k_ok _); [|cbn [ak_first ak_second]; rewrite Htr; auto].
  destruct (Hrw (o_st o1)) as [E|E]; rewrite E; cbn [ak_first ak_second]; rewrite Htr; auto.
Qed.

Lemma auth_do_tok_not_replayable p cn bd sc tb tsc :
  (forall st', rewind bd st' = RwNoGetBody \/ rewind bd st' = RwGetBodyErr) ->
  let a := auth_do_tok p cn bd sc tb tsc in
  length (attempts (ak_first a)) = 1%nat /\ ak_second a = [].
Proof. exact (auth_do_tok_at_not_replayable p cn bd sc tb tsc 0). Qed.

(* cancellation: in every send to the registry and in the token request every attempt but the
   first starts before the context ends; the call is over when the context ends; a pause of
   any of them that the context ends in ends Do with the context's error at that instant *)
Definition authk_cancel_post_at (tc t0 : Z) (res : result) (time : Z) (a : authk_out) : Prop :=
  Forall (fun x => fst x < tc) (tl (attempts (ak_first a))) /\
  Forall (fun x => fst x < tc) (tl (attempts (ak_token a))) /\
  Forall (fun x => fst x < tc) (tl (attempts (ak_second a))) /\
  ak_time a <= Z.max t0 tc /\
  Forall (fun pd => fst pd + snd pd < tc \/ (res = RCtx /\ time = Z.max (fst pd) tc))
         (pauses (ak_first a) ++ pauses (ak_token a) ++ pauses (ak_second a)).

Definition authk_cancel_post (tc : Z) (a : authk_out) : Prop :=
  Forall (fun x => fst x < tc) (tl (attempts (ak_first a))) /\
  Forall (fun x => fst x < tc) (tl (attempts (ak_token a))) /\
  Forall (fun x => fst x < tc) (tl (attempts (ak_second a))) /\
  ak_time a <= Z.max 0 tc /\
  Forall (fun pd => fst pd + snd pd < tc \/ (ak_res a = RCtx /\ ak_time a = Z.max (fst pd) tc))
         (pauses (ak_first a) ++ pauses (ak_token a) ++ pauses (ak_second a)).

Lemma auth_do_tok_at_cancel p bd sc tb tsc t0 tc dl :
  let a := auth_do_tok_at p (Some (tc, dl)) bd sc tb tsc t0 in
  authk_cancel_post_at tc t0 (ak_res a) (ak_time a) a.
Proof.
  unfold auth_do_tok_at, authk_cancel_post_at.
  pose proof (round_trip_cancel p bd (init_state bd) sc t0 tc dl) as C1.
  set (o1 := round_trip p (Some (tc, dl)) bd (init_state bd) sc t0) in *.
  destruct (challenged (o_res o1)) eqn:Hch.
  2:{ cbn [ak_first ak_token ak_second ak_res ak_time attempts pauses tl]. rewrite !app_nil_r.
      destruct C1 as (A1 & T1 & P1 & _). repeat split; auto. }
  pose proof (cancel_post_pauses_done _ _ _ C1 (challenged_not_ctx _ Hch)) as D1.
  destruct C1 as (A1 & T1 & _ & _).
  destruct (bearer_challenged (o_res o1)).
  - (* token request *)
    unfold fetch_token.
    pose proof (round_trip_cancel p tb (init_state tb) tsc (o_time o1) tc dl) as CK.
    set (ok := round_trip p (Some (tc, dl)) tb (init_state tb) tsc (o_time o1)) in *.
    cbn [k_ok k_res k_trace k_time].
    destruct (token_ok (o_res ok)) eqn:Hok.
    + pose proof (cancel_post_pauses_done _ _ _ CK (token_ok_not_ctx _ Hok)) as DK.
      destruct CK as (AK & TK & _ & _).
      destruct (rewind bd (o_st o1)) as [st2| |];
        cbn [ak_first ak_token ak_second ak_res ak_time attempts pauses tl]; rewrite ?app_nil_r;
        try (repeat split; auto; [lia|apply Forall_app; split; apply pauses_done_weaken; assumption]).
      destruct (round_trip_cancel p bd st2 (o_script o1) (o_time ok) tc dl) as (A2 & T2 & P2 & _).
      repeat split; auto; [lia|].
      apply Forall_app. split; [apply pauses_done_weaken; exact D1|].
      apply Forall_app. split; [apply pauses_done_weaken; exact DK|exact P2].
    + cbn [ak_first ak_token ak_second ak_res ak_time attempts pauses tl]. rewrite app_nil_r.
      destruct CK as (AK & TK & PK & _).
      repeat split; auto; [lia|].
      apply Forall_app. split; [apply pauses_done_weaken; exact D1|].
      eapply Forall_impl; [|exact PK]. intros pd [A|[A B]]; [left; exact A|right].
      split; [apply token_error_ctx; exact A|exact B].
  - cbn [k_ok k_res k_trace k_time].
    destruct (rewind bd (o_st o1)) as [st2| |];
      cbn [ak_first ak_token ak_second ak_res ak_time attempts pauses tl]; rewrite ?app_nil_r;
      try (repeat split; auto; apply pauses_done_weaken; exact D1).
    destruct (round_trip_cancel p bd st2 (o_script o1) (o_time o1) tc dl) as (A2 & T2 & P2 & _).
    repeat split; auto; [lia|].
    apply Forall_app. split; [apply pauses_done_weaken; exact D1|exact P2].
Qed.

Lemma auth_do_tok_cancel p bd sc tb tsc tc dl :
  authk_cancel_post tc (auth_do_tok p (Some (tc, dl)) bd sc tb tsc).
Proof. exact (auth_do_tok_at_cancel p bd sc tb tsc 0 tc dl). Qed.

(* the model used so far (token request served at once) is this one with a token service
   that answers 200 immediately, for a policy that does not retry that answer *)
Lemma generic_retry_stop p attempt o : p_pred p o = PStop -> generic_retry p attempt o = DStop.
Proof. intro H. unfold generic_retry, generated_retry. destruct (attempt >=? p_max_retry p); [reflexivity|]. now rewrite H. Qed.

Lemma auth_do_tok_instant p bd sc tb :
  p_pred p (OStatus 200 [] 0%N) = PStop ->
  let a := auth_do false p None bd sc in
  let k := auth_do_tok p None bd sc tb [] in
  ak_res k = a_res a /\ ak_first k = a_first a /\ ak_second k = a_second a /\ ak_time k = a_time a.
Proof.
  intro Hp. unfold auth_do, auth_do_at, auth_do_tok, auth_do_tok_at.
  set (o1 := round_trip p None bd (init_state bd) sc 0).
  destruct (challenged (o_res o1)); [|cbn; auto].
  assert (Hk : forall t0, k_ok (fetch_token p None tb [] t0) = true /\ k_time (fetch_token p None tb [] t0) = t0).
  { intro t0. unfold fetch_token, round_trip, rt_fuel. cbn [rt_loop]. unfold rt_step. cbn [next_beh].
    destruct (serve_none tb (init_state tb) default_beh t0) as (g & s1 & Hs). rewrite Hs.
    cbn [b_out default_beh]. rewrite (generic_retry_stop p 0 _ Hp).
    cbn [k_ok k_time o_res o_time result_of_outcome token_ok b_lat default_beh]. split; [reflexivity|lia]. }
  destruct (bearer_challenged (o_res o1)).
  - destruct (Hk (o_time o1)) as (-> & ->).
    destruct (rewind bd (o_st o1)); cbn; auto.
  - cbn [k_ok k_time]. destruct (rewind bd (o_st o1)); cbn; auto.
Qed.

(* ------------------------------------------------------------------ *)
(* Refinement: Transport.RoundTrip (with its request state, script threading and trace) computes
   exactly the stateless specification spec_send, for replayable bodies and no cancellation *)

Definition replayable (bd : body) : Prop := bk bd = KReplay \/ bk bd = KNone.

Lemma serve_none_eq bd st bh t :
  serve None bd st bh t =
  (fst (take_body (b_read bh) (s_rest st)), mkSt (snd (take_body (b_read bh) (s_rest st))) (s_calls st),
   b_out bh, t + b_lat bh).
Proof. unfold serve. destruct (take_body (b_read bh) (s_rest st)) as [g r]. reflexivity. Qed.

Lemma rt_rewind_replayable bd st :
  wf_body bd -> replayable bd -> s_rest st = [] \/ bk bd = KReplay ->
  exists st2, rt_rewind bd st = RwOk st2 /\ s_rest st2 = bdata bd.
Proof.
  intros Hwf [H|H] Hs; rewrite rt_rewind_eq; unfold rt_rewind_closed, rewind_closed; rewrite H.
  - eexists; split; reflexivity.
  - exists st. split; [reflexivity|]. destruct Hs as [Hs|Hs]; [|congruence].
    rewrite Hs. symmetry. apply Hwf. left. exact H.
Qed.

Lemma serve_eq cn bd st bh t :
  serve cn bd st bh t =
  (fst (take_body (b_read bh) (s_rest st)), mkSt (snd (take_body (b_read bh) (s_rest st))) (s_calls st),
   (if ended_at cn t || cancelled_before cn (t + b_lat bh) then cancel_outcome cn else b_out bh),
   (if ended_at cn t || cancelled_before cn (t + b_lat bh) then cancel_clock cn t else t + b_lat bh)).
Proof.
  unfold serve. destruct (take_body (b_read bh) (s_rest st)) as [g r].
  destruct (ended_at cn t || cancelled_before cn (t + b_lat bh)); reflexivity.
Qed.

(* with any context: the loop computes the specification with cancellation *)
Lemma rt_loop_spec_c p cn bd sc : wf_body bd -> replayable bd ->
  forall fuel i st t tr, s_rest st = bdata bd ->
    let out := rt_loop fuel p cn bd st (skipn i sc) t (Z.of_nat i) tr in
    o_res out = fst (fst (spec_run_c p cn bd sc t i fuel)) /\
    o_time out = snd (fst (spec_run_c p cn bd sc t i fuel)) /\
    attempts (o_trace out) = attempts tr ++ snd (spec_run_c p cn bd sc t i fuel).
Proof.
  intros Hwf Hrep. induction fuel as [|fuel IH]; intros i st t tr Hst.
  - cbn. rewrite app_nil_r. auto.
  - cbn [rt_loop spec_run_c]. unfold rt_step. rewrite next_beh_skipn, serve_eq, Hst.
    set (bh := nth i sc default_beh).
    set (got := fst (take_body (b_read bh) (bdata bd))).
    set (o := if ended_at cn t || cancelled_before cn (t + b_lat bh) then cancel_outcome cn else b_out bh).
    set (t1 := if ended_at cn t || cancelled_before cn (t + b_lat bh) then cancel_clock cn t else t + b_lat bh).
    destruct (generic_retry p (Z.of_nat i) o) as [| |d|] eqn:Hg;
      try (cbn [o_res o_time o_trace fst snd]; rewrite attempts_app; cbn [attempts]; auto).
    destruct (d <? 0) eqn:Hd;
      [cbn [o_res o_time o_trace fst snd]; rewrite attempts_app; cbn [attempts]; auto|].
    destruct (rt_rewind_replayable bd
                (mkSt (snd (take_body (b_read bh) (bdata bd))) (s_calls st)) Hwf Hrep) as (st2 & Hrw & Hfresh).
    { destruct Hrep as [Hr|Hr]; [right; exact Hr|left]. cbn [s_rest].
      rewrite (Hwf (or_introl Hr)), take_body_nil. reflexivity. }
    rewrite Hrw.
    destruct (pause_cancelled cn (t1 + d)).
    + cbn [o_res o_time o_trace fst snd]. rewrite !attempts_app. cbn [attempts]. rewrite app_nil_r. auto.
    + replace (Z.of_nat i + 1) with (Z.of_nat (S i)) by lia.
      specialize (IH (S i) st2 (t1 + d) ((tr ++ [EAttempt t got]) ++ [EPause t1 d]) Hfresh).
      cbv zeta in IH. destruct IH as (R & T & A).
      destruct (spec_run_c p cn bd sc (t1 + d) (S i) fuel) as [[r te] l].
      cbn [fst snd] in *. rewrite R, T, A. rewrite !attempts_app. cbn [attempts]. rewrite app_nil_r, <- app_assoc.
      auto.
Qed.

Lemma round_trip_refines_spec_c_st p cn bd sc t st :
  wf_body bd -> replayable bd -> s_rest st = bdata bd ->
  let out := round_trip p cn bd st sc t in
  (o_res out, o_time out, attempts (o_trace out)) = spec_send_c p cn bd sc t.
Proof.
  intros Hwf Hrep Hst. unfold round_trip, spec_send_c.
  destruct (rt_loop_spec_c p cn bd sc Hwf Hrep (rt_fuel p) 0%nat st t [] Hst) as (R & T & A).
  cbn [skipn Z.of_nat app] in *. rewrite R, T, A.
  destruct (spec_run_c p cn bd sc t 0 (rt_fuel p)) as [[r te] l]. reflexivity.
Qed.

(* for every context (never ending, ending at any instant, over before the call) *)
Lemma round_trip_refines_spec_c p cn bd sc t :
  wf_body bd -> replayable bd ->
  let out := round_trip p cn bd (init_state bd) sc t in
  (o_res out, o_time out, attempts (o_trace out)) = spec_send_c p cn bd sc t.
Proof. intros Hwf Hrep. apply round_trip_refines_spec_c_st; auto. Qed.

Lemma round_trip_refines_spec p bd sc t :
  wf_body bd -> replayable bd ->
  let out := round_trip p None bd (init_state bd) sc t in
  (o_res out, o_time out, attempts (o_trace out)) = spec_send p bd sc t.
Proof. exact (round_trip_refines_spec_c p None bd sc t). Qed.

(* the arithmetic of ExponentialBackoff as translated from the source, in closed form *)
Lemma exp_arith_eq e attempt :
  exp_temp e attempt = (inject_Z (e_base e) * Qpower (e_factor e) attempt)%Q /\
  exp_a e attempt = (exp_temp e attempt * (1 - e_jitter e))%Q /\
  exp_n e attempt = ((2 # 1) * e_jitter e * exp_temp e attempt)%Q /\
  generated_backoff_retry_after_status = 429 /\ generated_backoff_retry_after_unit = 1000000000 /\
  (forall ra, generated_backoff_retry_after_ok ra = (ra >? 0)).
Proof. repeat split; reflexivity. Qed.

(* ------------------------------------------------------------------ *)
(* Refinement of the whole auth stack to the stateless specification *)

Lemma round_trip_refines_spec_st p bd sc t st :
  wf_body bd -> replayable bd -> s_rest st = bdata bd ->
  let out := round_trip p None bd st sc t in
  (o_res out, o_time out, attempts (o_trace out)) = spec_send p bd sc t.
Proof. exact (round_trip_refines_spec_c_st p None bd sc t st). Qed.

Lemma rewind_replayable bd st :
  wf_body bd -> replayable bd -> (bk bd = KNone \/ bk bd = KNoBody -> s_rest st = []) ->
  exists st2, rewind bd st = RwOk st2 /\ s_rest st2 = bdata bd.
Proof.
  intros Hwf [H|H] Hs; rewrite rewind_eq; unfold rewind_closed; rewrite H.
  - eexists; split; reflexivity.
  - exists st. split; [reflexivity|]. rewrite Hs by (left; exact H). symmetry. apply Hwf. left. exact H.
Qed.

Lemma auth_do_tok_at_refines_spec_c p cn bd sc tb tsc t0 :
  wf_body bd -> replayable bd -> wf_body tb -> replayable tb ->
  let a := auth_do_tok_at p cn bd sc tb tsc t0 in
  (ak_res a, ak_time a, attempts (ak_first a), attempts (ak_token a), attempts (ak_second a))
  = spec_auth_at_c p cn bd sc tb tsc t0.
Proof.
  intros Hwf Hrep Hwt Hrt. unfold auth_do_tok_at, spec_auth_at_c.
  pose proof (round_trip_refines_spec_c_st p cn bd sc t0 (init_state bd) Hwf Hrep eq_refl) as E1. cbv zeta in E1.
  destruct (round_trip_bodies_gen p cn bd sc 0%nat (init_state bd) t0 Hwf eq_refl) as (_ & S1 & N1).
  cbn [skipn Nat.add] in S1, N1.
  set (o1 := round_trip p cn bd (init_state bd) sc t0) in *.
  destruct (spec_send_c p cn bd sc t0) as [[r1 t1] l1]. injection E1 as Er Et El. rewrite Er.
  destruct (challenged r1); [|cbn [ak_res ak_time ak_first ak_token ak_second attempts]; congruence].
  destruct (rewind_replayable bd (o_st o1) Hwf Hrep N1) as (st2 & Hrw & Hfresh).
  destruct (bearer_challenged r1); cbn [negb orb].
  - unfold fetch_token.
    pose proof (round_trip_refines_spec_c_st p cn tb tsc (o_time o1) (init_state tb) Hwt Hrt eq_refl) as EK. cbv zeta in EK.
    set (ok := round_trip p cn tb (init_state tb) tsc (o_time o1)) in *.
    rewrite <- Et. destruct (spec_send_c p cn tb tsc (o_time o1)) as [[kr kt] kl]. injection EK as Kr Kt Kl.
    cbn [k_ok k_res k_trace k_time]. rewrite Kr.
    destruct (token_ok kr).
    + rewrite Hrw. cbn [ak_res ak_time ak_first ak_token ak_second].
      pose proof (round_trip_refines_spec_c_st p cn bd (o_script o1) (o_time ok) st2 Hwf Hrep Hfresh) as E2. cbv zeta in E2.
      rewrite S1, El, Kt in E2.
      destruct (spec_send_c p cn bd (skipn (length l1) sc) kt) as [[r2 t2] l2]. injection E2 as R2 T2 L2.
      rewrite <- Kt in *. congruence.
    + cbn [ak_res ak_time ak_first ak_token ak_second attempts]. congruence.
  - cbn [k_ok k_time k_trace]. rewrite Hrw. cbn [ak_res ak_time ak_first ak_token ak_second attempts].
    pose proof (round_trip_refines_spec_c_st p cn bd (o_script o1) (o_time o1) st2 Hwf Hrep Hfresh) as E2. cbv zeta in E2.
    rewrite S1, El, Et in E2.
    destruct (spec_send_c p cn bd (skipn (length l1) sc) t1) as [[r2 t2] l2]. injection E2 as R2 T2 L2.
    congruence.
Qed.

Lemma auth_do_tok_at_refines_spec p bd sc tb tsc t0 :
  wf_body bd -> replayable bd -> wf_body tb -> replayable tb ->
  let a := auth_do_tok_at p None bd sc tb tsc t0 in
  (ak_res a, ak_time a, attempts (ak_first a), attempts (ak_token a), attempts (ak_second a))
  = spec_auth_at p bd sc tb tsc t0.
Proof. exact (auth_do_tok_at_refines_spec_c p None bd sc tb tsc t0). Qed.

(* blobStore.Mount declined with 202: the upload reads from an io.ReadCloser (GetBody nil): the
   PUT is exactly one request, whatever the registry answers *)
Lemma mount_fallback_once authc warm0 p cn data sc :
  match u_put (blob_push_gen authc warm0 p cn (mkBody KOneShot data) sc) with
  | Some put => length (auth_attempts put) = 1%nat
  | None => True
  end.
Proof. apply blob_push_not_replayable. apply oneshot_not_replayable. reflexivity. Qed.

(* the status constants the model reads from the sources *)
Lemma status_constants :
  challenge_status = 401 /\ challenge_status_2 = 401 /\ token_ok_status = 200 /\ accepted_status = 202 /\
  fetch_oauth2_status_cmps = fetch_distribution_status_cmps /\
  blob_put_status_cmps = [(1, 201)] /\ manifest_push_status_cmps = [(1, 201)] /\
  blob_mount_status_cmps = [(0, 201); (1, 202)].
Proof. repeat split; reflexivity. Qed.

(* ------------------------------------------------------------------ *)
(* blob push / mount fallback with the token requests spelled out *)

Lemma plain_tok_at_bodies_gen p cn bd sc0 base t0 :
  wf_body bd ->
  bodies_ok bd sc0 base (authk_attempts (plain_tok_at p cn bd (skipn base sc0) t0)).
Proof.
  intro Hwf. unfold plain_tok_at, authk_attempts. cbn [ak_first ak_second attempts]. rewrite app_nil_r.
  destruct (round_trip_bodies_gen p cn bd sc0 base (init_state bd) t0 Hwf eq_refl) as (B1 & _ & _). exact B1.
Qed.

(* every request of the PUT carries the blob as far as the registry reads it, at the script
   position after the POST's requests; every token request of the push (the POST's and the
   PUT's) carries the whole form, at the token service's script position *)
Lemma blob_push_tok_bodies authc p cn bd sc tb tsc :
  wf_body bd -> wf_body tb ->
  let u := blob_push_tok authc p cn bd sc tb tsc in
  bodies_ok tb tsc 0 (attempts (ak_token (uk_post u))) /\
  match uk_put u with
  | Some put =>
    bodies_ok bd sc (length (authk_attempts (uk_post u))) (authk_attempts put) /\
    bodies_ok tb tsc (length (attempts (ak_token (uk_post u)))) (attempts (ak_token put))
  | None => True
  end.
Proof.
  intros Hwf Hwt. unfold blob_push_tok.
  assert (Hnb : wf_body no_body) by (intros _; reflexivity).
  assert (Hnil : forall b, bodies_ok tb tsc b []) by (intros b i t g Hi; destruct i; discriminate).
  assert (Hpost : bodies_ok tb tsc 0 (attempts (ak_token
            (if authc then auth_do_tok_at p cn no_body sc tb tsc 0 else plain_tok_at p cn no_body sc 0)))).
  { destruct authc.
    - exact (proj2 (auth_do_tok_at_bodies_gen p cn no_body sc 0%nat tb tsc 0%nat 0 Hnb Hwt)).
    - cbn [plain_tok_at ak_token attempts]. apply Hnil. }
  set (post := if authc then auth_do_tok_at p cn no_body sc tb tsc 0 else plain_tok_at p cn no_body sc 0) in *.
  destruct (accepted (ak_res post)); cbn [uk_post uk_put]; [|split; [exact Hpost|exact I]].
  split; [exact Hpost|].
  destruct (authc && negb match attempts (ak_second post) with [] => false | _ :: _ => true end).
  - apply auth_do_tok_at_bodies_gen; assumption.
  - split; [apply plain_tok_at_bodies_gen; exact Hwf|].
    cbn [plain_tok_at ak_token attempts]. apply Hnil.
Qed.

(* a blob that cannot be replayed (one-shot reader, mount fallback) goes out in exactly one PUT
   request, whatever registry and token service answer *)
Lemma blob_push_tok_not_replayable authc p cn bd sc tb tsc :
  (forall st', rewind bd st' = RwNoGetBody \/ rewind bd st' = RwGetBodyErr) ->
  match uk_put (blob_push_tok authc p cn bd sc tb tsc) with
  | Some put => length (authk_attempts put) = 1%nat
  | None => True
  end.
Proof.
  intro Hrw. unfold blob_push_tok.
  set (post := if authc then auth_do_tok_at p cn no_body sc tb tsc 0 else plain_tok_at p cn no_body sc 0).
  destruct (accepted (ak_res post)); cbn [uk_put]; [|exact I].
  set (sc' := skipn (length (authk_attempts post)) sc).
  set (tsc' := skipn (length (attempts (ak_token post))) tsc).
  destruct (authc && negb match attempts (ak_second post) with [] => false | _ :: _ => true end).
  - destruct (auth_do_tok_at_not_replayable p cn bd sc' tb tsc' (ak_time post) Hrw) as (L & E).
    unfold authk_attempts. rewrite E. cbn [attempts]. rewrite app_nil_r. exact L.
  - destruct (round_trip_not_replayable p cn bd (init_state bd) sc' (ak_time post) Hrw)
      as (bh & sc'' & got & st1 & o & t1 & _ & _ & Htr & _).
    unfold plain_tok_at, authk_attempts. cbn [ak_first ak_second attempts]. rewrite Htr. reflexivity.
Qed.

Lemma plain_tok_at_cancel p bd sc t0 tc dl :
  let a := plain_tok_at p (Some (tc, dl)) bd sc t0 in
  authk_cancel_post_at tc t0 (ak_res a) (ak_time a) a.
Proof.
  unfold plain_tok_at, authk_cancel_post_at. cbn [ak_first ak_token ak_second ak_res ak_time attempts pauses tl].
  destruct (round_trip_cancel p bd (init_state bd) sc t0 tc dl) as (A1 & T1 & P1 & _).
  rewrite !app_nil_r. repeat split; auto.
Qed.

Lemma authk_pauses_done tc t0 a :
  authk_cancel_post_at tc t0 (ak_res a) (ak_time a) a -> ak_res a <> RCtx ->
  Forall (fun pd => fst pd + snd pd < tc) (pauses (ak_first a) ++ pauses (ak_token a) ++ pauses (ak_second a)).
Proof.
  intros (_ & _ & _ & _ & Hp) Hne. eapply Forall_impl; [|exact Hp].
  intros pd [A|[A _]]; [exact A|congruence].
Qed.

(* cancellation of a push: POST, PUT and both token requests *)
Lemma blob_push_tok_cancel authc p bd sc tb tsc tc dl :
  let u := blob_push_tok authc p (Some (tc, dl)) bd sc tb tsc in
  authk_cancel_post_at tc 0 (uk_res u) (uk_time u) (uk_post u) /\
  uk_time u <= Z.max 0 tc /\
  match uk_put u with
  | Some put => exists t1, t1 <= Z.max 0 tc /\ authk_cancel_post_at tc t1 (uk_res u) (uk_time u) put
  | None => True
  end.
Proof.
  unfold blob_push_tok.
  assert (Hpost : let post := if authc then auth_do_tok_at p (Some (tc, dl)) no_body sc tb tsc 0
                              else plain_tok_at p (Some (tc, dl)) no_body sc 0 in
                  authk_cancel_post_at tc 0 (ak_res post) (ak_time post) post).
  { destruct authc; [apply auth_do_tok_at_cancel|apply plain_tok_at_cancel]. }
  cbv zeta in Hpost.
  set (post := if authc then auth_do_tok_at p (Some (tc, dl)) no_body sc tb tsc 0
               else plain_tok_at p (Some (tc, dl)) no_body sc 0) in *.
  destruct (accepted (ak_res post)) eqn:Hacc; cbn [uk_res uk_time uk_post uk_put].
  2:{ split; [exact Hpost|]. split; [|exact I]. destruct Hpost as (_ & _ & _ & T & _). exact T. }
  pose proof (authk_pauses_done _ _ _ Hpost (accepted_not_ctx _ Hacc)) as Dp.
  destruct Hpost as (A1 & A2 & A3 & Tp & _).
  set (sc' := skipn (length (authk_attempts post)) sc).
  set (tsc' := skipn (length (attempts (ak_token post))) tsc).
  assert (Hput : let put := if authc && negb match attempts (ak_second post) with [] => false | _ :: _ => true end
                            then auth_do_tok_at p (Some (tc, dl)) bd sc' tb tsc' (ak_time post)
                            else plain_tok_at p (Some (tc, dl)) bd sc' (ak_time post) in
                 authk_cancel_post_at tc (ak_time post) (ak_res put) (ak_time put) put).
  { destruct (authc && negb match attempts (ak_second post) with [] => false | _ :: _ => true end);
      [apply auth_do_tok_at_cancel|apply plain_tok_at_cancel]. }
  cbv zeta in Hput.
  set (put := if authc && negb match attempts (ak_second post) with [] => false | _ :: _ => true end
              then auth_do_tok_at p (Some (tc, dl)) bd sc' tb tsc' (ak_time post)
              else plain_tok_at p (Some (tc, dl)) bd sc' (ak_time post)) in *.
  split; [|split].
  - repeat split; auto. apply pauses_done_weaken. exact Dp.
  - destruct Hput as (_ & _ & _ & T & _). lia.
  - exists (ak_time post). split; [exact Tp|exact Hput].
Qed.

Lemma auth_do_tok_refines_spec p bd sc tb tsc :
  wf_body bd -> replayable bd -> wf_body tb -> replayable tb ->
  let a := auth_do_tok p None bd sc tb tsc in
  (ak_res a, ak_time a, attempts (ak_first a), attempts (ak_token a), attempts (ak_second a))
  = spec_auth p bd sc tb tsc.
Proof. exact (fun H1 H2 H3 H4 => auth_do_tok_at_refines_spec p bd sc tb tsc 0 H1 H2 H3 H4). Qed.

Lemma plain_tok_at_refines_spec_c p cn bd sc t0 :
  wf_body bd -> replayable bd ->
  let a := plain_tok_at p cn bd sc t0 in
  (ak_res a, ak_time a, attempts (ak_first a), attempts (ak_token a), attempts (ak_second a))
  = spec_plain_at_c p cn bd sc t0.
Proof.
  intros Hwf Hrep. unfold plain_tok_at, spec_plain_at_c. cbn [ak_res ak_time ak_first ak_token ak_second attempts].
  pose proof (round_trip_refines_spec_c_st p cn bd sc t0 (init_state bd) Hwf Hrep eq_refl) as E. cbv zeta in E.
  destruct (spec_send_c p cn bd sc t0) as [[r t] l]. injection E as -> -> ->. reflexivity.
Qed.

Lemma plain_tok_at_refines_spec p bd sc t0 :
  wf_body bd -> replayable bd ->
  let a := plain_tok_at p None bd sc t0 in
  (ak_res a, ak_time a, attempts (ak_first a), attempts (ak_token a), attempts (ak_second a))
  = spec_plain_at p bd sc t0.
Proof. exact (plain_tok_at_refines_spec_c p None bd sc t0). Qed.

Definition show_authk (a : authk_out) :=
  (ak_res a, ak_time a, attempts (ak_first a), attempts (ak_token a), attempts (ak_second a)).

(* the whole blob push (POST, token requests, PUT) refines the stateless spec_push_c, for every
   context *)
Lemma blob_push_tok_refines_spec_c authc p cn bd sc tb tsc :
  wf_body bd -> replayable bd -> wf_body tb -> replayable tb ->
  let u := blob_push_tok authc p cn bd sc tb tsc in
  (uk_res u, uk_time u, show_authk (uk_post u), option_map show_authk (uk_put u))
  = spec_push_c authc p cn bd sc tb tsc.
Proof.
  intros Hwf Hrep Hwt Hrt. unfold blob_push_tok, spec_push_c.
  assert (Hnb : wf_body no_body) by (intros _; reflexivity).
  assert (Hrn : replayable no_body) by (right; reflexivity).
  assert (Hpost : show_authk (if authc then auth_do_tok_at p cn no_body sc tb tsc 0 else plain_tok_at p cn no_body sc 0)
                  = (if authc then spec_auth_at_c p cn no_body sc tb tsc 0 else spec_plain_at_c p cn no_body sc 0)).
  { destruct authc; [apply auth_do_tok_at_refines_spec_c|apply plain_tok_at_refines_spec_c]; assumption. }
  set (post := if authc then auth_do_tok_at p cn no_body sc tb tsc 0 else plain_tok_at p cn no_body sc 0) in *.
  destruct (if authc then spec_auth_at_c p cn no_body sc tb tsc 0 else spec_plain_at_c p cn no_body sc 0)
    as [[[[r t] l1] kl] l2] eqn:Esp.
  unfold show_authk in Hpost. injection Hpost as Er Et E1 Ek E2.
  rewrite Er. destruct (accepted r); cbn [uk_res uk_time uk_post uk_put option_map].
  2:{ unfold show_authk. congruence. }
  unfold authk_attempts. rewrite E1, E2, Ek, Et.
  set (sc' := skipn (length (l1 ++ l2)) sc). set (tsc' := skipn (length kl) tsc).
  assert (Hput : show_authk (if authc && negb match l2 with [] => false | _ :: _ => true end
                             then auth_do_tok_at p cn bd sc' tb tsc' t else plain_tok_at p cn bd sc' t)
                 = (if authc && negb match l2 with [] => false | _ :: _ => true end
                    then spec_auth_at_c p cn bd sc' tb tsc' t else spec_plain_at_c p cn bd sc' t)).
  { destruct (authc && negb match l2 with [] => false | _ :: _ => true end);
      [apply auth_do_tok_at_refines_spec_c|apply plain_tok_at_refines_spec_c]; assumption. }
  set (put := if authc && negb match l2 with [] => false | _ :: _ => true end
              then auth_do_tok_at p cn bd sc' tb tsc' t else plain_tok_at p cn bd sc' t) in *.
  rewrite <- Hput. unfold show_authk at 2 3. cbn [fst snd].
  unfold show_authk. rewrite Er, Et, E1, Ek, E2. reflexivity.
Qed.

Lemma blob_push_tok_refines_spec authc p bd sc tb tsc :
  wf_body bd -> replayable bd -> wf_body tb -> replayable tb ->
  let u := blob_push_tok authc p None bd sc tb tsc in
  (uk_res u, uk_time u, show_authk (uk_post u), option_map show_authk (uk_put u))
  = spec_push authc p bd sc tb tsc.
Proof. exact (blob_push_tok_refines_spec_c authc p None bd sc tb tsc). Qed.

(* ------------------------------------------------------------------ *)
(* auth.Client.Do with a warm Bearer cache and the token request spelled out *)

Lemma auth_do_tokw_at_attempts p cn bd sc tb tsc t0 :
  let a := auth_do_tokw_at p cn bd sc tb tsc t0 in
  1 <= Z.of_nat (length (attempts (aw_first a))) <= maxr p + 1 /\
  Z.of_nat (length (attempts (aw_second a))) <= maxr p + 1 /\
  Z.of_nat (length (attempts (aw_token a))) <= maxr p + 1 /\
  Z.of_nat (length (attempts (aw_third a))) <= maxr p + 1.
Proof.
  unfold auth_do_tokw_at.
  pose proof (round_trip_attempts p cn bd (init_state bd) sc t0) as H1. cbv zeta in H1.
  set (o1 := round_trip p cn bd (init_state bd) sc t0) in *.
  assert (Hm : 0 <= maxr p + 1) by (unfold maxr; lia).
  destruct (challenged (o_res o1));
    [|cbn [aw_first aw_second aw_token aw_third attempts length]; repeat split; try apply H1; exact Hm].
  destruct (rewind bd (o_st o1)) as [st2| |]; cbn [aw_first aw_second aw_token aw_third attempts length];
    try (repeat split; try apply H1; exact Hm).
  pose proof (round_trip_attempts p cn bd st2 (o_script o1) (o_time o1)) as H2. cbv zeta in H2.
  set (o2 := round_trip p cn bd st2 (o_script o1) (o_time o1)) in *.
  destruct (bearer_challenged (o_res o1) && unauthorized (o_res o2));
    [|cbn [aw_first aw_second aw_token aw_third attempts length]; repeat split; try apply H1; try apply H2; exact Hm].
  pose proof (fetch_token_attempts p cn tb tsc (o_time o2)) as HK.
  set (k := fetch_token p cn tb tsc (o_time o2)) in *.
  destruct (k_ok k);
    [|cbn [aw_first aw_second aw_token aw_third attempts length]; repeat split; try apply H1; try apply H2; try apply HK; exact Hm].
  destruct (rewind bd (o_st o2)) as [st3| |]; cbn [aw_first aw_second aw_token aw_third attempts length];
    try (repeat split; try apply H1; try apply H2; try apply HK; exact Hm).
  pose proof (round_trip_attempts p cn bd st3 (o_script o2) (k_time k)) as H3. cbv zeta in H3.
  repeat split; try apply H1; try apply H2; try apply HK; apply H3.
Qed.

Lemma auth_do_tokw_at_bodies p cn bd sc tb tsc t0 :
  wf_body bd -> wf_body tb ->
  let a := auth_do_tokw_at p cn bd sc tb tsc t0 in
  bodies_ok bd sc 0 (attempts (aw_first a) ++ attempts (aw_second a) ++ attempts (aw_third a)) /\
  bodies_ok tb tsc 0 (attempts (aw_token a)).
Proof.
  intros Hwf Hwt. unfold auth_do_tokw_at.
  destruct (round_trip_bodies_gen p cn bd sc 0%nat (init_state bd) t0 Hwf eq_refl) as (B1 & S1 & N1).
  cbn [skipn] in *.
  set (o1 := round_trip p cn bd (init_state bd) sc t0) in *.
  assert (Hnil : bodies_ok tb tsc 0 []) by (intros i t g Hi; destruct i; discriminate).
  destruct (challenged (o_res o1));
    [|cbn [aw_first aw_second aw_token aw_third attempts]; rewrite !app_nil_r; split; assumption].
  destruct (rewind bd (o_st o1)) as [st2| |] eqn:Hrw; cbn [aw_first aw_second aw_token aw_third attempts];
    try (rewrite !app_nil_r; split; assumption).
  assert (Hf : s_rest st2 = bdata bd) by (eapply rewind_fresh; eauto).
  cbn [Nat.add] in S1. rewrite S1.
  destruct (round_trip_bodies_gen p cn bd sc (length (attempts (o_trace o1))) st2 (o_time o1) Hwf Hf)
    as (B2 & S2 & N2).
  set (o2 := round_trip p cn bd st2 (skipn (length (attempts (o_trace o1))) sc) (o_time o1)) in *.
  destruct (bearer_challenged (o_res o1) && unauthorized (o_res o2)).
  2:{ cbn [aw_first aw_second aw_token aw_third attempts]. rewrite app_nil_r.
      split; [apply bodies_ok_app; assumption|exact Hnil]. }
  pose proof (fetch_token_bodies p cn tb tsc (o_time o2) Hwt) as BK.
  set (k := fetch_token p cn tb tsc (o_time o2)) in *.
  destruct (k_ok k);
    [|cbn [aw_first aw_second aw_token aw_third attempts]; rewrite app_nil_r;
      split; [apply bodies_ok_app; assumption|exact BK]].
  destruct (rewind bd (o_st o2)) as [st3| |] eqn:Hrw2; cbn [aw_first aw_second aw_token aw_third attempts];
    try (rewrite app_nil_r; split; [apply bodies_ok_app; assumption|exact BK]).
  assert (Hf3 : s_rest st3 = bdata bd) by (eapply rewind_fresh; eauto).
  rewrite S2.
  destruct (round_trip_bodies_gen p cn bd sc
              (length (attempts (o_trace o1)) + length (attempts (o_trace o2))) st3 (k_time k) Hwf Hf3)
    as (B3 & _ & _).
  split; [|exact BK].
  apply bodies_ok_app; [exact B1|]. apply bodies_ok_app; [exact B2|exact B3].
Qed.

Lemma auth_do_tokw_at_not_replayable p cn bd sc tb tsc t0 :
  (forall st', rewind bd st' = RwNoGetBody \/ rewind bd st' = RwGetBodyErr) ->
  let a := auth_do_tokw_at p cn bd sc tb tsc t0 in
  length (attempts (aw_first a)) = 1%nat /\ aw_second a = [] /\ aw_token a = [] /\ aw_third a = [].
Proof.
  intro Hrw. unfold auth_do_tokw_at.
  destruct (round_trip_not_replayable p cn bd (init_state bd) sc t0 Hrw)
    as (bh & sc' & got & st1 & o & t1 & _ & _ & Htr & _).
  set (o1 := round_trip p cn bd (init_state bd) sc t0) in *.
  destruct (challenged (o_res o1)); [|cbn [aw_first aw_second aw_token aw_third]; rewrite Htr; auto].
  destruct (Hrw (o_st o1)) as [E|E]; rewrite E; cbn [aw_first aw_second aw_token aw_third]; rewrite Htr; auto.
Qed.

Definition authw_cancel_post (tc t0 : Z) (a : authw_out) : Prop :=
  Forall (fun x => fst x < tc) (tl (attempts (aw_first a))) /\
  Forall (fun x => fst x < tc) (tl (attempts (aw_second a))) /\
  Forall (fun x => fst x < tc) (tl (attempts (aw_token a))) /\
  Forall (fun x => fst x < tc) (tl (attempts (aw_third a))) /\
  aw_time a <= Z.max t0 tc /\
  Forall (fun pd => fst pd + snd pd < tc \/ (aw_res a = RCtx /\ aw_time a = Z.max (fst pd) tc))
         (pauses (aw_first a) ++ pauses (aw_second a) ++ pauses (aw_token a) ++ pauses (aw_third a)).

Lemma auth_do_tokw_at_cancel p bd sc tb tsc t0 tc dl :
  authw_cancel_post tc t0 (auth_do_tokw_at p (Some (tc, dl)) bd sc tb tsc t0).
Proof.
  unfold auth_do_tokw_at, authw_cancel_post.
  pose proof (round_trip_cancel p bd (init_state bd) sc t0 tc dl) as C1.
  set (o1 := round_trip p (Some (tc, dl)) bd (init_state bd) sc t0) in *.
  destruct (challenged (o_res o1)) eqn:Hch.
  2:{ cbn [aw_first aw_second aw_token aw_third aw_res aw_time attempts pauses tl]. rewrite !app_nil_r.
      destruct C1 as (A1 & T1 & P1 & _). repeat split; auto. }
  pose proof (cancel_post_pauses_done _ _ _ C1 (challenged_not_ctx _ Hch)) as D1.
  destruct C1 as (A1 & T1 & _ & _).
  destruct (rewind bd (o_st o1)) as [st2| |];
    cbn [aw_first aw_second aw_token aw_third aw_res aw_time attempts pauses tl]; rewrite ?app_nil_r;
    try (repeat split; auto; apply pauses_done_weaken; exact D1).
  pose proof (round_trip_cancel p bd st2 (o_script o1) (o_time o1) tc dl) as C2.
  set (o2 := round_trip p (Some (tc, dl)) bd st2 (o_script o1) (o_time o1)) in *.
  destruct (bearer_challenged (o_res o1) && unauthorized (o_res o2)) eqn:Hw.
  2:{ cbn [aw_first aw_second aw_token aw_third aw_res aw_time attempts pauses tl]. rewrite !app_nil_r.
      destruct C2 as (A2 & T2 & P2 & _). repeat split; auto; [lia|].
      apply Forall_app. split; [apply pauses_done_weaken; exact D1|exact P2]. }
  apply andb_true_iff in Hw. destruct Hw as [_ Hun].
  pose proof (cancel_post_pauses_done _ _ _ C2 (unauthorized_not_ctx _ Hun)) as D2.
  destruct C2 as (A2 & T2 & _ & _).
  unfold fetch_token.
  pose proof (round_trip_cancel p tb (init_state tb) tsc (o_time o2) tc dl) as CK.
  set (ok := round_trip p (Some (tc, dl)) tb (init_state tb) tsc (o_time o2)) in *.
  cbn [k_ok k_res k_trace k_time].
  destruct (token_ok (o_res ok)) eqn:Hok.
  - pose proof (cancel_post_pauses_done _ _ _ CK (token_ok_not_ctx _ Hok)) as DK.
    destruct CK as (AK & TK & _ & _).
    destruct (rewind bd (o_st o2)) as [st3| |];
      cbn [aw_first aw_second aw_token aw_third aw_res aw_time attempts pauses tl]; rewrite ?app_nil_r;
      try (repeat split; auto; [lia|
           apply Forall_app; split; [apply pauses_done_weaken; exact D1|];
           apply Forall_app; split; apply pauses_done_weaken; assumption]).
    destruct (round_trip_cancel p bd st3 (o_script o2) (o_time ok) tc dl) as (A3 & T3 & P3 & _).
    repeat split; auto; [lia|].
    apply Forall_app. split; [apply pauses_done_weaken; exact D1|].
    apply Forall_app. split; [apply pauses_done_weaken; exact D2|].
    apply Forall_app. split; [apply pauses_done_weaken; exact DK|exact P3].
  - cbn [aw_first aw_second aw_token aw_third aw_res aw_time attempts pauses tl]. rewrite app_nil_r.
    destruct CK as (AK & TK & PK & _).
    repeat split; auto; [lia|].
    apply Forall_app. split; [apply pauses_done_weaken; exact D1|].
    apply Forall_app. split; [apply pauses_done_weaken; exact D2|].
    eapply Forall_impl; [|exact PK]. intros pd [A|[A B]]; [left; exact A|right].
    split; [apply token_error_ctx; exact A|exact B].
Qed.

(* the warm-cache auth flow (cached token, then fresh token) refines its stateless specification,
   for every context *)
Lemma auth_do_tokw_at_refines_spec_c p cn bd sc tb tsc t0 :
  wf_body bd -> replayable bd -> wf_body tb -> replayable tb ->
  let a := auth_do_tokw_at p cn bd sc tb tsc t0 in
  (aw_res a, aw_time a, attempts (aw_first a), attempts (aw_second a), attempts (aw_token a), attempts (aw_third a))
  = spec_authw_at_c p cn bd sc tb tsc t0.
Proof.
  intros Hwf Hrep Hwt Hrt. unfold auth_do_tokw_at, spec_authw_at_c.
  pose proof (round_trip_refines_spec_c_st p cn bd sc t0 (init_state bd) Hwf Hrep eq_refl) as E1. cbv zeta in E1.
  destruct (round_trip_bodies_gen p cn bd sc 0%nat (init_state bd) t0 Hwf eq_refl) as (_ & S1 & N1).
  cbn [skipn Nat.add] in S1, N1.
  set (o1 := round_trip p cn bd (init_state bd) sc t0) in *.
  destruct (spec_send_c p cn bd sc t0) as [[r1 t1] l1]. injection E1 as Er Et El. rewrite Er.
  destruct (challenged r1); [|cbn [aw_res aw_time aw_first aw_second aw_token aw_third attempts]; congruence].
  destruct (rewind_replayable bd (o_st o1) Hwf Hrep N1) as (st2 & Hrw & Hfresh). rewrite Hrw.
  pose proof (round_trip_refines_spec_c_st p cn bd (o_script o1) (o_time o1) st2 Hwf Hrep Hfresh) as E2. cbv zeta in E2.
  destruct (round_trip_bodies_gen p cn bd sc (length (attempts (o_trace o1))) st2 (o_time o1) Hwf Hfresh)
    as (_ & S2 & N2).
  rewrite <- S1 in S2, N2.
  set (o2 := round_trip p cn bd st2 (o_script o1) (o_time o1)) in *.
  rewrite S1, El, Et in E2.
  destruct (spec_send_c p cn bd (skipn (length l1) sc) t1) as [[r2 t2] l2]. injection E2 as Er2 Et2 El2. rewrite Er2.
  destruct (bearer_challenged r1 && unauthorized r2);
    [|cbn [aw_res aw_time aw_first aw_second aw_token aw_third attempts]; congruence].
  unfold fetch_token.
  pose proof (round_trip_refines_spec_c_st p cn tb tsc (o_time o2) (init_state tb) Hwt Hrt eq_refl) as EK. cbv zeta in EK.
  set (ok := round_trip p cn tb (init_state tb) tsc (o_time o2)) in *.
  rewrite Et2 in EK. destruct (spec_send_c p cn tb tsc t2) as [[kr kt] kl]. injection EK as Kr Kt Kl.
  cbn [k_ok k_res k_trace k_time]. rewrite Kr.
  destruct (token_ok kr); [|cbn [aw_res aw_time aw_first aw_second aw_token aw_third attempts]; congruence].
  destruct (rewind_replayable bd (o_st o2) Hwf Hrep N2) as (st3 & Hrw3 & Hfresh3). rewrite Hrw3.
  cbn [aw_res aw_time aw_first aw_second aw_token aw_third].
  pose proof (round_trip_refines_spec_c_st p cn bd (o_script o2) (o_time ok) st3 Hwf Hrep Hfresh3) as E3. cbv zeta in E3.
  rewrite S2, El, El2, Kt in E3.
  destruct (spec_send_c p cn bd (skipn (length l1 + length l2) sc) kt) as [[r3 t3] l3]. injection E3 as R3 T3 L3.
  congruence.
Qed.

(* ------------------------------------------------------------------ *)
(* Soundness of the acceptor up to its allowances: a pause it accepts is the clamp of a value
   that lies within the rounding allowances of the model's exact range *)

Lemma clamp_max_min minw maxw x : minw <= maxw -> clamp minw maxw x = Z.max minw (Z.min maxw x).
Proof.
  intro H. unfold clamp. destruct (x <? minw) eqn:A.
  - destruct (minw >? maxw) eqn:B; lia.
  - destruct (x >? maxw) eqn:B; lia.
Qed.

Lemma clamp_ivt minw maxw lo hi d :
  minw <= maxw -> lo <= hi -> clamp minw maxw lo <= d <= clamp minw maxw hi ->
  exists x, lo <= x <= hi /\ d = clamp minw maxw x.
Proof.
  intros Hm Hl Hd. exists (Z.max lo (Z.min hi d)). split; [lia|].
  rewrite !clamp_max_min in * by exact Hm. lia.
Qed.

Lemma exp_class_range guarded e attempt o lo hi :
  exp_class guarded e attempt o = ECRange lo hi ->
  lo <= hi /\
  ((generated_backoff_retry_after_ok (retry_after_secs o) = true /\
    lo = wrap64 (retry_after_secs o * generated_backoff_retry_after_unit) /\ hi = lo) \/
   (generated_backoff_retry_after_ok (retry_after_secs o) = false /\
    qtrunc (exp_a e attempt) - tol_a e attempt <= lo /\
    hi <= qtrunc (exp_a e attempt) + Z.max 0 (qtrunc (exp_n e attempt)) + tol_a e attempt + tol_n e attempt)).
Proof.
  unfold exp_class. cbv zeta.
  pose proof (tol_a_pos e attempt) as Hta. pose proof (tol_n_pos e attempt) as Htn.
  destruct (generated_backoff_retry_after_ok (retry_after_secs o)) eqn:Hra.
  - intro E. injection E as <- <-. split; [lia|]. left. auto.
  - destruct (qnear (exp_n e attempt) 1); [discriminate|].
    destruct (two63 - tol_n e attempt <=? qtrunc (exp_n e attempt)); [discriminate|].
    destruct (qtrunc (exp_n e attempt) <=? 0) eqn:En.
    + destruct guarded; [|discriminate].
      destruct ((- two63 + tol_a e attempt <? qtrunc (exp_a e attempt)) && (qtrunc (exp_a e attempt) + tol_a e attempt <? two63));
        [|discriminate].
      intro E. injection E as <- <-. apply Z.leb_le in En. split; [lia|]. right. repeat split; auto; lia.
    + destruct ((- two63 + tol_a e attempt <? qtrunc (exp_a e attempt)) &&
                (qtrunc (exp_a e attempt) + qtrunc (exp_n e attempt) + tol_a e attempt + tol_n e attempt <? two63));
        [|discriminate].
      intro E. injection E as <- <-. apply Z.leb_gt in En. split; [lia|]. right. repeat split; auto; lia.
Qed.

Lemma accept_decision_sound guarded maxretry minw maxw e attempt o d :
  minw <= maxw ->
  accept_decision guarded maxretry minw maxw e attempt o (ODWait d) = VYes ->
  attempt < maxretry /\ default_predicate o = PRetry /\
  exists x, d = clamp minw maxw x /\
    ((generated_backoff_retry_after_ok (retry_after_secs o) = true /\
      x = wrap64 (retry_after_secs o * generated_backoff_retry_after_unit)) \/
     (generated_backoff_retry_after_ok (retry_after_secs o) = false /\
      qtrunc (exp_a e attempt) - tol_a e attempt <= x <=
      qtrunc (exp_a e attempt) + Z.max 0 (qtrunc (exp_n e attempt)) + tol_a e attempt + tol_n e attempt)).
Proof.
  intro Hm. unfold accept_decision.
  destruct (attempt >=? maxretry) eqn:Ea; [discriminate|].
  destruct (default_predicate o); try discriminate.
  destruct (exp_class guarded e attempt o) as [|lo hi|] eqn:Ec; try discriminate.
  destruct ((clamp minw maxw lo <=? d) && (d <=? clamp minw maxw hi)) eqn:Ed; [|discriminate].
  intros _. apply andb_true_iff in Ed. destruct Ed as [E1 E2]. apply Z.leb_le in E1, E2.
  destruct (exp_class_range guarded e attempt o lo hi Ec) as (Hl & Hr).
  destruct (clamp_ivt minw maxw lo hi d Hm Hl (conj E1 E2)) as (x & Hx & Hd).
  split; [lia|]. split; [reflexivity|]. exists x. split; [exact Hd|].
  destruct Hr as [(R1 & R2 & R3)|(R1 & R2 & R3)]; [left|right]; split; auto; lia.
Qed.
