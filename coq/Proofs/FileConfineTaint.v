(* C11 — the ghost field [taint] is never read: a run on a tree with any taint set is the run on
   the tree itself with that taint set put back.  With it the full confinement theorem speaks about
   EVERY tree whose working directory is reached through real directories: take as taint set the
   inodes that have a name below the working directory and a name outside it. *)
From Oras Require Import Base.Prelude Generated.GC11 Model.FileConfine Proofs.FileConfine.
Require Import Lia.
Open Scope nat_scope.

Section Taint.
Variable t : list nat.

Notation wt := (with_taint t).
Definition owt (r : option fsys) : option fsys :=
  match r with Some f => Some (with_taint t f) | None => None end.
Definition swt (s : store) : store := mkStore (with_taint t (st_fs s)) (st_names s) (st_d2p s).

Lemma walk_t fu f nl cur rem fo : walk fu (wt f) nl cur rem fo = walk fu f nl cur rem fo.
Proof.
  revert nl cur rem. induction fu as [|fu IH]; intros nl cur rem; simpl; [reflexivity|].
  destruct rem as [|[|c] r]; auto.
  change (lookup (wt f) (cur ++ [c])) with (lookup f (cur ++ [c])).
  destruct (lookup f (cur ++ [c])) as [[|i|d a cs]|]; auto.
  destruct r, fo, nl; auto.
Qed.

Lemma awalk_t f ns fo : awalk (wt f) ns fo = awalk f ns fo.
Proof. unfold awalk. apply walk_t. Qed.
Lemma kwalk_t f cwd a cs fo : kwalk (wt f) cwd a cs fo = kwalk f cwd a cs fo.
Proof. unfold kwalk. apply walk_t. Qed.
Lemma klstat_t f p : klstat (wt f) p = klstat f p.
Proof. unfold klstat. now rewrite awalk_t. Qed.

Lemma mkdir_prefixes_t f d todo m : mkdir_prefixes (wt f) d todo m = owt (mkdir_prefixes f d todo m).
Proof.
  revert f d. induction todo as [|c r IH]; intros f d; simpl; [reflexivity|].
  rewrite !walk_t.
  destruct (walk FUEL f NLINK [] (d ++ [c]) true); auto;
    destruct (walk FUEL f NLINK [] (d ++ [c]) false); auto;
    change (new_dir p0 m (wt f)) with (wt (new_dir p0 m f)) || change (new_dir p m (wt f)) with (wt (new_dir p m f));
    apply IH.
Qed.

Lemma mkdir_all_t f cs m : mkdir_all (wt f) cs m = owt (mkdir_all f cs m).
Proof. apply mkdir_prefixes_t. Qed.

Lemma write_at_t f cs c m : write_at (wt f) cs c m = owt (write_at f cs c m).
Proof. unfold write_at. rewrite walk_t. destruct (walk FUEL f NLINK [] cs true); reflexivity. Qed.

Lemma chmod_at_t f ns m : chmod_at (wt f) ns m = owt (chmod_at f ns m).
Proof. unfold chmod_at. rewrite awalk_t. destruct (awalk f ns true); reflexivity. Qed.

Lemma chtimes_at_t f ns x : chtimes_at (wt f) ns x = wt (chtimes_at f ns x).
Proof. unfold chtimes_at. rewrite awalk_t. destruct x; [reflexivity|]. destruct (awalk f ns true); reflexivity. Qed.

Lemma remove_at_t f ns : remove_at (wt f) ns = owt (remove_at f ns).
Proof.
  unfold remove_at. rewrite awalk_t. destruct (awalk f ns false); try reflexivity.
  destruct p; [reflexivity|]. change (has_child (wt f) (n :: p)) with (has_child f (n :: p)).
  destruct (has_child f (n :: p)); reflexivity.
Qed.

Lemma touch_t g f fp x : touch g (wt f) fp x = wt (touch g f fp x).
Proof.
  unfold touch. rewrite klstat_t, chtimes_at_t. destruct (fixT g); [|reflexivity].
  destruct (klstat f fp); reflexivity.
Qed.

Lemma mkdir_real_t f cur qs m : mkdir_real (wt f) cur qs m = owt (mkdir_real f cur qs m).
Proof.
  revert f cur. induction qs as [|c r IH]; intros f cur; simpl; [reflexivity|].
  rewrite klstat_t, awalk_t. destruct (klstat f (cur ++ [c])); auto.
  destruct (awalk f (cur ++ [c]) false); auto.
  change (new_dir p m (wt f)) with (wt (new_dir p m f)). apply IH.
Qed.

Lemma unlink_if_symlink_t f fp : unlink_if_symlink (wt f) fp = owt (unlink_if_symlink f fp).
Proof. unfold unlink_if_symlink. rewrite klstat_t, remove_at_t. destruct (klstat f fp); reflexivity. Qed.

Lemma descend_ok_t f cur qs : descend_ok (wt f) cur qs = descend_ok f cur qs.
Proof.
  revert cur. induction qs as [|c r IH]; intro cur; simpl; [reflexivity|].
  change (lookup (wt f) (cur ++ [c])) with (lookup f (cur ++ [c])).
  destruct (lookup f (cur ++ [c])) as [[| |]|]; auto.
Qed.

Lemma parents_ok_t f dp ns : parents_ok (wt f) dp ns = parents_ok f dp ns.
Proof.
  unfold parents_ok. rewrite awalk_t. destruct (removelast ns); [reflexivity|].
  destruct (awalk f dp true); try reflexivity. apply descend_ok_t.
Qed.

Lemma resolve_rel_t f dp dn tg : resolve_rel (wt f) dp dn tg = resolve_rel f dp dn tg.
Proof. unfold resolve_rel. destruct (entry_rel dp dn tg); [|reflexivity]. now rewrite parents_ok_t. Qed.

Lemma ensure_link_t f dp fp tg : ensure_link (wt f) dp fp tg = ensure_link f dp fp tg.
Proof.
  unfold ensure_link. destruct (strip_prefix dp (link_abs_path fp tg)); [|reflexivity]. now rewrite parents_ok_t.
Qed.

Lemma do_symlink_t f fp n : do_symlink (wt f) fp n = owt (do_symlink f fp n).
Proof.
  unfold do_symlink. rewrite awalk_t, remove_at_t.
  destruct (awalk f fp false); try reflexivity;
    (destruct (remove_at f fp) as [f1|]; [|reflexivity]; simpl; rewrite awalk_t;
     destruct (awalk f1 fp false); reflexivity).
Qed.

Lemma do_link_t g f cwd fp pn tg : do_link g (wt f) cwd fp pn tg = owt (do_link g f cwd fp pn tg).
Proof.
  unfold do_link. rewrite !awalk_t, kwalk_t.
  destruct (if fixH g then awalk f pn false else kwalk f cwd (is_abs tg) (comps_of tg) false);
    try reflexivity; destruct (awalk f fp false); reflexivity.
Qed.

Lemma chmod_if_t pres r fp m : chmod_if pres (owt r) fp m = owt (chmod_if pres r fp m).
Proof. destruct r as [f1|]; [|reflexivity]. simpl. destruct pres; [apply chmod_at_t|reflexivity]. Qed.

Lemma extract_entry_core_t g pres cwd dp dn f e :
  extract_entry_core g pres cwd dp dn (wt f) e = owt (extract_entry_core g pres cwd dp dn f e).
Proof.
  unfold extract_entry_core. rewrite resolve_rel_t.
  destruct (resolve_rel f dp dn (entry_name e)) as [rel|]; [|reflexivity].
  destruct e as [nm c m|nm m|nm tg|nm tg|nm].
  - destruct (match rel with [] => fixR g | _ => false end); [reflexivity|].
    assert (E : (if fixW g then unlink_if_symlink (wt f) (dp ++ rel) else Some (wt f))
                = owt (if fixW g then unlink_if_symlink f (dp ++ rel) else Some f)).
    { destruct (fixW g); [apply unlink_if_symlink_t|reflexivity]. }
    rewrite E. destruct (if fixW g then unlink_if_symlink f (dp ++ rel) else Some f) as [f0|]; [|reflexivity].
    simpl. rewrite write_at_t. apply chmod_if_t.
  - destruct (fixN g); [apply mkdir_real_t|apply mkdir_all_t].
  - destruct (match rel with [] => fixR g | _ => false end); [reflexivity|].
    rewrite ensure_link_t. destruct (ensure_link f dp (dp ++ rel) tg); [|reflexivity]. apply do_link_t.
  - destruct (match rel with [] => fixR g | _ => false end); [reflexivity|].
    rewrite ensure_link_t. destruct (ensure_link f dp (dp ++ rel) tg); [|reflexivity].
    destruct tg; [reflexivity|]. apply do_symlink_t.
  - reflexivity.
Qed.

Lemma extract_entry_t g pres cwd dp dn f e x :
  extract_entry g pres cwd dp dn (wt f) e x = owt (extract_entry g pres cwd dp dn f e x).
Proof.
  unfold extract_entry. rewrite extract_entry_core_t.
  destruct (extract_entry_core g pres cwd dp dn f e) as [f1|]; [|reflexivity]. simpl.
  destruct e; simpl; try reflexivity;
    (match goal with |- context [entry_rel ?a ?b ?c] => destruct (entry_rel a b c) end; simpl; rewrite ?touch_t; reflexivity).
Qed.

Lemma restore_dirs_t pres f dirs seen : restore_dirs pres (wt f) dirs seen = owt (restore_dirs pres f dirs seen).
Proof.
  revert f seen. induction dirs as [|[p m] r IH]; intros f seen; simpl; [reflexivity|].
  destruct (existsb (path_eqb p) seen); [apply IH|].
  rewrite klstat_t. destruct (klstat f p); try reflexivity; try apply IH.
  change (dir_mode (wt f) q) with (dir_mode f q).
  destruct (negb pres && ((if pres then m else N.land (dir_mode f q) m) =? dir_mode f q)%N); [apply IH|].
  rewrite chmod_at_t. destruct (chmod_at f p (if pres then m else N.land (dir_mode f q) m)); [|reflexivity].
  simpl. apply IH.
Qed.

Definition pwt (r : fsys * bool) : fsys * bool := (with_taint t (fst r), snd r).

Lemma extract_t g pres cwd dp dn f es ts dirs tr :
  extract g pres cwd dp dn (wt f) es ts dirs tr = pwt (extract g pres cwd dp dn f es ts dirs tr).
Proof.
  revert f ts dirs. induction es as [|e r IH]; intros f ts dirs; simpl.
  - destruct tr; [reflexivity|]. rewrite restore_dirs_t. destruct (restore_dirs pres f dirs []); reflexivity.
  - rewrite extract_entry_t. destruct (extract_entry g pres cwd dp dn f e (hd 0%N ts)); [|reflexivity].
    simpl. apply IH.
Qed.

Lemma ensure_write_dir_t g wd f dir raw :
  ensure_write_dir g wd (wt f) dir raw = owt (ensure_write_dir g wd f dir raw).
Proof.
  unfold ensure_write_dir. destruct (if fixN g then strip_prefix wd dir else None).
  - rewrite mkdir_all_t. destruct (mkdir_all f (Nms wd) c11_write_dir_perm); [|reflexivity]. simpl. apply mkdir_real_t.
  - apply mkdir_all_t.
Qed.

Definition spwt (r : store * bool) : store * bool := (swt (fst r), snd r).

Lemma push_blob_t g wd s title w good :
  push_blob g wd (swt s) title w good = spwt (push_blob g wd s title w good).
Proof.
  unfold push_blob. cbn [swt st_fs st_names st_d2p].
  destruct (existsb (str_eqb title) (st_names s)); [reflexivity|].
  destruct (write_path g wd title) as [raw|]; [|reflexivity].
  assert (E : (if cached g (st_names s) (clean_abs (removelast raw)) then Some (wt (st_fs s))
               else ensure_write_dir g wd (wt (st_fs s)) (clean_abs (removelast raw)) (Nms (clean_abs (removelast raw))))
              = owt (if cached g (st_names s) (clean_abs (removelast raw)) then Some (st_fs s)
                     else ensure_write_dir g wd (st_fs s) (clean_abs (removelast raw)) (Nms (clean_abs (removelast raw))))).
  { destruct (cached g (st_names s) _); [reflexivity|apply ensure_write_dir_t]. }
  rewrite E. clear E.
  destruct (if cached g (st_names s) _ then Some (st_fs s) else _) as [f1|]; [|reflexivity]. simpl.
  assert (E : (if fixW g && negb (path_eqb (clean_abs raw) wd) then unlink_if_symlink (wt f1) (clean_abs raw) else Some (wt f1))
              = owt (if fixW g && negb (path_eqb (clean_abs raw) wd) then unlink_if_symlink f1 (clean_abs raw) else Some f1)).
  { destruct (fixW g && negb (path_eqb (clean_abs raw) wd)); [apply unlink_if_symlink_t|reflexivity]. }
  rewrite E. clear E.
  destruct (if fixW g && negb (path_eqb (clean_abs raw) wd) then unlink_if_symlink f1 (clean_abs raw) else Some f1) as [f1'|];
    [|reflexivity]. simpl.
  rewrite write_at_t. destruct (write_at f1' raw w 438) as [f2|]; [|reflexivity]. simpl.
  destruct good; [reflexivity|]. rewrite remove_at_t. destruct (remove_at f2 (clean_abs raw)); reflexivity.
Qed.

Lemma push_dir_t g pres wd cwd s title ts es how :
  push_dir g pres wd cwd (swt s) title ts es how = spwt (push_dir g pres wd cwd s title ts es how).
Proof.
  unfold push_dir. cbn [swt st_fs st_names st_d2p].
  destruct (existsb (str_eqb title) (st_names s)); [reflexivity|].
  destruct (write_path g wd title) as [raw|]; [|reflexivity].
  assert (E : (if cached g (st_names s) (clean_abs raw) then Some (wt (st_fs s))
               else ensure_write_dir g wd (wt (st_fs s)) (clean_abs raw) raw)
              = owt (if cached g (st_names s) (clean_abs raw) then Some (st_fs s)
                     else ensure_write_dir g wd (st_fs s) (clean_abs raw) raw)).
  { destruct (cached g (st_names s) _); [reflexivity|apply ensure_write_dir_t]. }
  rewrite E. clear E.
  destruct (if cached g (st_names s) _ then Some (st_fs s) else _) as [f1|]; [|reflexivity]. simpl.
  destruct (how =? 1)%N; [reflexivity|].
  rewrite extract_t.
  destruct (extract g pres cwd (clean_abs raw) title f1 es ts [] (how =? 2)%N) as [f2 ok0]. reflexivity.
Qed.

Lemma fetch_t s c : fetch (swt s) c = fetch s c.
Proof.
  unfold fetch. cbn [swt st_fs st_names st_d2p]. destruct (lookup_d2p (st_d2p s) c); [|reflexivity].
  rewrite awalk_t. reflexivity.
Qed.

Lemma restore_layers_t g wd s layers :
  restore_layers g wd (swt s) layers = spwt (restore_layers g wd s layers).
Proof.
  revert s. induction layers as [|[ti c] r IH]; intro s; simpl; [reflexivity|].
  destruct ti as [|t0 ti]; [apply IH|].
  change (st_names (swt s)) with (st_names s).
  destruct (existsb (str_eqb (t0 :: ti)) (st_names s)); [apply IH|].
  rewrite fetch_t. destruct (fetch s c) as [| |c']; [apply IH|reflexivity|].
  rewrite push_blob_t. destruct (push_blob g wd s (t0 :: ti) c' ((c' =? c)%N && negb (c =? 0)%N)) as [s1 ok].
  unfold spwt at 1. cbn [fst snd]. destruct ok; [apply IH|reflexivity].
Qed.

Lemma push_t g pres wd cwd s o : push g pres wd cwd (swt s) o = spwt (push g pres wd cwd s o).
Proof.
  destruct o as [ti c|ti ts es|layers|how ti ts es]; unfold push.
  - destruct ti; [|apply push_blob_t]. cbn [swt st_fs st_names st_d2p].
    destruct ((c =? 0)%N || existsb (str_eqb [0%N; c]) (st_names s)); reflexivity.
  - destruct ti; [reflexivity|apply push_dir_t].
  - cbn [swt st_fs st_names st_d2p].
    destruct (existsb (str_eqb (manifest_marker layers)) (st_names s)); [reflexivity|].
    apply (restore_layers_t g wd (mkStore (st_fs s) (manifest_marker layers :: st_names s) (st_d2p s))).
  - destruct ti; [reflexivity|apply push_dir_t].
Qed.

Theorem pushes_t g pres wd cwd s os :
  pushes g pres wd cwd (swt s) os =
  (swt (fst (pushes g pres wd cwd s os)), snd (pushes g pres wd cwd s os)).
Proof.
  revert s. induction os as [|o r IH]; intro s; simpl; [reflexivity|].
  rewrite push_t. destruct (push g pres wd cwd s o) as [s1 ok]. unfold spwt. cbn [fst snd].
  rewrite IH. destruct (pushes g pres wd cwd s1 r) as [s2 oks]. reflexivity.
Qed.

End Taint.

(* ---------- the taint set every tree has: inodes with a name below wd and a name outside ---------- *)

Definition is_file_no (i : nat) (o : option node) : bool :=
  match o with Some (NFile j) => Nat.eqb j i | _ => false end.

Definition shared (wd : path) (f : fsys) : list nat :=
  filter (fun i =>
            existsb (fun e => inside wd (fst e) && is_file_no i (lookup f (fst e))) (ents f) &&
            existsb (fun e => negb (inside wd (fst e)) && is_file_no i (lookup f (fst e))) (ents f))
         (seq 0 (nexti f)).

Lemma lookup_ents_in l p n : lookup_ents l p = Some n -> exists e, In e l /\ fst e = p.
Proof.
  induction l as [|[q m] l IH]; simpl; [discriminate|].
  destruct (path_eqb q p) eqn:E.
  - intros _. exists (q, m). split; [now left|]. now apply path_eqb_spec.
  - intro H. destruct (IH H) as (e & A & B). exists e. split; [now right|exact B].
Qed.

Lemma is_file_no_spec i o : is_file_no i o = true <-> o = Some (NFile i).
Proof.
  unfold is_file_no. destruct o as [[|j|]|]; split; intro H; try discriminate.
  - apply Nat.eqb_eq in H. now subst.
  - injection H as ->. apply Nat.eqb_refl.
Qed.

Lemma shared_spec wd f i :
  In i (shared wd f) ->
  i < nexti f /\
  (exists q, inside wd q = true /\ lookup f q = Some (NFile i)) /\
  (exists p, inside wd p = false /\ lookup f p = Some (NFile i)).
Proof.
  unfold shared. intro H. apply filter_In in H. destruct H as [H1 H2].
  apply in_seq in H1. apply andb_true_iff in H2. destruct H2 as [A B].
  apply existsb_exists in A. destruct A as (e & _ & A). apply andb_true_iff in A. destruct A as [A1 A2].
  apply existsb_exists in B. destruct B as (e' & _ & B). apply andb_true_iff in B. destruct B as [B1 B2].
  split; [simpl in H1; lia|]. split.
  - exists (fst e). split; [exact A1|now apply is_file_no_spec].
  - exists (fst e'). split; [now apply negb_true_iff|now apply is_file_no_spec].
Qed.

Lemma inv_shared wd f :
  (forall q r, wd = q ++ r -> q <> [] -> lookup f q = Some NDir) ->
  (forall p i, lookup f p = Some (NFile i) -> i < nexti f) ->
  Inv wd (with_taint (shared wd f) f).
Proof.
  intros Hwd Hfresh. constructor.
  - exact Hwd.
  - intros p q i Lp Lq Hp. change (lookup (with_taint (shared wd f) f)) with (lookup f) in *.
    destruct (inside wd q) eqn:Hq; [now left|]. right.
    change (taint (with_taint (shared wd f) f)) with (shared wd f).
    unfold shared. apply filter_In. split.
    + apply in_seq. apply Hfresh in Lp. simpl. lia.
    + apply andb_true_iff. split; apply existsb_exists.
      * destruct (lookup_ents_in _ _ _ Lp) as (e & A & B). exists e. split; [exact A|].
        rewrite B, Hp. simpl. now apply is_file_no_spec.
      * destruct (lookup_ents_in _ _ _ Lq) as (e & A & B). exists e. split; [exact A|].
        rewrite B, Hq. simpl. now apply is_file_no_spec.
  - exact Hfresh.
  - intros i Hi. change (nexti (with_taint (shared wd f) f)) with (nexti f).
    now apply shared_spec in Hi.
Qed.

(* the full theorem without any ghost: any tree, any number of pushes; what an observer sees at a
   location outside the working directory changes only if it is a file one of whose other names
   lay below the working directory when the store was opened *)
Theorem pushes_confined_any_tree wd pres cwd os s s' oks :
  (forall q r, wd = q ++ r -> q <> [] -> lookup (st_fs s) q = Some NDir) ->
  (forall p i, lookup (st_fs s) p = Some (NFile i) -> i < nexti (st_fs s)) ->
  pushes cfg_fixed pres wd cwd s os = (s', oks) ->
  forall p, inside wd p = false ->
    view_at (st_fs s') p = view_at (st_fs s) p \/
    exists i q, lookup (st_fs s) p = Some (NFile i) /\ lookup (st_fs s') p = Some (NFile i) /\
                inside wd q = true /\ lookup (st_fs s) q = Some (NFile i).
Proof.
  intros Hwd Hfresh H p Hp.
  pose (t := shared wd (st_fs s)).
  assert (I : Inv wd (st_fs (swt t s))) by (apply inv_shared; assumption).
  assert (H' : pushes cfg_fixed pres wd cwd (swt t s) os = (swt t s', oks)).
  { rewrite pushes_t, H. reflexivity. }
  destruct (pushes_keeps_view_tainted wd pres cwd os _ _ _ I H' p Hp) as [V|(i & A & B & C)].
  - left. exact V.
  - right. apply shared_spec in B. destruct B as (_ & (q & Q1 & Q2) & _).
    exists i, q. repeat split; assumption.
Qed.
