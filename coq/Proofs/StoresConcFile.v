(* C06 -- quiescent serialisability of the file store (names, digestToPath, files,
   fallback storage, resolver; the graph is exercised by the harness only). *)
From Oras Require Import Base.Prelude Model.Stores Model.StoresConc Model.StoresConcFile
     Proofs.Stores Proofs.StoresConc.
From Coq Require Import Permutation.

Local Arguments res_tag : simpl never.
Local Arguments g_index : simpl never.
Local Arguments gkey_eqb : simpl never.
Local Arguments verify : simpl never.
Local Arguments is_manifest : simpl never.
Local Arguments limit_reader : simpl never.
Local Arguments file_index_after : simpl never.

Lemma file_step_push_split fx ig ov s d c :
  file_step fx ig ov s (Push d c) =
  match file_push_store fx ig ov s d c with
  | (s1, None) => file_index_after fx ov d s1
  | (s1, Some x) => (s1, x)
  end.
Proof.
  unfold file_step, file_push_store.
  destruct (d_name d =? 0).
  - destruct ig.
    + destruct (is_manifest (d_mt d)); [|reflexivity]. destruct (verify d c); [|reflexivity].
      destruct (file_restore fx ov (b_tl c) s) as [s2 [e|]]; reflexivity.
    + destruct (get gkey_eqb (gk d) (f_cas s)); [reflexivity|].
      destruct (verify d (limit_reader d c)); reflexivity.
  - destruct (file_named_push fx ov s (gk d) (d_name d) c) as [s1 [e|]]; reflexivity.
Qed.

Definition with_graph (s : file_store) (g : graph) : file_store :=
  mkFile (f_names s) (f_d2p s) (f_disk s) (f_cas s) (f_res s) g.

Lemma fcore_eq_graph s1 s2 : fcore s1 = fcore s2 -> s1 = with_graph s2 (f_graph s1).
Proof. destruct s1, s2. unfold fcore, with_graph. simpl. intro H. injection H as -> -> -> -> ->. reflexivity. Qed.

Lemma file_exists_graph d s g : file_exists d (with_graph s g) = file_exists d s.
Proof. reflexivity. Qed.
Lemma file_fetch_graph d s g : file_fetch d (with_graph s g) = file_fetch d s.
Proof. reflexivity. Qed.

Lemma file_named_push_graph fx ov s g k n c :
  file_named_push fx ov (with_graph s g) k n c =
  (with_graph (fst (file_named_push fx ov s k n c)) g, snd (file_named_push fx ov s k n c)).
Proof.
  unfold file_named_push, with_graph. cbn [f_names f_d2p f_disk f_cas f_res f_graph].
  destruct (mem N.eqb n (f_names s)); [reflexivity|]. destruct (bad_name n); [reflexivity|].
  destruct (ov && is_some (get N.eqb (path_of n) (f_disk s))); [reflexivity|].
  destruct ((k_dig k =? b_hash c) && (k_size k =? b_len c)); reflexivity.
Qed.

Lemma file_restore_graph fx ov tl : forall s g,
  file_restore fx ov tl (with_graph s g) =
  (with_graph (fst (file_restore fx ov tl s)) g, snd (file_restore fx ov tl s)).
Proof.
  induction tl as [|[k n] tl IH]; intros s g; [reflexivity|].
  cbn [file_restore]. rewrite file_fetch_graph.
  change (f_names (with_graph s g)) with (f_names s). change (f_d2p (with_graph s g)) with (f_d2p s).
  destruct ((n =? 0) || mem N.eqb n (f_names s)); [apply IH|].
  destruct (file_fetch (mkDesc (k_mt k) (k_dig k) (k_size k) 0) s) as [c2|]; [|apply IH].
  rewrite file_named_push_graph.
  destruct (file_named_push fx ov s k n _) as [s1 [e|]]; cbn [fst snd].
  - destruct e as [o|[| |]]; try reflexivity. apply IH.
  - apply IH.
Qed.

Lemma fcore_with_graph s g : fcore (with_graph s g) = fcore s.
Proof. reflexivity. Qed.

Lemma fcore_index d s : fcore (fst (file_index d s)) = fcore s.
Proof.
  unfold file_index. destruct (is_manifest (d_mt d)); [|reflexivity].
  destruct (file_fetch d s) as [c1|]; [|reflexivity]. destruct (d_dig d =? b_hash c1); reflexivity.
Qed.

Lemma file_index_graph d s g :
  file_index d (with_graph s g) =
  (with_graph (fst (file_index d s)) (f_graph (fst (file_index d (with_graph s g)))), snd (file_index d s)).
Proof.
  unfold file_index. destruct (is_manifest (d_mt d)); [|reflexivity].
  rewrite file_fetch_graph. destruct (file_fetch d s) as [c1|]; [|reflexivity].
  destruct (d_dig d =? b_hash c1); reflexivity.
Qed.

Lemma file_index_after_graph fx ov d s g :
  fcore (fst (file_index_after fx ov d (with_graph s g))) = fcore (fst (file_index_after fx ov d s)).
Proof.
  unfold file_index_after. rewrite file_index_graph.
  pose proof (fcore_index d s) as Hc.
  set (g2 := f_graph (fst (file_index d (with_graph s g)))). clearbody g2.
  destruct (file_index d s) as [s2 r]. cbn [fst snd] in *.
  destruct r as [o|e]; [|reflexivity]. destruct o; try reflexivity.
  destruct (is_manifest (d_mt d)); [|reflexivity].
  rewrite file_fetch_graph. destruct (file_fetch d s2) as [c1|]; [|reflexivity].
  destruct (d_dig d =? b_hash c1); [|reflexivity].
  rewrite file_restore_graph. destruct (file_restore fx ov (b_tl c1) s2) as [s3 [e|]]; reflexivity.
Qed.

Lemma file_push_store_graph fx ig ov s g d c :
  file_push_store fx ig ov (with_graph s g) d c =
  (with_graph (fst (file_push_store fx ig ov s d c)) g, snd (file_push_store fx ig ov s d c)).
Proof.
  unfold file_push_store. change (f_cas (with_graph s g)) with (f_cas s).
  destruct (d_name d =? 0).
  - destruct ig.
    + destruct (is_manifest (d_mt d)); [|reflexivity]. destruct (verify d c); [|reflexivity].
      rewrite file_restore_graph. destruct (file_restore fx ov (b_tl c) s) as [s2 [e|]]; reflexivity.
    + destruct (get gkey_eqb (gk d) (f_cas s)); [reflexivity|].
      destruct (verify d (limit_reader d c)); reflexivity.
  - apply file_named_push_graph.
Qed.

(* the sequential step acts on everything but the graph independently of the graph *)
Lemma file_step_core fx ig ov s1 s2 o :
  fcore s1 = fcore s2 ->
  fcore (fst (file_step fx ig ov s1 o)) = fcore (fst (file_step fx ig ov s2 o)).
Proof.
  intro H. rewrite (fcore_eq_graph _ _ H). set (g := f_graph s1). clearbody g. clear H s1.
  destruct o.
  - rewrite !file_step_push_split. rewrite file_push_store_graph.
    destruct (file_push_store fx ig ov s2 d c) as [sb [x|]]; cbn [fst snd]; [reflexivity|].
    apply file_index_after_graph.
  - cbn [file_step]. rewrite file_fetch_graph. destruct (file_fetch d s2); reflexivity.
  - reflexivity.
  - cbn [file_step]. destruct r; try reflexivity;
      (rewrite file_exists_graph; destruct (file_exists d s2); reflexivity).
  - cbn [file_step]. destruct r; try reflexivity;
      (cbn [with_graph f_res]; destruct (get ref_eqb _ (r_index (f_res s2))); reflexivity).
  - reflexivity.
  - reflexivity.
  - reflexivity.
  - reflexivity.
Qed.

(* content without titled successors: the read-back after a store touches the graph only *)
Lemma file_unt_core' s1 s2 : fcore s1 = fcore s2 -> file_unt s1 -> file_unt s2.
Proof.
  intro H. rewrite (fcore_eq_graph _ _ H). intros [A C]. constructor; [exact A | exact C].
Qed.

Lemma fcore_index_after fx ov d s1 : file_unt s1 -> fcore (fst (file_index_after fx ov d s1)) = fcore s1.
Proof.
  intro Hu. unfold file_index_after. pose proof (fcore_index d s1) as Hc.
  destruct (file_index d s1) as [s2 r]. cbn [fst] in Hc.
  destruct r as [o|e]; [|exact Hc]. destruct o; try exact Hc.
  destruct (is_manifest (d_mt d)); [|exact Hc].
  destruct (file_fetch d s2) as [c1|] eqn:Ef; [|exact Hc].
  destruct (d_dig d =? b_hash c1); [|exact Hc].
  assert (Hu2 : file_unt s2) by (eapply file_unt_core'; [symmetry; exact Hc | exact Hu]).
  rewrite (file_fetch_unt _ _ _ Hu2 Ef). cbn [file_restore fst]. exact Hc.
Qed.

Lemma file_unt_core s1 s2 : fcore s1 = fcore s2 -> file_unt s1 -> file_unt s2.
Proof.
  intro H. rewrite (fcore_eq_graph _ _ H). intros [A C]. constructor; [exact A | exact C].
Qed.

(* presence only grows *)
Definition fle (s s' : file_store) : Prop := forall d, file_exists d s = true -> file_exists d s' = true.

Lemma fle_refl s : fle s s.
Proof. intros d H; exact H. Qed.

Lemma fle_core s s' : fcore s = fcore s' -> fle s s'.
Proof. intro H. rewrite (fcore_eq_graph _ _ H). intros d X. exact X. Qed.

Lemma is_some_put_mono {K V} (eqb : K -> K -> bool) (Hs : forall a c, eqb a c = true <-> a = c) k k' (v : V) m :
  is_some (get eqb k m) = true -> is_some (get eqb k (put eqb k' v m)) = true.
Proof.
  intro H. destruct (eqb_dec eqb Hs k k') as [->|Hne].
  - now rewrite (get_put_eq eqb Hs).
  - now rewrite (get_put_neq eqb Hs).
Qed.

Lemma fle_trans s1 s2 s3 : fle s1 s2 -> fle s2 s3 -> fle s1 s3.
Proof. intros A C d H. auto. Qed.

Lemma fle_named_push fx ov s k n c : fle s (fst (file_named_push fx ov s k n c)).
Proof.
  unfold file_named_push.
  destruct (mem N.eqb n (f_names s)); [apply fle_refl|]. destruct (bad_name n); [apply fle_refl|].
  destruct (ov && is_some (get N.eqb (path_of n) (f_disk s))); [apply fle_refl|].
  destruct ((k_dig k =? b_hash c) && (k_size k =? b_len c)).
  - intros d0. unfold file_exists, name_ok. cbn [fst f_names f_d2p f_cas]. intro H.
    apply andb_true_iff in H as [A C]. apply andb_true_iff. split.
    + apply orb_true_iff in A as [A|A]; [now rewrite A|]. apply orb_true_iff. right.
      unfold mem in *. simpl. rewrite A. apply orb_true_r.
    + apply orb_true_iff in C as [C|C]; [|now rewrite C, orb_true_r].
      apply orb_true_iff. left. now apply (is_some_put_mono N.eqb Neqb_spec).
  - intros d0 H. exact H.
Qed.

Lemma fle_restore fx ov tl : forall s, fle s (fst (file_restore fx ov tl s)).
Proof.
  induction tl as [|[k n] tl IH]; intro s; [apply fle_refl|].
  cbn [file_restore]. destruct ((n =? 0) || mem N.eqb n (f_names s)); [apply IH|].
  destruct (file_fetch (mkDesc (k_mt k) (k_dig k) (k_size k) 0) s) as [c2|]; [|apply IH].
  match goal with |- context [file_named_push fx ov s k n ?c] => pose proof (fle_named_push fx ov s k n c) as H1;
    destruct (file_named_push fx ov s k n c) as [s1 [e|]] end; cbn [fst] in H1.
  - destruct e as [o|[| |]]; try exact H1. eapply fle_trans; [exact H1 | apply IH].
  - eapply fle_trans; [exact H1 | apply IH].
Qed.

Lemma fle_push_store fx ig ov s d c : fle s (fst (file_push_store fx ig ov s d c)).
Proof.
  unfold file_push_store.
  destruct (d_name d =? 0).
  - destruct ig.
    + destruct (is_manifest (d_mt d)); [|apply fle_refl]. destruct (verify d c); [|apply fle_refl].
      pose proof (fle_restore fx ov (b_tl c) s) as H. destruct (file_restore fx ov (b_tl c) s) as [s2 [e|]]; exact H.
    + destruct (get gkey_eqb (gk d) (f_cas s)); [apply fle_refl|].
      destruct (verify d (limit_reader d c)); [|apply fle_refl].
      intros d0. unfold file_exists, name_ok. cbn [fst f_names f_d2p f_cas]. intro H.
      apply andb_true_iff in H as [A C]. rewrite A. simpl. apply orb_true_iff in C as [C|C].
      * now rewrite C.
      * apply orb_true_iff. right. now apply (is_some_put_mono gkey_eqb gkey_eqb_spec).
  - apply fle_named_push.
Qed.

(* storing untitled content keeps the store untitled *)
Lemma unt_push_store fx ig ov s d c :
  untitled_blob c -> file_unt s -> file_unt (fst (file_push_store fx ig ov s d c)).
Proof.
  intros [U1 U2] Hu. pose proof Hu as [UA UC]. unfold file_push_store.
  destruct (d_name d =? 0).
  - destruct ig.
    + destruct (is_manifest (d_mt d)); [|exact Hu]. destruct (verify d c); [|exact Hu]. rewrite U1. exact Hu.
    + destruct (get gkey_eqb (gk d) (f_cas s)); [exact Hu|].
      destruct (verify d (limit_reader d c)); [|exact Hu].
      constructor; cbn [fst f_disk f_cas]; auto. intros k c0.
      destruct (eqb_dec gkey_eqb gkey_eqb_spec k (gk d)) as [->|Hne].
      * rewrite (get_put_eq gkey_eqb gkey_eqb_spec). intro E. injection E as <-.
        unfold limit_reader. destruct (d_size d <? b_len c); auto.
      * rewrite (get_put_neq gkey_eqb gkey_eqb_spec) by exact Hne. apply UC.
  - unfold file_named_push.
    destruct (mem N.eqb (d_name d) (f_names s)); [exact Hu|]. destruct (bad_name (d_name d)); [exact Hu|].
    destruct (ov && is_some (get N.eqb (path_of (d_name d)) (f_disk s))); [exact Hu|].
    destruct ((k_dig (gk d) =? b_hash c) && (k_size (gk d) =? b_len c)); cbn [fst];
      constructor; cbn [f_disk f_cas]; auto; intros p c0.
    + destruct (N.eq_dec p (path_of (d_name d))) as [->|Hne].
      * rewrite (get_put_eq N.eqb Neqb_spec). intro E. now injection E as <-.
      * rewrite (get_put_neq N.eqb Neqb_spec) by exact Hne. apply UA.
    + destruct fx.
      * intro E. destruct (N.eq_dec p (path_of (d_name d))) as [->|Hne].
        -- rewrite (get_del_eq N.eqb) in E. discriminate.
        -- rewrite (get_del_neq N.eqb Neqb_spec) in E by exact Hne. eapply UA; eauto.
      * destruct (N.eq_dec p (path_of (d_name d))) as [->|Hne].
        -- rewrite (get_put_eq N.eqb Neqb_spec). intro E. now injection E as <-.
        -- rewrite (get_put_neq N.eqb Neqb_spec) by exact Hne. apply UA.
Qed.

Definition fremaining (t : fthread) : list op :=
  match ft_pc t with FTag2 d r => [Tag d r] | _ => [] end ++ ft_ops t.

Definition fthread_ok (s : file_store) (t : fthread) : Prop :=
  match ft_pc t with
  | FTag2 d r => file_exists d s = true /\ r <> REmpty
  | _ => True
  end.

Section FileConc.
  Variables fx ig ov : bool.

  Definition seq_fstate (L : list op) : file_store := fst (runf (file_step fx ig ov) file_init L).

  Lemma runf_app h1 : forall s h2,
    fst (runf (file_step fx ig ov) s (h1 ++ h2)) =
    fst (runf (file_step fx ig ov) (fst (runf (file_step fx ig ov) s h1)) h2).
  Proof.
    induction h1 as [|o h1 IH]; intros s h2; [reflexivity|].
    rewrite <- app_comm_cons, !runf_cons. cbn [fst]. apply IH.
  Qed.

  Lemma seq_fstate_snoc L o : seq_fstate (L ++ [o]) = fst (file_step fx ig ov (seq_fstate L) o).
  Proof. unfold seq_fstate. rewrite runf_app. rewrite runf_cons. reflexivity. Qed.

  Record finv (progs : list (list op)) (cf : fconf) : Prop := mkFInv {
    fi_perm : Permutation (map snd (fc_log cf) ++ flat_map fremaining (fc_threads cf)) (concat progs);
    fi_order : forall i, log_of i (fc_log cf) ++
                         match nth_error (fc_threads cf) i with Some t => fremaining t | None => [] end
                         = nth i progs [];
    fi_core : fcore (fc_store cf) = fcore (seq_fstate (map snd (fc_log cf)));
    fi_unt : file_unt (fc_store cf);
    fi_threads : Forall (fthread_ok (fc_store cf)) (fc_threads cf) }.

  Lemma flat_map_fremaining_init progs :
    flat_map fremaining (map (fun p => mkFT FIdle p) progs) = concat progs.
  Proof. induction progs as [|p ps IH]; simpl; auto. unfold fremaining at 1. simpl. now rewrite IH. Qed.

  Lemma finv_init progs : finv progs (fconf_init progs).
  Proof.
    constructor; simpl.
    - rewrite flat_map_fremaining_init. apply Permutation_refl.
    - intro i. unfold log_of. simpl. rewrite nth_error_map.
      destruct (nth_error progs i) as [p|] eqn:E; simpl.
      + unfold fremaining. simpl. symmetry. now apply nth_error_nth.
      + symmetry. apply nth_overflow. now apply nth_error_None.
    - reflexivity.
    - exact file_unt_init.
    - apply Forall_forall. intros t Ht. apply in_map_iff in Ht as (p & <- & _). exact I.
  Qed.

  (* one atomic step: what it commits, what it does to the core, and that presence grows *)
  Lemma fstep_facts s t s' t' lg :
    fthread_ok s t -> file_unt s -> (forall o, In o (fremaining t) -> untitled o) ->
    fthread_step fx ig ov s t = Some (s', t', lg) ->
    fremaining t = lg ++ fremaining t' /\ fle s s' /\ fthread_ok s' t' /\ file_unt s' /\
    ((lg = [] /\ fcore s' = fcore s) \/
     (exists o, lg = [o] /\ fcore s' = fcore (fst (file_step fx ig ov s o)))).
  Proof.
    unfold fthread_step, fthread_ok, fremaining. destruct t as [pc ops]; cbn [ft_pc ft_ops].
    destruct pc as [|d|d r]; intros Hok Hu Hun.
    - destruct ops as [|o rest]; [discriminate|].
      assert (Hdone : fst (file_step fx ig ov s o) = s ->
                      Some (s, mkFT FIdle rest, [o]) = Some (s', t', lg) ->
                      (o :: rest = lg ++ (match ft_pc t' with FTag2 d r => [Tag d r] | _ => [] end ++ ft_ops t')) /\
                      fle s s' /\ match ft_pc t' with FTag2 d r => file_exists d s' = true /\ r <> REmpty | _ => True end /\
                      file_unt s' /\
                      ((lg = [] /\ fcore s' = fcore s) \/
                       (exists o0, lg = [o0] /\ fcore s' = fcore (fst (file_step fx ig ov s o0))))).
      { intros E H. injection H as <- <- <-. cbn [ft_pc ft_ops].
        split; [reflexivity|]. split; [apply fle_refl|]. split; [exact I|]. split; [exact Hu|].
        right. exists o. split; auto. now rewrite E. }
      destruct o; try (apply Hdone; reflexivity).
      + (* Push *)
        assert (Huc : untitled_blob c) by (apply (Hun (Push d c)); simpl; now left).
        pose proof (file_step_push_split fx ig ov s d c) as Hsp.
        pose proof (fle_push_store fx ig ov s d c) as Hle.
        pose proof (unt_push_store fx ig ov s d c Huc Hu) as Hu1.
        destruct (file_push_store fx ig ov s d c) as [s1 [x|]]; cbn [fst] in *;
          intro H; injection H as <- <- <-; cbn [ft_pc ft_ops];
          (split; [reflexivity|]); (split; [exact Hle|]); (split; [exact I|]); (split; [exact Hu1|]);
          right; exists (Push d c); (split; [reflexivity|]); rewrite Hsp; cbn [fst]; auto.
        now rewrite fcore_index_after.
      + apply Hdone. cbn [file_step]. destruct (file_fetch d s); reflexivity.
      + (* Tag *)
        destruct r as [m|g|]; try (apply Hdone; reflexivity);
          (destruct (file_exists d s) eqn:E;
           [intro H; injection H as <- <- <-; cbn [ft_pc ft_ops];
            (split; [reflexivity|]); (split; [apply fle_refl|]); (split; [split; [exact E | discriminate]|]);
            (split; [exact Hu|]); left; split; reflexivity
           | apply Hdone; cbn [file_step]; now rewrite E]).
      + (* Resolve *)
        apply Hdone. cbn [file_step]. destruct r; try reflexivity;
          destruct (get ref_eqb _ (r_index (f_res s))); reflexivity.
    - intro H. injection H as <- <- <-. cbn [ft_pc ft_ops].
      split; [reflexivity|]. split; [apply fle_core; symmetry; now apply fcore_index_after|].
      split; [exact I|]. split; [eapply file_unt_core; [symmetry; now apply fcore_index_after | exact Hu]|].
      left. split; auto. now apply fcore_index_after.
    - destruct Hok as [He Hr]. intro H. injection H as <- <- <-. cbn [ft_pc ft_ops].
      split; [reflexivity|]. split; [intros d0 X; exact X|]. split; [exact I|].
      split; [destruct Hu as [UA UC]; constructor; [exact UA | exact UC]|].
      right. exists (Tag d r). split; auto. cbn [file_step]. destruct r; [| |congruence]; now rewrite He.
  Qed.

  Lemma fthread_ok_mono s s' t : fle s s' -> fthread_ok s t -> fthread_ok s' t.
  Proof. unfold fthread_ok. intro H. destruct (ft_pc t); auto. intros [A C]. split; auto. Qed.

  Lemma flat_map_fremaining_split l1 t l2 :
    flat_map fremaining (l1 ++ t :: l2) = flat_map fremaining l1 ++ fremaining t ++ flat_map fremaining l2.
  Proof. rewrite flat_map_app. reflexivity. Qed.

  Lemma finv_step progs cf i :
    Forall untitled (concat progs) -> finv progs cf -> finv progs (fconf_step fx ig ov cf i).
  Proof.
    intros Hunall Hinv. unfold fconf_step.
    destruct (nth_error (fc_threads cf) i) as [t|] eqn:En; [|exact Hinv].
    destruct (fthread_step fx ig ov (fc_store cf) t) as [[[s' t'] lg]|] eqn:Es; [|exact Hinv].
    apply nth_error_split in En as (l1 & l2 & Hth & Hlen). subst i.
    destruct cf as [s ths L]. cbn [fc_store fc_threads fc_log] in *. subst ths.
    rewrite upd_nth_split.
    destruct Hinv as [Hperm Hord Hcore Hu Hthr]. cbn [fc_store fc_threads fc_log] in *.
    assert (Hokt : fthread_ok s t).
    { rewrite Forall_forall in Hthr. apply Hthr. apply in_or_app. right. now left. }
    assert (Hunt : forall o, In o (fremaining t) -> untitled o).
    { intros o Ho. rewrite Forall_forall in Hunall. apply Hunall.
      eapply Permutation_in; [exact Hperm|]. apply in_or_app. right.
      rewrite flat_map_app. apply in_or_app. right. simpl. apply in_or_app. now left. }
    destruct (fstep_facts s t s' t' lg Hokt Hu Hunt Es) as (Hrem & Hle & Hok' & Hu' & Hc).
    constructor; cbn [fc_store fc_threads fc_log].
    - rewrite map_app, map_snd_pair.
      rewrite flat_map_fremaining_split. rewrite flat_map_fremaining_split, Hrem in Hperm.
      eapply Permutation_trans; [apply Permutation_sym, perm_move | exact Hperm].
    - intro j. rewrite log_of_app. destruct (Nat.eq_dec j (length l1)) as [->|Hne].
      + rewrite log_of_pair_same, nth_error_mid. specialize (Hord (length l1)).
        rewrite nth_error_mid, Hrem in Hord. now rewrite <- app_assoc.
      + rewrite (log_of_pair_other _ _ _ Hne), app_nil_r.
        rewrite <- (nth_error_mid_other l1 l2 t t' j Hne). apply Hord.
    - rewrite map_app, map_snd_pair. destruct Hc as [(-> & A)|(o & -> & A)].
      + rewrite app_nil_r. congruence.
      + rewrite seq_fstate_snoc, A. now apply file_step_core.
    - exact Hu'.
    - apply Forall_forall. intros x Hx. rewrite Forall_forall in Hthr.
      apply in_app_or in Hx as [Hx|[<-|Hx]]; auto;
        (eapply fthread_ok_mono; [exact Hle|]; apply Hthr; apply in_or_app; auto). right. now right.
  Qed.

  Lemma finv_run progs sched :
    Forall untitled (concat progs) -> forall cf, finv progs cf -> finv progs (fconf_run fx ig ov cf sched).
  Proof.
    intro Hun. unfold fconf_run. induction sched as [|i sched IH]; intros cf H; [exact H|].
    simpl. apply IH. now apply finv_step.
  Qed.

  Lemma fthread_done_spec t : fthread_done t = true -> fremaining t = [].
  Proof.
    unfold fthread_done, fremaining. destruct (ft_pc t); try discriminate.
    destruct (ft_ops t); [auto|discriminate].
  Qed.

  (* Every interleaving of the file store's atomic steps, run to quiescence, ends with the
     names, digestToPath, files, fallback storage and resolver of a sequential execution of
     the same operations in program order; hence every Fetch, Exists and Resolve answers
     alike.  (Predecessors: harness only.) *)
  Theorem quiescent_serialisable_file (progs : list (list op)) (sched : list nat) :
    Forall untitled (concat progs) -> Forall no_alias (concat progs) ->
    let cf := fconf_run fx ig ov (fconf_init progs) sched in
    fquiescent cf = true ->
    exists order : list (nat * op),
      Permutation (map snd order) (concat progs) /\
      (forall i, log_of i order = nth i progs []) /\
      let q := fst (runf (file_step fx ig ov) file_init (map snd order)) in
      fcore (fc_store cf) = fcore q /\
      forall d r, snd (file_step fx ig ov (fc_store cf) (Fetch d)) = snd (file_step fx ig ov q (Fetch d)) /\
                  snd (file_step fx ig ov (fc_store cf) (Exists d)) = snd (file_step fx ig ov q (Exists d)) /\
                  snd (file_step fx ig ov (fc_store cf) (Resolve r)) = snd (file_step fx ig ov q (Resolve r)).
  Proof.
    intros Hun _ cf Hq. pose proof (finv_run progs sched Hun _ (finv_init progs)) as Hinv. fold cf in Hinv.
    destruct Hinv as [Hperm Hord Hcore Hu Hthr]. unfold fquiescent in Hq.
    assert (Hrem : flat_map fremaining (fc_threads cf) = []).
    { clear - Hq. induction (fc_threads cf) as [|t ths IH]; simpl in *; auto.
      apply andb_true_iff in Hq as [A C]. rewrite (fthread_done_spec t A). now apply IH. }
    exists (fc_log cf). split; [|split].
    - rewrite Hrem, app_nil_r in Hperm. exact Hperm.
    - intro i. specialize (Hord i).
      assert (E : match nth_error (fc_threads cf) i with Some t => fremaining t | None => [] end = []).
      { destruct (nth_error (fc_threads cf) i) as [t|] eqn:E; auto.
        rewrite forallb_forall in Hq. apply nth_error_In in E. apply Hq in E. now apply fthread_done_spec. }
      rewrite E, app_nil_r in Hord. exact Hord.
    - cbn zeta. fold (seq_fstate (map snd (fc_log cf))). split; [exact Hcore|].
      intros d r. rewrite (fcore_eq_graph _ _ Hcore). cbn [file_step].
      rewrite file_fetch_graph, file_exists_graph. repeat split.
      + destruct (file_fetch d (seq_fstate (map snd (fc_log cf)))); reflexivity.
      + destruct r; try reflexivity;
          (cbn [with_graph f_res]; destruct (get ref_eqb _ (r_index (f_res (seq_fstate (map snd (fc_log cf)))))); reflexivity).
  Qed.
End FileConc.

Definition fx_progs : list (list op) :=
  [ [Push w_named w_good; Tag w_named (RName 1); Fetch w_unnamed];
    [Push w_named w_good; Push w_unnamed w_good; Tag w_unnamed (RName 1)] ].
Definition fx_sched : list nat := [0; 1; 1; 0; 0; 1; 0; 1; 1; 0; 0; 1; 1; 1; 0; 1; 0; 1]%nat.
Lemma fx_hyps : Forall untitled (concat fx_progs) /\ Forall no_alias (concat fx_progs).
Proof.
  split.
  - repeat constructor.
  - repeat constructor; try reflexivity; intros k n [].
Qed.
Lemma fx_quiescent : fquiescent (fconf_run true false false (fconf_init fx_progs) fx_sched) = true.
Proof. vm_compute. reflexivity. Qed.

Theorem conc_fetch_matches_file (ig ov : bool) (progs : list (list op)) (sched : list nat) d hash len :
  Forall untitled (concat progs) -> Forall no_alias (concat progs) ->
  snd (file_step true ig ov (fc_store (fconf_run true ig ov (fconf_init progs) sched)) (Fetch d)) = FO (OBytes hash len) ->
  hash = d_dig d.
Proof.
  intros Hun Hna. pose proof (finv_run true ig ov progs sched Hun _ (finv_init true ig ov progs)) as Hinv.
  destruct Hinv as [Hperm _ Hcore _ _].
  set (cf := fconf_run true ig ov (fconf_init progs) sched) in *.
  assert (HnaL : Forall no_alias (map snd (fc_log cf))).
  { apply Forall_forall. intros o Ho. rewrite Forall_forall in Hna. apply Hna.
    eapply Permutation_in; [exact Hperm|]. apply in_or_app. now left. }
  pose proof (file_run_inv ig ov (map snd (fc_log cf)) _ HnaL file_inv_init) as Hq.
  rewrite (fcore_eq_graph _ _ Hcore). cbn [file_step]. rewrite file_fetch_graph.
  destruct (file_fetch d (seq_fstate true ig ov (map snd (fc_log cf)))) as [c|] eqn:Ef; [|discriminate].
  destruct (file_fetch_inv _ _ _ Hq Ef) as [Hh _]. cbn [snd]. intro X. injection X as <- _. exact Hh.
Qed.

(* known finding file-conc-titled-restore-not-serialisable: with titled successors
   Push = store ; graph.Index ; restoreDuplicates is not one atomic step.  Goroutine 0 pushes a
   manifest M under name 2 whose layer is titled with name 1; goroutine 1 pushes M again under
   name 2 -- refused with duplicate-name, so M's store step came first -- and THEN pushes the
   layer.  Under the schedule below M's restore step runs last and creates file 1 from the layer
   that was pushed after M was stored.  Every sequential order of the three operations that
   keeps goroutine 1's program order ends WITHOUT file 1 (whichever of the two manifest pushes
   comes first is stored when the layer is still absent, the other one is refused and restores
   nothing): the quiescent state is not the state of any sequential order. *)
Definition ft_M := mkDesc 1 9 20 16.
Definition ft_M' := mkDesc 1 9 20 18.
Definition ft_Mb := mkBlobT 9 20 [(6, 1, 5)] 9 [(6, 1, 5)] [((6, 1, 5), 1)] [((6, 1, 5), 1)].
Definition ft_progs : list (list op) := [[Push ft_M ft_Mb]; [Push ft_M' ft_Mb; Push w_unnamed w_good]].
Definition ft_sched : list nat := [0; 1; 1; 1; 0]%nat.
Definition ft_orders : list (list op) :=
  [ [Push ft_M ft_Mb; Push ft_M' ft_Mb; Push w_unnamed w_good];
    [Push ft_M' ft_Mb; Push ft_M ft_Mb; Push w_unnamed w_good];
    [Push ft_M' ft_Mb; Push w_unnamed w_good; Push ft_M ft_Mb] ].
Lemma file_titled_not_serialisable :
  let cf := fconf_run true false false (fconf_init ft_progs) ft_sched in
  fquiescent cf = true /\
  f_names (fc_store cf) = [1; 2] /\
  map (fun h => f_names (fst (runf (file_step true false false) file_init h))) ft_orders = [[2]; [2]; [2]].
Proof. vm_compute. repeat split; reflexivity. Qed.
