(* Proofs about Model/OciConc.v: with the lock placement of the current sources (read by the
   translator), every interleaving of index-saving operations leaves index.json equal to the
   projection of the live references once all of them have returned, and every interleaving of
   Tag / Delete / Push on the same content leaves only references to existing content. *)
From Coq Require Import List Arith Bool PeanoNat Lia.
From Oras Require Import Base.Prelude Generated.GC08 Model.OciIndex Proofs.OciIndex Model.OciConc.
Import ListNotations.
Local Open Scope nat_scope.

(* ---------- the programs read from the sources are the well-locked ones ---------- *)
Lemma save_prog_good : save_prog = good_save.
Proof. reflexivity. Qed.
Lemma tag_prog_good : tag_prog = good_tag.
Proof. reflexivity. Qed.
Lemma del_prog_good : del_prog = good_del.
Proof. reflexivity. Qed.
Lemma push_prog_good : push_prog = good_push.
Proof. reflexivity. Qed.
(* every public operation takes the store lock before it touches anything *)
Lemma locks_first :
  hd [] c08_calls_Untag = b "s.sync.RLock" /\ hd [] c08_calls_SaveIndex = b "s.sync.RLock" /\
  hd [] c08_calls_Push = b "s.sync.RLock" /\ hd [] c08_calls_Tag = b "s.sync.RLock" /\
  hd [] c08_calls_Delete = b "s.sync.Lock" /\ hd [] c08_calls_GC = b "s.sync.Lock".
Proof. repeat split; reflexivity. Qed.

(* ---------- system 1 ---------- *)
Section SaveLTS.
  Variables L D Ord : Type.
  Variable proj : Ord -> L -> D.
  Notation thread := (thread L).
  Notation sstate := (sstate L D).
  Notation th_step := (th_step L D Ord proj).
  Notation run_sched := (run_sched L D Ord proj).

  Definition phase_ok (i : nat) (s : sstate) (t : thread) : Prop :=
    (t_save L t = [] /\ t_regs L t = [] /\ ilock L D s <> Some i) \/
    (t_save L t = good_save /\ ilock L D s <> Some i) \/
    (t_save L t = [SSnap; SWrite; SUnlock] /\ t_regs L t = [] /\ ilock L D s = Some i) \/
    (t_save L t = [SWrite; SUnlock] /\ t_regs L t = [] /\ ilock L D s = Some i /\ t_snap L t <> None) \/
    (t_save L t = [SUnlock] /\ t_regs L t = [] /\ ilock L D s = Some i).

  (* inside an operation, before the snapshot of its saveIndex *)
  Definition pending (t : thread) : Prop :=
    t_regs L t <> [] \/ t_save L t = good_save \/ t_save L t = [SSnap; SWrite; SUnlock].

  Record SInv (s : sstate) : Prop := {
    si_phase : forall i, phase_ok i s (ths L D s i) /\ Forall (fun o => snd o = good_save) (t_ops L (ths L D s i));
    si_snap : forall i v, t_save L (ths L D s i) = [SWrite; SUnlock] -> t_snap L (ths L D s i) = Some v ->
              v = live L D s \/ exists j, pending (ths L D s j);
    si_disk : (forall i, t_save L (ths L D s i) <> [SWrite; SUnlock]) ->
              (exists c, disk L D s = proj c (live L D s)) \/ exists j, pending (ths L D s j) }.

  Lemma upd_same f i t : upd L f i t i = t.
  Proof. unfold upd. now rewrite Nat.eqb_refl. Qed.
  Lemma upd_other f i t j : j <> i -> upd L f i t j = f j.
  Proof. intro H. unfold upd. apply Nat.eqb_neq in H. now rewrite H. Qed.

  Lemma sinv_init s : s_init L D Ord proj good_save s -> SInv s.
  Proof.
    intros (Hd & Hl & Hf). split.
    - intro i. destruct (Hf i) as (A & B & C & E). split; auto.
      left. repeat split; auto. rewrite Hl. discriminate.
    - intros i v H. destruct (Hf i) as (_ & B & _). rewrite B in H. discriminate.
    - intros _. now left.
  Qed.

  (* the holder of a lock phase is the one thread named by ilock *)
  Lemma holder_unique s i k : SInv s -> ilock L D s = Some i -> k <> i ->
    (t_save L (ths L D s k) = [] /\ t_regs L (ths L D s k) = []) \/ t_save L (ths L D s k) = good_save.
  Proof.
    intros I Hl Hk. destruct (si_phase s I k) as [P _].
    destruct P as [(A & B & _)|[(A & _)|[(_ & _ & C)|[(_ & _ & C & _)|(_ & _ & C)]]]]; auto;
      rewrite Hl in C; injection C as C; congruence.
  Qed.

  Lemma phase_same j s s1 t : ilock L D s1 = ilock L D s -> phase_ok j s t -> phase_ok j s1 t.
  Proof. intros E P. unfold phase_ok in *. now rewrite E. Qed.

  Lemma sinv_step s i c s' : SInv s -> th_step i c s = Some s' -> SInv s'.
  Proof.
    intros I H. unfold OciConc.th_step in H.
    destruct (si_phase s I i) as [P G]. unfold phase_ok in P.
    set (t := ths L D s i) in *.
    assert (Oth : forall j, j <> i -> forall lk, (ilock L D s = Some i \/ ilock L D s = None) ->
                  (lk = Some i \/ lk = None) ->
                  forall s1, ilock L D s1 = lk -> ths L D s1 j = ths L D s j ->
                  phase_ok j s1 (ths L D s1 j) /\ Forall (fun o => snd o = good_save) (t_ops L (ths L D s1 j))).
    { intros j Hj lk Hs Hlk s1 E1 E2. destruct (si_phase s I j) as [Pj Gj]. rewrite E2. split; auto.
      unfold phase_ok in *. rewrite E1.
      destruct Pj as [(A & B & C)|[(A & C)|[(A & B & C)|[(A & B & C & E)|(A & B & C)]]]].
      - left. repeat split; auto. destruct Hlk as [->| ->]; congruence.
      - right; left. split; auto. destruct Hlk as [->| ->]; congruence.
      - exfalso. destruct Hs as [Hs|Hs]; rewrite Hs in C; congruence.
      - exfalso. destruct Hs as [Hs|Hs]; rewrite Hs in C; congruence.
      - exfalso. destruct Hs as [Hs|Hs]; rewrite Hs in C; congruence. }
    destruct (t_regs L t) as [|f fs] eqn:R.
    - destruct (t_save L t) as [|st r] eqn:Sv.
      + (* start the next operation *)
        destruct (t_ops L t) as [|[rg sv] more] eqn:O; [discriminate|]. injection H as <-.
        inversion G as [|? ? G1 G2]; subst. simpl in G1. subst sv.
        destruct P as [(A & B & C)|[(A & _)|[(A & _)|[(A & _)|(A & _)]]]]; try discriminate.
        assert (Pi : pending (mkTh L rg good_save None more)) by (right; left; reflexivity).
        split; simpl.
        * intro j. destruct (Nat.eq_dec j i) as [->|Hj].
          -- rewrite upd_same. split; auto. right; left. split; auto.
          -- rewrite upd_other by auto. destruct (si_phase s I j) as [Pj Gj]. split; auto.
        * intros j v _ _. right. exists i. now rewrite upd_same.
        * intros _. right. exists i. now rewrite upd_same.
      + destruct st.
        * (* Lock *)
          destruct P as [(A & _)|[(A & C)|[(A & _)|[(A & _)|(A & _)]]]]; try discriminate.
          injection A as ->.
          destruct (ilock L D s) eqn:Lk; [discriminate|]. injection H as <-.
          assert (Pi : pending (mkTh L [] [SSnap; SWrite; SUnlock] (t_snap L t) (t_ops L t))) by (right; right; reflexivity).
          split; simpl.
          -- intro j. destruct (Nat.eq_dec j i) as [->|Hj].
             ++ rewrite upd_same. split; auto. right; right; left. repeat split; auto.
             ++ apply (Oth j Hj (Some i)); auto. simpl. now rewrite upd_other.
          -- intros j v _ _. right. exists i. now rewrite upd_same.
          -- intros _. right. exists i. now rewrite upd_same.
        * (* Snap *)
          destruct P as [(A & _)|[(A & _)|[(A & B & C)|[(A & _)|(A & _)]]]]; try discriminate.
          injection A as ->. injection H as <-.
          split; simpl.
          -- intro j. destruct (Nat.eq_dec j i) as [->|Hj].
             ++ rewrite upd_same. split; auto. right; right; right; left. repeat split; auto. discriminate.
             ++ rewrite upd_other by auto. destruct (si_phase s I j) as [Pj Gj]. split; auto.
          -- intros j v Hs Hv. destruct (Nat.eq_dec j i) as [->|Hj].
             ++ rewrite upd_same in Hv. simpl in Hv. injection Hv as <-. now left.
             ++ rewrite upd_other in Hs by auto.
                destruct (holder_unique s i j I C Hj) as [(X & _)|X]; rewrite X in Hs; discriminate.
          -- intro Hn. exfalso. apply (Hn i). now rewrite upd_same.
        * (* Write *)
          destruct P as [(A & _)|[(A & _)|[(A & _)|[(A & B & C & E)|(A & _)]]]]; try discriminate.
          injection A as ->. injection H as <-.
          destruct (t_snap L t) as [v|] eqn:Sn; [|congruence].
          split; simpl.
          -- intro j. destruct (Nat.eq_dec j i) as [->|Hj].
             ++ rewrite upd_same. split; auto. right; right; right; right. repeat split; auto.
             ++ rewrite upd_other by auto. destruct (si_phase s I j) as [Pj Gj]. split; auto.
          -- intros j w Hs _. destruct (Nat.eq_dec j i) as [->|Hj].
             ++ rewrite upd_same in Hs. discriminate.
             ++ rewrite upd_other in Hs by auto.
                destruct (holder_unique s i j I C Hj) as [(X & _)|X]; rewrite X in Hs; discriminate.
          -- intros _. destruct (si_snap s I i v) as [->|(j & Pj)]; auto.
             ++ left. now exists c.
             ++ right. exists j. destruct (Nat.eq_dec j i) as [->|Hj].
                ** exfalso. fold t in Pj. destruct Pj as [X|[X|X]]; [now apply X|rewrite Sv in X; discriminate|rewrite Sv in X; discriminate].
                ** now rewrite upd_other.
        * (* Unlock *)
          destruct P as [(A & _)|[(A & _)|[(A & _)|[(A & _)|(A & B & C)]]]]; try discriminate.
          injection A as ->. injection H as <-. rewrite C, Nat.eqb_refl.
          assert (NoSnap : forall k, t_save L (ths L D s k) <> [SWrite; SUnlock]).
          { intro k. destruct (Nat.eq_dec k i) as [->|Hk]; [fold t; rewrite Sv; discriminate|].
            destruct (holder_unique s i k I C Hk) as [(X & _)|X]; rewrite X; discriminate. }
          split; simpl.
          -- intro j. destruct (Nat.eq_dec j i) as [->|Hj].
             ++ rewrite upd_same. split; auto. left. repeat split; auto. discriminate.
             ++ apply (Oth j Hj None); auto. simpl. now rewrite upd_other.
          -- intros j w Hs _. destruct (Nat.eq_dec j i) as [->|Hj].
             ++ rewrite upd_same in Hs. discriminate.
             ++ rewrite upd_other in Hs by auto. exfalso. now apply (NoSnap j).
          -- intros _. destruct (si_disk s I NoSnap) as [X|(j & Pj)]; [now left|].
             right. exists j. destruct (Nat.eq_dec j i) as [->|Hj].
             ++ exfalso. fold t in Pj. destruct Pj as [X|[X|X]]; [now apply X|rewrite Sv in X; discriminate|rewrite Sv in X; discriminate].
             ++ now rewrite upd_other.
    - (* a registration: only in front of a whole saveIndex *)
      injection H as <-.
      destruct P as [(_ & B & _)|[(A & C)|[(_ & B & _)|[(_ & B & _)|(_ & B & _)]]]]; try discriminate.
      assert (Pi : pending (mkTh L fs (t_save L t) (t_snap L t) (t_ops L t))) by (right; left; exact A).
      split; simpl.
      + intro j. destruct (Nat.eq_dec j i) as [->|Hj].
        * rewrite upd_same. split; auto. right; left. split; auto.
        * rewrite upd_other by auto. destruct (si_phase s I j) as [Pj Gj]. split; auto.
      + intros j v _ _. right. exists i. now rewrite upd_same.
      + intros _. right. exists i. now rewrite upd_same.
  Qed.

  Lemma sinv_run sched : forall s, SInv s -> SInv (run_sched sched s).
  Proof.
    induction sched as [|[i c] r IH]; intros s I; simpl; auto.
    apply IH. destruct (th_step i c s) eqn:E; auto. eapply sinv_step; eauto.
  Qed.

  (* every interleaving, any number of threads and operations: once all have returned,
     index.json is the projection of the live references *)
  Theorem save_quiescent_current s0 sched :
    s_init L D Ord proj good_save s0 ->
    let s := run_sched sched s0 in
    quiescent L D s -> exists c, disk L D s = proj c (live L D s).
  Proof.
    intros H0 s Q. pose proof (sinv_run sched s0 (sinv_init s0 H0)) as I. fold s in I.
    assert (N : forall i, t_save L (ths L D s i) <> [SWrite; SUnlock]).
    { intro i. destruct (Q i) as (_ & B & _). rewrite B. discriminate. }
    destruct (si_disk s I N) as [X|(j & [X|[X|X]])]; auto; exfalso; destruct (Q j) as (A & B & _).
    - now apply X.
    - rewrite B in X. discriminate.
    - rewrite B in X. discriminate.
  Qed.
End SaveLTS.

(* the order of the seeded change (snapshot before indexLock) loses a reference:
   two Tag-like operations, the one that snapshots first writes last *)
Definition bad_save : list sstep := [SSnap; SLock; SWrite; SUnlock].
Lemma bad_order_program :
  save_prog_of [b "s.tagResolver.Map"; b "s.indexLock.Lock"; b "s.writeIndexFile"] = bad_save.
Proof. reflexivity. Qed.

Definition ex_thread (x : nat) : thread (list nat) := mkTh (list nat) [] [] None [([cons x], bad_save)].
Definition ex_idle : thread (list nat) := mkTh (list nat) [] [] None [].
Definition ex_s0 : sstate (list nat) (list nat) :=
  mkSt (list nat) (list nat) [] [] None (fun i => match i with 0 => ex_thread 1 | 1 => ex_thread 2 | _ => ex_idle end).
Definition ex_sched : list (nat * list nat) :=
  map (fun i => (i, [])) [0; 0; 0;  1; 1; 1; 1; 1; 1;  0; 0; 0].

Lemma save_quiescent_refuted_snapshot_before_lock :
  s_init (list nat) (list nat) (list nat) (fun _ v => v) bad_save ex_s0 /\
  let s := run_sched (list nat) (list nat) (list nat) (fun _ v => v) ex_sched ex_s0 in
  quiescent (list nat) (list nat) s /\ live _ _ s = [2; 1] /\ disk _ _ s = [1].
Proof.
  split.
  - split; [exists []; reflexivity|]. split; [reflexivity|].
    intros [|[|i]]; repeat split; repeat constructor.
  - split; [|split; reflexivity].
    intros [|[|i]]; vm_compute; repeat split.
Qed.

(* ---------- system 2 ---------- *)
Definition gshape (t : gthread) : Prop :=
  (g_prog t = [] /\ g_r t = false /\ g_w t = false) \/
  (g_prog t = good_tag /\ g_r t = false /\ g_w t = false) \/
  (g_prog t = [GExists; GReg; GRUnlock] /\ g_r t = true /\ g_w t = false) \/
  (g_prog t = [GReg; GRUnlock] /\ g_r t = true /\ g_w t = false) \/
  (g_prog t = [GRUnlock] /\ g_r t = true /\ g_w t = false) \/
  (g_prog t = good_del /\ g_r t = false /\ g_w t = false) \/
  (g_prog t = [DUntag; DRemove; DWUnlock] /\ g_r t = false /\ g_w t = true) \/
  (g_prog t = [DRemove; DWUnlock] /\ g_r t = false /\ g_w t = true) \/
  (g_prog t = [DWUnlock] /\ g_r t = false /\ g_w t = true) \/
  (g_prog t = good_push /\ g_r t = false /\ g_w t = false) \/
  (g_prog t = [PCreate; PRUnlock] /\ g_r t = true /\ g_w t = false) \/
  (g_prog t = [PRUnlock] /\ g_r t = true /\ g_w t = false).

Definition fact_blob (s : gstate) (t : gthread) : Prop :=
  g_prog t = [GReg; GRUnlock] -> g_ok t = true -> blob s = true.
Definition fact_refs (s : gstate) (t : gthread) : Prop :=
  g_prog t = [DRemove; DWUnlock] \/ g_prog t = [DWUnlock] -> refs s = 0.

Record GInv (s : gstate) : Prop := {
  gi_shape : forall i, i < gn s -> gshape (gths s i) /\ fact_blob s (gths s i) /\ fact_refs s (gths s i);
  gi_excl : forall i j, i < gn s -> j < gn s -> g_w (gths s i) = true -> j <> i ->
            g_r (gths s j) = false /\ g_w (gths s j) = false;
  gi_valid : (forall i, i < gn s -> g_w (gths s i) = false) -> g_valid s }.

Lemma gupd_same f i t : gupd f i t i = t.
Proof. unfold gupd. now rewrite Nat.eqb_refl. Qed.
Lemma gupd_other f i t j : j <> i -> gupd f i t j = f j.
Proof. intro H. unfold gupd. apply Nat.eqb_neq in H. now rewrite H. Qed.

Lemma any_w_false s : any_w s = false -> forall j, j < gn s -> g_w (gths s j) = false.
Proof.
  unfold any_w. intros H j Hj. destruct (g_w (gths s j)) eqn:E; auto.
  assert (X : existsb (fun j => g_w (gths s j)) (seq 0 (gn s)) = true).
  { apply existsb_exists. exists j. split; auto. apply in_seq. lia. }
  congruence.
Qed.
Lemma any_rw_false s : any_rw s = false -> forall j, j < gn s -> g_w (gths s j) = false /\ g_r (gths s j) = false.
Proof.
  unfold any_rw. intros H j Hj.
  destruct (g_w (gths s j) || g_r (gths s j)) eqn:E.
  - assert (X : existsb (fun j => g_w (gths s j) || g_r (gths s j)) (seq 0 (gn s)) = true).
    { apply existsb_exists. exists j. split; auto. apply in_seq. lia. }
    congruence.
  - now apply orb_false_iff in E.
Qed.

Lemma ginv_init s : g_init good_tag good_del good_push s -> GInv s.
Proof.
  intros [V H]. split.
  - intros i Hi. destruct (H i Hi) as (R & W & P). split; [|split].
    + unfold gshape. destruct P as [P|[P|[P|P]]]; rewrite P, R, W; tauto.
    + intros X. destruct P as [P|[P|[P|P]]]; rewrite P in X; discriminate.
    + intros [X|X]; destruct P as [P|[P|[P|P]]]; rewrite P in X; discriminate.
  - intros i j Hi Hj Wi. destruct (H i Hi) as (_ & W & _). congruence.
  - intros _. exact V.
Qed.

Ltac shape_cases H :=
  unfold gshape in H;
  repeat match type of H with _ \/ _ => destruct H as [H|H] end;
  destruct H as (?Hp & ?Hr & ?Hw).

Lemma ginv_step s i s' : GInv s -> g_step i s = Some s' -> GInv s'.
Proof.
  intros I H. unfold g_step in H.
  destruct (Nat.ltb i (gn s)) eqn:Li; [|discriminate]. apply Nat.ltb_lt in Li. simpl in H.
  destruct (gi_shape s I i Li) as (Sh & Fb & Fr).
  set (t := gths s i) in *.
  (* what the other threads need from a step of thread i *)
  assert (Oth : forall bl rf p r w ok,
            (bl = blob s \/ bl = true \/ (bl = false /\ g_w t = true)) ->
            (rf = refs s \/ (rf = 0) \/ (g_r t = true)) ->
            forall j, j < gn s -> j <> i ->
            let s1 := mkGS bl rf (gn s) (gupd (gths s) i (mkG p r w ok)) in
            gshape (gths s1 j) /\ fact_blob s1 (gths s1 j) /\ fact_refs s1 (gths s1 j)).
  { intros bl rf p r w ok Hb Hrf j Hj Hji s1. unfold s1. simpl. rewrite gupd_other by auto.
    destruct (gi_shape s I j Hj) as (Sj & Fbj & Frj). split; auto. split.
    - intros X Y. simpl. destruct Hb as [->|[->|[-> Wt]]]; auto.
      exfalso. destruct (gi_excl s I i j Li Hj Wt Hji) as [Rj _].
      shape_cases Sj; rewrite X in Hp; try discriminate. congruence.
    - intros X. simpl. destruct Hrf as [->|[->|Rt]]; auto.
      exfalso. assert (Wj : g_w (gths s j) = true).
      { shape_cases Sj; destruct X as [X|X]; rewrite X in Hp; try discriminate; auto. }
      destruct (gi_excl s I j i Hj Li Wj (fun e => Hji (eq_sym e))) as [Ri _]. fold t in Ri. congruence. }
  destruct (g_prog t) as [|st p] eqn:P; [discriminate|].
  destruct st.
  - (* GRLock *)
    destruct (any_w s) eqn:AW; [discriminate|]. injection H as <-.
    pose proof (any_w_false s AW) as NW.
    shape_cases Sh; rewrite P in Hp; try discriminate. injection Hp as ->.
    split; simpl.
    + intros j Hj. destruct (Nat.eq_dec j i) as [->|Hji].
      * rewrite gupd_same. split; [|split].
        -- unfold gshape. simpl. rewrite Hw. tauto.
        -- intros X. discriminate.
        -- intros [X|X]; discriminate.
      * apply Oth; auto.
    + intros a c Ha Hc Wa Hca. exfalso.
      destruct (Nat.eq_dec a i) as [->|Hai].
      * rewrite gupd_same in Wa. simpl in Wa. congruence.
      * rewrite gupd_other in Wa by auto. rewrite NW in Wa by auto. discriminate.
    + intros _. apply (gi_valid s I). intros a Ha. now apply NW.
  - (* GExists *)
    injection H as <-. shape_cases Sh; rewrite P in Hp; try discriminate. injection Hp as ->.
    split; simpl.
    + intros j Hj. destruct (Nat.eq_dec j i) as [->|Hji].
      * rewrite gupd_same. split; [|split].
        -- unfold gshape. simpl. rewrite Hr, Hw. tauto.
        -- intros _ X. simpl in X. exact X.
        -- intros [X|X]; discriminate.
      * apply Oth; auto.
    + intros a c Ha Hc Wa Hca.
      destruct (Nat.eq_dec a i) as [->|Hai].
      * rewrite gupd_same in Wa. simpl in Wa. congruence.
      * rewrite gupd_other in Wa by auto.
        destruct (Nat.eq_dec c i) as [->|Hci].
        -- exfalso. destruct (gi_excl s I a i Ha Li Wa (fun e => Hai (eq_sym e))) as [X _]. fold t in X. congruence.
        -- rewrite gupd_other by auto. now apply (gi_excl s I a c).
    + intros NW. apply (gi_valid s I). intros a Ha. specialize (NW a Ha).
      destruct (Nat.eq_dec a i) as [->|Hai]; [fold t; auto|]. now rewrite gupd_other in NW.
  - (* GReg *)
    injection H as <-. shape_cases Sh; rewrite P in Hp; try discriminate. injection Hp as ->.
    assert (NWo : forall a, a < gn s -> g_w (gths s a) = false).
    { intros a Ha. destruct (g_w (gths s a)) eqn:E; auto.
      destruct (Nat.eq_dec a i) as [->|Hai]; [fold t in E; congruence|].
      destruct (gi_excl s I a i Ha Li E (fun e => Hai (eq_sym e))) as [X _]. fold t in X. congruence. }
    split; simpl.
    + intros j Hj. destruct (Nat.eq_dec j i) as [->|Hji].
      * rewrite gupd_same. split; [|split].
        -- unfold gshape. simpl. rewrite Hr, Hw. tauto.
        -- intros X. discriminate.
        -- intros [X|X]; discriminate.
      * apply Oth; auto.
    + intros a c Ha Hc Wa Hca.
      destruct (Nat.eq_dec a i) as [->|Hai].
      * rewrite gupd_same in Wa. simpl in Wa. congruence.
      * rewrite gupd_other in Wa by auto. rewrite NWo in Wa by auto. discriminate.
    + intros _. unfold g_valid. simpl. intro Pos.
      destruct (g_ok t) eqn:Ok.
      * apply Fb; auto.
      * apply (gi_valid s I NWo). exact Pos.
  - (* GRUnlock *)
    injection H as <-. shape_cases Sh; rewrite P in Hp; try discriminate. injection Hp as ->.
    assert (NWo : forall a, a < gn s -> g_w (gths s a) = false).
    { intros a Ha. destruct (g_w (gths s a)) eqn:E; auto.
      destruct (Nat.eq_dec a i) as [->|Hai]; [fold t in E; congruence|].
      destruct (gi_excl s I a i Ha Li E (fun e => Hai (eq_sym e))) as [X _]. fold t in X. congruence. }
    split; simpl.
    + intros j Hj. destruct (Nat.eq_dec j i) as [->|Hji].
      * rewrite gupd_same. split; [|split].
        -- unfold gshape. simpl. rewrite Hw. tauto.
        -- intros X. discriminate.
        -- intros [X|X]; discriminate.
      * apply Oth; auto.
    + intros a c Ha Hc Wa Hca.
      destruct (Nat.eq_dec a i) as [->|Hai].
      * rewrite gupd_same in Wa. simpl in Wa. congruence.
      * rewrite gupd_other in Wa by auto. rewrite NWo in Wa by auto. discriminate.
    + intros _. apply (gi_valid s I NWo).
  - (* DWLock *)
    destruct (any_rw s) eqn:AR; [discriminate|]. injection H as <-.
    pose proof (any_rw_false s AR) as NRW.
    shape_cases Sh; rewrite P in Hp; try discriminate. injection Hp as ->.
    split; simpl.
    + intros j Hj. destruct (Nat.eq_dec j i) as [->|Hji].
      * rewrite gupd_same. split; [|split].
        -- unfold gshape. simpl. rewrite Hr. tauto.
        -- intros X. discriminate.
        -- intros [X|X]; discriminate.
      * apply Oth; auto.
    + intros a c Ha Hc Wa Hca.
      destruct (Nat.eq_dec c i) as [->|Hci].
      * exfalso. rewrite gupd_other in Wa by auto. destruct (NRW a Ha) as [X _]. congruence.
      * rewrite gupd_other by auto. destruct (NRW c Hc) as [X Y]. auto.
    + intros NW. exfalso. specialize (NW i Li). rewrite gupd_same in NW. simpl in NW. discriminate.
  - (* DUntag *)
    injection H as <-. shape_cases Sh; rewrite P in Hp; try discriminate. injection Hp as ->.
    split; simpl.
    + intros j Hj. destruct (Nat.eq_dec j i) as [->|Hji].
      * rewrite gupd_same. split; [|split].
        -- unfold gshape. simpl. rewrite Hr, Hw. tauto.
        -- intros X. discriminate.
        -- intros _. reflexivity.
      * apply Oth; auto.
    + intros a c Ha Hc Wa Hca.
      destruct (Nat.eq_dec a i) as [->|Hai].
      * rewrite gupd_other by auto. apply (gi_excl s I i c); auto.
      * rewrite gupd_other in Wa by auto. exfalso.
        destruct (gi_excl s I i a Li Ha Hw Hai) as [_ X]. congruence.
    + intros NW. exfalso. specialize (NW i Li). rewrite gupd_same in NW. simpl in NW. congruence.
  - (* DRemove *)
    injection H as <-. shape_cases Sh; rewrite P in Hp; try discriminate. injection Hp as ->.
    split; simpl.
    + intros j Hj. destruct (Nat.eq_dec j i) as [->|Hji].
      * rewrite gupd_same. split; [|split].
        -- unfold gshape. simpl. rewrite Hr, Hw. tauto.
        -- intros X. discriminate.
        -- intros _. simpl. apply Fr. now left.
      * apply Oth; auto.
    + intros a c Ha Hc Wa Hca.
      destruct (Nat.eq_dec a i) as [->|Hai].
      * rewrite gupd_other by auto. apply (gi_excl s I i c); auto.
      * rewrite gupd_other in Wa by auto. exfalso.
        destruct (gi_excl s I i a Li Ha Hw Hai) as [_ X]. congruence.
    + intros NW. exfalso. specialize (NW i Li). rewrite gupd_same in NW. simpl in NW. congruence.
  - (* DWUnlock *)
    injection H as <-. shape_cases Sh; rewrite P in Hp; try discriminate. injection Hp as ->.
    split; simpl.
    + intros j Hj. destruct (Nat.eq_dec j i) as [->|Hji].
      * rewrite gupd_same. split; [|split].
        -- unfold gshape. simpl. rewrite Hr. tauto.
        -- intros X. discriminate.
        -- intros [X|X]; discriminate.
      * apply Oth; auto.
    + intros a c Ha Hc Wa Hca.
      destruct (Nat.eq_dec a i) as [->|Hai].
      * rewrite gupd_same in Wa. simpl in Wa. discriminate.
      * rewrite gupd_other in Wa by auto. exfalso.
        destruct (gi_excl s I i a Li Ha Hw Hai) as [_ X]. congruence.
    + intros _. unfold g_valid. simpl. rewrite Fr by (now right). lia.
  - (* PRLock *)
    destruct (any_w s) eqn:AW; [discriminate|]. injection H as <-.
    pose proof (any_w_false s AW) as NW.
    shape_cases Sh; rewrite P in Hp; try discriminate. injection Hp as ->.
    split; simpl.
    + intros j Hj. destruct (Nat.eq_dec j i) as [->|Hji].
      * rewrite gupd_same. split; [|split].
        -- unfold gshape. simpl. rewrite Hw. tauto.
        -- intros X. discriminate.
        -- intros [X|X]; discriminate.
      * apply Oth; auto.
    + intros a c Ha Hc Wa Hca. exfalso.
      destruct (Nat.eq_dec a i) as [->|Hai].
      * rewrite gupd_same in Wa. simpl in Wa. congruence.
      * rewrite gupd_other in Wa by auto. rewrite NW in Wa by auto. discriminate.
    + intros _. apply (gi_valid s I). intros a Ha. now apply NW.
  - (* PCreate *)
    injection H as <-. shape_cases Sh; rewrite P in Hp; try discriminate. injection Hp as ->.
    split; simpl.
    + intros j Hj. destruct (Nat.eq_dec j i) as [->|Hji].
      * rewrite gupd_same. split; [|split].
        -- unfold gshape. simpl. rewrite Hr, Hw. tauto.
        -- intros X. discriminate.
        -- intros [X|X]; discriminate.
      * apply Oth; auto.
    + intros a c Ha Hc Wa Hca.
      destruct (Nat.eq_dec a i) as [->|Hai].
      * rewrite gupd_same in Wa. simpl in Wa. congruence.
      * rewrite gupd_other in Wa by auto.
        destruct (Nat.eq_dec c i) as [->|Hci].
        -- exfalso. destruct (gi_excl s I a i Ha Li Wa (fun e => Hai (eq_sym e))) as [X _]. fold t in X. congruence.
        -- rewrite gupd_other by auto. now apply (gi_excl s I a c).
    + intros _ _. reflexivity.
  - (* PRUnlock *)
    injection H as <-. shape_cases Sh; rewrite P in Hp; try discriminate. injection Hp as ->.
    assert (NWo : forall a, a < gn s -> g_w (gths s a) = false).
    { intros a Ha. destruct (g_w (gths s a)) eqn:E; auto.
      destruct (Nat.eq_dec a i) as [->|Hai]; [fold t in E; congruence|].
      destruct (gi_excl s I a i Ha Li E (fun e => Hai (eq_sym e))) as [X _]. fold t in X. congruence. }
    split; simpl.
    + intros j Hj. destruct (Nat.eq_dec j i) as [->|Hji].
      * rewrite gupd_same. split; [|split].
        -- unfold gshape. simpl. rewrite Hw. tauto.
        -- intros X. discriminate.
        -- intros [X|X]; discriminate.
      * apply Oth; auto.
    + intros a c Ha Hc Wa Hca.
      destruct (Nat.eq_dec a i) as [->|Hai].
      * rewrite gupd_same in Wa. simpl in Wa. congruence.
      * rewrite gupd_other in Wa by auto. rewrite NWo in Wa by auto. discriminate.
    + intros _. apply (gi_valid s I NWo).
Qed.

Lemma ginv_run sched : forall s, GInv s -> GInv (g_run sched s).
Proof.
  induction sched as [|i r IH]; intros s I; simpl; auto.
  apply IH. destruct (g_step i s) eqn:E; auto. eapply ginv_step; eauto.
Qed.

(* every interleaving of any number of Tag / Delete / Push calls on the same content: once all
   have returned, a registered reference points to content that exists *)
Theorem tag_delete_quiescent_current s0 sched :
  g_init good_tag good_del good_push s0 ->
  let s := g_run sched s0 in
  g_quiescent s -> g_valid s.
Proof.
  intros H0 s Q. pose proof (ginv_run sched s0 (ginv_init s0 H0)) as I. fold s in I.
  apply (gi_valid s I). intros i Hi.
  destruct (gi_shape s I i Hi) as (Sh & _). specialize (Q i Hi).
  shape_cases Sh; rewrite Q in Hp; try discriminate; auto.
Qed.

(* the order of the seeded change (Exists before the read lock): a Tag that checked first and
   locked after a whole Delete registers a reference to content that is gone *)
Definition bad_tag : list gstep := [GExists; GRLock; GReg; GRUnlock].
Lemma bad_tag_program :
  tag_prog_of [b "validateReference"; b "s.storage.Exists"; b "s.sync.RLock"; b "s.graph.Index"; b "s.tag"] = bad_tag.
Proof. reflexivity. Qed.

Definition exg_s0 : gstate :=
  mkGS true 1 2 (fun i => match i with 0 => mkG bad_tag false false false | 1 => mkG good_del false false false
                                    | _ => mkG [] false false false end).
Lemma tag_delete_refuted_exists_before_lock :
  g_init bad_tag good_del good_push exg_s0 /\
  (let s := g_run [0; 1; 1; 1; 1; 0; 0; 0] exg_s0 in
   g_quiescent s /\ refs s = 1 /\ blob s = false).
Proof.
  split.
  - split; [intros _; reflexivity|]. intros [|[|i]] Hi; simpl; repeat split; auto; simpl in Hi; lia.
  - split; [|split; reflexivity]. intros [|[|i]] Hi; simpl in Hi; try lia; reflexivity.
Qed.


(* ---------- system 1 on the resolver map: the store invariant holds in every interleaving ---------- *)
Lemma ixinv_untag ix t : IxInv ix -> IxInv (runset (RTag t) ix).
Proof.
  intro I. split.
  - apply nodup_runset, I.
  - intros k d H. rewrite lookup_runset in H. simpl in H. now apply (ix_j2 _ I).
  - intros t' d H. rewrite lookup_runset in H. destruct (ref_eqb (RTag t') (RTag t)); [discriminate|].
    rewrite lookup_runset. simpl. now apply (ix_j1 _ I t').
Qed.

Lemma reg_keeps_digests r ix k : lookup (RDig k) ix <> None -> lookup (RDig k) (reg_fun r ix) <> None.
Proof.
  intro H. destruct r as [d|t d|t]; cbn [reg_fun].
  - rewrite lookup_rset. destruct (ref_eqb (RDig k) (RDig (d_node d))); congruence.
  - rewrite lookup_rset. cbn [ref_eqb]. exact H.
  - rewrite lookup_runset. cbn [ref_eqb]. exact H.
Qed.

(* every tag registration still to come finds the digest entry of its descriptor: it is there
   already, or the same operation registers it before ([pres]) *)
Fixpoint safe' (pres : list nat) (ix : rmap) (l : list rreg) : Prop :=
  match l with
  | [] => True
  | RegDig d :: r => safe' (d_node d :: pres) ix r
  | RegTag t d :: r => (lookup (RDig (d_node d)) ix <> None \/ In (d_node d) pres) /\ safe' pres ix r
  | RegUntag t :: r => safe' pres ix r
  end.

Lemma safe_mono l : forall pres pres' ix ix',
  (forall k, lookup (RDig k) ix <> None \/ In k pres -> lookup (RDig k) ix' <> None \/ In k pres') ->
  safe' pres ix l -> safe' pres' ix' l.
Proof.
  induction l as [|[d|t d|t] l IH]; intros pres pres' ix ix' M H; simpl in *; auto.
  - apply (IH (d_node d :: pres) (d_node d :: pres') ix ix'); auto.
    intros k [X|[X|X]]; [destruct (M k (or_introl X)); auto; right; now right|right; now left|].
    destruct (M k (or_intror X)); auto. right. now right.
  - destruct H as [H1 H2]. split; [now apply M|]. now apply (IH pres pres' ix ix').
  - now apply (IH pres pres' ix ix').
Qed.

Lemma safe_cop o ix : safe' [] ix (cop_regs o).
Proof. destruct o; simpl; auto. Qed.

Section Typed.
  Notation St := (sstate rmap (list desc)).
  Let proj := fun (c : list nat * list nat) (v : rmap) => save_index (fst c) (snd c) v.

  Definition typed_thread (ix : rmap) (t : thread rmap) : Prop :=
    exists l ops, t_regs rmap t = map reg_fun l /\ safe' [] ix l /\ t_ops rmap t = map cop_thread_op ops.
  Definition TInv (s : St) : Prop :=
    IxInv (live _ _ s) /\ forall i, typed_thread (live _ _ s) (ths _ _ s i).

  Lemma tinv_step s i c s' : TInv s -> th_step rmap (list desc) _ proj i c s = Some s' -> TInv s'.
  Proof.
    intros [I T] H. unfold th_step in H.
    destruct (T i) as (l & ops & El & Sl & Eo).
    assert (Same : forall t', live _ _ s' = live _ _ s -> ths _ _ s' = upd rmap (ths _ _ s) i t' ->
                   typed_thread (live _ _ s) t' -> TInv s').
    { intros t' E1 E2 Tt. split; [now rewrite E1|]. intro j. rewrite E1, E2. unfold upd.
      destruct (Nat.eqb j i); auto. }
    destruct (t_regs rmap (ths _ _ s i)) as [|f fs] eqn:R.
    - assert (Tl : l = []) by (destruct l; [reflexivity|discriminate]). subst l.
      destruct (t_save rmap (ths _ _ s i)) as [|st r] eqn:Sv.
      + destruct (t_ops rmap (ths _ _ s i)) as [|[rg sv] more] eqn:O; [discriminate|]. injection H as <-.
        destruct ops as [|o ops]; [discriminate|]. simpl in Eo. injection Eo as E1 E2 E3.
        eapply Same; [reflexivity|reflexivity|]. exists (cop_regs o), ops. simpl. subst rg.
        repeat split; auto. apply safe_cop.
      + destruct st.
        * destruct (ilock _ _ s); [discriminate|]. injection H as <-.
          eapply Same; [reflexivity|reflexivity|]. exists [], ops. simpl. auto.
        * injection H as <-. eapply Same; [reflexivity|reflexivity|]. exists [], ops. simpl. auto.
        * injection H as <-. eapply Same; [reflexivity|reflexivity|]. exists [], ops. simpl. auto.
        * injection H as <-. eapply Same; [reflexivity|reflexivity|]. exists [], ops. simpl. auto.
    - injection H as <-. destruct l as [|r l]; [discriminate|]. simpl in El. injection El as Ef Efs. subst f fs.
      simpl.
      assert (Mono : forall k, lookup (RDig k) (live _ _ s) <> None -> lookup (RDig k) (reg_fun r (live _ _ s)) <> None)
        by (intros k; apply reg_keeps_digests).
      split; simpl.
      + destruct r as [d|t d|t]; simpl in *.
        * now apply ixinv_set_dig.
        * destruct Sl as [[X|[]] _]. now apply ixinv_set_tag.
        * now apply ixinv_untag.
      + intro j. unfold upd. destruct (Nat.eqb j i).
        * exists l, ops. simpl. repeat split; auto.
          destruct r as [d|t d|t]; simpl in Sl |- *.
          -- apply (safe_mono l [d_node d] [] (live _ _ s)); auto.
             intros k [X|[X|[]]]; left; [now apply (Mono k)|].
             subst k. rewrite lookup_rset, ref_eqb_refl. congruence.
          -- destruct Sl as [_ Sl]. apply (safe_mono l [] [] (live _ _ s)); auto.
             intros k [X|[]]. left. now apply (Mono k).
          -- apply (safe_mono l [] [] (live _ _ s)); auto.
             intros k [X|[]]. left. now apply (Mono k).
        * destruct (T j) as (lj & opsj & A & B & Cj). exists lj, opsj. repeat split; auto.
          apply (safe_mono lj [] [] (live _ _ s)); auto. intros k [X|[]]. left. now apply (Mono k).
  Qed.

  Lemma tinv_run sched : forall s, TInv s -> TInv (run_sched rmap (list desc) _ proj sched s).
  Proof.
    induction sched as [|[i c] r IH]; intros s I; simpl; auto.
    apply IH. destruct (th_step rmap (list desc) _ proj i c s) eqn:E; auto. eapply tinv_step; eauto.
  Qed.
End Typed.

(* ---------- the two systems with the programs read from the sources, on the store model ---------- *)
(* index.json = saveIndex of the live resolver map, for some iteration orders, hence (for a
   resolver map satisfying the store invariant) an order-independent projection of it *)
Theorem concurrent_saves_index_current
  (s0 : sstate rmap (list desc)) (sched : list (nat * (list nat * list nat))) :
  let proj := fun (c : list nat * list nat) (v : rmap) => save_index (fst c) (snd c) v in
  s_init rmap (list desc) (list nat * list nat) proj save_prog s0 ->
  let s := run_sched rmap (list desc) (list nat * list nat) proj sched s0 in
  quiescent rmap (list desc) s ->
  (exists c1 c2, disk _ _ s = save_index c1 c2 (live _ _ s)) /\
  (IxInv (live _ _ s) -> DiskOK (disk _ _ s) (live _ _ s)).
Proof.
  intros proj H0 s Q. rewrite save_prog_good in H0.
  destruct (save_quiescent_current rmap (list desc) (list nat * list nat) proj s0 sched H0 Q) as ([c1 c2] & E).
  split; [exists c1, c2; exact E|]. intro I. fold s in E. rewrite E. now apply save_diskok.
Qed.

Theorem concurrent_tag_delete_valid (s0 : gstate) (sched : list nat) :
  g_init tag_prog del_prog push_prog s0 ->
  let s := g_run sched s0 in g_quiescent s -> g_valid s.
Proof.
  rewrite tag_prog_good, del_prog_good, push_prog_good. apply tag_delete_quiescent_current.
Qed.

(* the hypotheses are satisfiable: three threads (a Tag: two registrations; an Untag; a SaveIndex)
   under a non-trivial schedule *)
Definition exc_thread (regs : list (rmap -> rmap)) : thread rmap := mkTh rmap [] [] None [(regs, save_prog)].
Definition exc_s0 : sstate rmap (list desc) :=
  mkSt rmap (list desc) [] [] None
    (fun i => match i with
              | 0 => exc_thread [rset (RDig 1) (plain 1); rset (RTag 0) (plain 1)]
              | 1 => exc_thread [runset (RTag 0)]
              | 2 => exc_thread []
              | _ => mkTh rmap [] [] None []
              end).
Lemma concurrent_example :
  let proj := fun (c : list nat * list nat) (v : rmap) => save_index (fst c) (snd c) v in
  s_init rmap (list desc) (list nat * list nat) proj save_prog exc_s0 /\
  (let s := run_sched rmap (list desc) _ proj
              (map (fun i => (i, ([1], [0]))) [0; 1; 2; 0; 2; 1; 1; 0; 2; 2; 2; 1; 0; 0; 1; 0; 0; 1; 1]) exc_s0 in
   live _ _ s = [(RTag 0, plain 1); (RDig 1, plain 1)] /\
   disk _ _ s = [mkDesc 1 0 (Some (RTag 0))] /\ ilock _ _ s = None).
Proof.
  split.
  - split; [exists ([], []); reflexivity|]. split; [reflexivity|].
    intros [|[|[|i]]]; repeat split; repeat constructor.
  - vm_compute. repeat split.
Qed.


(* Unconditional form: threads running any lists of Tag / Tag-by-digest (manifest Push) / Untag /
   SaveIndex on a store whose resolver map satisfies the store invariant and whose index.json is
   current: under every schedule the invariant holds at every moment, and at quiescence
   index.json is the order-independent projection of the live map *)
Theorem concurrent_store_index_current
  (s0 : sstate rmap (list desc)) (sched : list (nat * (list nat * list nat))) :
  let proj := fun (c : list nat * list nat) (v : rmap) => save_index (fst c) (snd c) v in
  IxInv (live _ _ s0) -> (exists c, disk _ _ s0 = proj c (live _ _ s0)) -> ilock _ _ s0 = None ->
  (forall i, exists ops, ths _ _ s0 i = mkTh rmap [] [] None (map cop_thread_op ops)) ->
  let s := run_sched rmap (list desc) (list nat * list nat) proj sched s0 in
  IxInv (live _ _ s) /\ (quiescent rmap (list desc) s -> DiskOK (disk _ _ s) (live _ _ s)).
Proof.
  intros proj I0 D0 L0 T0 s.
  assert (TI : TInv s0).
  { split; auto. intro i. destruct (T0 i) as (ops & ->). exists [], ops. simpl. auto. }
  pose proof (tinv_run sched s0 TI) as [I _]. fold proj in I. fold s in I.
  split; auto. intro Q.
  apply (concurrent_saves_index_current s0 sched); auto.
  split; auto. split; auto. intro i. destruct (T0 i) as (ops & ->). simpl. repeat split; auto.
  apply Forall_forall. intros o Ho. apply in_map_iff in Ho as (c & <- & _). reflexivity.
Qed.

(* ---------- more of the sources pinned ---------- *)
(* GC's sweep: algorithm directory, then name validation, then graph membership, then the removal;
   the known algorithms; the kind-level model of stray files agrees with them *)
Lemma gc_sweep_as_in_the_sources :
  c08_calls_GC_sweep = [b "isKnownAlgorithm"; b "blobDigest.Validate"; b "reachableNodes.Contains"; b "os.Remove"] /\
  c08_known_algorithms = ["digest.SHA256"; "digest.SHA512"; "digest.SHA384"]%string /\
  forall k, stray_swept (fst (stray_of_kind k)) (snd (stray_of_kind k)) = gc_sweeps_stray k.
Proof. split; [reflexivity|]. split; [reflexivity|]. intros []; reflexivity. Qed.

(* loadIndex: digest entry (ref name stripped), then the tag, then IndexAll - the order of load_entry;
   Store.tag: both registrations before the save; delete(): references and graph before the save,
   the blob last *)
Lemma load_and_delete_order_as_in_the_sources :
  c08_calls_loadIndex = [b "tagger.Tag"; b "deleteAnnotationRefName"; b "tagger.Tag"; b "graph.IndexAll"] /\
  c08_calls_tag = [b "s.tagResolver.Tag"; b "s.tagResolver.Tag"; b "s.saveIndex"] /\
  c08_calls_delete = [b "s.tagResolver.Untag"; b "s.graph.Remove"; b "s.saveIndex"; b "s.storage.Delete"] /\
  c08_calls_GC = [b "s.sync.Lock"; b "s.gcIndex"; b "s.saveIndex"; b "os.Remove"].
Proof. repeat split; reflexivity. Qed.

(* the control flow around the effects (kind callguards): Store.tag registers the digest entry first
   iff the reference is not the digest ([is_digest_ref] in st_tag) and saves iff AutoSaveIndex
   ([maybe_save]); delete() drops the references of the target's DIGEST and saves iff something
   changed and AutoSaveIndex ([changed] in delete1); GC saves iff AutoSaveIndex; Push tags manifests
   only and removes content it cannot index; Tag indexes manifests only; loadIndex registers the tag
   iff the ref name is not empty ([load_entry]) *)
Lemma guards_as_in_the_sources :
  c08_guards_tag =
    [(b "s.tagResolver.Tag"%string, [b "reference != dgst"%string]); (b "s.tagResolver.Tag"%string, []); (b "s.saveIndex"%string, [b "s.AutoSaveIndex"%string])] /\
  c08_guards_Untag =
    [(b "s.tagResolver.Untag"%string, []); (b "s.saveIndex"%string, [b "s.AutoSaveIndex"%string])] /\
  c08_guards_delete =
    [(b "s.tagResolver.Untag"%string, [b "desc.Digest == target.Digest"%string]); (b "s.tagResolver.Tag"%string, []); (b "s.saveIndex"%string, [b "indexChanged && s.AutoSaveIndex"%string]); (b "s.storage.Delete"%string, [])] /\
  c08_guards_GC =
    [(b "s.gcIndex"%string, []); (b "s.tagResolver.Tag"%string, []); (b "s.saveIndex"%string, [b "s.AutoSaveIndex"%string])] /\
  c08_guards_Push =
    [(b "s.storage.Push"%string, []); (b "s.graph.Index"%string, []); (b "s.storage.Delete"%string, [b "err != nil"%string]); (b "s.tag"%string, [b "descriptor.IsManifest(expected)"%string])] /\
  c08_guards_Tag =
    [(b "s.storage.Exists"%string, []); (b "s.graph.Index"%string, [b "descriptor.IsManifest(desc)"%string]); (b "s.tag"%string, [])] /\
  c08_guards_loadIndex =
    [(b "tagger.Tag"%string, []); (b "tagger.Tag"%string, [b "ref != ''"%string]); (b "graph.IndexAll"%string, [])].
Proof. repeat split; reflexivity. Qed.
