(* C12: restoreDirModes -- every directory is created owner-writable (mode | 0700) and gets
   its recorded mode after the last entry; with it the round trip holds at full strength:
   the directory itself included, setuid/setgid/sticky directories included, and without any
   directory being read-only while its entries are created. *)
From Oras Require Import Base.Prelude Model.TarRoundTrip Proofs.TarRoundTrip Proofs.TarWalkOrder Proofs.TarModeSweep.

(* ---------- every entry of a subtree is named below the subtree ---------- *)
Lemma entries_names pre repro : forall t rel,
  Forall (fun e => exists p, e_name e = pre ++ rel ++ p) (entries pre repro rel t).
Proof.
  induction t as [c m mt|tg mt|m mt ch IH] using tree_ind'; intro rel; simpl.
  - constructor; [exists []; now rewrite app_nil_r|constructor].
  - constructor; [exists []; now rewrite app_nil_r|constructor].
  - constructor; [exists []; now rewrite app_nil_r|].
    induction IH as [|nc l Hnc _ IHl]; simpl; [constructor|].
    apply Forall_app. split; [|exact IHl].
    eapply Forall_impl; [|apply Hnc]. intros e [p E]. exists (fst nc :: p).
    rewrite E, <- app_assoc. reflexivity.
Qed.

Lemma final_ok umask preserve m cur :
  m <= 4095 -> (preserve = false -> umask <= 511) ->
  cur = mid_dir_mode umask m \/ cur = N.ldiff 511 umask ->
  final_dir_mode preserve cur m = restored_mode umask preserve m.
Proof.
  intros Hm Hu Hc. unfold final_dir_mode, restored_mode. destruct preserve.
  - unfold chmod_mode, file_create_bits. change 4095 with (N.ones 12).
    apply land_small. change (2 ^ 12) with 4096. lia.
  - destruct (narrow_ok umask m Hm (Hu eq_refl)) as [H1 H2]. destruct Hc as [-> | ->]; assumption.
Qed.

(* ---------- restoreDirModes as a lookup ---------- *)
Lemma finish_step_other pre preserve f0 acc e p :
  (forall cur, fs_lookup f0 p <> Some (NDir cur)) ->
  fs_lookup (finish_step pre preserve f0 acc e) p = fs_lookup acc p.
Proof.
  intro Hp. unfold finish_step.
  destruct (e_kind e); try reflexivity.
  destruct (strip_prefix pre (e_name e)) as [rel|]; [|reflexivity].
  destruct (fs_lookup f0 rel) as [[| cur |]|] eqn:E; try reflexivity.
  rewrite lookup_set. destruct (path_eqb rel p) eqn:Ep; [|reflexivity].
  apply path_eqb_spec in Ep. subst. exfalso. exact (Hp cur E).
Qed.

Lemma finish_lookup pre preserve f0 : forall es acc p,
  fs_lookup (fold_left (finish_step pre preserve f0) es acc) p =
  match last_dir_mode pre p es, fs_lookup f0 p with
  | Some m, Some (NDir cur) => Some (NDir (final_dir_mode preserve cur m))
  | _, _ => fs_lookup acc p
  end.
Proof.
  induction es as [|e es IH]; intros acc p; simpl.
  - destruct (fs_lookup f0 p) as [[]|]; reflexivity.
  - rewrite IH. destruct (last_dir_mode pre p es) as [m|].
    + destruct (fs_lookup f0 p) as [[c m0|cur|g]|] eqn:E; try reflexivity;
        apply finish_step_other; intros cur' E'; rewrite E in E'; discriminate.
    + unfold finish_step.
      destruct (e_kind e) eqn:Ek; try (destruct (fs_lookup f0 p) as [[]|]; reflexivity).
      destruct (strip_prefix pre (e_name e)) as [rel|] eqn:Es;
        [|destruct (fs_lookup f0 p) as [[]|]; reflexivity].
      destruct (path_eqb rel p) eqn:Ep.
      * apply path_eqb_spec in Ep. subst rel.
        destruct (fs_lookup f0 p) as [[c m0|cur|g]|]; try reflexivity. now rewrite lookup_set_same.
      * assert (fs_lookup match fs_lookup f0 rel with
                          | Some (NDir cur) => fs_set acc rel (NDir (final_dir_mode preserve cur (e_mode e)))
                          | _ => acc end p = fs_lookup acc p) as ->.
        { destruct (fs_lookup f0 rel) as [[| cur |]|]; try reflexivity.
          rewrite lookup_set, Ep. reflexivity. }
        destruct (fs_lookup f0 p) as [[]|]; reflexivity.
Qed.

(* ---------- the directory entries of a tree ---------- *)
Definition dir_mode_of (o : option tree) : option N :=
  match o with Some (Dir m _ _) => Some m | _ => None end.

Lemma last_dir_mode_app pre p a b0 :
  last_dir_mode pre p (a ++ b0) =
  match last_dir_mode pre p b0 with Some m => Some m | None => last_dir_mode pre p a end.
Proof.
  induction a as [|e a IH]; simpl.
  - destruct (last_dir_mode pre p b0); reflexivity.
  - rewrite IH. destruct (last_dir_mode pre p b0); reflexivity.
Qed.

Lemma last_dir_mode_none pre q es :
  Forall (fun e => forall r, strip_prefix pre (e_name e) = Some r -> r <> q) es ->
  last_dir_mode pre q es = None.
Proof.
  induction 1 as [|e es He _ IH]; simpl; [reflexivity|]. rewrite IH.
  destruct (e_kind e); try reflexivity.
  destruct (strip_prefix pre (e_name e)) as [r|] eqn:E; [|reflexivity].
  rewrite (path_eqb_neq r q (He r eq_refl)). reflexivity.
Qed.

Lemma entries_not_under pre repro t rel q :
  (forall p, q <> rel ++ p) -> last_dir_mode pre q (entries pre repro rel t) = None.
Proof.
  intro Hq. apply last_dir_mode_none.
  eapply Forall_impl; [|apply entries_names]. intros e [p E] r Hr.
  rewrite E, strip_prefix_app in Hr. injection Hr as <-. intro Eq. exact (Hq p (eq_sym Eq)).
Qed.

Lemma children_not_under pre repro rel q : forall l,
  (forall n p, In n (map fst l) -> q <> rel ++ n :: p) ->
  last_dir_mode pre q (flat_map (fun nc => entries pre repro (rel ++ [fst nc]) (snd nc)) l) = None.
Proof.
  induction l as [|nc l IH]; intro Hq; simpl; [reflexivity|].
  rewrite last_dir_mode_app, IH by (intros n p Hin; apply Hq; now right).
  apply entries_not_under. intros p E. rewrite <- app_assoc in E. simpl in E.
  exact (Hq (fst nc) p (or_introl eq_refl) E).
Qed.

Lemma existsb_str_in n l : existsb (str_eqb n) l = false -> ~ In n l.
Proof.
  intros E Hin. assert (existsb (str_eqb n) l = true) as E'
    by (apply existsb_exists; exists n; split; [exact Hin|apply str_eqb_refl]).
  rewrite E in E'. discriminate.
Qed.

Lemma last_dir_mode_tree pre repro : forall t rel p,
  wf_treeb t = true ->
  last_dir_mode pre (rel ++ p) (entries pre repro rel t) = dir_mode_of (tree_get t p).
Proof.
  induction t as [c m mt|tg mt|m mt ch IH] using tree_ind'; intros rel p Hwf.
  - simpl. destruct p; reflexivity.
  - simpl. destruct p; reflexivity.
  - simpl in Hwf. apply andb_true_iff in Hwf as [Hnd Hwf]. apply andb_true_iff in Hnd as [Hnd Hnok].
    change (entries pre repro rel (Dir m mt ch))
      with (mkEntry (pre ++ rel) EDir m (hdr_time repro mt) ::
            flat_map (fun nc => entries pre repro (rel ++ [fst nc]) (snd nc)) ch).
    simpl last_dir_mode. rewrite strip_prefix_app.
    destruct p as [|n p].
    + rewrite app_nil_r, path_eqb_refl.
      rewrite children_not_under; [reflexivity|].
      intros n p _. apply app_neq_longer. discriminate.
    + rewrite (path_eqb_neq rel (rel ++ n :: p)) by (apply app_neq_longer; discriminate).
      assert (Hch : last_dir_mode pre (rel ++ n :: p)
                (flat_map (fun nc => entries pre repro (rel ++ [fst nc]) (snd nc)) ch)
              = match find_child n ch with Some c => dir_mode_of (tree_get c p) | None => None end).
      { clear m mt Hnok. induction ch as [|[n0 c0] l IHl]; [reflexivity|].
        inversion IH as [|? ? IH0 IHr]; subst. simpl in Hnd, Hwf |- *.
        apply andb_true_iff in Hnd as [Hn0 Hnd]. apply negb_true_iff in Hn0.
        apply andb_true_iff in Hwf as [Hw0 Hwf].
        rewrite last_dir_mode_app. destruct (str_eqb n0 n) eqn:En.
        - apply str_eqb_spec in En. subst n0.
          rewrite children_not_under.
          + specialize (IH0 (rel ++ [n]) p Hw0). rewrite <- app_assoc in IH0. exact IH0.
          + intros n' p' Hin E. apply app_inv_head in E. injection E as E _. subst n'.
            exact (existsb_str_in n (map fst l) Hn0 Hin).
        - rewrite (IHl IHr Hnd Hwf).
          destruct (find_child n l) as [c|]; [destruct (dir_mode_of (tree_get c p)); [reflexivity|]|];
            apply entries_not_under; intros p' E; rewrite <- app_assoc in E; simpl in E;
            apply app_inv_head in E; injection E as E _; subst n0; rewrite str_eqb_refl in En; discriminate. }
      rewrite Hch. simpl. destruct (find_child n ch) as [c|]; [destruct (dir_mode_of (tree_get c p))|]; reflexivity.
Qed.

Lemma modes_get : forall p t m mt ch,
  modes_okb t = true -> tree_get t p = Some (Dir m mt ch) -> m <= 4095.
Proof.
  induction p as [|n p IH]; intros t m mt ch Hmo Hg.
  - simpl in Hg. injection Hg as ->. simpl in Hmo. apply andb_true_iff in Hmo as [Hm _]. now apply N.leb_le.
  - destruct t as [| |m0 mt0 ch0]; try discriminate. simpl in Hg, Hmo.
    apply andb_true_iff in Hmo as [_ Hmo].
    destruct (find_child n ch0) as [c|] eqn:Ec; [|discriminate].
    eapply IH; [|exact Hg]. exact (find_child_forallb modes_okb n ch0 c Hmo Ec).
Qed.

(* ---------- the round trip, the directory itself included ---------- *)
Theorem roundtrip_full pre umask preserve repro T :
  (preserve = false -> umask <= 511) ->
  is_dir T = true -> wf_treeb T = true -> modes_okb T = true -> benign_tree pre T = true ->
  exists f', extract pre umask preserve (entries pre repro [] T) = Ok f' /\
    forall p, fs_lookup f' p = expected umask preserve T p.
Proof.
  intros Hu Hd Hwf Hmo Hbe.
  destruct (extract_list_mid pre umask preserve repro T Hd Hwf Hmo Hbe) as (f' & E & L).
  unfold extract. rewrite E. eexists. split; [reflexivity|]. intro p.
  unfold finish_dirs. rewrite finish_lookup.
  pose proof (last_dir_mode_tree pre repro T [] p Hwf) as Hl. simpl in Hl. rewrite Hl, L.
  unfold expected, expected_mid_top, expected_mid.
  destruct (tree_get T p) as [[c m mt|tg mt|m mt ch]|] eqn:Eg; simpl.
  - destruct p; [destruct T; try discriminate; simpl in Eg; discriminate|reflexivity].
  - destruct p; [destruct T; try discriminate; simpl in Eg; discriminate|reflexivity].
  - pose proof (modes_get p T m mt ch Hmo Eg) as Hm.
    destruct p as [|n p].
    + destruct T as [| |m0 mt0 ch0]; try discriminate. simpl in Eg. injection Eg as -> -> ->.
      f_equal. f_equal. apply (final_ok umask preserve m _ Hm Hu). now right.
    + try rewrite Eg. f_equal. f_equal. apply (final_ok umask preserve m _ Hm Hu). now left.
  - destruct p; [destruct T; discriminate|]. try rewrite Eg. reflexivity.
Qed.

(* what Store.Add really writes (filepath.Walk sorts every directory) *)
Theorem roundtrip_walk_full pre umask preserve repro T :
  (preserve = false -> umask <= 511) ->
  is_dir T = true -> wf_treeb T = true -> modes_okb T = true -> benign_tree pre T = true ->
  exists f', extract pre umask preserve (tar_entries pre repro T) = Ok f' /\
    forall p, fs_lookup f' p = expected umask preserve T p.
Proof.
  intros Hu Hd Hwf Hmo Hbe.
  destruct (roundtrip_full pre umask preserve repro (sort_tree T) Hu) as (f' & E & L).
  - destruct T; try discriminate; reflexivity.
  - now rewrite wf_sort.
  - now rewrite modes_sort.
  - now rewrite benign_tree_sort.
  - exists f'. split; [exact E|]. intro p. rewrite L. now apply expected_sort.
Qed.

(* after the fix the witness of the old root-mode finding restores exactly *)
Theorem root_mode_fixed_witness :
  exists f', extract [b "d"] 18 false (tar_entries [b "d"] true root_mode_witness) = Ok f' /\
    fs_lookup f' [] = expected 18 false root_mode_witness [].
Proof. eexists. split; vm_compute; reflexivity. Qed.

(* Before the fix of tarDirectory, a directory added through a symbolic link was archived as
   what filepath.Walk yields for a root that is a link: the single link entry.  No such
   archive can be unpacked (a link cannot replace the base directory), whatever the target. *)
Theorem symlinked_root_prefix_refuted pre umask preserve repro tg mt :
  forall f, extract pre umask preserve (entries pre repro [] (Link tg mt)) <> Ok f.
Proof.
  intro f. unfold extract. simpl. unfold extract_entry. simpl.
  rewrite strip_prefix_app. simpl. discriminate.
Qed.

Section Codec.
  Variable digest : Type.
  Variable H : str -> digest.
  Variable digest_eqb : digest -> digest -> bool.
  Variable enc : list entry -> str.
  Variable dec : str -> option (list entry).
  Variable gz : str -> str.
  Variable gunz : str -> option str.
  Hypothesis digest_eqb_spec : forall a b, digest_eqb a b = true <-> a = b.
  Hypothesis dec_enc : forall es, dec (enc es) = Some es.
  Hypothesis gunz_gz : forall s, gunz (gz s) = Some s.

  Theorem unpack_roundtrip_full pre umask preserve repro T :
    (preserve = false -> umask <= 511) ->
    is_dir T = true -> wf_treeb T = true -> modes_okb T = true -> benign_tree pre T = true ->
    exists f', unpack digest H digest_eqb dec gunz umask preserve
                 (dir_descriptor digest H enc gz pre repro T) (dir_blob enc gz pre repro T) = Ok f' /\
      forall p, fs_lookup f' p = expected umask preserve T p.
  Proof.
    intros Hu Hd Hwf Hmo Hbe.
    destruct (roundtrip_walk_full pre umask preserve repro T Hu Hd Hwf Hmo Hbe) as (f' & E & L).
    exists f'. split; [|exact L].
    unfold unpack, dir_descriptor, dir_blob. simpl.
    rewrite (proj2 (digest_eqb_spec _ _) eq_refl), N.eqb_refl. simpl.
    rewrite gunz_gz, dec_enc, E, (proj2 (digest_eqb_spec _ _) eq_refl). reflexivity.
  Qed.
End Codec.

(* with PreservePermissions no bound on the umask is needed *)
Corollary roundtrip_preserve_full pre umask repro T :
  is_dir T = true -> wf_treeb T = true -> modes_okb T = true -> benign_tree pre T = true ->
  exists f', extract pre umask true (entries pre repro [] T) = Ok f' /\
    forall p, fs_lookup f' p = expected umask true T p.
Proof. apply roundtrip_full. discriminate. Qed.

(* ---------- what [benign_tree] excludes, and that it is needed ---------- *)
(* a relative link that stays inside but passes through another link of the tree: rejected
   when the other link is extracted first, accepted when it comes later *)
Definition through_link_tree (first : string) : tree :=
  Dir 493 0 [ (b "b", Dir 493 0 [(b "f", File (b "x") 420 0)]);
              (b first, Link (b "b") 0);
              (b "c", Link (b first ++ b "/f") 0) ].

Theorem through_link_refuted :
  let T := through_link_tree "a" in
  is_dir T = true /\ wf_treeb T = true /\ modes_okb T = true /\ benign_tree [b "d"] T = false /\
  extract [b "d"] 18 false (tar_entries [b "d"] true T) = Err XSymlinkDir /\
  (* the same shape with the first link sorted after the second one restores *)
  (let T' := through_link_tree "z" in
   benign_tree [b "d"] T' = false /\
   exists f', extract [b "d"] 18 false (tar_entries [b "d"] true T') = Ok f' /\
     forall p, In p [[]; [b "b"]; [b "b"; b "f"]; [b "z"]; [b "c"]; [b "nothing"]] ->
       fs_lookup f' p = expected 18 false T' p).
Proof.
  vm_compute. repeat split; try reflexivity.
  eexists. split; [reflexivity|]. intros p Hp.
  repeat (destruct Hp as [<-|Hp]; [reflexivity|]). destruct Hp.
Qed.

(* a target that leaves the base and comes back through the base's own name is inside *)
Example out_and_back_in_accepted :
  let T := Dir 493 0 [(b "f", File (b "x") 420 0); (b "l", Link (b "../d/f") 0)] in
  benign_tree [b "d"] T = true /\ benign_tree [b "e"] T = false.
Proof. vm_compute. split; reflexivity. Qed.

(* a symlink entry replaces an empty directory at its path, not a non-empty one *)
Example link_replaces_empty_dir :
  (exists f', extract [b "d"] 18 false
     [mkEntry [b "d"] EDir 493 0; mkEntry [b "d"; b "x"] EDir 493 0; mkEntry [b "d"; b "x"] (ELnk (b "y")) 511 0] = Ok f' /\
     fs_lookup f' [b "x"] = Some (NLink (b "y"))) /\
  extract [b "d"] 18 false
     [mkEntry [b "d"] EDir 493 0; mkEntry [b "d"; b "x"] EDir 493 0; mkEntry [b "d"; b "x"; b "f"] (EReg []) 420 0;
      mkEntry [b "d"; b "x"] (ELnk (b "y")) 511 0] = Err XExists.
Proof. split; [eexists; split|]; vm_compute; reflexivity. Qed.

(* ---------- SkipUnpack: the directory's blob comes back as a file, byte for byte ---------- *)
From Oras Require Import Generated.GC12 Model.FileAnnotations.
Section SkipUnpack.
  Variable digest : Type.
  Variable H : str -> digest.
  Variable digest_eqb : digest -> digest -> bool.
  Variable enc : list entry -> str.
  Variable dec : str -> option (list entry).
  Variable gz : str -> str.
  Variable gunz : str -> option str.
  Hypothesis digest_eqb_spec : forall a b, digest_eqb a b = true <-> a = b.

  Theorem skipunpack_stores_blob pre umask preserve repro T checksum nm :
    let d := dir_descriptor digest H enc gz pre repro T in
    let blob := dir_blob enc gz pre repro T in
    push_named digest H digest_eqb dec gunz true umask preserve (dir_annotations checksum nm) d blob
    = Ok (inr (NFile blob (N.ldiff 438 umask))).
  Proof.
    simpl. unfold push_named.
    change (need_unpack (dir_annotations checksum nm) true) with false. cbv beta iota.
    unfold push_file, dir_descriptor, dir_blob. simpl.
    rewrite (proj2 (digest_eqb_spec _ _) eq_refl), N.eqb_refl. reflexivity.
  Qed.

  (* and without SkipUnpack the same call unpacks *)
  Theorem unpack_when_asked pre umask preserve repro T checksum nm :
    let d := dir_descriptor digest H enc gz pre repro T in
    let blob := dir_blob enc gz pre repro T in
    push_named digest H digest_eqb dec gunz false umask preserve (dir_annotations checksum nm) d blob
    = match unpack digest H digest_eqb dec gunz umask preserve d blob with Ok f => Ok (inl f) | Err e => Err e end.
  Proof. reflexivity. Qed.
End SkipUnpack.
