(* C12: the round trip at full strength -- the directory itself gets its recorded mode
   (minus the umask) back as well: extractTarDirectory narrows the pre-created base directory
   to the mode of the archive's root entry at the end of the extraction. *)
From Oras Require Import Base.Prelude Model.TarRoundTrip Proofs.TarRoundTrip Proofs.TarWalkOrder.

(* ---------- every entry of a subtree is named below the subtree ---------- *)
Lemma entries_names pre repro : forall t rel,
  Forall (fun e => exists p, e_name e = pre ++ rel ++ p) (entries pre repro rel t).
Proof.
  induction t as [c m mt|tg mt|m mt ch IH] using tree_ind'; intro rel; simpl.
  - constructor; [exists []; now rewrite app_nil_r|constructor].
  - constructor; [exists []; now rewrite app_nil_r|constructor].
  - constructor; [exists []; now rewrite app_nil_r|].
    induction IH as [|nc l Hnc _ IHl]; simpl; [constructor|].
    apply Forall_app. split; [|exact IHl].
    eapply Forall_impl; [|apply Hnc]. intros e [p E]. exists (fst nc :: p).
    rewrite E, <- app_assoc. reflexivity.
Qed.

Lemma base_mode_below pre rel : rel <> [] -> forall es acc,
  Forall (fun e => exists p, e_name e = pre ++ rel ++ p) es -> base_mode pre acc es = acc.
Proof.
  intros Hne. induction es as [|e es IH]; intros acc HF; simpl; [reflexivity|].
  inversion HF as [|? ? [p E] HF']; subst. rewrite E, strip_prefix_app.
  destruct rel as [|x rel]; [contradiction|]. simpl.
  destruct (e_kind e); now apply IH.
Qed.

Lemma base_mode_children pre repro acc : forall ch,
  base_mode pre acc (flat_map (fun nc => entries pre repro ([] ++ [fst nc]) (snd nc)) ch) = acc.
Proof.
  induction ch as [|nc ch IH]; simpl; [reflexivity|].
  assert (forall a b0 acc0, base_mode pre acc0 (a ++ b0) = base_mode pre (base_mode pre acc0 a) b0) as Happ.
  { induction a as [|e a IHa]; intros b0 acc0; simpl; [reflexivity|].
    destruct (e_kind e), (strip_prefix pre (e_name e)) as [[|? ?]|]; apply IHa. }
  rewrite Happ.
  rewrite (base_mode_below pre [fst nc] ltac:(discriminate) (entries pre repro [fst nc] (snd nc)) acc
             (entries_names pre repro (snd nc) [fst nc])).
  exact IH.
Qed.

Lemma base_mode_dir pre repro m mt ch :
  base_mode pre None (entries pre repro [] (Dir m mt ch)) = Some m.
Proof. simpl. rewrite strip_prefix_app. apply base_mode_children. Qed.

(* ---------- narrowing the pre-created directory = creating it with the recorded mode ---------- *)
Definition N_range (k : nat) : list N := map N.of_nat (seq 0 k).

Lemma N_range_in x k : x < N.of_nat k -> In x (N_range k).
Proof.
  intro Hx. unfold N_range. apply in_map_iff. exists (N.to_nat x). split; [apply N2Nat.id|].
  apply in_seq. lia.
Qed.

(* finite sweep: 1024 directory modes x 512 umasks, evaluated by vm_compute *)
Lemma narrow_sweep :
  forallb (fun m => forallb (fun u =>
     narrow_mode (N.ldiff 511 u) m =? N.ldiff m u) (N_range 512)) (N_range 1024) = true.
Proof. vm_compute. reflexivity. Qed.

Lemma narrow_fresh umask m :
  m <= 1023 -> umask <= 511 ->
  narrow_mode (N.ldiff 511 umask) m = N.ldiff m umask.
Proof.
  intros Hm Hu. pose proof narrow_sweep as Hs.
  rewrite forallb_forall in Hs. specialize (Hs m (N_range_in m 1024 ltac:(simpl; lia))).
  rewrite forallb_forall in Hs. specialize (Hs umask (N_range_in umask 512 ltac:(simpl; lia))).
  now apply N.eqb_eq.
Qed.

(* ---------- the round trip, the directory itself included ---------- *)
Theorem roundtrip_full pre umask preserve repro T :
  umask <= 511 ->
  is_dir T = true -> wf_treeb T = true -> modes_okb T = true -> benign_tree T = true ->
  exists f', extract pre umask preserve (entries pre repro [] T) = Ok f' /\
    forall p, fs_lookup f' p = expected umask preserve T p.
Proof.
  intros Hu Hd Hwf Hmo Hbe.
  destruct (roundtrip_impl pre umask preserve repro T Hd Hwf Hmo Hbe) as (f' & E & L).
  unfold extract. rewrite E. eexists. split; [reflexivity|].
  destruct T as [| |m mt ch]; try discriminate.
  unfold finish_base. destruct preserve.
  - intro p. rewrite L. unfold expected_impl. destruct p; reflexivity.
  - rewrite base_mode_dir, (L []). unfold expected_impl at 1. cbv beta iota.
    simpl in Hmo. apply andb_true_iff in Hmo as [Hm _]. apply N.leb_le in Hm.
    intros [|n p].
    + rewrite lookup_set_same. unfold expected, restored_mode. cbn [tree_get].
      f_equal. f_equal. apply (narrow_fresh umask m Hm Hu).
    + rewrite lookup_set_other by discriminate. rewrite L. reflexivity.
Qed.

(* with PreservePermissions no bound on the umask is needed *)
Theorem roundtrip_preserve_full pre umask repro T :
  is_dir T = true -> wf_treeb T = true -> modes_okb T = true -> benign_tree T = true ->
  exists f', extract pre umask true (entries pre repro [] T) = Ok f' /\
    forall p, fs_lookup f' p = expected umask true T p.
Proof.
  intros Hd Hwf Hmo Hbe.
  destruct (roundtrip_preserve pre umask repro T Hd Hwf Hmo Hbe) as (f' & E & L).
  unfold extract. rewrite E. exists f'. split; [reflexivity|exact L].
Qed.

(* what Store.Add really writes (filepath.Walk sorts every directory) *)
Theorem roundtrip_walk_full pre umask preserve repro T :
  umask <= 511 ->
  is_dir T = true -> wf_treeb T = true -> modes_okb T = true -> benign_tree T = true ->
  exists f', extract pre umask preserve (tar_entries pre repro T) = Ok f' /\
    forall p, fs_lookup f' p = expected umask preserve T p.
Proof.
  intros Hu Hd Hwf Hmo Hbe.
  destruct (roundtrip_full pre umask preserve repro (sort_tree T) Hu) as (f' & E & L).
  - destruct T; try discriminate; reflexivity.
  - now rewrite wf_sort.
  - now rewrite modes_sort.
  - now rewrite benign_tree_sort.
  - exists f'. split; [exact E|]. intro p. rewrite L. now apply expected_sort.
Qed.

(* the code before the fix: the directory's own mode was lost without PreservePermissions *)
Theorem root_mode_fixed_witness :
  exists f', extract [b "d"] 18 false (tar_entries [b "d"] true root_mode_witness) = Ok f' /\
    fs_lookup f' [] = expected 18 false root_mode_witness [].
Proof. eexists. split; vm_compute; reflexivity. Qed.

Section Codec.
  Variable digest : Type.
  Variable H : str -> digest.
  Variable digest_eqb : digest -> digest -> bool.
  Variable enc : list entry -> str.
  Variable dec : str -> option (list entry).
  Variable gz : str -> str.
  Variable gunz : str -> option str.
  Hypothesis digest_eqb_spec : forall a b, digest_eqb a b = true <-> a = b.
  Hypothesis dec_enc : forall es, dec (enc es) = Some es.
  Hypothesis gunz_gz : forall s, gunz (gz s) = Some s.

  Theorem unpack_roundtrip_full pre umask preserve repro T :
    umask <= 511 ->
    is_dir T = true -> wf_treeb T = true -> modes_okb T = true -> benign_tree T = true ->
    exists f', unpack digest H digest_eqb dec gunz umask preserve
                 (dir_descriptor digest H enc gz pre repro T) (dir_blob enc gz pre repro T) = Ok f' /\
      forall p, fs_lookup f' p = expected umask preserve T p.
  Proof.
    intros Hu Hd Hwf Hmo Hbe.
    destruct (roundtrip_walk_full pre umask preserve repro T Hu Hd Hwf Hmo Hbe) as (f' & E & L).
    exists f'. split; [|exact L].
    unfold unpack, dir_descriptor, dir_blob. simpl.
    rewrite (proj2 (digest_eqb_spec _ _) eq_refl), N.eqb_refl. simpl.
    rewrite gunz_gz, dec_enc, E, (proj2 (digest_eqb_spec _ _) eq_refl). reflexivity.
  Qed.
End Codec.

(* Before the fix of tarDirectory, a directory added through a symbolic link was archived as
   what filepath.Walk yields for a root that is a link: the single link entry.  No such
   archive can be unpacked (the base directory is in the way), whatever the target. *)
Theorem symlinked_root_prefix_refuted pre umask preserve repro tg mt :
  forall f, extract pre umask preserve (entries pre repro [] (Link tg mt)) <> Ok f.
Proof.
  intro f. unfold extract, extract_prefix. simpl. unfold extract_entry. simpl.
  rewrite strip_prefix_app. simpl.
  destruct (link_ok (fs_init umask) [] tg); discriminate.
Qed.
