(* C14 — InvF preserved by FEDone, FEExtDrop, FESwap *)
From Oras Require Import Base.Prelude Model.Referrers Proofs.Referrers Model.Merge Proofs.Merge Model.MergeFine.
From Oras Require Import Proofs.MergeFine Proofs.MergeFineGet Proofs.MergeFineMain Proofs.MergeFineAssign Proofs.MergeFineWake.
From Coq Require Import Lia.


(* the main caller receives the main status *)
Lemma stepF_done sg s t s' : InvF s -> fstep sg s (FEDone t) = Some s' -> InvF s'.
Proof.
  intros I H. simpl in H.
  destruct (f_pcs s t) as [|c|g| |old|nw o|oi ap|r k|r|r|r] eqn:Hpc; try discriminate.
  destruct (f_pool s) as [rc|] eqn:Hpool; try discriminate. injection H as <-.
  assert (Hnm : fmain (f_pcs s t) = false) by now rewrite Hpc.
  assert (Hnw : fwindow (f_pcs s t) = false) by now rewrite Hpc.
  assert (Hnr : fres (f_pcs s t) = None) by now rewrite Hpc.
  assert (Hnp : forall c0, In (t, c0) (f_pending s) -> False).
  { intros c0 Hin. destruct (f_pe s I t c0 Hin) as [E _]. rewrite Hpc in E. discriminate. }
  dI I. constructor; simpl.
  all: try solve [fsolve].
  all: try solve [intro Hx; destruct (f_tok0 Hx) as (A & B & C); repeat split; auto; intro t0; tcase t0 t; auto].
  all: try solve [intro Hx; destruct (f_tom0 Hx) as [A|A]; auto; right; apply ex_keep; auto].
  all: try solve [intros r0 Hx; apply ex_res_keep; auto].
  all: try solve [intros t0 c0 Hin0; assert (t0 <> t) by (intro; subst; eauto); rewrite upd_neq by auto; exact (f_pe0 t0 c0 Hin0)].
  - intros t0 c0 Hin0. tcase t0 t.
    + destruct (f_it0 t c0 Hin0) as [E|[E|[E _]]]; [congruence|congruence|].
      right; right. split; [apply ex_keep; auto|eauto].
    + destruct (f_it0 t0 c0 Hin0) as [E|[E|[E1 E2]]]; auto. right; right. split; auto. apply ex_keep; auto.
  - destruct f_pl0 as (hs & Hnd & Hin & Hp). rewrite Hpool in Hp. destruct Hp as [-> Hne0].
    assert (Ht : In t hs) by (apply Hin; rewrite Hpc; reflexivity).
    destruct (remove_facts hs t Hnd Ht) as (A & B & C).
    exists (remove Nat.eq_dec t hs). repeat split; auto.
    + intro Hx. apply B in Hx as [Hx Hy]. rewrite upd_neq by auto. now apply Hin.
    + intro Hx. tcase t0 t; [discriminate|]. apply B. split; auto. now apply Hin.
    + destruct (Nat.leb (length hs - 1) 0) eqn:El.
      * apply Nat.leb_le in El. destruct (remove Nat.eq_dec t hs) eqn:Er; [reflexivity|]. exfalso. rewrite ?Er in C. simpl in C. unfold tid in *. lia.
      * apply Nat.leb_gt in El. unfold tid in *. split; [lia|]. intro E. rewrite E in C. simpl in C. lia.
Qed.

Lemma stepF_extdrop sg s s' : InvF s -> fstep sg s FEExtDrop = Some s' -> InvF s'.
Proof.
  intros I H. simpl in H. destruct (f_reg s) as [x|]; [|discriminate].
  destruct (forallb is_empty x); [|discriminate]. injection H as <-. unfold fset_reg. now apply invF_frame.
Qed.

Lemma stepF_swap sg s t s' : InvF s -> fstep sg s (FESwap t) = Some s' -> InvF s'.
Proof.
  intros I H. simpl in H.
  destruct (f_pcs s t) as [|c|g| |old|nw o|oi ap|r k|r|r|r] eqn:Hpc; try discriminate. injection H as <-.
  assert (Hw : fwindow (f_pcs s t) = true) by now rewrite Hpc.
  assert (Hm : fmain (f_pcs s t) = true) by now rewrite Hpc.
  assert (Hu : forall t0, fmain (f_pcs s t0) = true -> t0 = t) by (intros; eapply (f_mu s I); eauto).
  assert (Hnomain : forall x, fmain (upd (f_pcs s) t (FRet r) x) = false).
  { intro x. tcase x t; [reflexivity|]. destruct (fmain (f_pcs s x)) eqn:E; auto. apply Hu in E. congruence. }
  pose proof (f_window_no_token s t I Hm) as Hnt.
  destruct (f_fut s I (S (f_gen s)) (Nat.lt_succ_diag_r _)) as (F1 & F2 & F3).
  assert (Hne_pe : forall x c0, In (x, c0) (f_pending s) -> x <> t).
  { intros x c0 Hin ->. destruct (f_pe s I t c0 Hin) as [E _]. congruence. }
  set (ch' := if is_nil (f_pending s) then f_chans s
              else upd (f_chans s) (S (f_gen s)) (mkFC (Some FMain) (fclosed (f_chans s (S (f_gen s)))))).
  assert (Hch : forall g0, g0 <> S (f_gen s) -> ch' g0 = f_chans s g0).
  { intros g0 Hne. unfold ch'. destruct (is_nil (f_pending s)); auto. now rewrite upd_neq. }
  assert (Hch1 : f_pending s <> [] -> ch' (S (f_gen s)) = mkFC (Some FMain) false).
  { intro Hne. unfold ch'. destruct (f_pending s); [congruence|]. simpl. now rewrite upd_eq, F2. }
  assert (Hch0 : f_pending s = [] -> ch' (S (f_gen s)) = f_chans s (S (f_gen s))).
  { intro E. unfold ch'. now rewrite E. }
  dI I. constructor; simpl; fold ch'.
  - intros x c0 Hin. left. rewrite upd_neq by eauto. now destruct (f_pe0 x c0 Hin).
  - exact f_pe_nd0.
  - intros x c0 [].
  - constructor.
  - intros x Hx. rewrite Hnomain in Hx. discriminate.
  - intros x1 x2 Hx. rewrite Hnomain in Hx. discriminate.
  - intros x g Hx. tcase x t; [discriminate|]. destruct (f_wt0 x g Hx) as (A & B & C). repeat split.
    + lia.
    + intro E. unfold fbatch. simpl. auto.
    + intro E. lia.
  - intro Hx. destruct (f_pending s) as [|p ps] eqn:Ep.
    + rewrite Hch0 in Hx by reflexivity. congruence.
    + repeat split; auto. discriminate.
  - intro Hx. left. rewrite Hch1 by exact Hx. reflexivity.
  - intro Hx. auto.
  - intros x Hx. apply fpost_main in Hx. rewrite Hnomain in Hx. discriminate.
  - intros x Hx. apply fpre_main in Hx. rewrite Hnomain in Hx. discriminate.
  - intros g0 Hx. rewrite Hch by lia. apply f_fut0. lia.
  - intros g0 r0 Hx. destruct (Nat.eq_dec g0 (S (f_gen s))) as [->|Hne].
    + destruct (f_pending s) eqn:Ep; [rewrite Hch0 in Hx by reflexivity; congruence|].
      rewrite Hch1 in Hx by discriminate. discriminate.
    + rewrite Hch in Hx by auto. eauto.
  - intros g0 Hx. destruct (Nat.eq_dec g0 (S (f_gen s))) as [->|Hne].
    + destruct (f_pending s) eqn:Ep; [rewrite Hch0 in Hx by reflexivity; congruence|].
      rewrite Hch1 in Hx by discriminate. discriminate.
    + rewrite Hch in Hx by auto. eauto.
  - intros g0 Hx. destruct (Nat.eq_dec g0 (S (f_gen s))) as [->|Hne]; auto.
    rewrite Hch in Hx by auto. pose proof (f_vm0 g0 Hx). subst g0. congruence.
  - intros x r0 Hx. exfalso. apply fres_window, fwindow_main in Hx. rewrite Hnomain in Hx. discriminate.
  - intros r0 Hx. congruence.
  - destruct f_pl0 as (hs & A & B & C). exists hs. split; auto. split; auto.
    intro x. tcase x t; [rewrite B, Hpc; simpl; tauto | apply B].
Qed.

